(* C14, attachment compaction: db/attachment_compaction.go (attachmentCompactMarkPhase / SweepPhase / CleanupPhase)
   driven by AttachmentCompactionManager.Run / Init (db/background_mgr_attachment_compaction.go).

   Store: the documents of the default collection as the mark phase sees them on its feed -- per document the
   Conflict flag, the winning revision's attachment map (_sync.attachments), the inline bodies of non-winning
   revisions (history.bodymap) and the keys of the out-of-line ones (history.bodyKeyMap -> _sync:rb: documents) --
   the _sync:rb: documents that exist, the legacy attachment data documents (_sync:att:<digest>, content addressed,
   shared by all documents) each with the compaction ids stamped into its xattr, and what the manager's status
   document remembers of a run that ended in an error (id, failing document, dry-run flag).

   A run = Init (fresh id, or resume of the run that failed) ; mark ; sweep ; cleanup.
   Mark, per document: attachmentKeys is a Go map attachment NAME -> data document, filled from the winning
   revision first, then (Conflict flag only) from every bodymap entry, then from every bodyKeyMap entry (GetRaw: an
   injected error aborts the run, "not found" is skipped); version 2 entries are ignored; then every map value is
   stamped (SetXattrs; an error aborts the run).  The first abort ends the phase: the run reports an error, nothing
   is swept.  Before commit 360f98e names were the map keys, so of two entries with the same name only the one
   handled last was stamped ([bd = false]); since then the data document ids are the keys ([bd = true]) and the
   marked counter counts distinct data documents per document.
   Adversary: the fault set of the run (reads and stamp writes that fail), and two oracles for what the code leaves
   to the scheduler -- which of the failing document's other keys were stamped before the failure (Go map order),
   and where the feed of a RESUMED mark phase starts: the feed client advances its checkpoint past every event it
   delivered, whatever the callback returned, and writes it when it stops -- which may be after the failed run has
   already reported its error (the mark phase does not wait for the feed once it has failed).  So a resumed feed
   starts behind the failed document (and behind whatever else was delivered before the feed closed), or, when
   the checkpoint was not written yet, from the beginning: [fixed = false], the code as it is, resume point = ANY
   position; the repaired behaviour [fixed = true] never passes the failed document. *)
From SG Require Import Base.Prelude.
Open Scope N_scope.

Definition cp_mem (n : N) (l : list N) : bool := existsb (N.eqb n) l.

Record cp_meta := CpAtt { cp_dig : N; cp_v1 : bool }.     (* digest; legacy (no "ver", or ver 1) *)
Definition cp_amap := list (N * cp_meta).                 (* attachment name -> meta *)
Record cp_doc := CpDoc { cp_flag : bool; cp_win : cp_amap; cp_inl : list cp_amap; cp_ext : list N }.
Record cp_faults := CpF { cp_fread : list N; cp_fstamp : list N }.
Record cp_pend := CpPend { cp_pid : N; cp_pat : nat; cp_pdry : bool }.
Record cp_store := CpSt {
  cp_docs : list cp_doc;
  cp_bodies : list (N * cp_amap);          (* existing _sync:rb: documents *)
  cp_atts : list (N * list N);             (* _sync:att:<digest> -> compaction ids in its xattr *)
  cp_pending : option cp_pend }.

Definition cp_keys := list (N * N).                        (* the Go map: name -> digest of the data document *)

(* [bd = false]: the map as it was, keyed by attachment NAME (attachmentKeys[attName] = attKey);
   [bd = true]: keyed by the data document id, i.e. by digest (attachmentKeys[attKey] = attName, commit 360f98e) *)
Fixpoint cp_set (bd : bool) (n g : N) (k : cp_keys) : cp_keys :=
  match k with
  | [] => [(n, g)]
  | (n', g') :: r => if (if bd then g' =? g else n' =? n) then (n, g) :: r else (n', g') :: cp_set bd n g r
  end.

Definition cp_v1entries (m : cp_amap) : cp_keys :=
  map (fun e => (fst e, cp_dig (snd e))) (filter (fun e => cp_v1 (snd e)) m).

(* handleAttachments *)
Definition cp_handle (bd : bool) (k : cp_keys) (m : cp_amap) : cp_keys :=
  fold_left (fun k e => cp_set bd (fst e) (snd e) k) (cp_v1entries m) k.

Fixpoint cp_blookup (x : N) (b : list (N * cp_amap)) : option cp_amap :=
  match b with
  | [] => None
  | (y, m) :: r => if y =? x then Some m else cp_blookup x r
  end.

Fixpoint cp_read_exts (bd : bool) (F : cp_faults) (bodies : list (N * cp_amap)) (k : cp_keys) (es : list N) : option cp_keys :=
  match es with
  | [] => Some k
  | x :: r =>
      if cp_mem x (cp_fread F) then None
      else cp_read_exts bd F bodies (match cp_blookup x bodies with Some m => cp_handle bd k m | None => k end) r
  end.

Definition cp_doc_keys (bd : bool) (F : cp_faults) (bodies : list (N * cp_amap)) (d : cp_doc) : option cp_keys :=
  let k0 := cp_handle bd [] (cp_win d) in
  if cp_flag d then cp_read_exts bd F bodies (fold_left (cp_handle bd) (cp_inl d) k0) (cp_ext d) else Some k0.

Definition cp_stamp1 (c g : N) (a : list (N * list N)) : list (N * list N) :=
  map (fun e => if fst e =? g then (fst e, if cp_mem c (snd e) then snd e else c :: snd e) else e) a.

Definition cp_stamp_all (c : N) (gs : list N) (a : list (N * list N)) : list (N * list N) :=
  fold_left (fun a g => cp_stamp1 c g a) gs a.

(* one document of the mark phase: new xattrs, Some (number of stamped map entries) | None = aborted *)
Definition cp_mark_doc (bd : bool) (c : N) (F : cp_faults) (partial : list N) (bodies : list (N * cp_amap))
                       (a : list (N * list N)) (d : cp_doc) : list (N * list N) * option N :=
  match cp_doc_keys bd F bodies d with
  | None => (a, None)
  | Some ks =>
      let gs := map snd ks in
      if existsb (fun g => cp_mem g (cp_fstamp F)) gs
      then (cp_stamp_all c (filter (fun g => cp_mem g partial && negb (cp_mem g (cp_fstamp F))) gs) a, None)
      else (cp_stamp_all c gs a, Some (N.of_nat (length ks)))
  end.

Fixpoint cp_mark_from (bd : bool) (c : N) (F : cp_faults) (partial : list N) (bodies : list (N * cp_amap)) (i : nat)
                      (ds : list cp_doc) (a : list (N * list N)) (cnt : N) : list (N * list N) * N * option nat :=
  match ds with
  | [] => (a, cnt, None)
  | d :: r =>
      match cp_mark_doc bd c F partial bodies a d with
      | (a', None) => (a', cnt, Some i)
      | (a', Some n) => cp_mark_from bd c F partial bodies (S i) r a' (cnt + n)
      end
  end.

Definition cp_stamped (c : N) (e : N * list N) : bool := cp_mem c (snd e).

Definition cp_sweep (c : N) (dry : bool) (a : list (N * list N)) : list (N * list N) * N :=
  (if dry then a else filter (cp_stamped c) a, N.of_nat (length (filter (fun e => negb (cp_stamped c e)) a))).

(* cleanup: the run's id is always on the list of ids to delete; when that list is as long as the xattr's id map
   (one id, whichever) the whole xattr is removed, otherwise the run's id only *)
Definition cp_cleanup (c : N) (a : list (N * list N)) : list (N * list N) :=
  map (fun e => (fst e, match snd e with [_] => [] | l => filter (fun x => negb (x =? c)) l end)) a.

Record cp_runin := CpRun {
  cp_rid : N;                 (* the id Init generates when it starts a new run *)
  cp_reset : bool; cp_dry : bool; cp_flt : cp_faults;
  cp_skip : nat;              (* oracle: where a resumed mark feed starts *)
  cp_partial : list N }.      (* oracle: digests of the failing document stamped before the failure *)

Inductive cp_status := CpCompleted | CpFailed.
Record cp_result := CpRes { cp_rstatus : cp_status; cp_rmarked : N; cp_rpurged : N }.

(* Init: resume the run recorded as failed unless reset is asked for (a completed run is never resumed) *)
Definition cp_mode (fixed : bool) (s : cp_store) (r : cp_runin) : N * nat * bool :=
  match cp_reset r, cp_pending s with
  | false, Some p =>
      (cp_pid p, (if fixed then Nat.min (cp_skip r) (cp_pat p) else cp_skip r), cp_pdry p)
  | _, _ => (cp_rid r, 0%nat, cp_dry r)
  end.

Definition cp_run (bd fixed : bool) (s : cp_store) (r : cp_runin) : cp_store * cp_result :=
  let '(c, k, dry) := cp_mode fixed s r in
  match cp_mark_from bd c (cp_flt r) (cp_partial r) (cp_bodies s) k (skipn k (cp_docs s)) (cp_atts s) 0 with
  | (a, cnt, Some j) =>
      (CpSt (cp_docs s) (cp_bodies s) a (Some (CpPend c j dry)), CpRes CpFailed cnt 0)
  | (a, cnt, None) =>
      let '(a', p) := cp_sweep c dry a in
      (CpSt (cp_docs s) (cp_bodies s) (cp_cleanup c a') None, CpRes CpCompleted cnt p)
  end.

Fixpoint cp_runs (bd fixed : bool) (s : cp_store) (rs : list cp_runin) : cp_store :=
  match rs with
  | [] => s
  | r :: t => cp_runs bd fixed (fst (cp_run bd fixed s r)) t
  end.

(* every run of the history starts a new id: reset is asked for, or the previous run did not end in an error *)
Fixpoint cp_fresh_hist (bd fixed : bool) (s : cp_store) (rs : list cp_runin) : bool :=
  match rs with
  | [] => true
  | r :: t =>
      (cp_reset r || match cp_pending s with None => true | Some _ => false end)
      && cp_fresh_hist bd fixed (fst (cp_run bd fixed s r)) t
  end.

(* ---- what the theorems talk about ---- *)
Definition cp_present (s : cp_store) (g : N) : Prop := In g (map fst (cp_atts s)).
Definition cp_v1digs (m : cp_amap) : list N := map snd (cp_v1entries m).
Definition cp_ext_maps (bodies : list (N * cp_amap)) (es : list N) : list cp_amap :=
  flat_map (fun x => match cp_blookup x bodies with Some m => [m] | None => [] end) es.
Definition cp_nonwin (bodies : list (N * cp_amap)) (d : cp_doc) : list cp_amap := cp_inl d ++ cp_ext_maps bodies (cp_ext d).
Definition cp_all_maps (bodies : list (N * cp_amap)) (d : cp_doc) : list cp_amap := cp_win d :: cp_nonwin bodies d.

(* a revision body a reader can get at (winner, inline, or out of line and present) lists the digest as legacy *)
Definition cp_doc_refs (bodies : list (N * cp_amap)) (d : cp_doc) (g : N) : Prop :=
  exists m, In m (cp_all_maps bodies d) /\ In g (cp_v1digs m).
Definition cp_referenced (s : cp_store) (g : N) : Prop :=
  exists d, In d (cp_docs s) /\ cp_doc_refs (cp_bodies s) d g.

(* no two revision bodies of one document use the same attachment name for different legacy digests *)
Definition cp_names_ok (bodies : list (N * cp_amap)) (d : cp_doc) : Prop :=
  forall m1 m2 n g1 g2, In m1 (cp_all_maps bodies d) -> In m2 (cp_all_maps bodies d) ->
    In (n, g1) (cp_v1entries m1) -> In (n, g2) (cp_v1entries m2) -> g1 = g2.
(* the writer's invariant: a document with a live non-winning revision carries the Conflict flag *)
Definition cp_flag_ok (bodies : list (N * cp_amap)) (d : cp_doc) : Prop :=
  cp_flag d = true \/ forall m, In m (cp_nonwin bodies d) -> cp_v1entries m = [].
(* the name clause is needed by the name-keyed map only *)
Definition cp_wf (bd : bool) (s : cp_store) : Prop :=
  forall d, In d (cp_docs s) -> (bd = true \/ cp_names_ok (cp_bodies s) d) /\ cp_flag_ok (cp_bodies s) d.
(* what is left of it for the repaired map *)
Definition cp_flags_ok (s : cp_store) : Prop := forall d, In d (cp_docs s) -> cp_flag_ok (cp_bodies s) d.

Definition cp_fresh_mode (s : cp_store) (r : cp_runin) : Prop := cp_reset r = true \/ cp_pending s = None.
Definition cp_id_unused (c : N) (s : cp_store) : Prop := forall e, In e (cp_atts s) -> ~ In c (snd e).
Definition cp_no_faults (r : cp_runin) : Prop := cp_fread (cp_flt r) = [] /\ cp_fstamp (cp_flt r) = [].
