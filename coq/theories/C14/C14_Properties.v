(* C14 -- Attachments stay intact and live exactly as long as a revision needs them.
   Model: C14/Attachments.v (document-level map, per-revision stamped bodies, HasAttachments flags, per-document
   content-addressed store; a request = lost attempts [Try w] + final [Write w]) and C14/AllowList.v.
   [fixed = false] is the code as it is, [fixed = true] the repaired behaviour (C14_Refuted.v).
   Histories are ARBITRARY event lists.  The only hypothesis, [ok_run], is: the behaviour is the repaired one, or
   no event of the history promotes a non-winning body (tombstoning the winning branch of a conflicted document);
   it holds for EVERY history of a conflict-free database (C14_conflict_free_never_promotes).
   Byte identity, digests and lengths are not modelled (contents are interned): they are harness monitors.
   Attachment compaction (db/attachment_compaction.go, AttachmentCompactionManager): C14/Compaction.v -- legacy
   documents (winner's map, inline and out-of-line non-winning bodies), content-addressed legacy data documents
   with their compaction-id stamps, runs = Init (new id | resume) ; mark ; sweep ; cleanup under an adversarial
   fault set (reads of out-of-line bodies, stamp writes) and scheduler oracles.  Hypothesis [cp_flags_ok]: the
   writer's Conflict-flag invariant (a document with a live non-winning revision carries the flag).  The mark
   phase's map is keyed by the data document id (commit 360f98e; the name-keyed map it replaced needed 'no two
   bodies of one document use one attachment name for different legacy digests' and is refuted without it,
   C14_Refuted.v).  [cp_fresh_mode]: the run
   starts a new id; resuming a failed mark phase is refuted for the code as it is (C14_Refuted.v) and proved
   safe for the repaired feed checkpoint ([fixed = true]).
   Only property theorems here, each closed by [exact]. *)
From SG Require Import Base.Prelude C14.Attachments C14.AttachmentsProofs C14.AttachmentsTheorems
                       C14.AttachmentsLinear C14.AllowList C14.AllowListProofs
                       C14.Compaction C14.CompactionProofs C14.CompactionTheorems C14.RevTreePersist.
Open Scope N_scope.

(* att_safety: attachment data that was stored at some point of a history and that a reader of some leaf revision
   can reach (ver-2 metadata) after every later event is still stored at the end: linear updates, conflicting
   branches sharing the digest, tombstones of non-winning branches, resurrections, lost CAS attempts *)
Theorem C14_att_safety : forall fixed ac sw es1 es2 k,
  ok_run fixed ac sw init (es1 ++ es2) ->
  stored (run fixed ac sw init es1) k ->
  (forall j, (1 <= j <= length es2)%nat -> referenced (run fixed ac sw init (es1 ++ firstn j es2)) k) ->
  stored (run fixed ac sw init (es1 ++ es2)) k.
Proof. exact att_safety_hist. Qed.
Print Assumptions C14_att_safety.

(* conflict-free databases (the default): no event ever promotes a non-winning body, so att_safety, att_cleanup
   and att_cleanup_exact hold there for the code as it is, without any hypothesis on the history *)
Theorem C14_conflict_free_never_promotes : forall fixed sw es,
  promo_free fixed false sw init es = true.
Proof. intros fixed sw es. exact (linear_promo_free fixed sw es init state_lin_init). Qed.
Print Assumptions C14_conflict_free_never_promotes.

(* att_cleanup: after an acknowledged write with the sweep enabled, data that a leaf referenced before the write
   and that no leaf references after it is gone *)
Theorem C14_att_cleanup : forall fixed ac es w g,
  ok_run fixed ac true init (es ++ [Write w]) ->
  referenced (run fixed ac true init es) (w_doc w, g) ->
  ~ referenced (run fixed ac true init (es ++ [Write w])) (w_doc w, g) ->
  ~ stored (run fixed ac true init (es ++ [Write w])) (w_doc w, g).
Proof. exact att_cleanup_hist. Qed.
Print Assumptions C14_att_cleanup.

(* att_cleanup, exact form: with the sweep enabled every attachment data document is referenced by a leaf of its
   document, or was uploaded by an attempt that lost its CAS race (and is re-referenced or orphaned) *)
Theorem C14_att_cleanup_exact : forall fixed ac es k,
  ok_run fixed ac true init es -> stored (run fixed ac true init es) k ->
  referenced (run fixed ac true init es) k \/ In k (tried_keys es).
Proof. exact att_cleanup_exact_hist. Qed.
Print Assumptions C14_att_cleanup_exact.

(* sweep_disabled_keeps: under cross-cluster versioning nothing is ever deleted *)
Theorem C14_sweep_disabled_keeps : forall fixed ac es s k, stored s k -> stored (run fixed ac false s es) k.
Proof. exact nosweep_keeps_hist. Qed.
Print Assumptions C14_sweep_disabled_keeps.

(* shared_digest_survives: same content under two names or on two branches -- whatever an event removes, one
   remaining reference (an attachment name of some leaf) keeps the data *)
Theorem C14_shared_digest_survives : forall fixed ac sw s e dk g d' r n x,
  state_inv s -> (fixed = true \/ step_promo fixed ac sw s e = false) ->
  stored s (dk, g) ->
  dlookup dk (s_docs (step_state fixed ac sw s e)) = Some d' ->
  In r (d_revs d') -> is_leaf (d_revs d') r = true ->
  alookup n (visible d' r) = Some x -> m_v2 x = true -> m_dig x = g ->
  stored (step_state fixed ac sw s e) (dk, g).
Proof. exact shared_digest_step. Qed.
Print Assumptions C14_shared_digest_survives.

(* the invariant used above holds in every state reachable from the empty bucket *)
Theorem C14_reachable_invariant : forall fixed ac sw es,
  ok_run fixed ac sw init es -> state_inv (run fixed ac sw init es).
Proof. intros fixed ac sw es O. exact (run_inv fixed ac sw es init state_inv_init O). Qed.
Print Assumptions C14_reachable_invariant.

(* retry_safe (1): an acknowledged write's inline bodies are stored afterwards -- after ANY prefix (lost attempts
   of the same request, competing writes and their sweeps), repaired or not, promotion or not *)
Theorem C14_retry_safe_stored : forall fixed ac sw es w s' pr,
  step fixed ac sw (run fixed ac sw init es) (Write w) = (s', OAck, pr) ->
  forall c, In c (data_digs (w_atts w)) -> stored s' (w_doc w, c).
Proof. intros fixed ac sw es w s' pr H. exact (write_uploads_stored fixed ac sw _ w s' pr H). Qed.
Print Assumptions C14_retry_safe_stored.

(* retry_safe (2), the code as it is: the acknowledged write records, under each name it sent inline data for,
   the digest of THAT data with ver 2 -- every attempt resolves the client's original map *)
Theorem C14_retry_safe_recorded : forall ac sw es w s' pr n c,
  step false ac sw (run false ac sw init es) (Write w) = (s', OAck, pr) ->
  slookup n (w_atts w) = Some (AData c) ->
  exists d', dlookup (w_doc w) (s_docs s') = Some d' /\ alookup n (d_atts d') = Some (Meta c (fst (w_rev w)) true).
Proof.
  intros ac sw es w s' pr n c H L. destruct (write_records_atts ac sw _ w s' pr H) as [d' [p [E A]]].
  exists d'. split; [exact E|]. rewrite A. exact (resolve_data _ p (fst (w_rev w)) (w_atts w) n c L).
Qed.
Print Assumptions C14_retry_safe_recorded.

(* retry_safe (3): a lost attempt deletes nothing and changes what no reader sees *)
Theorem C14_lost_attempt_harmless : forall fixed ac sw s w,
  (forall k, stored s k -> stored (step_state fixed ac sw s (Try w)) k) /\
  (forall k, referenced s k <-> referenced (step_state fixed ac sw s (Try w)) k).
Proof.
  intros fixed ac sw s w. pose proof (step_eta fixed ac sw s (Try w)) as E. cbn [step] in E.
  exact (attempt_unacked_harmless fixed ac sw s w _ _ _ E).
Qed.
Print Assumptions C14_lost_attempt_harmless.

(* identical content in two documents: an event on one document neither changes the other document nor any of
   its attachment data documents *)
Theorem C14_other_document_untouched : forall fixed ac sw s e dk,
  dk <> (match e with Try w | Write w => w_doc w end) ->
  dlookup dk (s_docs (step_state fixed ac sw s e)) = dlookup dk (s_docs s) /\
  forall g, stored s (dk, g) <-> stored (step_state fixed ac sw s e) (dk, g).
Proof. exact other_doc_hist. Qed.
Print Assumptions C14_other_document_untouched.

(* allow_list_scoped: over ALL histories of transfers, getAttachment serves a key exactly while some revision
   that references it is being sent (opened and not yet closed) *)
Theorem C14_allow_list_scoped : forall es k,
  allowed (fst (arun es)) k = true <-> exists t ks, In (t, ks) (snd (arun es)) /\ In k ks.
Proof. exact allow_list_scoped_all. Qed.
Print Assumptions C14_allow_list_scoped.

(* ---------------- persistence of the rev tree between operations (C14/RevTreePersist.v) ---------------- *)

(* the per-revision attachment flag of a loaded tree is exactly what the stored hasAttachments index list says,
   whether the revision's body is inline (bodymap), out of line (bodyKeyMap -> _sync:rb:) or absent *)
Theorem C14_revtree_flag_from_index : forall p rb i, (i < length (p_revs p))%nat ->
  r_flag (nth i (unmarshal (p, rb)) rev0) = is_some (nlookup i (p_hasatt p)).
Proof. exact unmarshal_flag. Qed.
Print Assumptions C14_revtree_flag_from_index.

(* reload = identity: storing a tree (distinct revision ids, parents inside the tree) and loading it back gives
   the same tree -- ids, parents, deleted, attachment flags, bodies -- for EVERY placement [big] of the bodies on
   either side of the inline limit *)
Theorem C14_revtree_reload_identity : forall big t, tree_ok t -> reload_revs big t = t.
Proof. exact reload_identity. Qed.
Print Assumptions C14_revtree_reload_identity.

(* every document of every reachable state has such a tree (and its current revision in it) *)
Theorem C14_revtree_reachable_ok : forall fixed ac sw es, rt_docs_ok (run fixed ac sw init es).
Proof. intros fixed ac sw es. exact (run_docs_ok fixed ac sw es init init_docs_ok). Qed.
Print Assumptions C14_revtree_reachable_ok.

(* so a history in which every event works on freshly reloaded documents is the history without reloads,
   whatever the placement of the bodies ... *)
Theorem C14_reload_histories : forall big fixed ac sw es,
  runR big fixed ac sw init es = run fixed ac sw init es.
Proof. intros big fixed ac sw es. exact (runR_run big fixed ac sw es init init_docs_ok). Qed.
Print Assumptions C14_reload_histories.

(* ... the set of attachment ids the sweep computes from the leaves' flags is the same after a reload ... *)
Theorem C14_reload_keeps_leaf_attachment_ids : forall big fixed ac sw es dk d excl,
  dlookup dk (s_docs (run fixed ac sw init es)) = Some d -> leafkeys (reload_doc big d) excl = leafkeys d excl.
Proof. exact reload_leafkeys. Qed.
Print Assumptions C14_reload_keeps_leaf_attachment_ids.

(* ... and att_safety holds over histories with reloads and large (out-of-line) non-winning bodies *)
Theorem C14_att_safety_across_reloads : forall big fixed ac sw es1 es2 k,
  ok_run fixed ac sw init (es1 ++ es2) ->
  stored (runR big fixed ac sw init es1) k ->
  (forall j, (1 <= j <= length es2)%nat -> referenced (runR big fixed ac sw init (es1 ++ firstn j es2)) k) ->
  stored (runR big fixed ac sw init (es1 ++ es2)) k.
Proof. exact att_safety_reload. Qed.
Print Assumptions C14_att_safety_across_reloads.

(* ---------------- attachment compaction ---------------- *)
(* [bd]: what keys the mark phase's map -- true = the data document id (the code since commit 360f98e, what
   C14_Corr.v replays), false = the attachment name (before; refuted in C14_Refuted.v).  Theorems that need no
   hypothesis on the corpus hold for both; the others are stated for the code as it is, [bd = true]. *)

(* compaction_safety (1): a run that starts a new id and reports success -- whatever the fault set, dry or not --
   leaves every legacy data document in place that some revision body of some document lists (winner, inline or
   out-of-line non-winning body that exists), same attachment name on several bodies or not *)
Theorem C14_compaction_safety : forall fixed s r s' res,
  cp_run true fixed s r = (s', res) -> cp_fresh_mode s r -> cp_flags_ok s -> cp_rstatus res = CpCompleted ->
  forall g, cp_referenced s g -> cp_present s g -> cp_present s' g.
Proof. exact cp_safety_docid. Qed.
Print Assumptions C14_compaction_safety.

(* compaction_safety (2): a run that reports an error (new id or resumed, any oracle) purged nothing and changed
   no document *)
Theorem C14_compaction_failed_purges_nothing : forall bd fixed s r s' res,
  cp_run bd fixed s r = (s', res) -> cp_rstatus res = CpFailed ->
  map fst (cp_atts s') = map fst (cp_atts s) /\ cp_rpurged res = 0 /\
  cp_docs s' = cp_docs s /\ cp_bodies s' = cp_bodies s.
Proof. exact cp_failed_purges_nothing. Qed.
Print Assumptions C14_compaction_failed_purges_nothing.

(* compaction_safety (3): a storage error on the read of ANY out-of-line body of a conflicted document is never
   tolerated: the run reports an error (hence, by (2), purges nothing).  Only "not found" is skipped. *)
Theorem C14_compaction_read_error_fails : forall bd fixed s r d x,
  cp_fresh_mode s r -> In d (cp_docs s) -> cp_flag d = true -> In x (cp_ext d) ->
  In x (cp_fread (cp_flt r)) -> cp_rstatus (snd (cp_run bd fixed s r)) = CpFailed.
Proof. exact cp_read_error_fails. Qed.
Print Assumptions C14_compaction_read_error_fails.

(* ... and so is a failing stamp of a data document the mark phase wants to keep *)
Theorem C14_compaction_stamp_error_fails : forall bd fixed s r d ks g,
  cp_fresh_mode s r -> In d (cp_docs s) -> cp_doc_keys bd (cp_flt r) (cp_bodies s) d = Some ks ->
  In g (map snd ks) -> In g (cp_fstamp (cp_flt r)) -> cp_rstatus (snd (cp_run bd fixed s r)) = CpFailed.
Proof. exact cp_stamp_error_fails. Qed.
Print Assumptions C14_compaction_stamp_error_fails.

(* compaction_cleanup: a fault-free real run with an unused id succeeds, afterwards EXACTLY the referenced legacy
   data documents remain, none carries the run's id any more, nothing is left to resume, and the purged counter
   is the number of documents that disappeared *)
Theorem C14_compaction_cleanup : forall fixed s r s' res,
  cp_run true fixed s r = (s', res) -> cp_fresh_mode s r -> cp_flags_ok s -> cp_no_faults r ->
  cp_id_unused (cp_rid r) s -> cp_dry r = false ->
  cp_rstatus res = CpCompleted /\
  (forall g, cp_present s' g <-> cp_present s g /\ cp_referenced s g) /\
  cp_id_unused (cp_rid r) s' /\ cp_pending s' = None /\
  cp_rpurged res = N.of_nat (length (cp_atts s) - length (cp_atts s')).
Proof. exact cp_cleanup_exact_docid. Qed.
Print Assumptions C14_compaction_cleanup.

(* a dry run deletes nothing *)
Theorem C14_compaction_dry_run_keeps : forall bd fixed s r s' res,
  cp_run bd fixed s r = (s', res) -> cp_fresh_mode s r -> cp_dry r = true ->
  map fst (cp_atts s') = map fst (cp_atts s).
Proof. exact cp_dry_keeps. Qed.
Print Assumptions C14_compaction_dry_run_keeps.

(* compaction_idempotent: after a successful real run with an unused id, ANY further run (any faults, dry or
   not, reset or not) leaves the set of data documents as it is; if it succeeds it reports 0 purged.  (For the
   name-keyed map this held in the model only because the model fixes the order in which bodies are handled.) *)
Theorem C14_compaction_idempotent : forall fixed s r1 s1 res1 r2 s2 res2,
  cp_run true fixed s r1 = (s1, res1) -> cp_fresh_mode s r1 -> cp_id_unused (cp_rid r1) s -> cp_dry r1 = false ->
  cp_rstatus res1 = CpCompleted ->
  cp_run true fixed s1 r2 = (s2, res2) ->
  map fst (cp_atts s2) = map fst (cp_atts s1) /\ (cp_rstatus res2 = CpCompleted -> cp_rpurged res2 = 0).
Proof. exact (cp_idempotent true). Qed.
Print Assumptions C14_compaction_idempotent.

(* the code as it is, over ALL histories of runs (any faults, any oracles, failed and successful, dry and real)
   in which no run resumes a failed one: no referenced legacy data document is ever lost *)
Theorem C14_compaction_safety_all_histories : forall fixed rs s,
  cp_flags_ok s -> cp_fresh_hist true fixed s rs = true ->
  forall g, cp_referenced s g -> cp_present s g -> cp_present (cp_runs true fixed s rs) g.
Proof. exact cp_safety_hist_docid. Qed.
Print Assumptions C14_compaction_safety_all_histories.

(* the repaired resume (the feed checkpoint of a failed mark phase never passes the failing document): ALL
   histories, resumed runs included *)
Theorem C14_compaction_repaired_resume_safe : forall rs s,
  cp_flags_ok s -> cp_pending s = None ->
  forall g, cp_referenced s g -> cp_present s g -> cp_present (cp_runs true true s rs) g.
Proof. exact cp_safety_fixed_hist_docid. Qed.
Print Assumptions C14_compaction_repaired_resume_safe.

(* non-vacuity (conflicts allowed, sweep enabled, code as it is): content 5 under two names; kept by stub over two
   pushed updates; a lost attempt uploads content 7 (an orphan, accounted for by tried_keys); the last write
   drops the attachment and the sweep deletes the data.  The history satisfies the theorems' hypothesis *)
Definition nv_r1 : revid := (1, 50).
Definition nv_2a : revid := (2, 10).
Definition nv_2f : revid := (2, 90).
Definition nv_hist : list event :=
  [ Write (W KPut 0 nv_r1 None false [(0, AData 5); (1, AData 5)]);
    Write (W KPush 0 nv_2f (Some nv_r1) false [(0, AStub 5 1 false)]);
    Try (W KPush 0 (3, 10) (Some nv_2f) false [(2, AData 7)]);
    Write (W KPush 0 (3, 20) (Some nv_2f) false [(0, AStub 5 1 false)]) ].
Example C14_nonvacuous :
  ok_run false true true init (nv_hist ++ [Write (W KPut 0 (4, 30) (Some (3, 20)) false [])]) /\
  stored (run false true true init nv_hist) (0, 5) /\
  referenced (run false true true init nv_hist) (0, 5) /\
  stored (run false true true init nv_hist) (0, 7) /\
  In (0, 7) (tried_keys nv_hist) /\
  ~ stored (run false true true init (nv_hist ++ [Write (W KPut 0 (4, 30) (Some (3, 20)) false [])])) (0, 5).
Proof.
  split; [right; vm_compute; reflexivity|]. split; [vm_compute; reflexivity|]. split.
  - eexists. split; [vm_compute; reflexivity|]. vm_compute. left. reflexivity.
  - split; [vm_compute; reflexivity|]. split; [vm_compute; left; reflexivity|]. vm_compute. discriminate.
Qed.

(* non-vacuity, compaction: a conflicted document whose winner and inline leaf both call their attachment "a"
   (digests 1 and 2) plus an out-of-line leaf c=3, a linear document sharing digest 3, a tombstoned one; data
   documents 1..4 (4 referenced by nobody).  The flags are sound; a run whose read of the out-of-line body fails
   reports an error and keeps everything; a fault-free run succeeds, marks 4 and purges exactly digest 4 *)
Definition nv_cstore : cp_store :=
  CpSt [ CpDoc true [(0, CpAtt 1 true)] [[(0, CpAtt 2 true)]] [0];
         CpDoc false [(0, CpAtt 3 true)] [] [];
         CpDoc false [] [[]] [] ]
       [(0, [(2, CpAtt 3 true)])] [(1, []); (2, []); (3, []); (4, [])] None.
Example C14_compaction_nonvacuous :
  cp_flags_ok nv_cstore /\
  cp_referenced nv_cstore 1 /\ cp_present nv_cstore 1 /\
  cp_rstatus (snd (cp_run true false nv_cstore (CpRun 1 true false (CpF [0] []) 0 []))) = CpFailed /\
  map fst (cp_atts (fst (cp_run true false nv_cstore (CpRun 1 true false (CpF [] []) 0 [])))) = [1; 2; 3] /\
  snd (cp_run true false nv_cstore (CpRun 1 true false (CpF [] []) 0 [])) = CpRes CpCompleted 4 1.
Proof.
  split; [apply cp_flags_okb_ok; vm_compute; reflexivity|]. split.
  - eexists. split; [left; reflexivity|].
    exists [(0, CpAtt 1 true)]. split; [left; reflexivity|left; reflexivity].
  - split; [vm_compute; tauto|]. split; [vm_compute; reflexivity|]. split; vm_compute; reflexivity.
Qed.

(* non-vacuity, reload: a tree with a current revision, a flagged leaf whose body is out of line and a tombstoned
   leaf is well formed, its stored form lists the flag of the out-of-line leaf, and it reloads to itself *)
Definition nv_tree : list rev :=
  [ Rev (1, 50) None false [] false;
    Rev (2, 90) (Some (1, 50)) false [] false;
    Rev (2, 10) (Some (1, 50)) false [(0, Meta 5 1 true)] true;
    Rev (2, 5) (Some (1, 50)) true [] false ].
Example C14_reload_nonvacuous :
  tree_ok nv_tree /\
  p_hasatt (fst (marshal (fun id => revid_eqb id (2, 10)) nv_tree)) = [(2%nat, tt)] /\
  p_bodykeys (fst (marshal (fun id => revid_eqb id (2, 10)) nv_tree)) = [(2%nat, (2, 10))] /\
  reload_revs (fun id => revid_eqb id (2, 10)) nv_tree = nv_tree.
Proof.
  split.
  - split; [repeat constructor; cbn; intuition discriminate|].
    intros r q I P. cbn in I. destruct I as [E|[E|[E|[E|[]]]]]; subst r; cbn in P; inversion P; cbn; auto.
  - split; [reflexivity|]. split; [reflexivity|]. vm_compute. reflexivity.
Qed.
