(* C14: the attachment-lifetime theorems over ALL event lists (induction over histories). *)
From SG Require Import Base.Prelude C14.Attachments C14.AttachmentsProofs.
Open Scope N_scope.

(* ---------- association lists of documents ---------- *)
Lemma dlookup_dset_same : forall k v l, dlookup k (dset k v l) = Some v.
Proof.
  intros k v l. induction l as [|[k' v'] l IH]; cbn.
  - rewrite N.eqb_refl. reflexivity.
  - destruct (k' =? k) eqn:E; cbn; [rewrite N.eqb_refl; reflexivity | rewrite E; assumption].
Qed.

Lemma dlookup_dset_other : forall k k' v l, k' <> k -> dlookup k' (dset k v l) = dlookup k' l.
Proof.
  intros k k' v l N. induction l as [|[k0 v0] l IH]; cbn.
  - destruct (k =? k') eqn:E; [apply N.eqb_eq in E; congruence | reflexivity].
  - destruct (k0 =? k) eqn:E; cbn.
    + apply N.eqb_eq in E. subst k0. destruct (k =? k') eqn:E2; [apply N.eqb_eq in E2; congruence | reflexivity].
    + destruct (k0 =? k'); [reflexivity | assumption].
Qed.

(* ---------- the store ---------- *)
Lemma stored_store_new : forall dk atts st k, kmem k st = true -> kmem k (store_new dk atts st) = true.
Proof. intros. apply kmem_In. unfold store_new. apply in_or_app. right. apply kmem_In. assumption. Qed.

Lemma store_new_inv : forall dk atts st k, kmem k (store_new dk atts st) = true ->
  kmem k st = true \/ (fst k = dk /\ In (snd k) (data_digs atts)).
Proof.
  intros dk atts st k H. apply kmem_In in H. unfold store_new in H. apply in_app_or in H. destruct H as [H|H].
  - right. apply in_map_iff in H. destruct H as [c [<- Hc]]. cbn. auto.
  - left. apply kmem_In. assumption.
Qed.

Lemma store_new_data : forall dk atts st c, In c (data_digs atts) -> kmem (dk, c) (store_new dk atts st) = true.
Proof. intros. apply kmem_In. unfold store_new. apply in_or_app. left. apply in_map_iff. exists c. auto. Qed.

Lemma sweep_spec : forall dk b a st k,
  kmem k (sweep dk b a st) = true <->
  kmem k st = true /\ ~ (fst k = dk /\ In (snd k) b /\ ~ In (snd k) a).
Proof.
  intros dk b a st k. rewrite !kmem_In. unfold sweep. rewrite filter_In. split.
  - intros [H F]. split; [assumption|]. intros [E [Hb Ha]]. apply negb_true_iff in F.
    apply N.eqb_eq in E. apply nmem_In in Hb. rewrite E, Hb in F. cbn in F.
    apply Ha. apply nmem_In. destruct (nmem (snd k) a); [reflexivity | discriminate].
  - intros [H F]. split; [assumption|]. apply negb_true_iff.
    destruct (fst k =? dk) eqn:E; [|reflexivity]. destruct (nmem (snd k) b) eqn:Hb; [|reflexivity].
    destruct (nmem (snd k) a) eqn:Ha; [reflexivity|]. exfalso. apply F.
    apply N.eqb_eq in E. apply nmem_In in Hb. split; [assumption|]. split; [assumption|].
    intros X. apply nmem_In in X. congruence.
Qed.

(* ---------- what a write does to its revision's inline bodies ---------- *)
Lemma data_in_resolve : forall d p gen atts c, In c (data_digs atts) -> In c (v2digs (resolve d p gen atts)).
Proof.
  intros d p gen atts c H. unfold data_digs in H. apply in_flat_map in H. destruct H as [[n sp] [He Hc]].
  cbn in Hc. destruct sp as [c'|dg rp v]; [|destruct Hc]. destruct Hc as [<-|[]].
  unfold v2digs, resolve. apply in_map_iff. exists (n, Meta c' gen true). split; [reflexivity|].
  apply filter_In. split; [|reflexivity]. apply in_map_iff. exists (n, AData c'). split; [reflexivity | assumption].
Qed.

Fixpoint slookup (n : N) (l : list (N * aspec)) : option aspec :=
  match l with
  | [] => None
  | (k, v) :: r => if k =? n then Some v else slookup n r
  end.

Lemma resolve_data : forall d p gen atts n c, slookup n atts = Some (AData c) ->
  alookup n (resolve d p gen atts) = Some (Meta c gen true).
Proof.
  intros d p gen atts n c. unfold resolve. induction atts as [|[k v] atts IH]; cbn; [discriminate|].
  unfold resolve_one at 1. cbn [fst snd].
  destruct (k =? n) eqn:E.
  - intros H. inversion H; subst v. cbn. rewrite E. reflexivity.
  - intros H. destruct v as [c'|dg rp v2]; cbn [fst].
    + rewrite E. apply IH. assumption.
    + destruct (parent_atts d p) as [pm|]; [destruct (alookup k pm)|]; cbn [fst]; rewrite E; apply IH; assumption.
Qed.

(* the current code records the resolved map in the document-level map, whoever wins *)
Lemma commit_datts_legacy : forall d w p d' pr, commit false d w p = (d', pr) ->
  (exists wr, winner (d_revs d ++ [Rev (w_rev w) p (w_deleted w) [] false]) = Some wr) ->
  d_atts d' = resolve d p (fst (w_rev w)) (w_atts w).
Proof.
  intros d w p d' pr H [wr Hw]. unfold commit in H. rewrite Hw in H.
  destruct (revid_eqb (r_id wr) (w_rev w)); [|destruct (orevid_eqb (d_cur d) (Some (r_id wr)))]; inversion H; reflexivity.
Qed.

(* whatever wins, the sweep's "after" set contains the digests of the inline bodies of this write *)
Lemma commit_new_in_leafkeys : forall fixed d w p d' pr c,
  has_child (d_revs d) (w_rev w) = false ->
  (forall q, p = Some q -> revid_eqb q (w_rev w) = false) ->
  commit fixed d w p = (d', pr) ->
  In c (data_digs (w_atts w)) ->
  In c (leafkeys d' (if fixed then None else Some (w_rev w))).
Proof.
  intros fixed d w p d' pr c Hnc Hpar H Hc.
  pose proof (data_in_resolve d p (fst (w_rev w)) (w_atts w) c Hc) as Hv.
  unfold commit in H.
  set (atts := resolve d p (fst (w_rev w)) (w_atts w)) in *.
  set (nr_win := Rev (w_rev w) p (w_deleted w) [] false) in *.
  destruct (winner (d_revs d ++ [nr_win])) as [wr|] eqn:Wn.
  2:{ exfalso. apply (winner_new_exists (d_revs d) (w_rev w) p (w_deleted w) Hnc Hpar). exact Wn. }
  apply leafkeys_In.
  assert (has_v2 atts = true) as Hv2.
  { unfold has_v2. apply existsb_exists. unfold v2digs in Hv. apply in_map_iff in Hv. destruct Hv as [e [_ He]].
    apply filter_In in He. destruct He as [He1 He2]. exists e. auto. }
  destruct fixed.
  - (* repaired: document-level map when the revision wins, its own stamped body otherwise *)
    set (nr_lose := Rev (w_rev w) p (w_deleted w) atts (has_v2 atts)) in *.
    assert (forall t, shape t = shape (d_revs d) -> is_leaf (t ++ [nr_lose]) nr_lose = true) as Hleaf.
    { intros t Hs. unfold is_leaf. rewrite has_child_app. cbn [nr_lose r_id].
      rewrite (has_child_shape _ _ _ Hs), Hnc. cbn. destruct p as [q|]; cbn; [|reflexivity].
      rewrite (Hpar q eq_refl). reflexivity. }
    destruct (revid_eqb (r_id wr) (w_rev w)) eqn:E2; [inversion H; subst; left; assumption|].
    destruct (orevid_eqb (d_cur d) (Some (r_id wr))) eqn:Es; inversion H; subst d' pr; clear H; right; exists nr_lose; cbn [d_revs d_cur d_atts d_binl].
    + split; [apply in_or_app; right; left; reflexivity|]. split; [apply Hleaf; reflexivity|].
      split; [assumption|]. split; [reflexivity|].
      unfold visible, is_cur. cbn [d_cur nr_lose r_id orevid_eqb option_eqb]. rewrite E2. assumption.
    + split; [apply in_or_app; right; left; reflexivity|]. split.
      { apply Hleaf. rewrite shape_set_rev, shape_demote; [reflexivity|]. intros; split; reflexivity. }
      split; [assumption|]. split; [reflexivity|].
      unfold visible, is_cur. cbn [d_cur nr_lose r_id orevid_eqb option_eqb]. rewrite E2. assumption.
  - left. destruct (revid_eqb (r_id wr) (w_rev w)); [|destruct (orevid_eqb (d_cur d) (Some (r_id wr)))];
      inversion H; subst; assumption.
Qed.

(* ---------- one attempt ---------- *)
Definition doc_inv (d : doc) : Prop := sane d /\ cur_ok d.
Definition state_inv (s : state) : Prop := forall k d, dlookup k (s_docs s) = Some d -> doc_inv d.

Lemma state_inv_init : state_inv init.
Proof. intros k d H. discriminate. Qed.

Lemma sane_empty : sane empty_doc.
Proof. split; [reflexivity|]. intros r []. Qed.

Lemma sane_the_doc : forall s k, state_inv s -> sane (the_doc (dlookup k (s_docs s))).
Proof.
  intros s k I. destruct (dlookup k (s_docs s)) as [d|] eqn:E; cbn; [apply (I k d E) | apply sane_empty].
Qed.

Definition after_excl (fixed : bool) (w : wop) : option revid := if fixed then None else Some (w_rev w).

(* the three ways an attempt can go *)
Inductive attempt_res (fixed ac sw : bool) (s : state) (w : wop) (final : bool) (s' : state) (o : outcome) (pr : bool) : Prop :=
| AR_rejected : prepare ac (the_doc (dlookup (w_doc w) (s_docs s))) w = inl o -> s' = s -> pr = false ->
    attempt_res fixed ac sw s w final s' o pr
| AR_lost : forall p, prepare ac (the_doc (dlookup (w_doc w) (s_docs s))) w = inr p -> final = false -> pr = false -> o = OAck ->
    s_store s' = store_new (w_doc w) (w_atts w) (s_store s) ->
    s_docs s' = match dlookup (w_doc w) (s_docs s) with
                | Some d => dset (w_doc w) (try_doc d p) (s_docs s)
                | None => s_docs s
                end ->
    attempt_res fixed ac sw s w final s' o pr
| AR_committed : forall p d', prepare ac (the_doc (dlookup (w_doc w) (s_docs s))) w = inr p -> final = true -> o = OAck ->
    commit fixed (the_doc (dlookup (w_doc w) (s_docs s))) w p = (d', pr) ->
    s_docs s' = dset (w_doc w) d' (s_docs s) ->
    s_store s' = (if sw then sweep (w_doc w) (leafkeys (the_doc (dlookup (w_doc w) (s_docs s))) None)
                                   (leafkeys d' (after_excl fixed w))
                                   (store_new (w_doc w) (w_atts w) (s_store s))
                  else store_new (w_doc w) (w_atts w) (s_store s)) ->
    attempt_res fixed ac sw s w final s' o pr.

Lemma attempt_cases : forall fixed ac sw s w final s' o pr,
  attempt fixed ac sw s w final = (s', o, pr) -> attempt_res fixed ac sw s w final s' o pr.
Proof.
  intros fixed ac sw s w final s' o pr. unfold attempt.
  destruct (prepare ac (the_doc (dlookup (w_doc w) (s_docs s))) w) as [o'|p] eqn:P.
  - intros H. inversion H; subst. apply AR_rejected; auto.
  - destruct final; cbn [negb].
    + destruct (commit fixed (the_doc (dlookup (w_doc w) (s_docs s))) w p) as [d' promo] eqn:C.
      intros H. inversion H; subst. eapply AR_committed; eauto.
    + intros H. inversion H; subst. eapply AR_lost; eauto.
      cbn. destruct (dlookup (w_doc w) (s_docs s)); reflexivity.
Qed.

Lemma refs_try_doc : forall d p, refs (try_doc d p) = refs d.
Proof. reflexivity. Qed.

Lemma doc_inv_try_doc : forall d p, doc_inv d -> doc_inv (try_doc d p).
Proof. intros d p H. exact H. Qed.

(* the invariant is kept by every attempt that does not promote a non-winning body (or by all, once repaired) *)
Lemma attempt_inv : forall fixed ac sw s w final s' o pr,
  state_inv s -> attempt fixed ac sw s w final = (s', o, pr) -> (fixed = true \/ pr = false) -> state_inv s'.
Proof.
  intros fixed ac sw s w final s' o pr I H Hp. apply attempt_cases in H.
  destruct H as [P -> _ | p P _ _ _ _ Hd | p d' P _ _ C Hd _].
  - assumption.
  - intros k d E. rewrite Hd in E. destruct (dlookup (w_doc w) (s_docs s)) as [d0|] eqn:L; [|apply (I k d E)].
    destruct (N.eq_dec k (w_doc w)) as [->|N].
    + rewrite dlookup_dset_same in E. inversion E; subst d. apply doc_inv_try_doc. apply (I _ _ L).
    + rewrite dlookup_dset_other in E by assumption. apply (I k d E).
  - intros k d E. rewrite Hd in E. destruct (N.eq_dec k (w_doc w)) as [->|N].
    + rewrite dlookup_dset_same in E. inversion E; subst d.
      destruct (prepare_fresh _ _ _ _ P) as [F1 [F2 F3]].
      destruct (commit_sane fixed _ w p F1 F2 F3 (sane_the_doc s (w_doc w) I) d' pr C Hp) as [S Cok].
      split; [eapply sane_x_weaken; eassumption | assumption].
    + rewrite dlookup_dset_other in E by assumption. apply (I k d E).
Qed.

(* att_safety, one event: data that was stored and is referenced by a leaf afterwards is still stored *)
Lemma attempt_safety : forall fixed ac sw s w final s' o pr,
  state_inv s -> attempt fixed ac sw s w final = (s', o, pr) -> (fixed = true \/ pr = false) ->
  forall k, stored s k -> referenced s' k -> stored s' k.
Proof.
  intros fixed ac sw s w final s' o pr I H Hp k St Rf. apply attempt_cases in H. unfold stored in *.
  destruct H as [P -> _ | p P _ _ _ Hs _ | p d' P _ _ C Hd Hs].
  - assumption.
  - rewrite Hs. apply stored_store_new. assumption.
  - rewrite Hs. destruct sw; [|apply stored_store_new; assumption].
    apply sweep_spec. split; [apply stored_store_new; assumption|].
    intros [E [_ Na]]. apply Na. clear Na.
    destruct Rf as [dd [L R]]. rewrite Hd, E, dlookup_dset_same in L. inversion L; subst dd.
    destruct (prepare_fresh _ _ _ _ P) as [F1 [F2 F3]].
    destruct (commit_sane fixed _ w p F1 F2 F3 (sane_the_doc s (w_doc w) I) d' pr C Hp) as [S _].
    apply refs_sub_leafkeys; assumption.
Qed.

(* att_cleanup, one event: what a leaf referenced before an acknowledged write and no leaf references after it
   is deleted by the sweep *)
Lemma attempt_cleanup : forall fixed ac s w s' o pr,
  state_inv s -> attempt fixed ac true s w true = (s', o, pr) -> (fixed = true \/ pr = false) ->
  forall g, referenced s (w_doc w, g) -> ~ referenced s' (w_doc w, g) -> ~ stored s' (w_doc w, g).
Proof.
  intros fixed ac s w s' o pr I H Hp g Rb Ra St. apply attempt_cases in H. unfold stored in *.
  destruct H as [P -> _ | p P F _ _ _ _ | p d' P _ _ C Hd Hs]; [contradiction | discriminate |].
  rewrite Hs in St. apply sweep_spec in St. destruct St as [_ St]. apply St. clear St. cbn [fst snd].
  destruct Rb as [d0 [L R]]. cbn [fst snd] in L, R.
  pose proof (I _ _ L) as [S0 _].
  split; [reflexivity|]. rewrite L. cbn [the_doc]. split; [apply refs_sub_leafkeys; assumption|].
  intros Hin. apply Ra. exists d'. cbn [fst snd]. rewrite Hd, dlookup_dset_same. split; [reflexivity|].
  destruct (prepare_fresh _ _ _ _ P) as [F1 [F2 F3]].
  destruct (commit_sane fixed _ w p F1 F2 F3 (sane_the_doc s (w_doc w) I) d' pr C Hp) as [[B _] Cok].
  eapply leafkeys_sub_refs; eassumption.
Qed.

(* retry_safe, one event: an acknowledged write's inline bodies are stored afterwards -- in ANY state, after any
   number of lost attempts and competing writes, repaired or not, promotion or not *)
Lemma attempt_uploads_stored : forall fixed ac sw s w s' pr,
  attempt fixed ac sw s w true = (s', OAck, pr) ->
  (exists p, prepare ac (the_doc (dlookup (w_doc w) (s_docs s))) w = inr p) ->
  forall c, In c (data_digs (w_atts w)) -> stored s' (w_doc w, c).
Proof.
  intros fixed ac sw s w s' pr H [p0 P0] c Hc. apply attempt_cases in H. unfold stored.
  destruct H as [P _ _ | p P F _ _ _ _ | p d' P _ _ C Hd Hs]; [congruence | discriminate |].
  rewrite Hs. destruct sw; [|apply store_new_data; assumption].
  apply sweep_spec. split; [apply store_new_data; assumption|].
  intros [_ [_ Na]]. apply Na. cbn [snd].
  destruct (prepare_fresh _ _ _ _ P) as [F1 [F2 F3]].
  eapply commit_new_in_leafkeys; eassumption.
Qed.

(* the sweep never touches another document's data, and a write never touches another document *)
Lemma attempt_other_doc : forall fixed ac sw s w final s' o pr,
  attempt fixed ac sw s w final = (s', o, pr) ->
  forall dk, dk <> w_doc w ->
  dlookup dk (s_docs s') = dlookup dk (s_docs s) /\ forall g, stored s (dk, g) <-> stored s' (dk, g).
Proof.
  intros fixed ac sw s w final s' o pr H dk N. apply attempt_cases in H. unfold stored.
  assert (forall g, kmem (dk, g) (store_new (w_doc w) (w_atts w) (s_store s)) = true <-> kmem (dk, g) (s_store s) = true) as SN.
  { intros g. split; [|apply stored_store_new]. intros X. apply store_new_inv in X. destruct X as [X|[X _]]; [assumption|].
    cbn in X. congruence. }
  destruct H as [P -> _ | p P _ _ _ Hs Hd | p d' P _ _ C Hd Hs].
  - split; [reflexivity | intros; reflexivity].
  - split.
    + rewrite Hd. destruct (dlookup (w_doc w) (s_docs s)); [apply dlookup_dset_other; assumption | reflexivity].
    + intros g. rewrite Hs. symmetry. apply SN.
  - split; [rewrite Hd; apply dlookup_dset_other; assumption|].
    intros g. rewrite Hs. destruct sw; [|symmetry; apply SN].
    rewrite sweep_spec, SN. cbn [fst]. split; [intros X; split; [assumption | intros [E _]; congruence] | intros [X _]; assumption].
Qed.

(* sweep disabled (cross-cluster versioning): nothing is ever deleted *)
Lemma attempt_nosweep_keeps : forall fixed ac s w final s' o pr,
  attempt fixed ac false s w final = (s', o, pr) -> forall k, stored s k -> stored s' k.
Proof.
  intros fixed ac s w final s' o pr H k St. apply attempt_cases in H. unfold stored in *.
  destruct H as [P -> _ | p P _ _ _ Hs _ | p d' P _ _ C Hd Hs]; [assumption | |]; rewrite Hs; apply stored_store_new; assumption.
Qed.

(* a lost attempt or a rejected request deletes nothing and changes no revision tree *)
Lemma attempt_unacked_harmless : forall fixed ac sw s w s' o pr,
  attempt fixed ac sw s w false = (s', o, pr) ->
  (forall k, stored s k -> stored s' k) /\ (forall k, referenced s k <-> referenced s' k).
Proof.
  intros fixed ac sw s w s' o pr H. apply attempt_cases in H.
  destruct H as [P -> _ | p P _ _ _ Hs Hd | p d' P F _ _ _ _]; [split; [auto | reflexivity] | | discriminate].
  split; [intros k St; unfold stored in *; rewrite Hs; apply stored_store_new; assumption|].
  intros k. unfold referenced. rewrite Hd. destruct (dlookup (w_doc w) (s_docs s)) as [d0|] eqn:L; [|reflexivity].
  destruct (N.eq_dec (fst k) (w_doc w)) as [E|N].
  - rewrite E, dlookup_dset_same, L. split; intros [d [X R]]; inversion X; subst; eexists; (split; [reflexivity|]); assumption.
  - rewrite dlookup_dset_other by assumption. reflexivity.
Qed.

Lemma prepare_not_ack : forall ac d w, prepare ac d w <> inl OAck.
Proof.
  intros ac d w. unfold prepare.
  assert (forall q, (if has_rev (d_revs d) (w_rev w) || has_child (d_revs d) (w_rev w)
                        || negb (fst (w_rev w) =? match q with Some q0 => fst q0 + 1 | None => 1 end)
                     then inl OUnsupported else inr q) <> (inl OAck : outcome + option revid)) as F
    by (intros q; destruct (_ || _); discriminate).
  destruct (w_kind w).
  - destruct (w_parent w) as [q|].
    + destruct (find_rev (d_revs d) q) as [r0|]; [|discriminate]. destruct (is_leaf (d_revs d) r0); [|discriminate]. exact (F (Some q)).
    + destruct (d_cur d) as [c|]; [|exact (F None)]. destruct (cur_deleted d); [|discriminate]. exact (F (Some c)).
  - destruct (negb ac); [discriminate|]. destruct (has_rev (d_revs d) (w_rev w)); [discriminate|].
    destruct (w_parent w) as [q|]; [destruct (has_rev (d_revs d) q); [|discriminate]; exact (F (Some q)) | exact (F None)].
Qed.

Lemma write_uploads_stored : forall fixed ac sw s w s' pr,
  attempt fixed ac sw s w true = (s', OAck, pr) -> forall c, In c (data_digs (w_atts w)) -> stored s' (w_doc w, c).
Proof.
  intros fixed ac sw s w s' pr H. apply attempt_uploads_stored with (pr := pr) (ac := ac) (fixed := fixed) (sw := sw) (s := s); [assumption|].
  destruct (prepare ac (the_doc (dlookup (w_doc w) (s_docs s))) w) as [o|p] eqn:P; [|eauto].
  exfalso. unfold attempt in H. rewrite P in H. inversion H; subst. apply (prepare_not_ack _ _ _ P).
Qed.

(* the current code: the acknowledged write's resolved attachment map IS the document-level map afterwards *)
Lemma write_records_atts : forall ac sw s w s' pr,
  attempt false ac sw s w true = (s', OAck, pr) ->
  exists d' p, dlookup (w_doc w) (s_docs s') = Some d' /\
    d_atts d' = resolve (the_doc (dlookup (w_doc w) (s_docs s))) p (fst (w_rev w)) (w_atts w).
Proof.
  intros ac sw s w s' pr H. pose proof H as H0. apply attempt_cases in H.
  destruct H as [P _ _ | p P F _ _ _ _ | p d' P _ _ C Hd Hs]; [exfalso; apply (prepare_not_ack _ _ _ P) | discriminate |].
  exists d', p. rewrite Hd, dlookup_dset_same. split; [reflexivity|].
  destruct (prepare_fresh _ _ _ _ P) as [F1 [F2 F3]].
  eapply commit_datts_legacy; [eassumption|].
  destruct (winner (d_revs (the_doc (dlookup (w_doc w) (s_docs s))) ++ [Rev (w_rev w) p (w_deleted w) [] false])) as [wr|] eqn:Wn; [eauto|].
  exfalso. eapply winner_new_exists; eassumption.
Qed.

(* ---------- histories ---------- *)
Lemma step_attempt : forall fixed ac sw s e,
  step fixed ac sw s e = match e with Try w => attempt fixed ac sw s w false | Write w => attempt fixed ac sw s w true end.
Proof. intros. destruct e; reflexivity. Qed.

Lemma step_eta : forall fixed ac sw s e,
  step fixed ac sw s e = (step_state fixed ac sw s e, snd (fst (step fixed ac sw s e)), step_promo fixed ac sw s e).
Proof. intros. unfold step_state, step_promo. destruct (step fixed ac sw s e) as [[a b] c]. reflexivity. Qed.

Lemma step_inv : forall fixed ac sw s e,
  state_inv s -> (fixed = true \/ step_promo fixed ac sw s e = false) -> state_inv (step_state fixed ac sw s e).
Proof.
  intros fixed ac sw s e I Hp. pose proof (step_eta fixed ac sw s e) as E. rewrite step_attempt in E.
  destruct e as [w|w]; eapply attempt_inv; eassumption.
Qed.

Lemma step_safety : forall fixed ac sw s e,
  state_inv s -> (fixed = true \/ step_promo fixed ac sw s e = false) ->
  forall k, stored s k -> referenced (step_state fixed ac sw s e) k -> stored (step_state fixed ac sw s e) k.
Proof.
  intros fixed ac sw s e I Hp. pose proof (step_eta fixed ac sw s e) as E. rewrite step_attempt in E.
  destruct e as [w|w]; eapply attempt_safety; eassumption.
Qed.

Lemma run_app : forall fixed ac sw a s b, run fixed ac sw s (a ++ b) = run fixed ac sw (run fixed ac sw s a) b.
Proof. induction a as [|e a IH]; intros; cbn; [reflexivity | apply IH]. Qed.

Lemma promo_free_app : forall fixed ac sw a s b,
  promo_free fixed ac sw s (a ++ b) = promo_free fixed ac sw s a && promo_free fixed ac sw (run fixed ac sw s a) b.
Proof.
  induction a as [|e a IH]; intros; cbn; [reflexivity|]. rewrite IH. apply andb_assoc.
Qed.

Definition ok_run (fixed ac sw : bool) (s : state) (es : list event) : Prop :=
  fixed = true \/ promo_free fixed ac sw s es = true.

Lemma ok_run_cons : forall fixed ac sw s e es, ok_run fixed ac sw s (e :: es) ->
  (fixed = true \/ step_promo fixed ac sw s e = false) /\ ok_run fixed ac sw (step_state fixed ac sw s e) es.
Proof.
  intros fixed ac sw s e es [F|P]; [split; left; assumption|]. cbn in P. apply andb_true_iff in P. destruct P as [P1 P2].
  apply negb_true_iff in P1. split; right; assumption.
Qed.

Lemma run_inv : forall fixed ac sw es s, state_inv s -> ok_run fixed ac sw s es -> state_inv (run fixed ac sw s es).
Proof.
  induction es as [|e es IH]; intros s I O; cbn; [assumption|].
  apply ok_run_cons in O. destruct O as [O1 O2]. apply IH; [apply step_inv; assumption | assumption].
Qed.

(* att_safety over histories: stored at some point and referenced by a leaf after every later event => stored *)
Lemma run_safety : forall fixed ac sw es s k, state_inv s -> ok_run fixed ac sw s es -> stored s k ->
  (forall j, (1 <= j <= length es)%nat -> referenced (run fixed ac sw s (firstn j es)) k) ->
  stored (run fixed ac sw s es) k.
Proof.
  induction es as [|e es IH]; intros s k I O St R; cbn; [assumption|].
  apply ok_run_cons in O. destruct O as [O1 O2].
  assert (referenced (step_state fixed ac sw s e) k) as R1 by (apply (R 1%nat); cbn; lia).
  apply IH; [apply step_inv; assumption | assumption | apply step_safety; assumption |].
  intros j Hj. apply (R (S j)). cbn. lia.
Qed.

Theorem att_safety_hist : forall fixed ac sw es1 es2 k,
  ok_run fixed ac sw init (es1 ++ es2) ->
  stored (run fixed ac sw init es1) k ->
  (forall j, (1 <= j <= length es2)%nat -> referenced (run fixed ac sw init (es1 ++ firstn j es2)) k) ->
  stored (run fixed ac sw init (es1 ++ es2)) k.
Proof.
  intros fixed ac sw es1 es2 k O St R. rewrite run_app.
  assert (ok_run fixed ac sw init es1 /\ ok_run fixed ac sw (run fixed ac sw init es1) es2) as [O1 O2].
  { destruct O as [F|P]; [split; left; assumption|]. rewrite promo_free_app in P. apply andb_true_iff in P.
    destruct P. split; right; assumption. }
  apply run_safety; [apply run_inv; [apply state_inv_init | assumption] | assumption | assumption |].
  intros j Hj. rewrite <- run_app. apply R. assumption.
Qed.

(* att_cleanup over histories *)
Theorem att_cleanup_hist : forall fixed ac es w g,
  ok_run fixed ac true init (es ++ [Write w]) ->
  referenced (run fixed ac true init es) (w_doc w, g) ->
  ~ referenced (run fixed ac true init (es ++ [Write w])) (w_doc w, g) ->
  ~ stored (run fixed ac true init (es ++ [Write w])) (w_doc w, g).
Proof.
  intros fixed ac es w g O Rb. rewrite run_app. cbn [run].
  assert (ok_run fixed ac true init es /\ ok_run fixed ac true (run fixed ac true init es) [Write w]) as [O1 O2].
  { destruct O as [F|P]; [split; left; assumption|]. rewrite promo_free_app in P. apply andb_true_iff in P.
    destruct P. split; right; assumption. }
  apply ok_run_cons in O2. destruct O2 as [O2 _].
  pose proof (step_eta fixed ac true (run fixed ac true init es) (Write w)) as E. cbn [step] in E.
  eapply attempt_cleanup; [apply run_inv; [apply state_inv_init | exact O1] | exact E | exact O2 | exact Rb].
Qed.

(* exact cleanup: with the sweep enabled, every stored attachment is referenced by a leaf of its document or was
   uploaded by an attempt that lost its CAS race *)
Lemma step_exact : forall fixed ac s e T,
  state_inv s -> (fixed = true \/ step_promo fixed ac true s e = false) ->
  (forall k, stored s k -> referenced s k \/ In k T) ->
  forall k, stored (step_state fixed ac true s e) k ->
            referenced (step_state fixed ac true s e) k \/ In k (T ++ tried_keys [e]).
Proof.
  intros fixed ac s e T I Hp X k St.
  pose proof (step_eta fixed ac true s e) as E. rewrite step_attempt in E.
  set (s' := step_state fixed ac true s e) in *. unfold stored in *.
  destruct e as [w|w]; apply attempt_cases in E.
  - (* lost attempt *)
    pose proof (step_eta fixed ac true s (Try w)) as E0. cbn [step] in E0.
    destruct (attempt_unacked_harmless _ _ _ _ _ _ _ _ E0) as [_ Rf]. fold s' in Rf.
    destruct E as [P Es _ | p P _ _ _ Hs Hd | p d' P F _ _ _ _]; [| |discriminate].
    + rewrite Es in St. destruct (X k St) as [R|R]; [left; apply Rf; assumption | right; apply in_or_app; left; assumption].
    + rewrite Hs in St. apply store_new_inv in St. destruct St as [St|[E1 E2]].
      * destruct (X k St) as [R|R]; [left; apply Rf; assumption | right; apply in_or_app; left; assumption].
      * right. apply in_or_app. right. cbn. rewrite app_nil_r. apply in_map_iff. exists (snd k).
        split; [destruct k; cbn in *; congruence | assumption].
  - destruct E as [P Es _ | p P F _ _ _ _ | p d' P _ _ C Hd Hs]; [| discriminate |].
    + rewrite Es in *. destruct (X k St) as [R|R]; [left; assumption | right; apply in_or_app; left; assumption].
    + rewrite Hs in St. apply sweep_spec in St. destruct St as [St Keep].
      destruct (prepare_fresh _ _ _ _ P) as [F1 [F2 F3]].
      destruct (commit_sane fixed _ w p F1 F2 F3 (sane_the_doc s (w_doc w) I) d' _ C Hp) as [[B _] Cok].
      assert (forall g, In g (leafkeys d' (after_excl fixed w)) -> referenced s' (w_doc w, g)) as After.
      { intros g Hg. exists d'. cbn [fst snd]. rewrite Hd, dlookup_dset_same. split; [reflexivity|].
        eapply leafkeys_sub_refs; eassumption. }
      apply store_new_inv in St. destruct St as [St|[E1 E2]].
      * destruct (X k St) as [R|R]; [|right; apply in_or_app; left; assumption]. left.
        destruct (N.eq_dec (fst k) (w_doc w)) as [Ek|Nk].
        -- destruct R as [d0 [L R]]. rewrite Ek in L.
           assert (In (snd k) (leafkeys d' (after_excl fixed w))) as Hin.
           { destruct (nmem (snd k) (leafkeys d' (after_excl fixed w))) eqn:M; [apply nmem_In; assumption|].
             exfalso. apply Keep. split; [assumption|]. split.
             - rewrite L. cbn [the_doc]. apply refs_sub_leafkeys; [apply (I _ _ L) | assumption].
             - intros Y. apply nmem_In in Y. congruence. }
           destruct k as [k1 k2]. cbn in *. subst k1. apply After. assumption.
        -- destruct R as [d0 [L R]]. exists d0. split; [|assumption]. rewrite Hd, dlookup_dset_other; assumption.
      * left. destruct k as [k1 k2]. cbn in *. subst k1. apply After.
        eapply commit_new_in_leafkeys; eassumption.
Qed.

Theorem att_cleanup_exact_hist : forall fixed ac es k,
  ok_run fixed ac true init es -> stored (run fixed ac true init es) k ->
  referenced (run fixed ac true init es) k \/ In k (tried_keys es).
Proof.
  intros fixed ac es.
  assert (forall es s T, state_inv s -> ok_run fixed ac true s es ->
            (forall k, stored s k -> referenced s k \/ In k T) ->
            forall k, stored (run fixed ac true s es) k ->
                      referenced (run fixed ac true s es) k \/ In k (T ++ tried_keys es)) as G.
  { induction es0 as [|e es0 IH]; intros s T I O X k St; cbn in *.
    - rewrite app_nil_r. apply X. assumption.
    - apply ok_run_cons in O. destruct O as [O1 O2].
      specialize (IH (step_state fixed ac true s e) (T ++ tried_keys [e]) (step_inv _ _ _ _ _ I O1) O2
                     (step_exact fixed ac s e T I O1 X) k St).
      destruct IH as [R|R]; [left; assumption|]. right.
      unfold tried_keys in *. cbn in R. rewrite app_nil_r in R. rewrite <- app_assoc in R. assumption. }
  intros k O St.
  assert (forall k0, stored init k0 -> referenced init k0 \/ In k0 []) as X0 by (intros k0 H; discriminate H).
  destruct (G es init [] state_inv_init O X0 k St) as [R|R]; [left|right]; assumption.
Qed.

(* sweep disabled: the store only grows *)
Theorem nosweep_keeps_hist : forall fixed ac es s k, stored s k -> stored (run fixed ac false s es) k.
Proof.
  induction es as [|e es IH]; intros s k St; cbn; [assumption|]. apply IH.
  pose proof (step_eta fixed ac false s e) as E. rewrite step_attempt in E.
  destruct e as [w|w]; eapply attempt_nosweep_keeps; eassumption.
Qed.

(* documents do not interfere: identical content in two documents lives and dies per document *)
Theorem other_doc_hist : forall fixed ac sw s e dk,
  dk <> (match e with Try w | Write w => w_doc w end) ->
  dlookup dk (s_docs (step_state fixed ac sw s e)) = dlookup dk (s_docs s) /\
  forall g, stored s (dk, g) <-> stored (step_state fixed ac sw s e) (dk, g).
Proof.
  intros fixed ac sw s e dk N. pose proof (step_eta fixed ac sw s e) as E. rewrite step_attempt in E.
  destruct e as [w|w]; eapply attempt_other_doc; eassumption.
Qed.

(* ---------- shared digests ---------- *)
Lemma alookup_in_v2digs : forall n m x, alookup n m = Some x -> m_v2 x = true -> In (m_dig x) (v2digs m).
Proof.
  intros n m x. induction m as [|[k v] m IH]; cbn; [discriminate|]. destruct (k =? n).
  - intros E V. inversion E; subst v. unfold v2digs. cbn. rewrite V. left. reflexivity.
  - intros E V. unfold v2digs in *. cbn. destruct (m_v2 v); [right|]; apply IH; assumption.
Qed.

(* the same content under two names or on two branches: whatever an event removes, one remaining reference
   (some attachment name of some leaf revision) keeps the data *)
Lemma shared_digest_step : forall fixed ac sw s e dk g d' r n x,
  state_inv s -> (fixed = true \/ step_promo fixed ac sw s e = false) ->
  stored s (dk, g) ->
  dlookup dk (s_docs (step_state fixed ac sw s e)) = Some d' ->
  In r (d_revs d') -> is_leaf (d_revs d') r = true ->
  alookup n (visible d' r) = Some x -> m_v2 x = true -> m_dig x = g ->
  stored (step_state fixed ac sw s e) (dk, g).
Proof.
  intros fixed ac sw s e dk g d' r n x I Hp St L Hr Lf A V G. apply step_safety; [assumption | assumption | assumption |].
  exists d'. cbn [fst snd]. split; [assumption|]. apply refs_In. exists r. split; [assumption|]. split; [assumption|].
  subst g. eapply alookup_in_v2digs; eassumption.
Qed.
