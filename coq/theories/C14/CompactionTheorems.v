(* Theorems about attachment compaction runs (C14/Compaction.v), over ALL stores, fault sets and oracles. *)
From SG Require Import Base.Prelude C14.Compaction C14.CompactionProofs.
Open Scope N_scope.

Section Keyed.
Variable bd : bool.     (* false: the mark map keyed by attachment name (before 360f98e); true: by data document id *)
Local Notation cp_doc_keys := (Compaction.cp_doc_keys bd).
Local Notation cp_mark_from := (Compaction.cp_mark_from bd).
Local Notation cp_run := (Compaction.cp_run bd).
Local Notation cp_runs := (Compaction.cp_runs bd).
Local Notation cp_fresh_hist := (Compaction.cp_fresh_hist bd).
Local Notation cp_wf := (Compaction.cp_wf bd).
Local Notation cp_mark_from_fst := (CompactionProofs.cp_mark_from_fst bd).
Local Notation cp_mark_from_keep := (CompactionProofs.cp_mark_from_keep bd).
Local Notation cp_mark_from_done := (CompactionProofs.cp_mark_from_done bd).
Local Notation cp_mark_from_stc_inv := (CompactionProofs.cp_mark_from_stc_inv bd).
Local Notation cp_mark_from_at := (CompactionProofs.cp_mark_from_at bd).
Local Notation cp_mark_from_prefix := (CompactionProofs.cp_mark_from_prefix bd).
Local Notation cp_keys_complete := (CompactionProofs.cp_keys_complete bd).
Local Notation cp_keys_sound := (CompactionProofs.cp_keys_sound bd).
Local Notation cp_doc_keys_some := (CompactionProofs.cp_doc_keys_some bd).
Local Notation cp_doc_keys_nofault := (CompactionProofs.cp_doc_keys_nofault bd).
Local Notation cp_read_exts_fault := (CompactionProofs.cp_read_exts_fault bd).
Local Notation cp_run_docs := (CompactionProofs.cp_run_docs bd).
Local Notation cp_handles := (CompactionProofs.cp_handles bd).

(* the shape of a run that starts a new id *)
Lemma cp_run_fresh : forall fixed s r, cp_fresh_mode s r ->
  cp_run fixed s r =
  match cp_mark_from (cp_rid r) (cp_flt r) (cp_partial r) (cp_bodies s) 0 (cp_docs s) (cp_atts s) 0 with
  | (a, cnt, Some j) =>
      (CpSt (cp_docs s) (cp_bodies s) a (Some (CpPend (cp_rid r) j (cp_dry r))), CpRes CpFailed cnt 0)
  | (a, cnt, None) =>
      let '(a', p) := cp_sweep (cp_rid r) (cp_dry r) a in
      (CpSt (cp_docs s) (cp_bodies s) (cp_cleanup (cp_rid r) a') None, CpRes CpCompleted cnt p)
  end.
Proof. intros fixed s r M. unfold Compaction.cp_run. rewrite (cp_mode_fresh fixed s r M). reflexivity. Qed.

(* what survives a completed sweep + cleanup *)
Lemma cp_after_sweep : forall c dry a g,
  In g (map fst (cp_cleanup c (fst (cp_sweep c dry a)))) <-> (if dry then In g (map fst a) else cp_stc c a g).
Proof.
  intros c dry a g. rewrite cp_cleanup_fst. unfold cp_sweep. cbn [fst]. destruct dry; [reflexivity|].
  apply cp_filter_stamped.
Qed.

Lemma cp_stc_present : forall c a g, cp_stc c a g -> In g (map fst a).
Proof. intros c a g [e [I [E _]]]. apply in_map_iff. exists e. auto. Qed.

(* ---------- compaction_safety ---------- *)
Theorem cp_safety : forall fixed s r s' res,
  cp_run fixed s r = (s', res) -> cp_fresh_mode s r -> cp_wf s -> cp_rstatus res = CpCompleted ->
  forall g, cp_referenced s g -> cp_present s g -> cp_present s' g.
Proof.
  intros fixed s r s' res H M W C g [d [Id R]] P. rewrite (cp_run_fresh fixed s r M) in H.
  destruct (cp_mark_from _ _ _ _ _ _ _ _) as [[a cnt] [j|]] eqn:Mk.
  - inversion H. subst. discriminate.
  - destruct (cp_sweep (cp_rid r) (cp_dry r) a) as [a' p] eqn:Sw. inversion H. subst. clear H.
    unfold cp_present. cbn [cp_atts].
    replace a' with (fst (cp_sweep (cp_rid r) (cp_dry r) a)) by (rewrite Sw; reflexivity).
    apply cp_after_sweep.
    assert (Pa : In g (map fst a)) by (rewrite (cp_mark_from_fst _ _ _ _ _ _ _ _ _ _ _ Mk); exact P).
    destruct (cp_dry r); [exact Pa|].
    destruct (cp_mark_from_done _ _ _ _ _ _ _ _ _ _ Mk d Id) as [ks [K1 K2]].
    destruct (W d Id) as [NO FO].
    pose proof (cp_keys_complete _ _ _ _ _ NO FO K1 R) as Ig.
    destruct (K2 g Ig) as [A _]. exact (cp_allst_stc _ _ _ Pa A).
Qed.

(* ---------- a run that reports an error purges nothing ---------- *)
Theorem cp_failed_purges_nothing : forall fixed s r s' res,
  cp_run fixed s r = (s', res) -> cp_rstatus res = CpFailed ->
  map fst (cp_atts s') = map fst (cp_atts s) /\ cp_rpurged res = 0 /\
  cp_docs s' = cp_docs s /\ cp_bodies s' = cp_bodies s.
Proof.
  intros fixed s r s' res H C. unfold Compaction.cp_run in H. destruct (cp_mode fixed s r) as [[c k] dry].
  destruct (cp_mark_from _ _ _ _ _ _ _ _) as [[a cnt] [j|]] eqn:Mk.
  - inversion H. subst. cbn. rewrite (cp_mark_from_fst _ _ _ _ _ _ _ _ _ _ _ Mk). auto.
  - destruct (cp_sweep c dry a) as [a' p]. inversion H. subst. discriminate.
Qed.

(* ---------- a read error on an out-of-line body of a conflicted document is never tolerated ---------- *)
Theorem cp_read_error_fails : forall fixed s r d x,
  cp_fresh_mode s r -> In d (cp_docs s) -> cp_flag d = true -> In x (cp_ext d) ->
  In x (cp_fread (cp_flt r)) -> cp_rstatus (snd (cp_run fixed s r)) = CpFailed.
Proof.
  intros fixed s r d x M Id Fl Ix Fx. rewrite (cp_run_fresh fixed s r M).
  destruct (cp_mark_from _ _ _ _ _ _ _ _) as [[a cnt] [j|]] eqn:Mk; [reflexivity|].
  destruct (cp_mark_from_done _ _ _ _ _ _ _ _ _ _ Mk d Id) as [ks [K1 _]].
  unfold Compaction.cp_doc_keys in K1. rewrite Fl in K1.
  rewrite (cp_read_exts_fault _ _ _ _ x Ix) in K1; [discriminate|]. apply cp_mem_In. exact Fx.
Qed.

(* the same for a failing stamp of a data document some processed body lists *)
Theorem cp_stamp_error_fails : forall fixed s r d ks g,
  cp_fresh_mode s r -> In d (cp_docs s) -> cp_doc_keys (cp_flt r) (cp_bodies s) d = Some ks ->
  In g (map snd ks) -> In g (cp_fstamp (cp_flt r)) -> cp_rstatus (snd (cp_run fixed s r)) = CpFailed.
Proof.
  intros fixed s r d ks g M Id K Ig Fg. rewrite (cp_run_fresh fixed s r M).
  destruct (cp_mark_from _ _ _ _ _ _ _ _) as [[a cnt] [j|]] eqn:Mk; [reflexivity|].
  destruct (cp_mark_from_done _ _ _ _ _ _ _ _ _ _ Mk d Id) as [ks' [K1 K2]].
  rewrite K in K1. inversion K1. subst ks'. destruct (K2 g Ig) as [_ B].
  apply cp_mem_In in Fg. congruence.
Qed.

(* ---------- compaction_cleanup ---------- *)
Lemma cp_mark_nofault_done : forall c F p bodies ds i a cnt,
  cp_fread F = [] -> cp_fstamp F = [] ->
  exists a' cnt', cp_mark_from c F p bodies i ds a cnt = (a', cnt', None).
Proof.
  intros c F p bodies ds. induction ds as [|d r IH]; intros i a cnt E1 E2; cbn; [eauto|].
  unfold cp_mark_doc. rewrite (cp_doc_keys_nofault _ _ _ E1).
  assert (X : existsb (fun g => cp_mem g (cp_fstamp F)) (map snd (cp_handles [] (cp_processed bodies d))) = false).
  { rewrite E2. induction (map snd (cp_handles [] (cp_processed bodies d))); cbn; auto. }
  rewrite X. apply IH; assumption.
Qed.

Theorem cp_cleanup_exact : forall fixed s r s' res,
  cp_run fixed s r = (s', res) -> cp_fresh_mode s r -> cp_wf s -> cp_no_faults r ->
  cp_id_unused (cp_rid r) s -> cp_dry r = false ->
  cp_rstatus res = CpCompleted /\
  (forall g, cp_present s' g <-> cp_present s g /\ cp_referenced s g) /\
  cp_id_unused (cp_rid r) s' /\ cp_pending s' = None /\
  cp_rpurged res = N.of_nat (length (cp_atts s) - length (cp_atts s')).
Proof.
  intros fixed s r s' res H M W [E1 E2] U D. rewrite (cp_run_fresh fixed s r M) in H.
  destruct (cp_mark_nofault_done (cp_rid r) (cp_flt r) (cp_partial r) (cp_bodies s) (cp_docs s) 0%nat (cp_atts s) 0 E1 E2)
    as [a [cnt Mk]].
  rewrite Mk in H. rewrite D in H. cbn [cp_sweep] in H. inversion H. subst. clear H. cbn [cp_rstatus cp_atts cp_pending cp_rpurged].
  split; [reflexivity|]. split; [|split; [|split; [reflexivity|]]].
  - intros g. unfold cp_present. cbn [cp_atts]. rewrite cp_cleanup_fst, cp_filter_stamped. split.
    + intros S. split.
      * rewrite <- (cp_mark_from_fst _ _ _ _ _ _ _ _ _ _ _ Mk). exact (cp_stc_present _ _ _ S).
      * destruct (cp_mark_from_stc_inv _ _ _ _ _ _ _ _ _ _ _ _ Mk S) as [[e [I [_ K]]]|[d [ks [I [Q G]]]]].
        -- exfalso. exact (U e I K).
        -- exists d. split; [exact I|]. exact (cp_keys_sound _ _ _ _ _ Q G).
    + intros [P [d [Id R]]].
      assert (Pa : In g (map fst a)) by (rewrite (cp_mark_from_fst _ _ _ _ _ _ _ _ _ _ _ Mk); exact P).
      destruct (cp_mark_from_done _ _ _ _ _ _ _ _ _ _ Mk d Id) as [ks [K1 K2]].
      destruct (W d Id) as [NO FO]. pose proof (cp_keys_complete _ _ _ _ _ NO FO K1 R) as Ig.
      destruct (K2 g Ig) as [A _]. exact (cp_allst_stc _ _ _ Pa A).
  - intros e I. exact (cp_cleanup_gone _ _ _ I).
  - unfold cp_cleanup. rewrite map_length.
    pose proof (cp_filter_count (cp_stamped (cp_rid r)) a) as Cn.
    assert (L : length a = length (cp_atts s)).
    { rewrite <- (map_length fst a), <- (map_length fst (cp_atts s)). rewrite (cp_mark_from_fst _ _ _ _ _ _ _ _ _ _ _ Mk). reflexivity. }
    rewrite <- L. f_equal. lia.
Qed.

(* a dry run deletes nothing, whatever else happens *)
Theorem cp_dry_keeps : forall fixed s r s' res,
  cp_run fixed s r = (s', res) -> cp_fresh_mode s r -> cp_dry r = true ->
  map fst (cp_atts s') = map fst (cp_atts s).
Proof.
  intros fixed s r s' res H M D. rewrite (cp_run_fresh fixed s r M) in H.
  destruct (cp_mark_from _ _ _ _ _ _ _ _) as [[a cnt] [j|]] eqn:Mk.
  - inversion H. subst. cbn. exact (cp_mark_from_fst _ _ _ _ _ _ _ _ _ _ _ Mk).
  - rewrite D in H. cbn [cp_sweep] in H. inversion H. subst. cbn. rewrite cp_cleanup_fst.
    exact (cp_mark_from_fst _ _ _ _ _ _ _ _ _ _ _ Mk).
Qed.

(* ---------- compaction_idempotent ---------- *)
(* after a completed run with an unused id every remaining data document is a key of some document *)
Definition cp_all_keyed (s : cp_store) : Prop :=
  forall g, cp_present s g -> exists d ks, In d (cp_docs s) /\ cp_doc_keys (CpF [] []) (cp_bodies s) d = Some ks /\ In g (map snd ks).

Lemma cp_doc_keys_indep : forall F bodies d ks, cp_doc_keys F bodies d = Some ks -> cp_doc_keys (CpF [] []) bodies d = Some ks.
Proof.
  intros F bodies d ks H. rewrite (cp_doc_keys_nofault (CpF [] []) bodies d eq_refl).
  rewrite (cp_doc_keys_some _ _ _ _ H). reflexivity.
Qed.

Lemma cp_completed_all_keyed : forall fixed s r s' res,
  cp_run fixed s r = (s', res) -> cp_fresh_mode s r -> cp_id_unused (cp_rid r) s -> cp_dry r = false ->
  cp_rstatus res = CpCompleted -> cp_all_keyed s'.
Proof.
  intros fixed s r s' res H M U D C. rewrite (cp_run_fresh fixed s r M) in H.
  destruct (cp_mark_from _ _ _ _ _ _ _ _) as [[a cnt] [j|]] eqn:Mk; [inversion H; subst; discriminate|].
  rewrite D in H. cbn [cp_sweep] in H. inversion H. subst. clear H. intros g P. unfold cp_present in P. cbn [cp_atts] in P.
  rewrite cp_cleanup_fst, cp_filter_stamped in P. cbn [cp_docs cp_bodies].
  destruct (cp_mark_from_stc_inv _ _ _ _ _ _ _ _ _ _ _ _ Mk P) as [[e [I [_ K]]]|[d [ks [I [Q G]]]]].
  - exfalso. exact (U e I K).
  - exists d, ks. split; [exact I|]. split; [exact (cp_doc_keys_indep _ _ _ _ Q)|exact G].
Qed.

Lemma cp_all_keyed_stable : forall fixed s r s' res,
  cp_run fixed s r = (s', res) -> cp_fresh_mode s r -> cp_all_keyed s ->
  map fst (cp_atts s') = map fst (cp_atts s) /\ (cp_rstatus res = CpCompleted -> cp_rpurged res = 0).
Proof.
  intros fixed s r s' res H M AK. rewrite (cp_run_fresh fixed s r M) in H.
  destruct (cp_mark_from _ _ _ _ _ _ _ _) as [[a cnt] [j|]] eqn:Mk.
  - inversion H. subst. cbn. split; [exact (cp_mark_from_fst _ _ _ _ _ _ _ _ _ _ _ Mk)|discriminate].
  - pose proof (cp_mark_from_fst _ _ _ _ _ _ _ _ _ _ _ Mk) as Fa.
    assert (All : forall e, In e a -> cp_stamped (cp_rid r) e = true).
    { intros e I. assert (P : cp_present s (fst e)) by (unfold cp_present; rewrite <- Fa; apply in_map; exact I).
      destruct (AK _ P) as [d [ks [Id [Q G]]]].
      destruct (cp_mark_from_done _ _ _ _ _ _ _ _ _ _ Mk d Id) as [ks' [K1 K2]].
      rewrite (cp_doc_keys_indep _ _ _ _ K1) in Q. inversion Q. subst ks'.
      destruct (K2 _ G) as [A _]. apply cp_mem_In. exact (A e I eq_refl). }
    assert (Fl : filter (cp_stamped (cp_rid r)) a = a).
    { clear -All. induction a as [|e t IH]; cbn; [reflexivity|]. rewrite (All e (or_introl eq_refl)). f_equal.
      apply IH. intros e' I. apply All. right. exact I. }
    assert (Fn : filter (fun e => negb (cp_stamped (cp_rid r) e)) a = []).
    { clear -All. induction a as [|e t IH]; cbn; [reflexivity|]. rewrite (All e (or_introl eq_refl)). cbn.
      apply IH. intros e' I. apply All. right. exact I. }
    unfold cp_sweep in H. rewrite Fl, Fn in H. cbn [length] in H.
    destruct (cp_dry r); inversion H; subst; cbn; rewrite cp_cleanup_fst; auto.
Qed.

Theorem cp_idempotent : forall fixed s r1 s1 res1 r2 s2 res2,
  cp_run fixed s r1 = (s1, res1) -> cp_fresh_mode s r1 -> cp_id_unused (cp_rid r1) s -> cp_dry r1 = false ->
  cp_rstatus res1 = CpCompleted ->
  cp_run fixed s1 r2 = (s2, res2) ->
  map fst (cp_atts s2) = map fst (cp_atts s1) /\ (cp_rstatus res2 = CpCompleted -> cp_rpurged res2 = 0).
Proof.
  intros fixed s r1 s1 res1 r2 s2 res2 H1 M1 U D C H2.
  pose proof (cp_completed_all_keyed _ _ _ _ _ H1 M1 U D C) as AK.
  assert (M2 : cp_fresh_mode s1 r2).
  { right. rewrite (cp_run_fresh fixed s r1 M1) in H1.
    destruct (cp_mark_from _ _ _ _ _ _ _ _) as [[a cnt] [j|]]; [inversion H1; subst; discriminate|].
    destruct (cp_sweep _ _ _). inversion H1. reflexivity. }
  exact (cp_all_keyed_stable _ _ _ _ _ H2 M2 AK).
Qed.

(* ---------- histories ---------- *)
Lemma cp_wf_run : forall fixed s r, cp_wf s -> cp_wf (fst (cp_run fixed s r)).
Proof.
  intros fixed s r W. destruct (cp_run_docs fixed s r) as [E1 E2]. unfold Compaction.cp_wf. rewrite E1, E2. exact W.
Qed.

Lemma cp_referenced_run : forall fixed s r g, cp_referenced (fst (cp_run fixed s r)) g <-> cp_referenced s g.
Proof.
  intros fixed s r g. destruct (cp_run_docs fixed s r) as [E1 E2]. unfold cp_referenced. rewrite E1, E2. reflexivity.
Qed.

Lemma cp_run_step_safe : forall fixed s r,
  cp_fresh_mode s r -> cp_wf s -> forall g, cp_referenced s g -> cp_present s g -> cp_present (fst (cp_run fixed s r)) g.
Proof.
  intros fixed s r M W g R P. destruct (cp_run fixed s r) as [s' res] eqn:H. cbn.
  destruct (cp_rstatus res) eqn:C.
  - exact (cp_safety _ _ _ _ _ H M W C g R P).
  - destruct (cp_failed_purges_nothing _ _ _ _ _ H C) as [E _]. unfold cp_present. rewrite E. exact P.
Qed.

(* the code as it is, over every history of runs none of which resumes a failed run *)
Theorem cp_safety_hist : forall fixed rs s,
  cp_wf s -> cp_fresh_hist fixed s rs = true ->
  forall g, cp_referenced s g -> cp_present s g -> cp_present (cp_runs fixed s rs) g.
Proof.
  intros fixed rs. induction rs as [|r t IH]; intros s W FH g R P; cbn in *; [exact P|].
  apply andb_true_iff in FH. destruct FH as [F1 F2].
  assert (M : cp_fresh_mode s r).
  { apply orb_true_iff in F1. destruct F1 as [E|E]; [left; exact E|right]. destruct (cp_pending s); [discriminate|reflexivity]. }
  apply IH; [apply cp_wf_run; exact W|exact F2|apply cp_referenced_run; exact R|].
  exact (cp_run_step_safe fixed s r M W g R P).
Qed.

(* ---------- the repaired resume: the feed of a resumed mark phase never starts behind the failed document ---------- *)
(* invariant: every key of every document before the recorded failure position is stamped with the recorded id *)
Definition cp_pend_inv (s : cp_store) : Prop :=
  match cp_pending s with
  | None => True
  | Some p => forall q d, (q < cp_pat p)%nat -> nth_error (cp_docs s) q = Some d ->
      exists ks, cp_doc_keys (CpF [] []) (cp_bodies s) d = Some ks /\ forall g, In g (map snd ks) -> cp_allst (cp_pid p) g (cp_atts s)
  end.

Lemma nth_error_skipn : forall {A} (l : list A) k q, nth_error (skipn k l) q = nth_error l (k + q).
Proof.
  intros A l. induction l as [|x r IH]; intros k q.
  - rewrite skipn_nil. destruct q, k; reflexivity.
  - destruct k; [reflexivity|]. cbn. apply IH.
Qed.

Lemma cp_run_fixed_shape : forall s r,
  exists c k dry, cp_mode true s r = (c, k, dry) /\
    (forall q d, (q < k)%nat -> nth_error (cp_docs s) q = Some d -> cp_pend_inv s ->
       exists ks, cp_doc_keys (CpF [] []) (cp_bodies s) d = Some ks /\ forall g, In g (map snd ks) -> cp_allst c g (cp_atts s)).
Proof.
  intros s r. unfold cp_mode. destruct (cp_reset r) eqn:Rs.
  - exists (cp_rid r), 0%nat, (cp_dry r). split; [destruct (cp_pending s); reflexivity|]. intros q d L. lia.
  - destruct (cp_pending s) as [p|] eqn:Pe.
    + exists (cp_pid p), (Nat.min (cp_skip r) (cp_pat p)), (cp_pdry p). split; [reflexivity|].
      intros q d L E I. unfold cp_pend_inv in I. rewrite Pe in I. apply (I q d); [lia|exact E].
    + exists (cp_rid r), 0%nat, (cp_dry r). split; [reflexivity|]. intros q d L. lia.
Qed.

Lemma cp_pend_inv_run : forall s r, cp_pend_inv s -> cp_pend_inv (fst (cp_run true s r)).
Proof.
  intros s r I. destruct (cp_run_fixed_shape s r) as [c [k [dry [Md Pre]]]]. unfold Compaction.cp_run. rewrite Md.
  destruct (cp_mark_from _ _ _ _ _ _ _ _) as [[a cnt] [j|]] eqn:Mk.
  - cbn [fst]. unfold cp_pend_inv. cbn [cp_pending cp_pat cp_pid cp_docs cp_bodies cp_atts].
    intros q d L E. pose proof (cp_mark_from_at _ _ _ _ _ _ _ _ _ _ _ Mk) as B.
    destruct (Nat.ltb q k) eqn:Q.
    + apply Nat.ltb_lt in Q. destruct (Pre q d Q E I) as [ks [K1 K2]]. exists ks. split; [exact K1|].
      intros g Ig. exact (cp_mark_from_keep _ _ _ _ _ _ _ _ _ _ _ _ Mk (K2 g Ig)).
    + apply Nat.ltb_ge in Q.
      destruct (cp_mark_from_prefix _ _ _ _ _ _ _ _ _ _ _ Mk (q - k)%nat d) as [ks [K1 K2]]; [lia| |].
      * rewrite nth_error_skipn. replace (k + (q - k))%nat with q by lia. exact E.
      * exists ks. split; [exact (cp_doc_keys_indep _ _ _ _ K1)|exact K2].
  - destruct (cp_sweep c dry a). cbn. exact Logic.I.
Qed.

Theorem cp_safety_fixed_step : forall s r,
  cp_wf s -> cp_pend_inv s ->
  forall g, cp_referenced s g -> cp_present s g -> cp_present (fst (cp_run true s r)) g.
Proof.
  intros s r W I g [d [Id R]] P. destruct (cp_run_fixed_shape s r) as [c [k [dry [Md Pre]]]]. unfold Compaction.cp_run. rewrite Md.
  destruct (cp_mark_from _ _ _ _ _ _ _ _) as [[a cnt] [j|]] eqn:Mk.
  - cbn. unfold cp_present. cbn. rewrite (cp_mark_from_fst _ _ _ _ _ _ _ _ _ _ _ Mk). exact P.
  - destruct (cp_sweep c dry a) as [a' p] eqn:Sw. cbn [fst]. unfold cp_present. cbn [cp_atts].
    replace a' with (fst (cp_sweep c dry a)) by (rewrite Sw; reflexivity). apply cp_after_sweep.
    assert (Pa : In g (map fst a)) by (rewrite (cp_mark_from_fst _ _ _ _ _ _ _ _ _ _ _ Mk); exact P).
    destruct dry; [exact Pa|]. apply (cp_allst_stc _ _ _ Pa).
    destruct (W d Id) as [NO FO]. apply In_nth_error in Id. destruct Id as [q E].
    destruct (Nat.ltb q k) eqn:Q.
    + apply Nat.ltb_lt in Q. destruct (Pre q d Q E I) as [ks [K1 K2]].
      pose proof (cp_keys_complete _ _ _ _ _ NO FO K1 R) as Ig.
      exact (cp_mark_from_keep _ _ _ _ _ _ _ _ _ _ _ _ Mk (K2 g Ig)).
    + apply Nat.ltb_ge in Q.
      assert (Is : In d (skipn k (cp_docs s))).
      { apply (nth_error_In _ (q - k)%nat). rewrite nth_error_skipn. replace (k + (q - k))%nat with q by lia. exact E. }
      destruct (cp_mark_from_done _ _ _ _ _ _ _ _ _ _ Mk d Is) as [ks [K1 K2]].
      pose proof (cp_keys_complete _ _ _ _ _ NO FO K1 R) as Ig. destruct (K2 g Ig) as [A _]. exact A.
Qed.

Theorem cp_safety_fixed_hist : forall rs s,
  cp_wf s -> cp_pend_inv s ->
  forall g, cp_referenced s g -> cp_present s g -> cp_present (cp_runs true s rs) g.
Proof.
  intros rs. induction rs as [|r t IH]; intros s W I g R P; cbn; [exact P|].
  apply IH; [apply cp_wf_run; exact W|apply cp_pend_inv_run; exact I|apply cp_referenced_run; exact R|].
  exact (cp_safety_fixed_step s r W I g R P).
Qed.

End Keyed.

(* ---------- forms used by C14_Properties.v ---------- *)
Lemma cp_pend_inv_none : forall bd s, cp_pending s = None -> cp_pend_inv bd s.
Proof. intros bd s E. unfold cp_pend_inv. rewrite E. exact Logic.I. Qed.

(* the repaired map needs the Conflict-flag clause only *)
Lemma cp_flags_wf : forall s, cp_flags_ok s -> cp_wf true s.
Proof. intros s H d I. split; [left; reflexivity|exact (H d I)]. Qed.

Theorem cp_safety_fixed_hist_init : forall bd rs s,
  cp_wf bd s -> cp_pending s = None ->
  forall g, cp_referenced s g -> cp_present s g -> cp_present (cp_runs bd true s rs) g.
Proof. intros bd rs s W E. exact (cp_safety_fixed_hist bd rs s W (cp_pend_inv_none bd s E)). Qed.

(* the theorems for the code as it is since 360f98e: [bd = true], hypothesis [cp_flags_ok] *)
Theorem cp_safety_docid : forall fixed s r s' res,
  cp_run true fixed s r = (s', res) -> cp_fresh_mode s r -> cp_flags_ok s -> cp_rstatus res = CpCompleted ->
  forall g, cp_referenced s g -> cp_present s g -> cp_present s' g.
Proof. intros fixed s r s' res H M W. exact (cp_safety true fixed s r s' res H M (cp_flags_wf s W)). Qed.

Theorem cp_cleanup_exact_docid : forall fixed s r s' res,
  cp_run true fixed s r = (s', res) -> cp_fresh_mode s r -> cp_flags_ok s -> cp_no_faults r ->
  cp_id_unused (cp_rid r) s -> cp_dry r = false ->
  cp_rstatus res = CpCompleted /\
  (forall g, cp_present s' g <-> cp_present s g /\ cp_referenced s g) /\
  cp_id_unused (cp_rid r) s' /\ cp_pending s' = None /\
  cp_rpurged res = N.of_nat (length (cp_atts s) - length (cp_atts s')).
Proof. intros fixed s r s' res H M W. exact (cp_cleanup_exact true fixed s r s' res H M (cp_flags_wf s W)). Qed.

Theorem cp_safety_hist_docid : forall fixed rs s,
  cp_flags_ok s -> cp_fresh_hist true fixed s rs = true ->
  forall g, cp_referenced s g -> cp_present s g -> cp_present (cp_runs true fixed s rs) g.
Proof. intros fixed rs s W. exact (cp_safety_hist true fixed rs s (cp_flags_wf s W)). Qed.

Theorem cp_safety_fixed_hist_docid : forall rs s,
  cp_flags_ok s -> cp_pending s = None ->
  forall g, cp_referenced s g -> cp_present s g -> cp_present (cp_runs true true s rs) g.
Proof. intros rs s W. exact (cp_safety_fixed_hist_init true rs s (cp_flags_wf s W)). Qed.

(* a decidable form of the well-formedness conditions, for concrete stores *)
Definition cp_names_okb (bodies : list (N * cp_amap)) (d : cp_doc) : bool :=
  forallb (fun m1 => forallb (fun m2 =>
    forallb (fun e1 => forallb (fun e2 => negb (fst e1 =? fst e2) || (snd e1 =? snd e2)) (cp_v1entries m2)) (cp_v1entries m1))
    (cp_all_maps bodies d)) (cp_all_maps bodies d).
Definition cp_flag_okb (bodies : list (N * cp_amap)) (d : cp_doc) : bool :=
  cp_flag d || forallb (fun m => match cp_v1entries m with [] => true | _ => false end) (cp_nonwin bodies d).
Definition cp_wfb (bd : bool) (s : cp_store) : bool :=
  forallb (fun d => (bd || cp_names_okb (cp_bodies s) d) && cp_flag_okb (cp_bodies s) d) (cp_docs s).
Definition cp_flags_okb (s : cp_store) : bool := forallb (fun d => cp_flag_okb (cp_bodies s) d) (cp_docs s).

Lemma cp_flag_okb_ok : forall bodies d, cp_flag_okb bodies d = true -> cp_flag_ok bodies d.
Proof.
  intros bodies d H2. unfold cp_flag_okb in H2. apply orb_true_iff in H2. destruct H2 as [F|F]; [left; exact F|right].
  intros m Im. rewrite forallb_forall in F. specialize (F m Im). destruct (cp_v1entries m); [reflexivity|discriminate].
Qed.

Lemma cp_wfb_wf : forall bd s, cp_wfb bd s = true -> cp_wf bd s.
Proof.
  intros bd s H d Id. unfold cp_wfb in H. rewrite forallb_forall in H. specialize (H d Id).
  apply andb_true_iff in H. destruct H as [H1 H2]. split; [|exact (cp_flag_okb_ok _ _ H2)].
  apply orb_true_iff in H1. destruct H1 as [B|H1]; [left; exact B|right].
  intros m1 m2 n g1 g2 I1 I2 E1 E2. unfold cp_names_okb in H1. rewrite forallb_forall in H1.
  specialize (H1 m1 I1). rewrite forallb_forall in H1. specialize (H1 m2 I2). rewrite forallb_forall in H1.
  specialize (H1 _ E1). rewrite forallb_forall in H1. specialize (H1 _ E2). cbn in H1.
  rewrite N.eqb_refl in H1. cbn in H1. apply N.eqb_eq in H1. exact H1.
Qed.

Lemma cp_flags_okb_ok : forall s, cp_flags_okb s = true -> cp_flags_ok s.
Proof.
  intros s H d Id. unfold cp_flags_okb in H. rewrite forallb_forall in H. exact (cp_flag_okb_ok _ _ (H d Id)).
Qed.
