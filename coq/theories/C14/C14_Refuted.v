(* C14, not property obligations: two findings of the unchanged tree (fixed = false), both in databases with
   allow_conflicts = true and the sweep enabled (cross-cluster versioning off).  Each witness below is replayed
   on the real code by the corpus of harness/db/verif_c14_test.go (monitor signatures in brackets).

   (B) [promoted-leaf-attachment-swept]  Tombstoning the winning branch deletes the surviving branch's data.
       storeOldBodyInRevTreeAndUpdateCurrent -> promoteNonWinningRevisionBody moves the surviving leaf's body,
       "_attachments" included, into the top-level body, clears its HasAttachments flag, and the tombstone's
       (empty) attachment map becomes the document-level map.  getAttachmentIDsForLeafRevisions(after) looks at
       the document-level map and at flagged leaves only, so the promoted winner's attachments are "obsolete".
   (A) [nonwinning-write-clobbers-winner-attachments]  storeOldBodyInRevTreeAndUpdateCurrent assigns
       doc.SetAttachments(newDoc.Attachments()) even when the new revision does not win: the winner's attachment
       map is replaced by the loser's, the loser's own stored body carries none.

   Repaired behaviour (fixed = true in the model, the patch proposed to the maintainers): stamp a non-winning
   revision's attachments into its own stored body and leave the document-level map alone; lift a promoted
   body's "_attachments" into the document-level map; do not skip the new revision in the "after" set. *)
From SG Require Import Base.Prelude C14.Attachments C14.AttachmentsProofs C14.AttachmentsTheorems.
Open Scope N_scope.

Definition r1 : revid := (1, 50).
Definition r2a : revid := (2, 10).
Definition r2f : revid := (2, 90).
Definition r3f : revid := (3, 90).

(* create with a = content 5; branch 2-a keeps a by stub; branch 2-f (wins) adds b = content 6 *)
Definition histB : list event :=
  [ Write (W KPut 0 r1 None false [(0, AData 5)]);
    Write (W KPush 0 r2a (Some r1) false [(0, AStub 5 1 false)]);
    Write (W KPush 0 r2f (Some r1) false [(1, AData 6)]) ].
Definition tombB : event := Write (W KPush 0 r3f (Some r2f) true []).

(* the full-strength statement (no hypothesis about promotions) for the code as it is *)
Definition C14_att_safety_full_statement : Prop :=
  forall ac sw es e k,
    stored (run false ac sw init es) k ->
    referenced (step_state false ac sw (run false ac sw init es) e) k ->
    stored (step_state false ac sw (run false ac sw init es) e) k.

Lemma histB_witness :
  stored (run false true true init histB) (0, 5) /\
  referenced (step_state false true true (run false true true init histB) tombB) (0, 5) /\
  ~ stored (step_state false true true (run false true true init histB) tombB) (0, 5).
Proof.
  split; [vm_compute; reflexivity|]. split.
  - eexists. split; [vm_compute; reflexivity|]. vm_compute. left. reflexivity.
  - vm_compute. discriminate.
Qed.

Lemma C14_att_safety_refuted : ~ C14_att_safety_full_statement.
Proof.
  intros F. destruct histB_witness as [A [B C]]. apply C. apply (F true true histB tombB (0, 5) A B).
Qed.

(* the same history under the repaired behaviour keeps the data *)
Example histB_repaired :
  stored (step_state true true true (run true true true init histB) tombB) (0, 5).
Proof. vm_compute. reflexivity. Qed.

(* (A): winner 2-f keeps a by stub; a pushed sibling 2-a that loses brings b.  Afterwards a reader of the
   untouched winner gets b instead of a, a reader of 2-a gets nothing, and a's data is swept *)
Definition histA : list event :=
  [ Write (W KPut 0 r1 None false [(0, AData 5)]);
    Write (W KPush 0 r2f (Some r1) false [(0, AStub 5 1 false)]) ].
Definition loseA : event := Write (W KPush 0 r2a (Some r1) false [(1, AData 6)]).

Definition leaf_view (s : state) (dk : N) (id : revid) : option amap :=
  match dlookup dk (s_docs s) with
  | Some d => match find_rev (d_revs d) id with
              | Some r => if is_leaf (d_revs d) r then Some (visible d r) else None
              | None => None
              end
  | None => None
  end.

(* an event that does not touch a leaf leaves the attachments a reader of that leaf gets unchanged *)
Definition C14_untouched_leaf_intact_full_statement : Prop :=
  forall ac sw es w id m,
    id <> w_rev w -> w_parent w <> Some id ->
    leaf_view (run false ac sw init es) (w_doc w) id = Some m ->
    leaf_view (step_state false ac sw (run false ac sw init es) (Write w)) (w_doc w) id = Some m.

Lemma C14_untouched_leaf_intact_refuted : ~ C14_untouched_leaf_intact_full_statement.
Proof.
  intros F.
  specialize (F true true histA (W KPush 0 r2a (Some r1) false [(1, AData 6)]) r2f
                [(0, Meta 5 1 true)]).
  assert (r2f <> r2a) as N1 by discriminate.
  assert (Some r1 <> Some r2f) as N2 by discriminate.
  specialize (F N1 N2 eq_refl). vm_compute in F. discriminate F.
Qed.

Example histA_views :
  leaf_view (step_state false true true (run false true true init histA) loseA) 0 r2f = Some [(1, Meta 6 2 true)] /\
  leaf_view (step_state false true true (run false true true init histA) loseA) 0 r2a = Some [] /\
  ~ stored (step_state false true true (run false true true init histA) loseA) (0, 5).
Proof. split; [reflexivity|]. split; [reflexivity|]. vm_compute. discriminate. Qed.

Example histA_repaired :
  leaf_view (step_state true true true (run true true true init histA) loseA) 0 r2f = Some [(0, Meta 5 1 true)] /\
  leaf_view (step_state true true true (run true true true init histA) loseA) 0 r2a = Some [(1, Meta 6 2 true)] /\
  stored (step_state true true true (run true true true init histA) loseA) (0, 5).
Proof. split; [reflexivity|]. split; [reflexivity|]. vm_compute. reflexivity. Qed.


(* ---------------- attachment compaction: two findings ----------------
   (C) [compaction-same-name-leaf-attachment-unmarked]  REPAIRED in commit 360f98e; the witness is kept for the
       behaviour before it ([bd = false]).  attachmentCompactMarkPhase collected the data documents to stamp in a
       Go map keyed by the attachment NAME (attachmentKeys[attName] = attKey): of two revision bodies of one
       document that use the same name for different legacy contents -- the winner and a conflicting leaf that
       both replaced "a" -- only the one handled last was stamped; the other one's data was swept although a leaf
       references it.  Repair: key the map by the data document id ([bd = true]).
   (D) [compaction-resume-after-failed-mark-purges-referenced]  KNOWN FINDING of the current tree.  When the mark
       phase aborts (storage error on an out-of-line body or on a stamp) the manager's status is "error"; Start
       without reset=true resumes the SAME compaction id in phase "mark" from the feed checkpoint.  The feed
       clients (base/dcp_client_worker.go, and rosmar) advance the checkpoint past every event they delivered
       whatever the callback returned, so the resumed mark phase starts behind the failed document (and behind
       whatever was delivered before the feed closed), stamps nothing for them, and the sweep purges their
       attachments.  Repair: do not checkpoint the event whose callback failed / restart the mark phase from the
       beginning when the previous state is error ([fixed = true]). *)
From SG Require Import C14.Compaction C14.CompactionTheorems.

(* (C): winner a=1, inline conflicting leaf a=2, both data documents present, no faults *)
Definition cstoreC : cp_store :=
  CpSt [CpDoc true [(0, CpAtt 1 true)] [[(0, CpAtt 2 true)]] []] [] [(1, []); (2, [])] None.

(* C14_compaction_safety for the name-keyed map, with the hypothesis the repaired map gets by with *)
Definition C14_compaction_safety_name_keyed_statement : Prop :=
  forall s r s' res,
    cp_run false false s r = (s', res) -> cp_fresh_mode s r -> cp_flags_ok s -> cp_rstatus res = CpCompleted ->
    forall g, cp_referenced s g -> cp_present s g -> cp_present s' g.

Lemma C14_compaction_same_name_refuted : ~ C14_compaction_safety_name_keyed_statement.
Proof.
  intros F.
  assert (W : cp_flags_ok cstoreC) by (apply cp_flags_okb_ok; vm_compute; reflexivity).
  assert (R : cp_referenced cstoreC 1).
  { eexists. split; [left; reflexivity|]. exists [(0, CpAtt 1 true)]. split; [left; reflexivity|left; reflexivity]. }
  assert (P : cp_present cstoreC 1) by (left; reflexivity).
  pose proof (F cstoreC (CpRun 1 true false (CpF [] []) 0 []) _ _ eq_refl (or_introl eq_refl) W eq_refl 1 R P) as K.
  vm_compute in K. destruct K as [K|[]]. discriminate K.
Qed.

(* the same run with the map keyed by the data document id keeps both, and counts 2 marked *)
Example cstoreC_repaired :
  map fst (cp_atts (fst (cp_run true false cstoreC (CpRun 1 true false (CpF [] []) 0 [])))) = [1; 2] /\
  snd (cp_run true false cstoreC (CpRun 1 true false (CpF [] []) 0 [])) = CpRes CpCompleted 2 0 /\
  snd (cp_run false false cstoreC (CpRun 1 true false (CpF [] []) 0 [])) = CpRes CpCompleted 1 1.
Proof. split; [|split]; vm_compute; reflexivity. Qed.

(* (D), the code as it is now ([bd = true], [fixed = false]).  Run 1: the read of the out-of-line body fails,
   the run reports an error and keeps everything.  Run 2, no reset, no fault, resumed feed starting anywhere behind
   the failed document (it starts from the beginning only when the checkpoint was not written yet): success, and all
   three referenced attachments of the conflicted document are gone (digest 3, shared with the second document,
   survives only if the resumed feed happens to reach that document) *)
Definition cstoreD : cp_store :=
  CpSt [ CpDoc true [(0, CpAtt 1 true)] [[(1, CpAtt 2 true)]] [0];
         CpDoc false [(0, CpAtt 3 true)] [] [] ]
       [(0, [(2, CpAtt 3 true)])] [(1, []); (2, []); (3, []); (4, [])] None.
Definition runD1 : cp_runin := CpRun 1 true false (CpF [0] []) 0 [].
Definition runD2 (skip : nat) : cp_runin := CpRun 2 false false (CpF [] []) skip [].

Definition C14_compaction_resume_safety_full_statement : Prop :=
  forall s rs, cp_flags_ok s -> cp_pending s = None ->
    forall g, cp_referenced s g -> cp_present s g -> cp_present (cp_runs true false s rs) g.

Lemma C14_compaction_resume_refuted : ~ C14_compaction_resume_safety_full_statement.
Proof.
  intros F.
  assert (W : cp_flags_ok cstoreD) by (apply cp_flags_okb_ok; vm_compute; reflexivity).
  assert (R : cp_referenced cstoreD 1).
  { eexists. split; [left; reflexivity|]. exists [(0, CpAtt 1 true)]. split; [left; reflexivity|left; reflexivity]. }
  assert (P : cp_present cstoreD 1) by (left; reflexivity).
  pose proof (F cstoreD [runD1; runD2 1] W eq_refl 1 R P) as K. vm_compute in K. intuition discriminate.
Qed.

Example cstoreD_runs :
  cp_rstatus (snd (cp_run true false cstoreD runD1)) = CpFailed /\
  (forall skip, (1 <= skip <= 2)%nat ->
     cp_rstatus (snd (cp_run true false (fst (cp_run true false cstoreD runD1)) (runD2 skip))) = CpCompleted /\
     ~ cp_present (cp_runs true false cstoreD [runD1; runD2 skip]) 1 /\ ~ cp_present (cp_runs true false cstoreD [runD1; runD2 skip]) 2) /\
  (* the repaired resume keeps all of them *)
  map fst (cp_atts (cp_runs true true cstoreD [runD1; runD2 2])) = [1; 2; 3].
Proof.
  split; [vm_compute; reflexivity|]. split.
  - intros skip L. destruct skip as [|[|[|k]]]; try lia; (split; [vm_compute; reflexivity|split; vm_compute; intuition discriminate]).
  - vm_compute. reflexivity.
Qed.
