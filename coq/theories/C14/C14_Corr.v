(* C14 correspondence: histories run on a real collection (harness/db/verif_c14_test.go) are replayed on the
   model, event by event; after EVERY event the implementation's projected observables must equal the model's:
   the outcome, per document the winning revision and, for every leaf revision, the attachments a reader gets
   (name, digest, readable) -- and the set of attachment data documents in the bucket.
   Second case kind: the replication allow-list (addAllowedAttachments / removeAllowedAttachments /
   handleGetAttachment) against C14/AllowList.v.
   Third case kind: attachment compaction -- a corpus of legacy documents and data documents, and a list of runs
   of the real AttachmentCompactionManager with injected read / stamp faults, against C14/Compaction.v. *)
From SG Require Export Base.Prelude C14.Attachments C14.AllowList C14.Compaction C14.RevTreePersist.
Open Scope N_scope.

(* the tree is NOT repaired: db/crud.go behaves as [fixed = false] (see C14_Refuted.v) *)
Definition code_fixed : bool := false.

Definition attobs : Type := (N * N * bool)%type.          (* name, digest, data readable *)
Record docobs := DO { o_doc : N; o_cur : option revid; o_leaves : list (revid * list attobs) }.
Record obsv := OB { o_out : outcome; o_docs : list docobs; o_store : list key }.

Definition WP (k : wkind) (doc : N) (rv : revid) (parent : option revid) (deleted : bool) (atts : list (N * aspec)) : wop :=
  W k doc rv parent deleted atts.

(* compaction: a run as the harness asked for it, and what the manager and the bucket showed afterwards *)
Record cp_crun := CRun { cr_reset : bool; cr_dry : bool; cr_read : list N; cr_stamp : list N }.
Record cp_cobs := CObs {
  co_completed : bool; co_marked : N; co_purged : N;
  co_remain : list (N * list N) }.       (* remaining _sync:att: documents, each with the runs whose id it carries *)

Inductive case :=
| CHist (ac sw : bool) (evs : list event) (obs : list obsv)
(* histories with bodies on both sides of the inline limit: [big] = the revisions written with a large body; the
   model reloads (marshal ; unmarshal) every document before every event; [pobs]: after every event, per document,
   every non-current leaf as STORED: (revision, listed in hasAttachments, body under bodyKeyMap) *)
| CHistR (ac sw : bool) (big : list revid) (evs : list event) (obs : list obsv)
         (pobs : list (list (N * list (revid * bool * bool))))
| CAllow (evs : list aev) (obs : list (list N))          (* after each event: the keys that are served *)
| CCompact (docs : list cp_doc) (bodies : list (N * cp_amap)) (atts : list N) (runs : list (cp_crun * cp_cobs)).

Definition outcome_eqb (a b : outcome) : bool :=
  match a, b with
  | OAck, OAck | OConflict, OConflict | OCancel, OCancel | OUnsupported, OUnsupported => true
  | _, _ => false
  end.

Definition attobs_eqb (a b : attobs) : bool :=
  let '(n, d, r) := a in let '(n', d', r') := b in (n =? n') && (d =? d') && Bool.eqb r r'.

Definition subset {A} (eqb : A -> A -> bool) (a b : list A) : bool := forallb (fun x => existsb (eqb x) b) a.
Definition same_set {A} (eqb : A -> A -> bool) (a b : list A) : bool :=
  subset eqb a b && subset eqb b a && (N.of_nat (length a) =? N.of_nat (length b)).

Definition key_eqb (a b : key) : bool := (fst a =? fst b) && (snd a =? snd b).

Definition model_atts (s : state) (dk : N) (d : doc) (r : rev) : list attobs :=
  map (fun e => (fst e, m_dig (snd e), m_v2 (snd e) && kmem (dk, m_dig (snd e)) (s_store s))) (visible d r).

Definition model_leaves (s : state) (dk : N) (d : doc) : list (revid * list attobs) :=
  map (fun r => (r_id r, model_atts s dk d r)) (filter (is_leaf (d_revs d)) (d_revs d)).

Definition leaf_eqb (a b : revid * list attobs) : bool :=
  revid_eqb (fst a) (fst b) && same_set attobs_eqb (snd a) (snd b).

Definition doc_ok (s : state) (o : docobs) : bool :=
  match dlookup (o_doc o) (s_docs s) with
  | Some d => orevid_eqb (d_cur d) (o_cur o) && same_set leaf_eqb (model_leaves s (o_doc o) d) (o_leaves o)
  | None => false
  end.

Fixpoint dedup_keys (l : list key) : list key :=
  match l with
  | [] => []
  | k :: r => if kmem k r then dedup_keys r else k :: dedup_keys r
  end.

Definition obs_ok (s : state) (out : outcome) (o : obsv) : bool :=
  outcome_eqb out (o_out o)
  && forallb (doc_ok s) (o_docs o)
  && (N.of_nat (length (s_docs s)) =? N.of_nat (length (o_docs o)))
  && same_set key_eqb (dedup_keys (s_store s)) (o_store o).

Fixpoint check_hist (ac sw : bool) (s : state) (evs : list event) (obs : list obsv) : bool :=
  match evs, obs with
  | [], [] => true
  | e :: er, o :: or =>
      let '(s', out, _) := step code_fixed ac sw s e in
      obs_ok s' out o && check_hist ac sw s' er or
  | _, _ => false
  end.

(* the stored view of the non-current leaves, read off the marshalled tree *)
Definition pleaf_eqb (a b : revid * bool * bool) : bool :=
  let '(i, f, x) := a in let '(i', f', x') := b in revid_eqb i i' && Bool.eqb f f' && Bool.eqb x x'.

Definition model_pleaves (bigf : revid -> bool) (d : doc) : list (revid * bool * bool) :=
  let p := fst (marshal bigf (d_revs d)) in
  flat_map (fun ir => if is_leaf (d_revs d) (snd ir) && negb (is_cur d (snd ir))
                      then [(r_id (snd ir), is_some (nlookup (fst ir) (p_hasatt p)), is_some (nlookup (fst ir) (p_bodykeys p)))]
                      else [])
           (combine (seq 0 (length (d_revs d))) (d_revs d)).

Definition pdoc_ok (bigf : revid -> bool) (s : state) (o : N * list (revid * bool * bool)) : bool :=
  match dlookup (fst o) (s_docs s) with
  | Some d => same_set pleaf_eqb (model_pleaves bigf d) (snd o)
  | None => false
  end.

Fixpoint check_histR (bigf : revid -> bool) (ac sw : bool) (s : state) (evs : list event) (obs : list obsv)
                     (pobs : list (list (N * list (revid * bool * bool)))) : bool :=
  match evs, obs, pobs with
  | [], [], [] => true
  | e :: er, o :: or, po :: pr =>
      let '(s', out, _) := stepR bigf code_fixed ac sw s e in
      obs_ok s' out o && forallb (pdoc_ok bigf s') po && (N.of_nat (length (s_docs s')) =? N.of_nat (length po))
      && check_histR bigf ac sw s' er or pr
  | _, _, _ => false
  end.

Fixpoint check_allow (a : alist) (op : list (N * list N)) (evs : list aev) (obs : list (list N)) : bool :=
  match evs, obs with
  | [], [] => true
  | e :: er, o :: or =>
      let '(a', op') := astep (a, op) e in
      (* every key reported as served is allowed by the model, every queried key the model allows is served *)
      forallb (fun k => allowed a' k) o
      && forallb (fun k => nmem k o) (served_keys a')
      && check_allow a' op' er or
  | _, _ => false
  end.

(* compaction.  The code as it is: [cp_code_fixed = false] (a resumed mark phase starts behind the failed document,
   see C14_Refuted.v).  The fresh id of run number n is n (the harness numbers the manager's ids the same way).
   The scheduler's choices are resolved from the observation: the digests of the failing document stamped before
   the failure are those the bucket shows with the run's id; the start of a resumed feed is searched. *)
Definition cp_code_fixed : bool := false.
(* since commit 360f98e the mark map is keyed by the data document id (before: by attachment name, C14_Refuted.v) *)
Definition cp_mark_by_docid : bool := true.

Definition cp_entry_eqb (a b : N * list N) : bool := (fst a =? fst b) && same_set N.eqb (snd a) (snd b).

Definition cp_obs_ok (s' : cp_store) (res : cp_result) (fresh : bool) (o : cp_cobs) : bool :=
  let completed := match cp_rstatus res with CpCompleted => true | CpFailed => false end in
  Bool.eqb completed (co_completed o)
  (* the counters of a resumed run continue those of the status document; compared for new runs only *)
  && (if fresh then cp_rpurged res =? co_purged o else true)
  && (if fresh && completed then cp_rmarked res =? co_marked o else true)
  && same_set cp_entry_eqb (cp_atts s') (co_remain o).

Fixpoint cp_check_runs (n : N) (s : cp_store) (runs : list (cp_crun * cp_cobs)) : bool :=
  match runs with
  | [] => true
  | (cr, o) :: rest =>
      let fresh := cr_reset cr || match cp_pending s with None => true | Some _ => false end in
      let c := match cr_reset cr, cp_pending s with false, Some p => cp_pid p | _, _ => n end in
      let partial := map fst (filter (fun e => cp_mem c (snd e)) (co_remain o)) in
      existsb (fun k =>
                 let r := CpRun n (cr_reset cr) (cr_dry cr) (CpF (cr_read cr) (cr_stamp cr)) k partial in
                 let '(s', res) := cp_run cp_mark_by_docid cp_code_fixed s r in
                 cp_obs_ok s' res fresh o && cp_check_runs (N.succ n) s' rest)
              (if fresh then [0%nat] else seq 0 (S (length (cp_docs s))))
  end.

Definition check (c : case) : bool :=
  match c with
  | CHist ac sw evs obs => check_hist ac sw init evs obs
  | CHistR ac sw big evs obs pobs =>
      check_histR (fun id => existsb (revid_eqb id) big) ac sw init evs obs pobs
  | CAllow evs obs => check_allow [] [] evs obs
  | CCompact docs bodies atts runs => cp_check_runs 1 (CpSt docs bodies (map (fun g => (g, [])) atts) None) runs
  end.

Definition mismatches (cs : list case) : list N := failing check cs.
