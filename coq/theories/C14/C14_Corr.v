(* C14 correspondence: histories run on a real collection (harness/db/verif_c14_test.go) are replayed on the
   model, event by event; after EVERY event the implementation's projected observables must equal the model's:
   the outcome, per document the winning revision and, for every leaf revision, the attachments a reader gets
   (name, digest, readable) -- and the set of attachment data documents in the bucket.
   Second case kind: the replication allow-list (addAllowedAttachments / removeAllowedAttachments /
   handleGetAttachment) against C14/AllowList.v. *)
From SG Require Export Base.Prelude C14.Attachments C14.AllowList.
Open Scope N_scope.

(* the tree is NOT repaired: db/crud.go behaves as [fixed = false] (see C14_Refuted.v) *)
Definition code_fixed : bool := false.

Definition attobs : Type := (N * N * bool)%type.          (* name, digest, data readable *)
Record docobs := DO { o_doc : N; o_cur : option revid; o_leaves : list (revid * list attobs) }.
Record obsv := OB { o_out : outcome; o_docs : list docobs; o_store : list key }.

Definition WP (k : wkind) (doc : N) (rv : revid) (parent : option revid) (deleted : bool) (atts : list (N * aspec)) : wop :=
  W k doc rv parent deleted atts.

Inductive case :=
| CHist (ac sw : bool) (evs : list event) (obs : list obsv)
| CAllow (evs : list aev) (obs : list (list N)).         (* after each event: the keys that are served *)

Definition outcome_eqb (a b : outcome) : bool :=
  match a, b with
  | OAck, OAck | OConflict, OConflict | OCancel, OCancel | OUnsupported, OUnsupported => true
  | _, _ => false
  end.

Definition attobs_eqb (a b : attobs) : bool :=
  let '(n, d, r) := a in let '(n', d', r') := b in (n =? n') && (d =? d') && Bool.eqb r r'.

Definition subset {A} (eqb : A -> A -> bool) (a b : list A) : bool := forallb (fun x => existsb (eqb x) b) a.
Definition same_set {A} (eqb : A -> A -> bool) (a b : list A) : bool :=
  subset eqb a b && subset eqb b a && (N.of_nat (length a) =? N.of_nat (length b)).

Definition key_eqb (a b : key) : bool := (fst a =? fst b) && (snd a =? snd b).

Definition model_atts (s : state) (dk : N) (d : doc) (r : rev) : list attobs :=
  map (fun e => (fst e, m_dig (snd e), m_v2 (snd e) && kmem (dk, m_dig (snd e)) (s_store s))) (visible d r).

Definition model_leaves (s : state) (dk : N) (d : doc) : list (revid * list attobs) :=
  map (fun r => (r_id r, model_atts s dk d r)) (filter (is_leaf (d_revs d)) (d_revs d)).

Definition leaf_eqb (a b : revid * list attobs) : bool :=
  revid_eqb (fst a) (fst b) && same_set attobs_eqb (snd a) (snd b).

Definition doc_ok (s : state) (o : docobs) : bool :=
  match dlookup (o_doc o) (s_docs s) with
  | Some d => orevid_eqb (d_cur d) (o_cur o) && same_set leaf_eqb (model_leaves s (o_doc o) d) (o_leaves o)
  | None => false
  end.

Fixpoint dedup_keys (l : list key) : list key :=
  match l with
  | [] => []
  | k :: r => if kmem k r then dedup_keys r else k :: dedup_keys r
  end.

Definition obs_ok (s : state) (out : outcome) (o : obsv) : bool :=
  outcome_eqb out (o_out o)
  && forallb (doc_ok s) (o_docs o)
  && (N.of_nat (length (s_docs s)) =? N.of_nat (length (o_docs o)))
  && same_set key_eqb (dedup_keys (s_store s)) (o_store o).

Fixpoint check_hist (ac sw : bool) (s : state) (evs : list event) (obs : list obsv) : bool :=
  match evs, obs with
  | [], [] => true
  | e :: er, o :: or =>
      let '(s', out, _) := step code_fixed ac sw s e in
      obs_ok s' out o && check_hist ac sw s' er or
  | _, _ => false
  end.

Fixpoint check_allow (a : alist) (op : list (N * list N)) (evs : list aev) (obs : list (list N)) : bool :=
  match evs, obs with
  | [], [] => true
  | e :: er, o :: or =>
      let '(a', op') := astep (a, op) e in
      (* every key reported as served is allowed by the model, every queried key the model allows is served *)
      forallb (fun k => allowed a' k) o
      && forallb (fun k => nmem k o) (served_keys a')
      && check_allow a' op' er or
  | _, _ => false
  end.

Definition check (c : case) : bool :=
  match c with
  | CHist ac sw evs obs => check_hist ac sw init evs obs
  | CAllow evs obs => check_allow [] [] evs obs
  end.

Definition mismatches (cs : list case) : list N := failing check cs.
