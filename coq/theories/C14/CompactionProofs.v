(* Lemmas about C14/Compaction.v: the name-keyed map of the mark phase, stamping, sweep, cleanup. *)
From SG Require Import Base.Prelude C14.Compaction.
Open Scope N_scope.

Lemma cp_mem_In : forall c l, cp_mem c l = true <-> In c l.
Proof.
  intros c l. unfold cp_mem. rewrite existsb_exists. split.
  - intros [x [I E]]. apply N.eqb_eq in E. subst. exact I.
  - intros I. exists c. split; [exact I|apply N.eqb_refl].
Qed.

Lemma cp_mem_nil : forall c, cp_mem c [] = false.
Proof. reflexivity. Qed.

Section Keyed.
Variable bd : bool.     (* false: the map keyed by attachment name; true: keyed by data document id *)
Local Notation cp_set := (Compaction.cp_set bd).
Local Notation cp_handle := (Compaction.cp_handle bd).
Local Notation cp_read_exts := (Compaction.cp_read_exts bd).
Local Notation cp_doc_keys := (Compaction.cp_doc_keys bd).
Local Notation cp_mark_doc := (Compaction.cp_mark_doc bd).
Local Notation cp_mark_from := (Compaction.cp_mark_from bd).
Local Notation cp_run := (Compaction.cp_run bd).

(* ---------- the map of the mark phase ---------- *)
Definition cp_key (e : N * N) : N := if bd then snd e else fst e.
Lemma cp_set_in : forall n g k, In (n, g) (cp_set n g k).
Proof.
  intros n g k. induction k as [|[n' g'] r IH]; cbn; [left; reflexivity|].
  destruct (if bd then g' =? g else n' =? n); [left; reflexivity|right; exact IH].
Qed.

Lemma cp_set_inv : forall n g k n' g', In (n', g') (cp_set n g k) -> (n' = n /\ g' = g) \/ In (n', g') k.
Proof.
  intros n g k n' g'. induction k as [|[n1 g1] r IH]; cbn.
  - intros [E|[]]. inversion E. left. split; reflexivity.
  - destruct (if bd then g1 =? g else n1 =? n) eqn:Q; cbn.
    + intros [E|I]; [inversion E; left; split; reflexivity|right; right; exact I].
    + intros [E|I]; [right; left; exact E|]. destruct (IH I) as [L|R]; [left; exact L|right; right; exact R].
Qed.

(* an entry is only ever replaced by one with the same key *)
Lemma cp_set_key : forall n g k x, (exists e, In e k /\ cp_key e = x) -> exists e', In e' (cp_set n g k) /\ cp_key e' = x.
Proof.
  intros n g k x [e [I E]]. induction k as [|[n1 g1] r IH]; [destruct I|]. cbn.
  destruct (if bd then g1 =? g else n1 =? n) eqn:Q.
  - destruct I as [E1|I].
    + subst e. exists (n, g). split; [left; reflexivity|]. unfold cp_key in *. cbn in *.
      destruct bd; apply N.eqb_eq in Q; congruence.
    + exists e. split; [right; exact I|exact E].
  - destruct I as [E1|I].
    + exists e. split; [left; exact E1|exact E].
    + destruct (IH I) as [e' [I' E']]. exists e'. split; [right; exact I'|exact E'].
Qed.

Definition cp_puts (k : cp_keys) (es : cp_keys) : cp_keys := fold_left (fun k e => cp_set (fst e) (snd e) k) es k.

Lemma cp_puts_inv : forall es k n g, In (n, g) (cp_puts k es) -> In (n, g) es \/ In (n, g) k.
Proof.
  induction es as [|[n1 g1] r IH]; intros k n g I; cbn in *; [right; exact I|].
  destruct (IH _ _ _ I) as [L|R]; [left; right; exact L|].
  destruct (cp_set_inv _ _ _ _ _ R) as [[E1 E2]|K]; [subst; left; left; reflexivity|right; exact K].
Qed.

Lemma cp_puts_key_k : forall es k x, (exists e, In e k /\ cp_key e = x) -> exists e', In e' (cp_puts k es) /\ cp_key e' = x.
Proof.
  induction es as [|[n1 g1] r IH]; intros k x H; cbn; [exact H|].
  apply IH. apply cp_set_key. exact H.
Qed.

Lemma cp_puts_key_es : forall es k e, In e es -> exists e', In e' (cp_puts k es) /\ cp_key e' = cp_key e.
Proof.
  induction es as [|[n1 g1] r IH]; intros k e I; [destruct I|]. cbn. destruct I as [E|I].
  - subst e. apply cp_puts_key_k. exists (n1, g1). split; [apply cp_set_in|reflexivity].
  - exact (IH _ _ I).
Qed.

Definition cp_handles (k : cp_keys) (ms : list cp_amap) : cp_keys := fold_left cp_handle ms k.

Lemma cp_handle_puts : forall k m, cp_handle k m = cp_puts k (cp_v1entries m).
Proof. reflexivity. Qed.

Lemma cp_handles_inv : forall ms k n g, In (n, g) (cp_handles k ms) ->
  (exists m, In m ms /\ In (n, g) (cp_v1entries m)) \/ In (n, g) k.
Proof.
  induction ms as [|m r IH]; intros k n g I; cbn in *; [right; exact I|].
  destruct (IH _ _ _ I) as [[m' [I1 I2]]|R].
  - left. exists m'. split; [right; exact I1|exact I2].
  - rewrite cp_handle_puts in R. destruct (cp_puts_inv _ _ _ _ R) as [E|K].
    + left. exists m. split; [left; reflexivity|exact E].
    + right. exact K.
Qed.

Lemma cp_handles_key_k : forall ms k x, (exists e, In e k /\ cp_key e = x) -> exists e', In e' (cp_handles k ms) /\ cp_key e' = x.
Proof.
  induction ms as [|m r IH]; intros k x H; cbn; [exact H|].
  apply IH. rewrite cp_handle_puts. apply cp_puts_key_k. exact H.
Qed.

Lemma cp_handles_key : forall ms k m e, In m ms -> In e (cp_v1entries m) ->
  exists e', In e' (cp_handles k ms) /\ cp_key e' = cp_key e.
Proof.
  induction ms as [|m1 r IH]; intros k m e I E; [destruct I|]. cbn. destruct I as [Q|I].
  - subst m1. apply cp_handles_key_k. rewrite cp_handle_puts. exact (cp_puts_key_es _ _ _ E).
  - exact (IH _ _ _ I E).
Qed.

Lemma cp_handles_app : forall a b k, cp_handles k (a ++ b) = cp_handles (cp_handles k a) b.
Proof. intros a b k. unfold cp_handles. apply fold_left_app. Qed.

(* ---------- the keys of one document ---------- *)
Definition cp_processed (bodies : list (N * cp_amap)) (d : cp_doc) : list cp_amap :=
  if cp_flag d then cp_all_maps bodies d else [cp_win d].

Lemma cp_read_exts_some : forall F bodies es k k',
  cp_read_exts F bodies k es = Some k' -> k' = cp_handles k (cp_ext_maps bodies es).
Proof.
  intros F bodies es. induction es as [|x r IH]; intros k k' H; cbn in *; [inversion H; reflexivity|].
  destruct (cp_mem x (cp_fread F)); [discriminate|].
  destruct (cp_blookup x bodies) as [m|]; cbn.
  - exact (IH _ _ H).
  - exact (IH _ _ H).
Qed.

Lemma cp_read_exts_fault : forall F bodies es k x,
  In x es -> cp_mem x (cp_fread F) = true -> cp_read_exts F bodies k es = None.
Proof.
  intros F bodies es. induction es as [|y r IH]; intros k x I M; [destruct I|]. cbn.
  destruct (cp_mem y (cp_fread F)) eqn:Q; [reflexivity|]. destruct I as [E|I].
  - subst. congruence.
  - exact (IH _ _ I M).
Qed.

Lemma cp_read_exts_nofault : forall F bodies es k,
  cp_fread F = [] -> cp_read_exts F bodies k es = Some (cp_handles k (cp_ext_maps bodies es)).
Proof.
  intros F bodies es. induction es as [|x r IH]; intros k E; cbn; [reflexivity|].
  rewrite E. cbn. rewrite (IH _ E). destruct (cp_blookup x bodies); reflexivity.
Qed.

Lemma cp_doc_keys_some : forall F bodies d ks,
  cp_doc_keys F bodies d = Some ks -> ks = cp_handles [] (cp_processed bodies d).
Proof.
  intros F bodies d ks H. unfold Compaction.cp_doc_keys, cp_processed in *. destruct (cp_flag d).
  - apply cp_read_exts_some in H. subst ks. unfold cp_all_maps, cp_nonwin. cbn [cp_handles fold_left].
    change (fold_left cp_handle (cp_inl d ++ cp_ext_maps bodies (cp_ext d)) (cp_handle [] (cp_win d)))
      with (cp_handles (cp_handle [] (cp_win d)) (cp_inl d ++ cp_ext_maps bodies (cp_ext d))).
    rewrite cp_handles_app. reflexivity.
  - inversion H. reflexivity.
Qed.

Lemma cp_doc_keys_nofault : forall F bodies d,
  cp_fread F = [] -> cp_doc_keys F bodies d = Some (cp_handles [] (cp_processed bodies d)).
Proof.
  intros F bodies d E. unfold Compaction.cp_doc_keys, cp_processed. destruct (cp_flag d); [|reflexivity].
  rewrite (cp_read_exts_nofault _ _ _ _ E). unfold cp_all_maps, cp_nonwin. cbn [cp_handles fold_left].
  change (fold_left cp_handle (cp_inl d ++ cp_ext_maps bodies (cp_ext d)) (cp_handle [] (cp_win d)))
    with (cp_handles (cp_handle [] (cp_win d)) (cp_inl d ++ cp_ext_maps bodies (cp_ext d))).
  rewrite cp_handles_app. reflexivity.
Qed.

Lemma cp_processed_sub : forall bodies d m, In m (cp_processed bodies d) -> In m (cp_all_maps bodies d).
Proof.
  intros bodies d m. unfold cp_processed. destruct (cp_flag d); [auto|].
  intros [E|[]]. left. exact E.
Qed.

Lemma cp_v1digs_entry : forall m g, In g (cp_v1digs m) <-> exists n, In (n, g) (cp_v1entries m).
Proof.
  intros m g. unfold cp_v1digs. rewrite in_map_iff. split.
  - intros [[n g'] [E I]]. cbn in E. subst. exists n. exact I.
  - intros [n I]. exists (n, g). split; [reflexivity|exact I].
Qed.

(* soundness: only digests some revision body lists are in the map *)
Lemma cp_keys_sound : forall F bodies d ks g,
  cp_doc_keys F bodies d = Some ks -> In g (map snd ks) -> cp_doc_refs bodies d g.
Proof.
  intros F bodies d ks g H I. apply cp_doc_keys_some in H. subst ks.
  apply in_map_iff in I. destruct I as [[n g'] [E I]]. cbn in E. subst g'.
  destruct (cp_handles_inv _ _ _ _ I) as [[m [I1 I2]]|[]].
  exists m. split; [exact (cp_processed_sub _ _ _ I1)|]. apply cp_v1digs_entry. exists n. exact I2.
Qed.

(* completeness: the Conflict-flag invariant, and for the name-keyed map the absence of name clashes *)
Lemma cp_keys_complete : forall F bodies d ks g,
  (bd = true \/ cp_names_ok bodies d) -> cp_flag_ok bodies d ->
  cp_doc_keys F bodies d = Some ks -> cp_doc_refs bodies d g -> In g (map snd ks).
Proof.
  intros F bodies d ks g NO FO H [m [Im Ig]]. apply cp_doc_keys_some in H. subst ks.
  apply cp_v1digs_entry in Ig. destruct Ig as [n En].
  assert (P : In m (cp_processed bodies d)).
  { unfold cp_processed. destruct (cp_flag d) eqn:Fl; [exact Im|].
    destruct FO as [FO|FO]; [congruence|]. destruct Im as [E|Im]; [left; exact E|].
    rewrite (FO _ Im) in En. destruct En. }
  destruct (cp_handles_key _ [] _ _ P En) as [[n' g'] [I K]].
  assert (g' = g).
  { unfold cp_key in K. cbn in K. destruct NO as [B|NO].
    - rewrite B in K. exact K.
    - destruct bd; [exact K|]. subst n'.
      destruct (cp_handles_inv _ _ _ _ I) as [[m' [I1 I2]]|[]].
      exact (NO m' m n g' g (cp_processed_sub _ _ _ I1) Im I2 En). }
  subst g'. apply in_map_iff. exists (n', g). split; [reflexivity|exact I].
Qed.

(* ---------- stamping ---------- *)
Definition cp_allst (c g : N) (a : list (N * list N)) : Prop := forall e, In e a -> fst e = g -> In c (snd e).
Definition cp_stc (c : N) (a : list (N * list N)) (g : N) : Prop := exists e, In e a /\ fst e = g /\ In c (snd e).

Lemma cp_stamp1_fst : forall c g a, map fst (cp_stamp1 c g a) = map fst a.
Proof.
  intros c g a. unfold cp_stamp1. rewrite map_map. apply map_ext. intros e. destruct (fst e =? g); reflexivity.
Qed.

Lemma cp_stamp1_allst : forall c g a, cp_allst c g (cp_stamp1 c g a).
Proof.
  intros c g a e I E. unfold cp_stamp1 in I. apply in_map_iff in I. destruct I as [e0 [Q I]].
  destruct (fst e0 =? g) eqn:T.
  - subst e. cbn. destruct (cp_mem c (snd e0)) eqn:M; [apply cp_mem_In; exact M|left; reflexivity].
  - subst e. apply N.eqb_neq in T. contradiction.
Qed.

Lemma cp_stamp1_keep : forall c g g' a, cp_allst c g' a -> cp_allst c g' (cp_stamp1 c g a).
Proof.
  intros c g g' a H e I E. unfold cp_stamp1 in I. apply in_map_iff in I. destruct I as [e0 [Q I]].
  destruct (fst e0 =? g) eqn:T.
  - subst e. cbn in *. pose proof (H e0 I E) as K. destruct (cp_mem c (snd e0)); [exact K|right; exact K].
  - subst e. exact (H e0 I E).
Qed.

Lemma cp_stamp1_stc_inv : forall c g a g', cp_stc c (cp_stamp1 c g a) g' -> g' = g \/ cp_stc c a g'.
Proof.
  intros c g a g' [e [I [E S]]]. unfold cp_stamp1 in I. apply in_map_iff in I. destruct I as [e0 [Q I]].
  destruct (fst e0 =? g) eqn:T.
  - apply N.eqb_eq in T. subst e. cbn in E. left. congruence.
  - subst e. right. exists e0. auto.
Qed.

Lemma cp_stamp1_stc_keep : forall c g a g', cp_stc c a g' -> cp_stc c (cp_stamp1 c g a) g'.
Proof.
  intros c g a g' [e [I [E S]]].
  exists (if fst e =? g then (fst e, if cp_mem c (snd e) then snd e else c :: snd e) else e). split.
  - unfold cp_stamp1. apply in_map_iff. exists e. split; [reflexivity|exact I].
  - destruct (fst e =? g); cbn; [|auto]. split; [exact E|]. destruct (cp_mem c (snd e)); [exact S|right; exact S].
Qed.

Lemma cp_stamp_all_fst : forall c gs a, map fst (cp_stamp_all c gs a) = map fst a.
Proof.
  intros c gs. induction gs as [|g r IH]; intros a; cbn; [reflexivity|].
  unfold cp_stamp_all in IH. rewrite IH. apply cp_stamp1_fst.
Qed.

Lemma cp_stamp_all_keep : forall c gs g' a, cp_allst c g' a -> cp_allst c g' (cp_stamp_all c gs a).
Proof.
  intros c gs g'. induction gs as [|g r IH]; intros a H; cbn; [exact H|].
  apply IH. apply cp_stamp1_keep. exact H.
Qed.

Lemma cp_stamp_all_allst : forall c gs g a, In g gs -> cp_allst c g (cp_stamp_all c gs a).
Proof.
  intros c gs g. induction gs as [|g1 r IH]; intros a I; [destruct I|]. cbn. destruct I as [E|I].
  - subst g1. apply cp_stamp_all_keep. apply cp_stamp1_allst.
  - exact (IH _ I).
Qed.

Lemma cp_stamp_all_stc_inv : forall c gs a g', cp_stc c (cp_stamp_all c gs a) g' -> In g' gs \/ cp_stc c a g'.
Proof.
  intros c gs. induction gs as [|g r IH]; intros a g' H; cbn in *; [right; exact H|].
  destruct (IH _ _ H) as [L|R]; [left; right; exact L|].
  destruct (cp_stamp1_stc_inv _ _ _ _ R) as [E|K]; [left; left; symmetry; exact E|right; exact K].
Qed.

Lemma cp_stamp_all_stc_keep : forall c gs a g', cp_stc c a g' -> cp_stc c (cp_stamp_all c gs a) g'.
Proof.
  intros c gs. induction gs as [|g r IH]; intros a g' H; cbn; [exact H|].
  apply IH. apply cp_stamp1_stc_keep. exact H.
Qed.

(* ---------- one document, the whole mark phase ---------- *)
Lemma cp_mark_doc_fst : forall c F p bodies a d a' o,
  cp_mark_doc c F p bodies a d = (a', o) -> map fst a' = map fst a.
Proof.
  intros c F p bodies a d a' o H. unfold Compaction.cp_mark_doc in H.
  destruct (cp_doc_keys F bodies d) as [ks|]; [|inversion H; reflexivity].
  destruct (existsb _ _); inversion H; apply cp_stamp_all_fst.
Qed.

Lemma cp_mark_doc_keep : forall c F p bodies a d a' o g,
  cp_mark_doc c F p bodies a d = (a', o) -> cp_allst c g a -> cp_allst c g a'.
Proof.
  intros c F p bodies a d a' o g H K. unfold Compaction.cp_mark_doc in H.
  destruct (cp_doc_keys F bodies d) as [ks|]; [|inversion H; subst; exact K].
  destruct (existsb _ _); inversion H; subst; apply cp_stamp_all_keep; exact K.
Qed.

Lemma cp_mark_doc_stc_keep : forall c F p bodies a d a' o g,
  cp_mark_doc c F p bodies a d = (a', o) -> cp_stc c a g -> cp_stc c a' g.
Proof.
  intros c F p bodies a d a' o g H K. unfold Compaction.cp_mark_doc in H.
  destruct (cp_doc_keys F bodies d) as [ks|]; [|inversion H; subst; exact K].
  destruct (existsb _ _); inversion H; subst; apply cp_stamp_all_stc_keep; exact K.
Qed.

Lemma cp_mark_doc_ok : forall c F p bodies a d a' n,
  cp_mark_doc c F p bodies a d = (a', Some n) ->
  exists ks, cp_doc_keys F bodies d = Some ks /\ n = N.of_nat (length ks) /\
             (forall g, In g (map snd ks) -> cp_allst c g a' /\ cp_mem g (cp_fstamp F) = false).
Proof.
  intros c F p bodies a d a' n H. unfold Compaction.cp_mark_doc in H.
  destruct (cp_doc_keys F bodies d) as [ks|]; [|discriminate]. exists ks.
  destruct (existsb (fun g => cp_mem g (cp_fstamp F)) (map snd ks)) eqn:X; [discriminate|].
  inversion H. subst. split; [reflexivity|]. split; [reflexivity|]. intros g I. split.
  - apply cp_stamp_all_allst. exact I.
  - destruct (cp_mem g (cp_fstamp F)) eqn:M; [|reflexivity].
    assert (existsb (fun g => cp_mem g (cp_fstamp F)) (map snd ks) = true) by (apply existsb_exists; exists g; auto).
    congruence.
Qed.

(* every stamp of id c after a document was handled was there before or is on a key of the document *)
Lemma cp_mark_doc_stc_inv : forall c F p bodies a d a' o g,
  cp_mark_doc c F p bodies a d = (a', o) -> cp_stc c a' g ->
  cp_stc c a g \/ exists ks, cp_doc_keys F bodies d = Some ks /\ In g (map snd ks).
Proof.
  intros c F p bodies a d a' o g H K. unfold Compaction.cp_mark_doc in H.
  destruct (cp_doc_keys F bodies d) as [ks|] eqn:Q; [|inversion H; subst; left; exact K].
  destruct (existsb _ _); inversion H; subst; destruct (cp_stamp_all_stc_inv _ _ _ _ K) as [L|R].
  - right. exists ks. split; [reflexivity|]. apply filter_In in L. tauto.
  - left. exact R.
  - right. exists ks. split; [reflexivity|exact L].
  - left. exact R.
Qed.

Lemma cp_mark_from_fst : forall c F p bodies ds i a cnt a' cnt' o,
  cp_mark_from c F p bodies i ds a cnt = (a', cnt', o) -> map fst a' = map fst a.
Proof.
  intros c F p bodies ds. induction ds as [|d r IH]; intros i a cnt a' cnt' o H; cbn in H.
  - inversion H. reflexivity.
  - destruct (cp_mark_doc c F p bodies a d) as [a1 [n|]] eqn:M.
    + rewrite (IH _ _ _ _ _ _ H). exact (cp_mark_doc_fst _ _ _ _ _ _ _ _ M).
    + inversion H. subst. exact (cp_mark_doc_fst _ _ _ _ _ _ _ _ M).
Qed.

Lemma cp_mark_from_keep : forall c F p bodies ds i a cnt a' cnt' o g,
  cp_mark_from c F p bodies i ds a cnt = (a', cnt', o) -> cp_allst c g a -> cp_allst c g a'.
Proof.
  intros c F p bodies ds. induction ds as [|d r IH]; intros i a cnt a' cnt' o g H K; cbn in H.
  - inversion H. subst. exact K.
  - destruct (cp_mark_doc c F p bodies a d) as [a1 [n|]] eqn:M.
    + exact (IH _ _ _ _ _ _ _ H (cp_mark_doc_keep _ _ _ _ _ _ _ _ _ M K)).
    + inversion H. subst. exact (cp_mark_doc_keep _ _ _ _ _ _ _ _ _ M K).
Qed.

Lemma cp_mark_from_stc_keep : forall c F p bodies ds i a cnt a' cnt' o g,
  cp_mark_from c F p bodies i ds a cnt = (a', cnt', o) -> cp_stc c a g -> cp_stc c a' g.
Proof.
  intros c F p bodies ds. induction ds as [|d r IH]; intros i a cnt a' cnt' o g H K; cbn in H.
  - inversion H. subst. exact K.
  - destruct (cp_mark_doc c F p bodies a d) as [a1 [n|]] eqn:M.
    + exact (IH _ _ _ _ _ _ _ H (cp_mark_doc_stc_keep _ _ _ _ _ _ _ _ _ M K)).
    + inversion H. subst. exact (cp_mark_doc_stc_keep _ _ _ _ _ _ _ _ _ M K).
Qed.

(* a mark phase that did not abort handled every document of its feed *)
Lemma cp_mark_from_done : forall c F p bodies ds i a cnt a' cnt',
  cp_mark_from c F p bodies i ds a cnt = (a', cnt', None) ->
  forall d, In d ds -> exists ks, cp_doc_keys F bodies d = Some ks /\
    forall g, In g (map snd ks) -> cp_allst c g a' /\ cp_mem g (cp_fstamp F) = false.
Proof.
  intros c F p bodies ds. induction ds as [|d0 r IH]; intros i a cnt a' cnt' H d I; [destruct I|]. cbn in H.
  destruct (cp_mark_doc c F p bodies a d0) as [a1 [n|]] eqn:M; [|discriminate]. destruct I as [E|I].
  - subst d0. destruct (cp_mark_doc_ok _ _ _ _ _ _ _ _ M) as [ks [K1 [K2 K3]]]. exists ks. split; [exact K1|].
    intros g Ig. destruct (K3 g Ig) as [A B]. split; [|exact B]. exact (cp_mark_from_keep _ _ _ _ _ _ _ _ _ _ _ _ H A).
  - exact (IH _ _ _ _ _ H d I).
Qed.

Lemma cp_mark_from_stc_inv : forall c F p bodies ds i a cnt a' cnt' o g,
  cp_mark_from c F p bodies i ds a cnt = (a', cnt', o) -> cp_stc c a' g ->
  cp_stc c a g \/ exists d ks, In d ds /\ cp_doc_keys F bodies d = Some ks /\ In g (map snd ks).
Proof.
  intros c F p bodies ds. induction ds as [|d0 r IH]; intros i a cnt a' cnt' o g H K; cbn in H.
  - inversion H. subst. left. exact K.
  - destruct (cp_mark_doc c F p bodies a d0) as [a1 [n|]] eqn:M.
    + destruct (IH _ _ _ _ _ _ _ H K) as [L|[d [ks [I [Q G]]]]].
      * destruct (cp_mark_doc_stc_inv _ _ _ _ _ _ _ _ _ M L) as [L1|[ks [Q G]]]; [left; exact L1|].
        right. exists d0, ks. split; [left; reflexivity|auto].
      * right. exists d, ks. split; [right; exact I|auto].
    + inversion H. subst.
      destruct (cp_mark_doc_stc_inv _ _ _ _ _ _ _ _ _ M K) as [L1|[ks [Q G]]]; [left; exact L1|].
      right. exists d0, ks. split; [left; reflexivity|auto].
Qed.

(* a failure is reported at a position of the feed, counted from where the feed started *)
Lemma cp_mark_from_at : forall c F p bodies ds i a cnt a' cnt' j,
  cp_mark_from c F p bodies i ds a cnt = (a', cnt', Some j) -> (i <= j < i + length ds)%nat.
Proof.
  intros c F p bodies ds. induction ds as [|d0 r IH]; intros i a cnt a' cnt' j H; cbn in H; [discriminate|].
  destruct (cp_mark_doc c F p bodies a d0) as [a1 [n|]] eqn:M.
  - pose proof (IH _ _ _ _ _ _ H). cbn [length]. lia.
  - inversion H. subst. cbn [length]. lia.
Qed.

(* the documents before the failing one were handled completely *)
Lemma cp_mark_from_prefix : forall c F p bodies ds i a cnt a' cnt' j,
  cp_mark_from c F p bodies i ds a cnt = (a', cnt', Some j) ->
  forall q d, (q < j - i)%nat -> nth_error ds q = Some d ->
    exists ks, cp_doc_keys F bodies d = Some ks /\ forall g, In g (map snd ks) -> cp_allst c g a'.
Proof.
  intros c F p bodies ds. induction ds as [|d0 r IH]; intros i a cnt a' cnt' j H q d L E; cbn in H; [discriminate|].
  destruct (cp_mark_doc c F p bodies a d0) as [a1 [n|]] eqn:M.
  - destruct q as [|q].
    + cbn in E. inversion E. subst d0. destruct (cp_mark_doc_ok _ _ _ _ _ _ _ _ M) as [ks [K1 [K2 K3]]].
      exists ks. split; [exact K1|]. intros g Ig. destruct (K3 g Ig) as [A _].
      exact (cp_mark_from_keep _ _ _ _ _ _ _ _ _ _ _ _ H A).
    + cbn in E. pose proof (cp_mark_from_at _ _ _ _ _ _ _ _ _ _ _ H) as B.
      apply (IH _ _ _ _ _ _ H q d); [lia|exact E].
  - inversion H. subst. lia.
Qed.

(* ---------- sweep and cleanup ---------- *)
Lemma cp_cleanup_fst : forall c a, map fst (cp_cleanup c a) = map fst a.
Proof. intros c a. unfold cp_cleanup. rewrite map_map. reflexivity. Qed.

Lemma cp_cleanup_gone : forall c a e, In e (cp_cleanup c a) -> ~ In c (snd e).
Proof.
  intros c a e I. unfold cp_cleanup in I. apply in_map_iff in I. destruct I as [e0 [Q I]]. subst e. cbn.
  assert (G : ~ In c (filter (fun x => negb (x =? c)) (snd e0))).
  { intros K. apply filter_In in K. destruct K as [_ K]. rewrite N.eqb_refl in K. discriminate. }
  destruct (snd e0) as [|x [|y l]]; [exact G|intros []|exact G].
Qed.

Lemma cp_filter_stamped : forall c a g, In g (map fst (filter (cp_stamped c) a)) <-> cp_stc c a g.
Proof.
  intros c a g. rewrite in_map_iff. split.
  - intros [e [E I]]. apply filter_In in I. destruct I as [I S]. exists e. split; [exact I|]. split; [exact E|].
    apply cp_mem_In. exact S.
  - intros [e [I [E S]]]. exists e. split; [exact E|]. apply filter_In. split; [exact I|]. apply cp_mem_In. exact S.
Qed.

Lemma cp_allst_stc : forall c a g, In g (map fst a) -> cp_allst c g a -> cp_stc c a g.
Proof.
  intros c a g I H. apply in_map_iff in I. destruct I as [e [E I]]. exists e. split; [exact I|]. split; [exact E|].
  exact (H e I E).
Qed.

Lemma cp_filter_count : forall {A} (f : A -> bool) l,
  (length (filter f l) + length (filter (fun x => negb (f x)) l) = length l)%nat.
Proof.
  intros A f l. induction l as [|x r IH]; cbn; [reflexivity|]. destruct (f x); cbn; lia.
Qed.

(* ---------- the run ---------- *)
Lemma cp_mode_fresh : forall fixed s r, cp_fresh_mode s r -> cp_mode fixed s r = (cp_rid r, 0%nat, cp_dry r).
Proof.
  intros fixed s r [E|E]; unfold cp_mode; rewrite E; [reflexivity|]. destruct (cp_reset r); reflexivity.
Qed.

Lemma cp_run_docs : forall fixed s r, cp_docs (fst (cp_run fixed s r)) = cp_docs s /\ cp_bodies (fst (cp_run fixed s r)) = cp_bodies s.
Proof.
  intros fixed s r. unfold Compaction.cp_run. destruct (cp_mode fixed s r) as [[c k] dry].
  destruct (cp_mark_from _ _ _ _ _ _ _ _) as [[a cnt] [j|]]; cbn; [auto|].
  destruct (cp_sweep c dry a) as [a' p]. cbn. auto.
Qed.

End Keyed.
