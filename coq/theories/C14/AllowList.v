(* C14: the replication allow-list of db/blip_handler.go / db/blip_sync_context.go.
   BlipSyncContext.allowedAttachments : map key -> {counter, ...}; key = docID+digest (protocol >= 3) or digest.
     addAllowedAttachments(keys)    : found -> counter++ ; else counter = 1                    [add_one]
     removeAllowedAttachments(keys) : found -> (counter > 1 -> counter-- ; else delete)          [rem_one]
     handleGetAttachment            : served iff allowedAttachments[key].counter > 0            [allowed]
   sendRevisionWithProperties calls add when it starts sending a revision that references attachments and
   remove (same list) when the peer has replied (or the send failed): a transfer [AOpen t keys] ... [AClose t]. *)
From SG Require Import Base.Prelude.
Open Scope N_scope.

Definition alist := list (N * N).                       (* key -> counter *)

Fixpoint afind (k : N) (a : alist) : option N :=
  match a with
  | [] => None
  | (k', n) :: r => if k' =? k then Some n else afind k r
  end.
Fixpoint aset (k v : N) (a : alist) : alist :=
  match a with
  | [] => [(k, v)]
  | (k', n) :: r => if k' =? k then (k, v) :: r else (k', n) :: aset k v r
  end.
Definition adel (k : N) (a : alist) : alist := filter (fun e => negb (fst e =? k)) a.

Definition acount (k : N) (a : alist) : N := match afind k a with Some n => n | None => 0 end.
Definition allowed (a : alist) (k : N) : bool := 0 <? acount k a.

Definition add_one (a : alist) (k : N) : alist :=
  match afind k a with
  | Some n => aset k (n + 1) a
  | None => aset k 1 a
  end.
Definition rem_one (a : alist) (k : N) : alist :=
  match afind k a with
  | Some n => if 1 <? n then aset k (n - 1) a else adel k a
  | None => a
  end.
Definition add_keys (a : alist) (ks : list N) : alist := fold_left add_one ks a.
Definition rem_keys (a : alist) (ks : list N) : alist := fold_left rem_one ks a.

(* transfers: a revision being sent, with the attachment keys it references *)
Inductive aev := AOpen (t : N) (keys : list N) | AClose (t : N).
Definition astate : Type := (alist * list (N * list N))%type.     (* counters, open transfers *)

Fixpoint take_open (t : N) (op : list (N * list N)) : option (list N * list (N * list N)) :=
  match op with
  | [] => None
  | (t', ks) :: r =>
      if t' =? t then Some (ks, r)
      else match take_open t r with Some (ks', r') => Some (ks', (t', ks) :: r') | None => None end
  end.

Definition astep (st : astate) (e : aev) : astate :=
  match e with
  | AOpen t ks => (add_keys (fst st) ks, (t, ks) :: snd st)
  | AClose t => match take_open t (snd st) with
                | Some (ks, rest) => (rem_keys (fst st) ks, rest)
                | None => st                                   (* nothing to close: no call is made *)
                end
  end.
Definition arun (es : list aev) : astate := fold_left astep es ([], []).

Definition served_keys (a : alist) : list N := map fst (filter (fun e => 0 <? snd e) a).
