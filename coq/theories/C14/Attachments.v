(* C14: attachment lifetime.  Executable model of what db/attachment.go and db/crud.go do with attachment
   METADATA and attachment DATA DOCUMENTS when a document is written.

   Where the metadata of a revision lives in the real code (and here):
     - the winning revision: the document-level map  doc.Attachments()  (_globalSync.attachments_meta)  [d_atts],
       merged (mergeAttachments, higher revpos wins) with an "_attachments" property that may sit inside the
       top-level body after a non-winning body was promoted                                               [d_binl];
     - every other revision: the "_attachments" property stamped into its stored body (rev-tree body of a
       non-winning leaf, transient backup body of a non-leaf), plus the HasAttachments flag    [r_inline, r_flag].
   Data documents are content addressed PER DOCUMENT (MakeAttachmentKey(2, docID, digest)): [s_store] is a set
   of (document, digest) pairs.

   A document write (db.Put / db.PutExistingRevWithBody -> updateAndReturnDoc) is, per CAS attempt,
       prepare   : the callback's leaf / conflict checks                               [prepare]
       resolve   : storeAttachments: inline data -> digest meta, stubs through the parent   [resolve]
       StoreNew  : addAttachments (AddRaw of every inline body), BEFORE the CAS write       [store_new]
       Commit    : storeOldBodyInRevTreeAndUpdateCurrent + the CAS write                    [commit]
       Sweep     : delete (leaf attachment ids before) \ (leaf attachment ids after)        [leafkeys, sweep]
   An attempt that loses the CAS race has done prepare/resolve/StoreNew (and has written the transient backup
   of the revision it meant to supersede, [d_bk]) but nothing else: event [Try w].  The attempt that ends the
   request is [Write w].  A request with k lost races is  Try w; (competitors); ...; Write w; the
   theorems quantify over ALL event lists.  db.Put resets the client attachment map per attempt, so every
   attempt resolves the ORIGINAL map (that is why Try and Write take the same [wop]).

   [fixed] selects the behaviour: false = the code as it is; true = the repaired behaviour proposed to the
   maintainers (see C14_Refuted.v):
     (A) a revision that does not win no longer overwrites the document-level map: its attachments are stamped
         into its own stored body, and the sweep's "after" set no longer skips the new revision;
     (B) promoting a non-winning body lifts its "_attachments" into the document-level map. *)
From SG Require Import Base.Prelude.
Open Scope N_scope.

Definition revid : Type := (N * N)%type.            (* generation, digest (as a number) *)
Definition revid_eqb (a b : revid) : bool := (fst a =? fst b) && (snd a =? snd b).
Definition orevid_eqb (a b : option revid) : bool := option_eqb revid_eqb a b.
(* compareRevIDs: generation first, then digest *)
Definition rev_gt (a b : revid) : bool := (fst b <? fst a) || ((fst a =? fst b) && (snd b <? snd a)).

(* attachment metadata: digest (interned), revpos, "ver":2 present *)
Record meta := Meta { m_dig : N; m_revpos : N; m_v2 : bool }.
Definition amap := list (N * meta).                 (* attachment name -> meta *)

Fixpoint alookup (n : N) (m : amap) : option meta :=
  match m with
  | [] => None
  | (k, v) :: r => if k =? n then Some v else alookup n r
  end.
Definition amem (n : N) (m : amap) : bool := match alookup n m with Some _ => true | None => false end.

(* retrieveV2Attachments: only version-2 entries name a per-document data document *)
Definition v2digs (m : amap) : list N := map (fun e => m_dig (snd e)) (filter (fun e => m_v2 (snd e)) m).
Definition has_v2 (m : amap) : bool := existsb (fun e => m_v2 (snd e)) m.

(* mergeAttachments(inline, docLevel): start from docLevel; an inline entry replaces a same-named one only
   when its revpos is higher; inline-only names are added *)
Definition merge (inl datts : amap) : amap :=
  map (fun e => match alookup (fst e) inl with
                | Some mi => if m_revpos (snd e) <? m_revpos mi then (fst e, mi) else e
                | None => e
                end) datts
  ++ filter (fun e => negb (amem (fst e) datts)) inl.

Record rev := Rev { r_id : revid; r_parent : option revid; r_deleted : bool; r_inline : amap; r_flag : bool }.
(* d_bk: the transient backup bodies of revisions that have been superseded ("_sync:rev:" documents), reduced to
   the "_attachments" stamped into them.  A backup is written by the first ATTEMPT that supersedes the revision
   (backupAncestorRevs runs before the CAS write) and later attempts only refresh its expiry. *)
Record doc := Doc { d_revs : list rev; d_cur : option revid; d_atts : amap; d_binl : amap;
                    d_bk : list (revid * amap) }.
Definition key : Type := (N * N)%type.               (* document, digest *)
Record state := St { s_docs : list (N * doc); s_store : list key }.

Definition init : state := St [] [].

Definition has_rev (t : list rev) (id : revid) : bool := existsb (fun r => revid_eqb (r_id r) id) t.
Definition has_child (t : list rev) (id : revid) : bool := existsb (fun r => orevid_eqb (r_parent r) (Some id)) t.
Definition is_leaf (t : list rev) (r : rev) : bool := negb (has_child t (r_id r)).
Definition find_rev (t : list rev) (id : revid) : option rev := find (fun r => revid_eqb (r_id r) id) t.

(* RevTree.winningRevision: a live leaf beats a deleted one; otherwise the greater revision id *)
Definition winner_step (t : list rev) (acc : option rev) (r : rev) : option rev :=
  if is_leaf t r then
    match acc with
    | None => Some r
    | Some w =>
        let ex := negb (r_deleted r) in let wex := negb (r_deleted w) in
        if (ex && negb wex) || (Bool.eqb ex wex && rev_gt (r_id r) (r_id w)) then Some r else Some w
    end
  else acc.
Definition winner (t : list rev) : option rev := fold_left (winner_step t) t None.

Definition is_cur (d : doc) (r : rev) : bool := orevid_eqb (d_cur d) (Some (r_id r)).

(* getRevision: what a reader of revision r sees as its attachments *)
Definition visible (d : doc) (r : rev) : amap :=
  if is_cur d r then merge (d_binl d) (d_atts d) else r_inline r.

(* attachment data referenced by some leaf revision, as the read APIs see it *)
Definition refs (d : doc) : list N :=
  flat_map (fun r => if is_leaf (d_revs d) r then v2digs (visible d r) else []) (d_revs d).

(* getAttachmentIDsForLeafRevisions(doc, newRevID): the document-level map, plus every leaf that carries the
   HasAttachments flag and is not newRevID *)
Definition leafkeys (d : doc) (excl : option revid) : list N :=
  v2digs (d_atts d) ++
  flat_map (fun r => if is_leaf (d_revs d) r && r_flag r && negb (orevid_eqb excl (Some (r_id r)))
                     then v2digs (visible d r) else []) (d_revs d).

(* ---------- requests ---------- *)
Inductive aspec := AData (content : N)                       (* inline data; the digest of content c is c *)
                 | AStub (dig revpos : N) (v2 : bool).       (* {"stub":true,"digest":..,"revpos":..[,"ver":2]} *)
Inductive wkind := KPut | KPush.
Record wop := W { w_kind : wkind; w_doc : N; w_rev : revid; w_parent : option revid; w_deleted : bool;
                  w_atts : list (N * aspec) }.
Inductive event := Try (w : wop) | Write (w : wop).
Inductive outcome := OAck | OConflict | OCancel | OUnsupported.

Fixpoint dlookup (k : N) (l : list (N * doc)) : option doc :=
  match l with
  | [] => None
  | (k', v) :: r => if k' =? k then Some v else dlookup k r
  end.
Fixpoint dset (k : N) (v : doc) (l : list (N * doc)) : list (N * doc) :=
  match l with
  | [] => [(k, v)]
  | (k', v') :: r => if k' =? k then (k, v) :: r else (k', v') :: dset k v r
  end.

Definition empty_doc : doc := Doc [] None [] [] [].
Definition the_doc (od : option doc) : doc := match od with Some d => d | None => empty_doc end.

Definition cur_deleted (d : doc) : bool :=
  match d_cur d with
  | Some c => match find_rev (d_revs d) c with Some r => r_deleted r | None => false end
  | None => false
  end.

(* the update callback's checks.  inl o: the request ends with o; inr p: go on, the new revision's parent is p.
   The revision id of an accepted write is an input (REST: the id the code generated, pushed: the client's);
   ids that do not fit the tree are outside the model (OUnsupported, never produced by the harness). *)
Definition prepare (ac : bool) (d : doc) (w : wop) : outcome + option revid :=
  let t := d_revs d in
  let fits (p : option revid) : outcome + option revid :=
    if has_rev t (w_rev w) || has_child t (w_rev w)
       || negb (fst (w_rev w) =? match p with Some q => fst q + 1 | None => 1 end)
    then inl OUnsupported else inr p in
  match w_kind w with
  | KPut =>
      match w_parent w with
      | None => match d_cur d with
                | None => fits None
                | Some c => if cur_deleted d then fits (Some c) else inl OConflict
                end
      | Some p => match find_rev t p with
                  | Some r => if is_leaf t r then fits (Some p) else inl OConflict
                  | None => inl OConflict
                  end
      end
  | KPush =>
      if negb ac then inl OUnsupported
      else if has_rev t (w_rev w) then inl OCancel
      else match w_parent w with
           | None => fits None
           | Some p => if has_rev t p then fits (Some p) else inl OUnsupported
           end
  end.

Fixpoint bk_lookup (id : revid) (l : list (revid * amap)) : option amap :=
  match l with
  | [] => None
  | (k, v) :: r => if revid_eqb k id then Some v else bk_lookup id r
  end.
Definition bk_add (e : option (revid * amap)) (l : list (revid * amap)) : list (revid * amap) :=
  match e with
  | Some (id, m) => match bk_lookup id l with Some _ => l | None => l ++ [(id, m)] end
  | None => l
  end.

(* storeAttachments.  The parent's attachments are those of getAvailableRev(parent): the revision itself when its
   body is at hand (winner: document; other leaf: rev-tree body; superseded revision: backup body), else the
   nearest ancestor whose body is *)
Fixpoint avail_atts (fuel : nat) (d : doc) (q : revid) : option amap :=
  match fuel with
  | O => None
  | S f =>
      match find_rev (d_revs d) q with
      | None => None
      | Some r =>
          if is_cur d r || is_leaf (d_revs d) r then Some (visible d r)
          else match bk_lookup q (d_bk d) with
               | Some m => Some m
               | None => match r_parent r with Some q' => avail_atts f d q' | None => None end
               end
      end
  end.
Definition parent_atts (d : doc) (p : option revid) : option amap :=
  match p with
  | None => None
  | Some q => avail_atts (S (length (d_revs d))) d q
  end.

Definition resolve_one (pa : option amap) (gen : N) (e : N * aspec) : N * meta :=
  match snd e with
  | AData c => (fst e, Meta c gen true)
  | AStub dg rp v2 =>
      match pa with
      | Some pm => match alookup (fst e) pm with Some m => (fst e, m) | None => (fst e, Meta dg rp v2) end
      | None => (fst e, Meta dg rp v2)
      end
  end.
Definition resolve (d : doc) (p : option revid) (gen : N) (atts : list (N * aspec)) : amap :=
  map (resolve_one (parent_atts d p) gen) atts.

Definition data_digs (atts : list (N * aspec)) : list N :=
  flat_map (fun e => match snd e with AData c => [c] | AStub _ _ _ => [] end) atts.

Definition kmem (k : key) (l : list key) : bool := existsb (fun x => (fst x =? fst k) && (snd x =? snd k)) l.
Definition nmem (n : N) (l : list N) : bool := existsb (N.eqb n) l.

(* StoreNew: AddRaw of every inline body under the per-document key *)
Definition store_new (dk : N) (atts : list (N * aspec)) (st : list key) : list key :=
  map (fun c => (dk, c)) (data_digs atts) ++ st.

Definition set_rev (id : revid) (f : rev -> rev) (t : list rev) : list rev :=
  map (fun r => if revid_eqb (r_id r) id then f r else r) t.

(* the "_attachments" stamped into the outgoing winner's body: the document-level entries whose revpos is not
   above that revision's generation; injected after (and therefore overriding) an "_attachments" property the
   body may already contain *)
Definition stamp (binl datts : amap) (gen : N) : amap :=
  let f := filter (fun e => m_revpos (snd e) <=? gen) datts in
  match f with [] => binl | _ => f end.

Definition demote (d : doc) (t : list rev) : list rev :=
  match d_cur d with
  | Some p => set_rev p (fun r => Rev (r_id r) (r_parent r) (r_deleted r)
                                      (stamp (d_binl d) (d_atts d) (fst p)) (has_v2 (d_atts d))) t
  | None => t
  end.

(* backupAncestorRevs(newRev): the parent's body, if the document still holds it, goes to a backup document:
   the outgoing winner with the stamp it has just received, a non-winning leaf with the stamp it carries *)
Definition backup_of (d : doc) (p : option revid) : option (revid * amap) :=
  match p with
  | None => None
  | Some q =>
      match find_rev (d_revs d) q with
      | None => None
      | Some r =>
          if is_cur d r then Some (q, stamp (d_binl d) (d_atts d) (fst q))
          else if is_leaf (d_revs d) r then Some (q, r_inline r)
          else None
      end
  end.

(* storeOldBodyInRevTreeAndUpdateCurrent.  Returns the new document and whether a non-winning body was promoted *)
Definition commit (fixed : bool) (d : doc) (w : wop) (p : option revid) : doc * bool :=
  let gen := fst (w_rev w) in
  let atts := resolve d p gen (w_atts w) in
  let has_new := match data_digs (w_atts w) with [] => false | _ => true end in
  let nr_win := Rev (w_rev w) p (w_deleted w) [] false in
  let nr_lose := if fixed then Rev (w_rev w) p (w_deleted w) atts (has_v2 atts)
                 else Rev (w_rev w) p (w_deleted w) [] has_new in
  let t1 := d_revs d ++ [nr_win] in
  let bk := bk_add (backup_of d p) (d_bk d) in
  match winner t1 with
  | None => (d, false)                                   (* impossible: the new revision is a leaf *)
  | Some wr =>
      let W := r_id wr in
      if revid_eqb W (w_rev w) then
        (Doc (demote d (d_revs d) ++ [nr_win]) (Some W) atts [] bk, false)
      else if orevid_eqb (d_cur d) (Some W) then
        (Doc (d_revs d ++ [nr_lose]) (Some W) (if fixed then d_atts d else atts) (d_binl d) bk, false)
      else
        let t2 := set_rev W (fun r => Rev (r_id r) (r_parent r) (r_deleted r) [] false) (demote d (d_revs d)) in
        (Doc (t2 ++ [nr_lose]) (Some W)
             (if fixed then r_inline wr else atts)
             (if fixed then [] else r_inline wr) bk, true)
  end.

(* what a lost attempt leaves behind in the document's surroundings: the backup of the parent *)
Definition try_doc (d : doc) (p : option revid) : doc :=
  Doc (d_revs d) (d_cur d) (d_atts d) (d_binl d) (bk_add (backup_of d p) (d_bk d)).

(* the obsolete-attachment sweep at the end of updateAndReturnDoc *)
Definition sweep (dk : N) (before after : list N) (st : list key) : list key :=
  filter (fun k => negb ((fst k =? dk) && nmem (snd k) before && negb (nmem (snd k) after))) st.

(* one attempt; [final]: this attempt ends the request (its CAS write succeeds, or its callback fails) *)
Definition attempt (fixed ac sw : bool) (s : state) (w : wop) (final : bool) : state * outcome * bool :=
  let d := the_doc (dlookup (w_doc w) (s_docs s)) in
  match prepare ac d w with
  | inl o => (s, o, false)
  | inr p =>
      let st1 := store_new (w_doc w) (w_atts w) (s_store s) in
      if negb final then
        (St (match dlookup (w_doc w) (s_docs s) with
             | Some _ => dset (w_doc w) (try_doc d p) (s_docs s)
             | None => s_docs s
             end) st1, OAck, false)
      else
        let '(d', promo) := commit fixed d w p in
        let before := leafkeys d None in
        let after := leafkeys d' (if fixed then None else Some (w_rev w)) in
        (St (dset (w_doc w) d' (s_docs s)) (if sw then sweep (w_doc w) before after st1 else st1), OAck, promo)
  end.

Definition step (fixed ac sw : bool) (s : state) (e : event) : state * outcome * bool :=
  match e with
  | Try w => attempt fixed ac sw s w false
  | Write w => attempt fixed ac sw s w true
  end.

Definition step_state fixed ac sw s e : state := fst (fst (step fixed ac sw s e)).
Definition step_promo fixed ac sw s e : bool := snd (step fixed ac sw s e).

Fixpoint run (fixed ac sw : bool) (s : state) (es : list event) : state :=
  match es with
  | [] => s
  | e :: r => run fixed ac sw (step_state fixed ac sw s e) r
  end.

(* no event of the run promotes a non-winning body (always true in conflict-free databases) *)
Fixpoint promo_free (fixed ac sw : bool) (s : state) (es : list event) : bool :=
  match es with
  | [] => true
  | e :: r => negb (step_promo fixed ac sw s e) && promo_free fixed ac sw (step_state fixed ac sw s e) r
  end.

(* ---------- what the property talks about ---------- *)
Definition stored (s : state) (k : key) : Prop := kmem k (s_store s) = true.
Definition referenced (s : state) (k : key) : Prop :=
  exists d, dlookup (fst k) (s_docs s) = Some d /\ In (snd k) (refs d).

(* data uploaded by attempts that lost their CAS race (an upper bound: a lost attempt whose callback failed
   uploads nothing) *)
Definition tried_keys (es : list event) : list key :=
  flat_map (fun e => match e with
                     | Try w => map (fun c => (w_doc w, c)) (data_digs (w_atts w))
                     | Write _ => []
                     end) es.
