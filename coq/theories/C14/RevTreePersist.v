(* C14: persistence of the revision tree between operations (db/revtree.go RevTree.MarshalJSON / UnmarshalJSON).

   Every request loads the document from the bucket and writes it back: the state between two events of
   C14/Attachments.v is the PERSISTED form.  The rev tree is stored as parallel index structures
       revs / parents (index of the parent, -1 = root) / deleted (indexes) / hasAttachments (indexes) /
       bodymap (index -> body kept inline in the tree) / bodyKeyMap (index -> key of a _sync:rb: document)
   A body the tree holds is kept inline when it is at most MaximumInlineBodySize (250) bytes and out of line in a
   _sync:rb: document otherwise ([big]: the revisions whose stored body is larger -- an input, any predicate).
   [unmarshal] rebuilds the tree: the per-revision attachment flag comes from the hasAttachments index list alone,
   wherever the body is; an out-of-line body is fetched through its key when somebody asks for it.
   Reduction: bodies are their "_attachments" ([r_inline]); the model keeps the stamp of superseded revisions
   (the code drops their bodies: nothing ever looks at them), so every revision has a body entry here.

   Results: unmarshal (marshal t) = t for every tree with distinct revision ids and parents inside the tree, for
   EVERY placement of the bodies; the invariant holds in every reachable state; hence running a history with a
   reload before every event ([runR]) is running it without ([run]), and all lifetime theorems carry over. *)
From SG Require Import Base.Prelude C14.Attachments C14.AttachmentsProofs.
Open Scope N_scope.

Record ptree := PT {
  p_revs : list revid;
  p_parents : list (option nat);
  p_deleted : list (nat * unit);
  p_hasatt : list (nat * unit);
  p_bodymap : list (nat * amap);
  p_bodykeys : list (nat * revid) }.          (* the key of a _sync:rb: document: (document,) revision id *)

Fixpoint idx_collect {A} (f : rev -> option A) (s : nat) (t : list rev) : list (nat * A) :=
  match t with
  | [] => []
  | r :: q => match f r with
              | Some a => (s, a) :: idx_collect f (S s) q
              | None => idx_collect f (S s) q
              end
  end.

Fixpoint nlookup {A} (i : nat) (l : list (nat * A)) : option A :=
  match l with
  | [] => None
  | (j, a) :: r => if Nat.eqb j i then Some a else nlookup i r
  end.

Fixpoint index_of (q : revid) (ids : list revid) : option nat :=
  match ids with
  | [] => None
  | x :: r => if revid_eqb x q then Some O else match index_of q r with Some j => Some (S j) | None => None end
  end.

Definition flagged (b : bool) : option unit := if b then Some tt else None.

(* MarshalJSON (+ persistModifiedRevisionBodies for the out-of-line bodies) *)
Definition marshal (big : revid -> bool) (t : list rev) : ptree * list (revid * amap) :=
  let ids := map r_id t in
  (PT ids
      (map (fun r => match r_parent r with Some q => index_of q ids | None => None end) t)
      (idx_collect (fun r => flagged (r_deleted r)) 0 t)
      (idx_collect (fun r => flagged (r_flag r)) 0 t)
      (idx_collect (fun r => if big (r_id r) then None else Some (r_inline r)) 0 t)
      (idx_collect (fun r => if big (r_id r) then Some (r_id r) else None) 0 t),
   map (fun r => (r_id r, r_inline r)) (filter (fun r => big (r_id r)) t)).

Definition is_some {A} (o : option A) : bool := match o with Some _ => true | None => false end.

(* UnmarshalJSON; the body of revision i as getRevisionBody / the loader deliver it *)
Definition build (p : ptree) (rb : list (revid * amap)) (i : nat) : rev :=
  Rev (nth i (p_revs p) (0, 0))
      (match nth i (p_parents p) None with Some j => Some (nth j (p_revs p) (0, 0)) | None => None end)
      (is_some (nlookup i (p_deleted p)))
      (match nlookup i (p_bodymap p) with
       | Some m => m
       | None => match nlookup i (p_bodykeys p) with
                 | Some k => match bk_lookup k rb with Some m => m | None => [] end
                 | None => []
                 end
       end)
      (is_some (nlookup i (p_hasatt p))).

Definition unmarshal (pr : ptree * list (revid * amap)) : list rev :=
  map (build (fst pr) (snd pr)) (seq 0 (length (p_revs (fst pr)))).

Definition reload_revs (big : revid -> bool) (t : list rev) : list rev := unmarshal (marshal big t).
Definition reload_doc (big : revid -> bool) (d : doc) : doc :=
  Doc (reload_revs big (d_revs d)) (d_cur d) (d_atts d) (d_binl d) (d_bk d).
Definition reload_state (big : revid -> bool) (s : state) : state :=
  St (map (fun kd => (fst kd, reload_doc big (snd kd))) (s_docs s)) (s_store s).

(* a history in which every event works on freshly loaded documents *)
Definition stepR (big : revid -> bool) (fixed ac sw : bool) (s : state) (e : event) : state * outcome * bool :=
  step fixed ac sw (reload_state big s) e.
Fixpoint runR (big : revid -> bool) (fixed ac sw : bool) (s : state) (es : list event) : state :=
  match es with
  | [] => s
  | e :: r => runR big fixed ac sw (fst (fst (stepR big fixed ac sw s e))) r
  end.

(* ---------- well-formed trees ---------- *)
Definition tree_ok (t : list rev) : Prop :=
  NoDup (map r_id t) /\ forall r q, In r t -> r_parent r = Some q -> In q (map r_id t).
Definition rt_doc_ok (d : doc) : Prop :=
  tree_ok (d_revs d) /\ match d_cur d with Some c => In c (map r_id (d_revs d)) | None => True end.
Definition rt_docs_ok (s : state) : Prop := Forall (fun kd => rt_doc_ok (snd kd)) (s_docs s).

(* ---------- index lemmas ---------- *)
Lemma nlookup_collect_lt : forall {A} (f : rev -> option A) t s i, (i < s)%nat -> nlookup i (idx_collect f s t) = None.
Proof.
  intros A f t. induction t as [|r q IH]; intros s i L; cbn; [reflexivity|].
  destruct (f r); cbn; [|apply IH; lia]. destruct (Nat.eqb s i) eqn:E; [apply Nat.eqb_eq in E; lia|apply IH; lia].
Qed.

Lemma nlookup_collect : forall {A} (f : rev -> option A) t s i, (s <= i)%nat ->
  nlookup i (idx_collect f s t) = match nth_error t (i - s) with Some r => f r | None => None end.
Proof.
  intros A f t. induction t as [|r q IH]; intros s i L; cbn.
  - destruct (i - s)%nat; reflexivity.
  - destruct (Nat.eq_dec s i) as [E|NE].
    + subst i. replace (s - s)%nat with O by lia. cbn. destruct (f r) eqn:F; cbn.
      * rewrite Nat.eqb_refl. reflexivity.
      * apply nlookup_collect_lt. lia.
    + replace (i - s)%nat with (S (i - S s)) by lia. cbn. destruct (f r); cbn.
      * destruct (Nat.eqb s i) eqn:E; [apply Nat.eqb_eq in E; lia|]. apply IH. lia.
      * apply IH. lia.
Qed.

Lemma index_of_nth : forall q ids j, index_of q ids = Some j -> nth j ids (0, 0) = q.
Proof.
  intros q ids. induction ids as [|x r IH]; intros j H; cbn in H; [discriminate|].
  destruct (revid_eqb x q) eqn:E.
  - inversion H. subst. cbn. apply revid_eqb_eq. exact E.
  - destruct (index_of q r) as [j'|]; [|discriminate]. inversion H. subst. cbn. apply IH. reflexivity.
Qed.

Lemma index_of_in : forall q ids, In q ids -> exists j, index_of q ids = Some j.
Proof.
  intros q ids. induction ids as [|x r IH]; intros I; [destruct I|]. cbn.
  destruct (revid_eqb x q) eqn:E; [eauto|]. destruct I as [I|I].
  - subst. rewrite revid_eqb_refl in E. discriminate.
  - destruct (IH I) as [j H]. rewrite H. eauto.
Qed.

Lemma rb_lookup : forall (big : revid -> bool) t r,
  NoDup (map r_id t) -> In r t -> big (r_id r) = true ->
  bk_lookup (r_id r) (map (fun r => (r_id r, r_inline r)) (filter (fun r => big (r_id r)) t)) = Some (r_inline r).
Proof.
  intros big t r. induction t as [|x q IH]; intros ND I B; [destruct I|]. cbn in ND. inversion ND as [|? ? NI ND']. subst.
  cbn. destruct I as [E|I].
  - subst x. rewrite B. cbn. rewrite revid_eqb_refl. reflexivity.
  - destruct (big (r_id x)) eqn:Bx; [|exact (IH ND' I B)]. cbn.
    destruct (revid_eqb (r_id x) (r_id r)) eqn:E.
    + apply revid_eqb_eq in E. exfalso. apply NI. rewrite E. apply in_map. exact I.
    + exact (IH ND' I B).
Qed.

Definition rev0 : rev := Rev (0, 0) None false [] false.

Lemma map_seq_nth : forall (f : nat -> rev) t,
  (forall i, (i < length t)%nat -> f i = nth i t rev0) -> map f (seq 0 (length t)) = t.
Proof.
  intros f t H. apply (nth_ext _ _ (f O) rev0).
  - rewrite map_length, seq_length. reflexivity.
  - intros i L. rewrite map_length, seq_length in L. rewrite (map_nth f (seq 0 (length t)) O i). rewrite seq_nth by exact L. cbn. exact (H i L).
Qed.

Lemma nth_map_rev : forall {B} (g : rev -> B) t i d', (i < length t)%nat -> nth i (map g t) d' = g (nth i t rev0).
Proof.
  intros B g t i d' L. rewrite (nth_indep _ d' (g rev0)) by (rewrite map_length; exact L). apply map_nth.
Qed.

(* ---------- the round trip ---------- *)
Theorem reload_identity : forall big t, tree_ok t -> reload_revs big t = t.
Proof.
  intros big t [ND CL]. unfold reload_revs, unmarshal, marshal. cbn [fst snd p_revs]. rewrite map_length.
  apply map_seq_nth. intros i L.
  assert (NE : nth_error t i = Some (nth i t rev0)) by (apply nth_error_nth'; exact L).
  assert (IN : In (nth i t rev0) t) by (apply nth_In; exact L).
  remember (nth i t rev0) as r eqn:Hr. unfold build. cbn [p_revs p_parents p_deleted p_hasatt p_bodymap p_bodykeys].
  rewrite !nlookup_collect by lia. replace (i - 0)%nat with i by lia. rewrite NE.
  assert (Eid : nth i (map r_id t) (0, 0) = r_id r).
  { rewrite (nth_map_rev r_id t i (0, 0) L). rewrite <- Hr. reflexivity. }
  assert (Epar : match nth i (map (fun r => match r_parent r with Some q => index_of q (map r_id t) | None => None end) t) None with
                 | Some j => Some (nth j (map r_id t) (0, 0)) | None => None end = r_parent r).
  { rewrite (nth_map_rev (fun r => match r_parent r with Some q => index_of q (map r_id t) | None => None end) t i None L).
    rewrite <- Hr. destruct (r_parent r) as [q|] eqn:P; [|reflexivity].
    destruct (index_of_in q (map r_id t) (CL r q IN P)) as [j Hj]. rewrite Hj. rewrite (index_of_nth _ _ _ Hj). reflexivity. }
  rewrite Eid, Epar.
  assert (Edel : is_some (flagged (r_deleted r)) = r_deleted r) by (destruct (r_deleted r); reflexivity).
  assert (Efl : is_some (flagged (r_flag r)) = r_flag r) by (destruct (r_flag r); reflexivity).
  rewrite Edel, Efl.
  destruct (big (r_id r)) eqn:B.
  - rewrite (rb_lookup big t r ND IN B). destruct r; reflexivity.
  - destruct r; reflexivity.
Qed.

(* the flag of a loaded revision is what the hasAttachments index list says, wherever its body is *)
Theorem unmarshal_flag : forall p rb i, (i < length (p_revs p))%nat ->
  r_flag (nth i (unmarshal (p, rb)) rev0) = is_some (nlookup i (p_hasatt p)).
Proof.
  intros p rb i L. unfold unmarshal. cbn [fst snd].
  rewrite (nth_indep _ rev0 (build p rb O)) by (rewrite map_length, seq_length; exact L).
  rewrite (map_nth (build p rb) (seq 0 (length (p_revs p))) O i). rewrite seq_nth by exact L. reflexivity.
Qed.

Lemma reload_doc_id : forall big d, rt_doc_ok d -> reload_doc big d = d.
Proof. intros big d [T _]. unfold reload_doc. rewrite (reload_identity big _ T). destruct d; reflexivity. Qed.

Lemma reload_state_id : forall big s, rt_docs_ok s -> reload_state big s = s.
Proof.
  intros big s H. unfold reload_state. destruct s as [ds st]. cbn in *. f_equal.
  induction ds as [|[k d] r IH]; [reflexivity|]. inversion H as [|? ? H1 H2]. subst. cbn.
  rewrite (reload_doc_id big d H1). f_equal. exact (IH H2).
Qed.

(* ---------- the invariant holds in every reachable state ---------- *)
Definition shape_ok (sh : list (revid * option revid)) : Prop :=
  NoDup (map fst sh) /\ forall id q, In (id, Some q) sh -> In q (map fst sh).

Lemma shape_ids : forall t, map fst (shape t) = map r_id t.
Proof. intros t. unfold shape. rewrite map_map. reflexivity. Qed.

Lemma tree_ok_shape : forall t, tree_ok t <-> shape_ok (shape t).
Proof.
  intros t. unfold tree_ok, shape_ok. rewrite shape_ids. split; intros [ND CL]; (split; [exact ND|]).
  - intros id q I. unfold shape in I. apply in_map_iff in I. destruct I as [r [E I]]. inversion E. subst.
    exact (CL r q I H1).
  - intros r q I P. apply (CL (r_id r) q). unfold shape. apply in_map_iff. exists r. split; [rewrite P; reflexivity|exact I].
Qed.

Lemma NoDup_snoc : forall {A} (l : list A) x, NoDup l -> ~ In x l -> NoDup (l ++ [x]).
Proof.
  intros A l x ND NI. induction l as [|y r IH]; cbn; [constructor; [intros []|constructor]|].
  inversion ND as [|? ? N1 N2]. subst. constructor.
  - intros I. apply in_app_or in I. destruct I as [I|[E|[]]]; [exact (N1 I)|]. subst. apply NI. left. reflexivity.
  - apply IH; [exact N2|]. intros I. apply NI. right. exact I.
Qed.

Lemma shape_ok_snoc : forall sh id p,
  shape_ok sh -> ~ In id (map fst sh) -> (forall q, p = Some q -> In q (map fst sh)) -> shape_ok (sh ++ [(id, p)]).
Proof.
  intros sh id p [ND CL] NI P. unfold shape_ok. rewrite map_app. cbn. split.
  - apply NoDup_snoc; assumption.
  - intros id' q I. apply in_or_app. left. apply in_app_or in I. destruct I as [I|[E|[]]].
    + exact (CL id' q I).
    + inversion E. subst. exact (P q eq_refl).
Qed.

Lemma has_rev_in : forall t q, has_rev t q = true -> In q (map r_id t).
Proof.
  intros t q H. unfold has_rev in H. apply existsb_exists in H. destruct H as [r [I E]].
  apply revid_eqb_eq in E. subst. apply in_map. exact I.
Qed.

Lemma has_rev_notin : forall t q, has_rev t q = false -> ~ In q (map r_id t).
Proof.
  intros t q H I. apply in_map_iff in I. destruct I as [r [E I]]. pose proof (has_rev_false t q H r I) as F.
  subst q. rewrite revid_eqb_refl in F. discriminate.
Qed.

Lemma prepare_parent : forall ac d w p, rt_doc_ok d -> prepare ac d w = inr p ->
  forall q, p = Some q -> In q (map r_id (d_revs d)).
Proof.
  intros ac d w p [_ C] H.
  assert (F : forall p0, (if has_rev (d_revs d) (w_rev w) || has_child (d_revs d) (w_rev w)
                        || negb (fst (w_rev w) =? match p0 with Some q0 => fst q0 + 1 | None => 1 end)
                     then inl OUnsupported else inr p0) = inr p -> p0 = p).
  { intros p0 E. destruct (has_rev (d_revs d) (w_rev w)); [cbn in E; discriminate|].
    destruct (has_child (d_revs d) (w_rev w)); [cbn in E; discriminate|]. cbn [orb] in E.
    destruct (negb (fst (w_rev w) =? match p0 with Some q0 => fst q0 + 1 | None => 1 end)); [discriminate|]. inversion E. reflexivity. }
  unfold prepare in H. destruct (w_kind w).
  - destruct (w_parent w) as [q0|].
    + destruct (find_rev (d_revs d) q0) as [r0|] eqn:Fr; [|discriminate]. destruct (is_leaf (d_revs d) r0); [|discriminate].
      apply (F (Some q0)) in H. subst p. intros q E. inversion E. subst q0. unfold find_rev in Fr. apply find_some in Fr.
      destruct Fr as [I E2]. apply revid_eqb_eq in E2. subst q. apply in_map. exact I.
    + destruct (d_cur d) as [c|]; [|apply (F None) in H; subst p; discriminate]. destruct (cur_deleted d); [|discriminate].
      apply (F (Some c)) in H. subst p. intros q E. inversion E. subst q. exact C.
  - destruct (negb ac); [discriminate|]. destruct (has_rev (d_revs d) (w_rev w)); [discriminate|].
    destruct (w_parent w) as [q0|].
    + destruct (has_rev (d_revs d) q0) eqn:Hr; [|discriminate]. apply (F (Some q0)) in H. subst p. intros q E. inversion E. subst q0.
      exact (has_rev_in _ _ Hr).
    + apply (F None) in H. subst p. discriminate.
Qed.

Lemma rt_commit_doc_ok : forall fixed ac d w p d' promo,
  rt_doc_ok d -> prepare ac d w = inr p -> commit fixed d w p = (d', promo) -> rt_doc_ok d'.
Proof.
  intros fixed ac d w p d' promo OK P H. pose proof OK as [T C].
  destruct (prepare_fresh ac d w p P) as [Fr _]. pose proof (prepare_parent ac d w p OK P) as Par.
  assert (S1 : forall t nr, shape t = shape (d_revs d) -> r_id nr = w_rev w -> r_parent nr = p -> tree_ok (t ++ [nr])).
  { intros t nr Sh Ei Ep. apply tree_ok_shape. rewrite shape_app, Sh. cbn. rewrite Ei, Ep.
    apply shape_ok_snoc; [apply tree_ok_shape; exact T|rewrite shape_ids; exact (has_rev_notin _ _ Fr)|].
    intros q E. rewrite shape_ids. exact (Par q E). }
  assert (I1 : forall t nr, shape t = shape (d_revs d) -> r_id nr = w_rev w ->
                forall wr, In wr (d_revs d ++ [Rev (w_rev w) p (w_deleted w) [] false]) -> In (r_id wr) (map r_id (t ++ [nr]))).
  { intros t nr Sh Ei wr I. rewrite map_app. cbn. rewrite Ei. rewrite <- shape_ids, Sh, shape_ids.
    apply in_app_or in I. apply in_or_app. destruct I as [I|[E|[]]]; [left; apply in_map; exact I|right; left; subst wr; reflexivity]. }
  unfold commit in H.
  destruct (winner (d_revs d ++ [Rev (w_rev w) p (w_deleted w) [] false])) as [wr|] eqn:Wn; [|inversion H; subst; exact OK].
  destruct (winner_leaf _ _ Wn) as [Iw _].
  destruct (revid_eqb (r_id wr) (w_rev w)).
  - inversion H. subst. split; cbn [d_revs d_cur].
    + apply S1; [apply shape_demote|reflexivity|reflexivity].
    + apply I1; [apply shape_demote|reflexivity|exact Iw].
  - destruct (orevid_eqb (d_cur d) (Some (r_id wr))).
    + inversion H. subst. split; cbn [d_revs d_cur].
      * apply S1; [reflexivity|destruct fixed; reflexivity|destruct fixed; reflexivity].
      * apply I1; [reflexivity|destruct fixed; reflexivity|exact Iw].
    + inversion H. subst. split; cbn [d_revs d_cur].
      * apply S1; [rewrite shape_set_rev; [apply shape_demote|intros x; split; reflexivity]|destruct fixed; reflexivity|destruct fixed; reflexivity].
      * apply I1; [rewrite shape_set_rev; [apply shape_demote|intros x; split; reflexivity]|destruct fixed; reflexivity|exact Iw].
Qed.

Lemma dlookup_in : forall k l d, dlookup k l = Some d -> In d (map snd l).
Proof.
  intros k l d. induction l as [|[k' v] r IH]; cbn; [discriminate|]. destruct (k' =? k); intros H.
  - inversion H. left. reflexivity.
  - right. exact (IH H).
Qed.

Lemma dset_ok : forall k d l, rt_doc_ok d -> Forall (fun kd => rt_doc_ok (snd kd)) l -> Forall (fun kd => rt_doc_ok (snd kd)) (dset k d l).
Proof.
  intros k d l OK H. induction l as [|[k' v] r IH]; cbn; [constructor; [exact OK|constructor]|].
  inversion H as [|? ? H1 H2]. subst. destruct (k' =? k); constructor; auto.
Qed.

Lemma rt_empty_doc_ok : rt_doc_ok empty_doc.
Proof. split; [split; [constructor|intros r q []]|exact I]. Qed.

Lemma step_docs_ok : forall fixed ac sw s e, rt_docs_ok s -> rt_docs_ok (step_state fixed ac sw s e).
Proof.
  intros fixed ac sw s e OK. unfold step_state, step.
  assert (A : forall w final, rt_docs_ok (fst (fst (attempt fixed ac sw s w final)))).
  { intros w final. unfold attempt.
    assert (Od : rt_doc_ok (the_doc (dlookup (w_doc w) (s_docs s)))).
    { destruct (dlookup (w_doc w) (s_docs s)) as [d|] eqn:L; [|exact rt_empty_doc_ok]. cbn.
      apply dlookup_in in L. apply in_map_iff in L. destruct L as [[k d0] [E I]]. cbn in E. subst d0.
      unfold rt_docs_ok in OK. rewrite Forall_forall in OK. exact (OK _ I). }
    destruct (prepare ac (the_doc (dlookup (w_doc w) (s_docs s))) w) as [o|p] eqn:P; [exact OK|].
    destruct final; cbn [negb].
    - destruct (commit fixed (the_doc (dlookup (w_doc w) (s_docs s))) w p) as [d' promo] eqn:Cm. cbn.
      unfold rt_docs_ok. cbn. apply dset_ok; [exact (rt_commit_doc_ok _ _ _ _ _ _ _ Od P Cm)|exact OK].
    - cbn. unfold rt_docs_ok. cbn. destruct (dlookup (w_doc w) (s_docs s)); [|exact OK].
      apply dset_ok; [|exact OK]. destruct Od as [T C]. split; [exact T|exact C]. }
  destruct e; apply A.
Qed.

Lemma init_docs_ok : rt_docs_ok init.
Proof. constructor. Qed.

Lemma run_docs_ok : forall fixed ac sw es s, rt_docs_ok s -> rt_docs_ok (run fixed ac sw s es).
Proof.
  intros fixed ac sw es. induction es as [|e r IH]; intros s OK; cbn; [exact OK|]. apply IH. apply step_docs_ok. exact OK.
Qed.

(* a reload before every event changes nothing, whatever the placement of the bodies *)
Theorem stepR_step : forall big fixed ac sw s e, rt_docs_ok s -> stepR big fixed ac sw s e = step fixed ac sw s e.
Proof. intros big fixed ac sw s e OK. unfold stepR. rewrite (reload_state_id big s OK). reflexivity. Qed.

Theorem runR_run : forall big fixed ac sw es s, rt_docs_ok s -> runR big fixed ac sw s es = run fixed ac sw s es.
Proof.
  intros big fixed ac sw es. induction es as [|e r IH]; intros s OK; cbn; [reflexivity|].
  rewrite (stepR_step big fixed ac sw s e OK). apply IH. apply step_docs_ok. exact OK.
Qed.

(* ... in particular the ids the sweep computes from the leaves' flags *)
Theorem reload_leafkeys : forall big fixed ac sw es dk d excl,
  dlookup dk (s_docs (run fixed ac sw init es)) = Some d -> leafkeys (reload_doc big d) excl = leafkeys d excl.
Proof.
  intros big fixed ac sw es dk d excl L. rewrite reload_doc_id; [reflexivity|].
  pose proof (run_docs_ok fixed ac sw es init init_docs_ok) as OK. apply dlookup_in in L.
  apply in_map_iff in L. destruct L as [[k d0] [E I]]. cbn in E. subst d0.
  unfold rt_docs_ok in OK. rewrite Forall_forall in OK. exact (OK _ I).
Qed.

(* ---------- the lifetime theorems over histories with reloads ---------- *)
From SG Require Import C14.AttachmentsTheorems.

Theorem att_safety_reload : forall big fixed ac sw es1 es2 k,
  ok_run fixed ac sw init (es1 ++ es2) ->
  stored (runR big fixed ac sw init es1) k ->
  (forall j, (1 <= j <= length es2)%nat -> referenced (runR big fixed ac sw init (es1 ++ firstn j es2)) k) ->
  stored (runR big fixed ac sw init (es1 ++ es2)) k.
Proof.
  intros big fixed ac sw es1 es2 k O S R. rewrite runR_run in * by exact init_docs_ok.
  apply (att_safety_hist fixed ac sw es1 es2 k O S). intros j L. specialize (R j L).
  rewrite runR_run in R by exact init_docs_ok. exact R.
Qed.
