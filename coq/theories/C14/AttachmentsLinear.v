(* C14: in a conflict-free database (allow_conflicts = false: only REST-style writes on the current leaf are
   accepted) every revision tree is a chain, the new revision always wins, and no non-winning body is ever
   promoted -- so the hypothesis [promo_free] of the lifetime theorems holds for EVERY history. *)
From SG Require Import Base.Prelude C14.Attachments C14.AttachmentsProofs C14.AttachmentsTheorems.
Open Scope N_scope.

Fixpoint chain (prev : option revid) (t : list rev) : Prop :=
  match t with
  | [] => True
  | r :: t' => r_parent r = prev /\ chain (Some (r_id r)) t'
  end.
Definition last_id (prev : option revid) (t : list rev) : option revid :=
  fold_left (fun _ r => Some (r_id r)) t prev.

Definition lin (d : doc) : Prop := chain None (d_revs d) /\ d_cur d = last_id None (d_revs d).
Definition state_lin (s : state) : Prop := forall k d, dlookup k (s_docs s) = Some d -> lin d.

Lemma chain_shape : forall t t' prev, shape t = shape t' -> chain prev t -> chain prev t'.
Proof.
  induction t as [|r t IH]; intros [|r' t'] prev H C; cbn in *; try discriminate; [exact I|].
  injection H as H1 H2 H3. destruct C as [C1 C2]. split; [congruence|]. rewrite <- H1. apply (IH t'); assumption.
Qed.

Lemma last_id_shape : forall t t' prev, shape t = shape t' -> last_id prev t = last_id prev t'.
Proof.
  induction t as [|r t IH]; intros [|r' t'] prev H; cbn in *; try discriminate; [reflexivity|].
  injection H as H1 H2 H3. unfold last_id in *. cbn. rewrite H1. apply IH. assumption.
Qed.

Lemma last_id_app : forall t prev r, last_id prev (t ++ [r]) = Some (r_id r).
Proof. intros. unfold last_id. rewrite fold_left_app. reflexivity. Qed.

Lemma chain_app : forall t prev r, chain prev t -> r_parent r = last_id prev t -> chain prev (t ++ [r]).
Proof.
  induction t as [|x t IH]; intros prev r C H; cbn in *; [auto|].
  destruct C as [C1 C2]. split; [assumption|]. apply IH; assumption.
Qed.

Lemma last_id_nonempty : forall t prev x, last_id prev (x :: t) <> None.
Proof.
  intros t. induction t as [|y t IH]; intros prev x; cbn; [discriminate|]. apply (IH (Some (r_id x)) y).
Qed.

(* in a chain every revision but the last has a child *)
Lemma chain_child : forall t prev x, chain prev t -> In x t ->
  has_child t (r_id x) = true \/ last_id prev t = Some (r_id x).
Proof.
  induction t as [|r t IH]; intros prev x C Hx; [destruct Hx|]. cbn in C. destruct C as [C1 C2].
  destruct Hx as [->|Hx].
  - destruct t as [|r2 t2]; [right; reflexivity|]. left. cbn in C2. destruct C2 as [C2 _].
    unfold has_child. cbn [existsb]. rewrite C2. cbn. rewrite revid_eqb_refl. rewrite orb_true_r. reflexivity.
  - destruct (IH (Some (r_id r)) x C2 Hx) as [H|H]; [left; unfold has_child in *; cbn [existsb]; rewrite H; apply orb_true_r | right; exact H].
Qed.

Lemma fold_no_leaf : forall T a acc, (forall x, In x a -> is_leaf T x = false) -> fold_left (winner_step T) a acc = acc.
Proof.
  induction a as [|x a IH]; intros acc H; cbn; [reflexivity|]. rewrite IH by (intros; apply H; right; assumption).
  unfold winner_step. rewrite (H x) by (left; reflexivity). reflexivity.
Qed.

Lemma find_rev_some : forall t q r, find_rev t q = Some r -> In r t /\ revid_eqb (r_id r) q = true.
Proof. intros t q r H. unfold find_rev in H. apply find_some in H. assumption. Qed.

(* with conflicts disallowed the only acceptable parent is the last revision of the chain *)
Lemma prepare_linear : forall d w p, lin d -> prepare false d w = inr p -> p = last_id None (d_revs d).
Proof.
  intros d w p [C Hc]. unfold prepare.
  assert (forall q, (if has_rev (d_revs d) (w_rev w) || has_child (d_revs d) (w_rev w)
                        || negb (fst (w_rev w) =? match q with Some q0 => fst q0 + 1 | None => 1 end)
                     then inl OUnsupported else inr q) = inr p -> q = p) as F
    by (intros q; destruct (_ || _); [discriminate | intros E; inversion E; reflexivity]).
  destruct (w_kind w); [|cbn; discriminate].
  destruct (w_parent w) as [q|].
  - destruct (find_rev (d_revs d) q) as [r0|] eqn:Fr; [|discriminate].
    destruct (is_leaf (d_revs d) r0) eqn:L; [|discriminate]. intros E. apply (F (Some q)) in E. subst p.
    apply find_rev_some in Fr. destruct Fr as [Hin Eq]. apply revid_eqb_eq in Eq. subst q.
    destruct (chain_child _ _ _ C Hin) as [H|H]; [|symmetry; assumption].
    unfold is_leaf in L. rewrite H in L. discriminate.
  - destruct (d_cur d) as [c|] eqn:Ec.
    + destruct (cur_deleted d); [|discriminate]. intros E. apply (F (Some c)) in E. subst p. assumption.
    + intros E. apply (F None) in E. subst p. assumption.
Qed.

Lemma commit_linear : forall fixed d w p d' pr, lin d -> p = last_id None (d_revs d) ->
  has_child (d_revs d) (w_rev w) = false -> (forall q, p = Some q -> revid_eqb q (w_rev w) = false) ->
  commit fixed d w p = (d', pr) -> pr = false /\ lin d'.
Proof.
  intros fixed d w p d' pr [C Hc] Hp Hnc Hpar H. unfold commit in H.
  set (nr := Rev (w_rev w) p (w_deleted w) [] false) in *.
  assert (winner (d_revs d ++ [nr]) = Some nr) as Wn.
  { assert (is_leaf (d_revs d ++ [nr]) nr = true) as Lnr.
    { unfold is_leaf. rewrite has_child_app. cbn [nr r_id]. rewrite Hnc. cbn.
      destruct p as [q|]; cbn; [|reflexivity]. rewrite (Hpar q eq_refl). reflexivity. }
    unfold winner. rewrite fold_left_app.
    rewrite (fold_no_leaf (d_revs d ++ [nr]) (d_revs d) None).
    - cbn [fold_left]. unfold winner_step. rewrite Lnr. reflexivity.
    - intros x Hx. unfold is_leaf. rewrite has_child_app.
      destruct (chain_child _ _ _ C Hx) as [Hh|Hl]; [rewrite Hh; reflexivity|].
      unfold has_child at 2. cbn [existsb nr r_parent]. rewrite Hp, Hl. cbn. rewrite revid_eqb_refl.
      rewrite orb_true_r. reflexivity. }
  rewrite Wn in H. cbn [nr r_id] in H. rewrite revid_eqb_refl in H. inversion H; subst d' pr. split; [reflexivity|].
  assert (shape (demote d (d_revs d) ++ [nr]) = shape (d_revs d ++ [nr])) as Hs by (rewrite !shape_app, shape_demote; reflexivity).
  split; cbn [d_revs d_cur].
  - apply (chain_shape (d_revs d ++ [nr])); [symmetry; assumption|]. apply chain_app; [assumption | exact Hp].
  - rewrite (last_id_shape _ _ None Hs), last_id_app. reflexivity.
Qed.

Lemma lin_empty : lin empty_doc.
Proof. split; [exact I | reflexivity]. Qed.

Lemma lin_the_doc : forall s k, state_lin s -> lin (the_doc (dlookup k (s_docs s))).
Proof. intros s k L. destruct (dlookup k (s_docs s)) as [d|] eqn:E; cbn; [apply (L k d E) | apply lin_empty]. Qed.

Lemma attempt_linear : forall fixed sw s w final s' o pr,
  state_lin s -> attempt fixed false sw s w final = (s', o, pr) -> pr = false /\ state_lin s'.
Proof.
  intros fixed sw s w final s' o pr L H. apply attempt_cases in H.
  destruct H as [P -> E | p P _ E _ _ Hd | p d' P _ _ C Hd _].
  - auto.
  - split; [assumption|]. intros k d X. rewrite Hd in X.
    destruct (dlookup (w_doc w) (s_docs s)) as [d0|] eqn:L0; [|apply (L k d X)].
    destruct (N.eq_dec k (w_doc w)) as [->|N].
    + rewrite dlookup_dset_same in X. inversion X; subst d. apply (L _ _ L0).
    + rewrite dlookup_dset_other in X by assumption. apply (L k d X).
  - destruct (prepare_fresh _ _ _ _ P) as [F1 [F2 F3]].
    pose proof (prepare_linear _ _ _ (lin_the_doc s (w_doc w) L) P) as Hp.
    destruct (commit_linear _ _ _ _ _ _ (lin_the_doc s (w_doc w) L) Hp F2 F3 C) as [-> Ld].
    split; [reflexivity|]. intros k d X. rewrite Hd in X. destruct (N.eq_dec k (w_doc w)) as [->|N].
    + rewrite dlookup_dset_same in X. inversion X; subst d. assumption.
    + rewrite dlookup_dset_other in X by assumption. apply (L k d X).
Qed.

Theorem linear_promo_free : forall fixed sw es s, state_lin s -> promo_free fixed false sw s es = true.
Proof.
  intros fixed sw es. induction es as [|e es IH]; intros s L; cbn; [reflexivity|].
  pose proof (step_eta fixed false sw s e) as E. rewrite step_attempt in E.
  assert (step_promo fixed false sw s e = false /\ state_lin (step_state fixed false sw s e)) as [P L'].
  { destruct e as [w|w]; eapply attempt_linear; eassumption. }
  rewrite P. cbn. apply IH. assumption.
Qed.

Lemma state_lin_init : state_lin init.
Proof. intros k d H. discriminate. Qed.
