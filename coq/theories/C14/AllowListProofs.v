(* C14: the replication allow-list serves a key exactly while a transfer that references it is open. *)
From SG Require Import Base.Prelude C14.AllowList.
Open Scope N_scope.

Lemma afind_aset_same : forall k v a, afind k (aset k v a) = Some v.
Proof.
  intros k v a. induction a as [|[k' n] a IH]; cbn; [rewrite N.eqb_refl; reflexivity|].
  destruct (k' =? k) eqn:E; cbn; [rewrite N.eqb_refl; reflexivity | rewrite E; assumption].
Qed.

Lemma afind_aset_other : forall k k' v a, k' <> k -> afind k' (aset k v a) = afind k' a.
Proof.
  intros k k' v a N. induction a as [|[k0 n] a IH]; cbn.
  - destruct (k =? k') eqn:E; [apply N.eqb_eq in E; congruence | reflexivity].
  - destruct (k0 =? k) eqn:E; cbn.
    + apply N.eqb_eq in E. subst k0. destruct (k =? k') eqn:E2; [apply N.eqb_eq in E2; congruence | reflexivity].
    + destruct (k0 =? k'); [reflexivity | assumption].
Qed.

Lemma afind_adel_same : forall k a, afind k (adel k a) = None.
Proof.
  intros k a. unfold adel. induction a as [|[k' n] a IH]; cbn; [reflexivity|].
  destruct (k' =? k) eqn:E; cbn; [assumption | rewrite E; assumption].
Qed.

Lemma afind_adel_other : forall k k' a, k' <> k -> afind k' (adel k a) = afind k' a.
Proof.
  intros k k' a N. unfold adel. induction a as [|[k0 n] a IH]; cbn; [reflexivity|].
  destruct (k0 =? k) eqn:E; cbn.
  - apply N.eqb_eq in E. subst k0. destruct (k =? k') eqn:E2; [apply N.eqb_eq in E2; congruence | assumption].
  - destruct (k0 =? k'); [reflexivity | assumption].
Qed.

Definition occ1 (k k' : N) : N := if k' =? k then 1 else 0.

Lemma acount_add_one : forall a k k', acount k (add_one a k') = acount k a + occ1 k k'.
Proof.
  intros a k k'. unfold add_one, acount, occ1. destruct (k' =? k) eqn:E.
  - apply N.eqb_eq in E. subst k'. destruct (afind k a) as [n|] eqn:F; rewrite afind_aset_same; lia.
  - assert (k <> k') as N by (intros ->; rewrite N.eqb_refl in E; discriminate).
    destruct (afind k' a) as [n|]; rewrite afind_aset_other by assumption; lia.
Qed.

Lemma acount_rem_one : forall a k k', acount k (rem_one a k') = acount k a - occ1 k k'.
Proof.
  intros a k k'. unfold rem_one, acount, occ1. destruct (k' =? k) eqn:E.
  - apply N.eqb_eq in E. subst k'. destruct (afind k a) as [n|] eqn:F; [|rewrite F; lia].
    destruct (1 <? n) eqn:G; [rewrite afind_aset_same; lia | rewrite afind_adel_same; lia].
  - assert (k <> k') as N by (intros ->; rewrite N.eqb_refl in E; discriminate).
    destruct (afind k' a) as [n|]; [|lia].
    destruct (1 <? n); [rewrite afind_aset_other by assumption | rewrite afind_adel_other by assumption]; lia.
Qed.

Fixpoint occ (k : N) (ks : list N) : N :=
  match ks with [] => 0 | k' :: r => occ1 k k' + occ k r end.

Lemma acount_add_keys : forall ks a k, acount k (add_keys a ks) = acount k a + occ k ks.
Proof.
  induction ks as [|k' ks IH]; intros a k; cbn; [lia|]. unfold add_keys in *. cbn. rewrite IH, acount_add_one. lia.
Qed.

Lemma acount_rem_keys : forall ks a k, acount k (rem_keys a ks) = acount k a - occ k ks.
Proof.
  induction ks as [|k' ks IH]; intros a k; cbn; [lia|]. unfold rem_keys in *. cbn. rewrite IH, acount_rem_one. lia.
Qed.

Lemma occ_pos_In : forall k ks, 0 < occ k ks <-> In k ks.
Proof.
  intros k ks. induction ks as [|k' ks IH]; cbn; [split; [lia | intros []]|].
  unfold occ1. destruct (k' =? k) eqn:E.
  - apply N.eqb_eq in E. split; [intros _; left; assumption | intros _; lia].
  - split.
    + intros H. right. apply IH. lia.
    + intros [->|H]; [rewrite N.eqb_refl in E; discriminate | apply IH in H; lia].
Qed.

(* references to k held by the open transfers *)
Fixpoint tot (k : N) (op : list (N * list N)) : N :=
  match op with [] => 0 | (_, ks) :: r => occ k ks + tot k r end.

Lemma take_open_tot : forall t op ks rest k, take_open t op = Some (ks, rest) -> tot k op = occ k ks + tot k rest.
Proof.
  intros t op. induction op as [|[t' ks'] op IH]; intros ks rest k H; cbn in H; [discriminate|].
  destruct (t' =? t).
  - inversion H; subst. reflexivity.
  - destruct (take_open t op) as [[ks0 r0]|] eqn:E; [|discriminate]. inversion H; subst. cbn.
    rewrite (IH ks r0 k eq_refl). lia.
Qed.

Lemma tot_pos : forall k op, 0 < tot k op <-> exists t ks, In (t, ks) op /\ In k ks.
Proof.
  intros k op. induction op as [|[t ks] op IH]; cbn; [split; [lia | intros [? [? [[] _]]]]|]. split.
  - intros H. destruct (N.eq_dec (occ k ks) 0) as [Z|NZ].
    + assert (0 < tot k op) as P by lia. apply IH in P. destruct P as [t' [ks' [H1 H2]]]. exists t', ks'. auto.
    + exists t, ks. split; [left; reflexivity | apply occ_pos_In; lia].
  - intros [t' [ks' [[E|H1] H2]]].
    + inversion E; subst. apply occ_pos_In in H2. lia.
    + assert (0 < tot k op) as P by (apply IH; exists t', ks'; auto). lia.
Qed.

Definition ainv (st : astate) : Prop := forall k, acount k (fst st) = tot k (snd st).

Lemma astep_inv : forall st e, ainv st -> ainv (astep st e).
Proof.
  intros [a op] e I k. specialize (I k). cbn [fst snd] in I. destruct e as [t ks|t]; cbn [astep fst snd].
  - rewrite acount_add_keys. cbn. lia.
  - destruct (take_open t op) as [[ks rest]|] eqn:E; cbn [fst snd]; [|assumption].
    rewrite acount_rem_keys. rewrite (take_open_tot _ _ _ _ k E) in I. lia.
Qed.

Lemma arun_inv : forall es, ainv (arun es).
Proof.
  intros es. unfold arun.
  assert (forall es st, ainv st -> ainv (fold_left astep es st)) as G
    by (induction es0 as [|e es0 IH]; intros st I; cbn; [assumption | apply IH, astep_inv; assumption]).
  apply G. intros k. reflexivity.
Qed.

(* allow_list_scoped *)
Theorem allow_list_scoped_all : forall es k,
  allowed (fst (arun es)) k = true <-> exists t ks, In (t, ks) (snd (arun es)) /\ In k ks.
Proof.
  intros es k. unfold allowed. rewrite (arun_inv es k). rewrite N.ltb_lt. apply tot_pos.
Qed.

(* the open list is what its name says: opening adds a transfer, closing removes (one instance of) it *)
Lemma open_after_open : forall es t ks, snd (arun (es ++ [AOpen t ks])) = (t, ks) :: snd (arun es).
Proof. intros. unfold arun. rewrite fold_left_app. reflexivity. Qed.

Lemma take_open_removes : forall t op ks rest, take_open t op = Some (ks, rest) ->
  exists a b, op = a ++ (t, ks) :: b /\ rest = a ++ b /\ forall x, In x a -> fst x <> t.
Proof.
  intros t op. induction op as [|[t' ks'] op IH]; intros ks rest H; cbn in H; [discriminate|].
  destruct (t' =? t) eqn:E.
  - inversion H; subst. apply N.eqb_eq in E. subst t'. exists [], rest. split; [reflexivity|]. split; [reflexivity | intros x []].
  - destruct (take_open t op) as [[ks0 r0]|] eqn:E2; [|discriminate]. inversion H; subst.
    destruct (IH ks r0 eq_refl) as [a [b [H1 [H2 H3]]]]. exists ((t', ks') :: a), b. subst. split; [reflexivity|].
    split; [reflexivity|]. intros x [<-|Hx]; [cbn; intros ->; rewrite N.eqb_refl in E; discriminate | apply H3; assumption].
Qed.

Lemma open_after_close : forall es t,
  match take_open t (snd (arun es)) with
  | Some (ks, rest) => snd (arun (es ++ [AClose t])) = rest
  | None => arun (es ++ [AClose t]) = arun es
  end.
Proof.
  intros es t. unfold arun. rewrite fold_left_app. cbn [fold_left astep].
  destruct (take_open t (snd (fold_left astep es ([], [])))) as [[ks rest]|]; reflexivity.
Qed.
