(* C14: invariants and one-step lemmas of the attachment-lifetime model (C14/Attachments.v). *)
From SG Require Import Base.Prelude C14.Attachments.
Open Scope N_scope.

(* ---------- small facts ---------- *)
Lemma revid_eqb_refl : forall a, revid_eqb a a = true.
Proof. intros [a b]. unfold revid_eqb. cbn. rewrite !N.eqb_refl. reflexivity. Qed.

Lemma revid_eqb_eq : forall a b, revid_eqb a b = true <-> a = b.
Proof.
  intros [a1 a2] [b1 b2]. unfold revid_eqb. cbn. rewrite andb_true_iff, !N.eqb_eq.
  split; [intros [-> ->]; reflexivity | intros E; inversion E; auto].
Qed.

Lemma revid_eqb_sym : forall a b, revid_eqb a b = revid_eqb b a.
Proof. intros [a1 a2] [b1 b2]. unfold revid_eqb. cbn. rewrite (N.eqb_sym a1), (N.eqb_sym a2). reflexivity. Qed.

Lemma orevid_some : forall a b, orevid_eqb (Some a) (Some b) = revid_eqb a b.
Proof. reflexivity. Qed.

Lemma nmem_In : forall n l, nmem n l = true <-> In n l.
Proof.
  intros n l. unfold nmem. rewrite existsb_exists. split.
  - intros [x [Hx E]]. apply N.eqb_eq in E. subst. assumption.
  - intros H. exists n. split; [assumption | apply N.eqb_refl].
Qed.

Lemma kmem_In : forall k l, kmem k l = true <-> In k l.
Proof.
  intros [a b] l. unfold kmem. rewrite existsb_exists. split.
  - intros [[x y] [Hx E]]. cbn in E. apply andb_true_iff in E. destruct E as [E1 E2].
    apply N.eqb_eq in E1. apply N.eqb_eq in E2. subst. assumption.
  - intros H. exists (a, b). split; [assumption | cbn; rewrite !N.eqb_refl; reflexivity].
Qed.

Lemma has_v2_false : forall m, has_v2 m = false -> v2digs m = [].
Proof.
  induction m as [|e m IH]; cbn; [reflexivity|]. intros H. apply orb_false_iff in H. destruct H as [H1 H2].
  rewrite H1. apply IH. assumption.
Qed.

Lemma v2digs_filter_sub : forall f m g, In g (v2digs (filter f m)) -> In g (v2digs m).
Proof.
  intros f m g. unfold v2digs. rewrite !in_map_iff. intros [e [E H]]. exists e. split; [assumption|].
  apply filter_In in H. destruct H as [H H2]. apply filter_In in H. destruct H as [H H3].
  apply filter_In. split; assumption.
Qed.

Lemma has_v2_false_filter : forall f m, has_v2 m = false -> v2digs (filter f m) = [].
Proof.
  intros f m H. destruct (v2digs (filter f m)) as [|g r] eqn:E; [reflexivity|].
  assert (In g (v2digs m)) as Hin by (apply (v2digs_filter_sub f); rewrite E; left; reflexivity).
  rewrite (has_v2_false m H) in Hin. destruct Hin.
Qed.

Lemma merge_nil : forall m, merge [] m = m.
Proof.
  intros m. unfold merge. cbn. rewrite app_nil_r.
  induction m as [|e m IH]; cbn; [reflexivity|]. rewrite IH. reflexivity.
Qed.

Lemma stamp_nil : forall datts gen, stamp [] datts gen = filter (fun e => m_revpos (snd e) <=? gen) datts.
Proof. intros. unfold stamp. destruct (filter _ datts); reflexivity. Qed.

(* ---------- trees: has_child / has_rev only see (id, parent) ---------- *)
Definition shape (t : list rev) : list (revid * option revid) := map (fun r => (r_id r, r_parent r)) t.

Lemma has_child_shape : forall t t' x, shape t = shape t' -> has_child t x = has_child t' x.
Proof.
  induction t as [|r t IH]; intros [|r' t'] x H; cbn in *; try discriminate; [reflexivity|].
  inversion H as [[H1 H2 H3]]. rewrite H2. f_equal. apply IH. assumption.
Qed.

Lemma has_rev_shape : forall t t' x, shape t = shape t' -> has_rev t x = has_rev t' x.
Proof.
  induction t as [|r t IH]; intros [|r' t'] x H; cbn in *; try discriminate; [reflexivity|].
  inversion H as [[H1 H2 H3]]. rewrite H1. f_equal. apply IH. assumption.
Qed.

Lemma shape_map : forall (g : rev -> rev) t,
  (forall r, r_id (g r) = r_id r /\ r_parent (g r) = r_parent r) -> shape (map g t) = shape t.
Proof.
  intros g t H. unfold shape. rewrite map_map. apply map_ext. intros r. destruct (H r) as [-> ->]. reflexivity.
Qed.

Lemma shape_app : forall a b, shape (a ++ b) = shape a ++ shape b.
Proof. intros. unfold shape. apply map_app. Qed.

Lemma shape_set_rev : forall id f t,
  (forall r, r_id (f r) = r_id r /\ r_parent (f r) = r_parent r) -> shape (set_rev id f t) = shape t.
Proof.
  intros id f t H. unfold set_rev. apply shape_map. intros r. destruct (revid_eqb (r_id r) id); [apply H | split; reflexivity].
Qed.

Lemma shape_demote : forall d t, shape (demote d t) = shape t.
Proof.
  intros d t. unfold demote. destruct (d_cur d); [|reflexivity]. apply shape_set_rev. intros x. split; reflexivity.
Qed.

Lemma has_child_app : forall a b x, has_child (a ++ b) x = has_child a x || has_child b x.
Proof. intros. unfold has_child. apply existsb_app. Qed.

Lemma has_rev_false : forall t id, has_rev t id = false -> forall r, In r t -> revid_eqb (r_id r) id = false.
Proof.
  intros t id H r Hin. unfold has_rev in H. destruct (revid_eqb (r_id r) id) eqn:E; [|reflexivity].
  assert (existsb (fun r => revid_eqb (r_id r) id) t = true) as X by (apply existsb_exists; exists r; split; assumption).
  congruence.
Qed.

(* ---------- the winner is a leaf of the tree ---------- *)
Lemma winner_fold_inv : forall t l acc,
  (forall r, acc = Some r -> In r t /\ is_leaf t r = true) -> (forall r, In r l -> In r t) ->
  forall r, fold_left (winner_step t) l acc = Some r -> In r t /\ is_leaf t r = true.
Proof.
  intros t l. induction l as [|x l IH]; intros acc Hacc Hl r H; cbn in H; [apply Hacc; assumption|].
  apply (IH (winner_step t acc x)); [ | intros; apply Hl; right; assumption | assumption ].
  intros r0 E. unfold winner_step in E. destruct (is_leaf t x) eqn:Lx; [|apply Hacc; assumption].
  destruct acc as [w0|].
  - destruct (_ || _) in E; inversion E; subst.
    + split; [apply Hl; left; reflexivity | assumption].
    + apply Hacc. reflexivity.
  - inversion E; subst. split; [apply Hl; left; reflexivity | assumption].
Qed.

Lemma winner_leaf : forall t r, winner t = Some r -> In r t /\ is_leaf t r = true.
Proof.
  intros t r H. unfold winner in H. apply (winner_fold_inv t t None); [intros; discriminate | auto | assumption].
Qed.

(* a tree extended by a new revision that nobody names as parent has a winner *)
Lemma winner_new_exists : forall t id p del,
  has_child t id = false -> (forall q, p = Some q -> revid_eqb q id = false) ->
  winner (t ++ [Rev id p del [] false]) <> None.
Proof.
  intros t id p del Hnc Hpar. set (nr := Rev id p del [] false). set (t1 := t ++ [nr]). unfold winner.
  assert (forall l acc, ((exists r, In r l /\ is_leaf t1 r = true) \/ acc <> None) ->
                        fold_left (winner_step t1) l acc <> None) as F.
  { induction l as [|x l IH]; intros acc Hx; cbn.
    - destruct Hx as [[r [[] _]]|A]; assumption.
    - apply IH. destruct Hx as [[r [[->|Hr] L]]|A].
      + right. unfold winner_step. rewrite L. destruct acc; [destruct (_ || _)|]; discriminate.
      + left. exists r. auto.
      + right. unfold winner_step. destruct (is_leaf t1 x); [|assumption].
        destruct acc; [destruct (_ || _)|]; discriminate. }
  apply F. left. exists nr. split; [unfold t1; apply in_or_app; right; left; reflexivity|].
  unfold is_leaf, t1. rewrite has_child_app. cbn [r_id nr]. rewrite Hnc. cbn.
  destruct p as [q|]; cbn; [|reflexivity]. rewrite (Hpar q eq_refl). reflexivity.
Qed.

(* ---------- membership in refs / leafkeys ---------- *)
Lemma refs_In : forall d g,
  In g (refs d) <-> exists r, In r (d_revs d) /\ is_leaf (d_revs d) r = true /\ In g (v2digs (visible d r)).
Proof.
  intros d g. unfold refs. rewrite in_flat_map. split.
  - intros [r [Hr H]]. destruct (is_leaf (d_revs d) r) eqn:L; [|destruct H]. exists r. auto.
  - intros [r [Hr [L H]]]. exists r. split; [assumption|]. rewrite L. assumption.
Qed.

Lemma leafkeys_In : forall d e g,
  In g (leafkeys d e) <->
  In g (v2digs (d_atts d)) \/
  exists r, In r (d_revs d) /\ is_leaf (d_revs d) r = true /\ r_flag r = true /\
            orevid_eqb e (Some (r_id r)) = false /\ In g (v2digs (visible d r)).
Proof.
  intros d e g. unfold leafkeys. rewrite in_app_iff, in_flat_map. split.
  - intros [H|[r [Hr H]]]; [left; assumption|]. right.
    destruct (is_leaf (d_revs d) r) eqn:L; [|destruct H].
    destruct (r_flag r) eqn:F; [|destruct H].
    destruct (orevid_eqb e (Some (r_id r))) eqn:X; [destruct H|]. exists r. auto.
  - intros [H|[r [Hr [L [F [X H]]]]]]; [left; assumption|]. right. exists r. split; [assumption|].
    rewrite L, F, X. assumption.
Qed.

(* ---------- the invariant ---------- *)
(* [sane_x e d]: no "_attachments" hides in the top-level body, and a leaf that the sweep does not look at
   (no HasAttachments flag, or the revision the sweep skips) references no version-2 data *)
Definition sane_x (e : option revid) (d : doc) : Prop :=
  d_binl d = [] /\
  forall r, In r (d_revs d) -> is_leaf (d_revs d) r = true -> is_cur d r = false ->
            (r_flag r = false \/ orevid_eqb e (Some (r_id r)) = true) -> v2digs (r_inline r) = [].
Definition sane (d : doc) : Prop := sane_x None d.

(* the current revision is a leaf of the tree *)
Definition cur_ok (d : doc) : Prop :=
  exists r, In r (d_revs d) /\ d_cur d = Some (r_id r) /\ is_leaf (d_revs d) r = true.

Lemma sane_x_weaken : forall e d, sane_x e d -> sane d.
Proof.
  intros e d [B H]. split; [assumption|]. intros r Hr L C [F|X]; [|discriminate]. apply H; auto.
Qed.

(* what the sweep counts as "still referenced" covers everything a reader can reach ... *)
Lemma refs_sub_leafkeys : forall e d g, sane_x e d -> In g (refs d) -> In g (leafkeys d e).
Proof.
  intros e d g [B S] H. apply refs_In in H. destruct H as [r [Hr [L H]]]. apply leafkeys_In.
  unfold visible in H. destruct (is_cur d r) eqn:C.
  - left. rewrite B, merge_nil in H. assumption.
  - destruct (r_flag r) eqn:F.
    + destruct (orevid_eqb e (Some (r_id r))) eqn:X.
      * rewrite (S r Hr L C (or_intror X)) in H. destruct H.
      * right. exists r. unfold visible. rewrite C. auto 6.
    + rewrite (S r Hr L C (or_introl F)) in H. destruct H.
Qed.

(* ... and nothing else *)
Lemma leafkeys_sub_refs : forall e d g, d_binl d = [] -> cur_ok d -> In g (leafkeys d e) -> In g (refs d).
Proof.
  intros e d g B C H. apply leafkeys_In in H. destruct H as [H|[r [Hr [L [F [X H]]]]]].
  - destruct C as [r [Hr [Hc L]]]. apply refs_In. exists r. split; [assumption|].
    split; [assumption|]. unfold visible, is_cur. rewrite Hc. cbn. rewrite revid_eqb_refl, B, merge_nil. assumption.
  - apply refs_In. exists r. auto.
Qed.

(* ---------- prepare ---------- *)
Lemma prepare_fresh : forall ac d w p, prepare ac d w = inr p ->
  has_rev (d_revs d) (w_rev w) = false /\ has_child (d_revs d) (w_rev w) = false /\
  (forall q, p = Some q -> revid_eqb q (w_rev w) = false).
Proof.
  intros ac d w p. unfold prepare.
  assert (forall q, (if has_rev (d_revs d) (w_rev w) || has_child (d_revs d) (w_rev w)
                        || negb (fst (w_rev w) =? match q with Some q0 => fst q0 + 1 | None => 1 end)
                     then inl OUnsupported else inr q) = inr p ->
          has_rev (d_revs d) (w_rev w) = false /\ has_child (d_revs d) (w_rev w) = false /\
          (forall q, p = Some q -> revid_eqb q (w_rev w) = false)) as F.
  { intros q. destruct (has_rev (d_revs d) (w_rev w)); [cbn; discriminate|].
    destruct (has_child (d_revs d) (w_rev w)); [cbn; discriminate|]. cbn [orb].
    destruct (negb _) eqn:G; [discriminate|]. intros E. inversion E; subst q. split; [reflexivity|]. split; [reflexivity|].
    intros q0 ->. apply negb_false_iff in G. apply N.eqb_eq in G. unfold revid_eqb.
    destruct (fst q0 =? fst (w_rev w)) eqn:X; [|reflexivity]. apply N.eqb_eq in X. lia. }
  destruct (w_kind w).
  - destruct (w_parent w) as [q|].
    + destruct (find_rev (d_revs d) q) as [r0|]; [|discriminate]. destruct (is_leaf (d_revs d) r0); [|discriminate]. exact (F (Some q)).
    + destruct (d_cur d) as [c|]; [|exact (F None)]. destruct (cur_deleted d); [|discriminate]. exact (F (Some c)).
  - destruct (negb ac); [discriminate|]. destruct (has_rev (d_revs d) (w_rev w)) eqn:E; [discriminate|].
    destruct (w_parent w) as [q|]; [destruct (has_rev (d_revs d) q); [|discriminate]; exact (F (Some q)) | exact (F None)].
Qed.

(* ---------- commit ---------- *)
Section Commit.
  Variables (fixed : bool) (d : doc) (w : wop) (p : option revid).
  Hypothesis Hfresh : has_rev (d_revs d) (w_rev w) = false.
  Hypothesis Hnochild : has_child (d_revs d) (w_rev w) = false.
  Hypothesis Hpar : forall q, p = Some q -> revid_eqb q (w_rev w) = false.
  Hypothesis Hsane : sane d.

  Let nr_win := Rev (w_rev w) p (w_deleted w) [] false.
  Let t1 := d_revs d ++ [nr_win].

  Lemma old_not_new : forall r, In r (d_revs d) -> revid_eqb (r_id r) (w_rev w) = false.
  Proof. apply has_rev_false. assumption. Qed.

  Lemma leaf_t1_old : forall t' r, shape t' = shape t1 -> is_leaf t' r = true -> is_leaf (d_revs d) r = true.
  Proof.
    intros t' r Hs L. unfold is_leaf in *. rewrite (has_child_shape t' t1 _ Hs) in L. unfold t1 in L.
    rewrite has_child_app in L. apply negb_true_iff in L. apply orb_false_iff in L. destruct L as [L _].
    rewrite L. reflexivity.
  Qed.

  (* a demoted outgoing winner that carries no flag references no version-2 data *)
  Lemma demoted_ok : forall c, d_cur d = Some c -> has_v2 (d_atts d) = false ->
    v2digs (stamp (d_binl d) (d_atts d) (fst c)) = [].
  Proof.
    intros c Hc H. destruct Hsane as [B _]. rewrite B, stamp_nil. apply has_v2_false_filter. assumption.
  Qed.

  Lemma commit_sane : forall d' pr, commit fixed d w p = (d', pr) -> (fixed = true \/ pr = false) ->
    sane_x (if fixed then None else Some (w_rev w)) d' /\ cur_ok d'.
  Proof.
    intros d' pr H Hp. unfold commit in H. fold nr_win in H. fold t1 in H.
    destruct (winner t1) as [wr|] eqn:Wn.
    2:{ exfalso. apply (winner_new_exists (d_revs d) (w_rev w) p (w_deleted w) Hnochild Hpar). exact Wn. }
    destruct (winner_leaf _ _ Wn) as [Win Wleaf].
    destruct Hsane as [B S].
    (* facts about records of the old tree *)
    assert (forall r, In r (d_revs d) -> orevid_eqb (Some (w_rev w)) (Some (r_id r)) = false) as Hexcl.
    { intros r Hr. cbn. rewrite revid_eqb_sym. apply old_not_new. assumption. }
    assert (forall e r, In r (d_revs d) -> (if fixed then None else Some (w_rev w)) = e ->
                        orevid_eqb e (Some (r_id r)) = false) as Hexcl'.
    { intros e r Hr <-. destruct fixed; [reflexivity | apply Hexcl; assumption]. }
    destruct (revid_eqb (r_id wr) (w_rev w)) eqn:Enew.
    - (* the new revision wins *)
      inversion H; subst d' pr; clear H. split.
      + split; [reflexivity|]. cbn [d_revs d_cur d_atts d_binl].
        intros r Hr L C X. apply in_app_or in Hr. destruct Hr as [Hr|[<-|[]]].
        2:{ unfold is_cur in C. cbn in C. rewrite Enew in C. discriminate C. }
        assert (shape (demote d (d_revs d) ++ [nr_win]) = shape t1) as Hs
          by (unfold t1; rewrite !shape_app, shape_demote; reflexivity).
        unfold demote in Hr. destruct (d_cur d) as [c|] eqn:Hc.
        * unfold set_rev in Hr. apply in_map_iff in Hr. destruct Hr as [r0 [E Hr0]].
          destruct (revid_eqb (r_id r0) c) eqn:Ec; subst r.
          -- cbn [r_inline r_flag r_id] in *. destruct X as [X|X].
             ++ apply demoted_ok; assumption.
             ++ rewrite (Hexcl' _ r0 Hr0 eq_refl) in X. discriminate.
          -- assert (is_leaf (d_revs d) r0 = true) as L0 by (eapply leaf_t1_old; eassumption).
             apply (S r0 Hr0 L0).
             ++ unfold is_cur. rewrite Hc. cbn. rewrite revid_eqb_sym. assumption.
             ++ destruct X as [X|X]; [left; assumption|]. rewrite (Hexcl' _ r0 Hr0 eq_refl) in X. discriminate.
        * assert (is_leaf (d_revs d) r = true) as L0 by (eapply leaf_t1_old; eassumption).
          apply (S r Hr L0).
          -- unfold is_cur. rewrite Hc. reflexivity.
          -- destruct X as [X|X]; [left; assumption|]. rewrite (Hexcl' _ r Hr eq_refl) in X. discriminate.
      + exists nr_win. cbn [d_revs d_cur]. split; [apply in_or_app; right; left; reflexivity|].
        split; [f_equal; apply revid_eqb_eq; assumption|].
        assert (shape (demote d (d_revs d) ++ [nr_win]) = shape t1) as Hs
          by (unfold t1; rewrite !shape_app, shape_demote; reflexivity).
        unfold is_leaf. rewrite (has_child_shape _ _ _ Hs).
        unfold is_leaf in Wleaf. apply revid_eqb_eq in Enew. cbn [nr_win r_id]. rewrite <- Enew. assumption.
    - (* the winner is an old revision *)
      assert (In wr (d_revs d)) as Hwr.
      { unfold t1 in Win. apply in_app_or in Win. destruct Win as [?|[<-|[]]]; [assumption|].
        cbn in Enew. rewrite revid_eqb_refl in Enew. discriminate. }
      set (nr_lose := if fixed then Rev (w_rev w) p (w_deleted w) (resolve d p (fst (w_rev w)) (w_atts w))
                                        (has_v2 (resolve d p (fst (w_rev w)) (w_atts w)))
                      else Rev (w_rev w) p (w_deleted w) []
                               (match data_digs (w_atts w) with [] => false | _ => true end)) in *.
      assert (r_id nr_lose = w_rev w /\ r_parent nr_lose = p) as [Hlid Hlpar] by (unfold nr_lose; destruct fixed; split; reflexivity).
      assert (shape [nr_lose] = shape [nr_win]) as Hsl by (unfold shape; cbn; rewrite Hlid, Hlpar; reflexivity).
      assert ((r_flag nr_lose = false \/ (if fixed then None else Some (w_rev w)) <> None) -> v2digs (r_inline nr_lose) = []) as Hlose.
      { unfold nr_lose. destruct fixed; cbn.
        - intros [F|F]; [apply has_v2_false; assumption | congruence].
        - reflexivity. }
      destruct (orevid_eqb (d_cur d) (Some (r_id wr))) eqn:Esame.
      + (* the winner does not change *)
        inversion H; subst d' pr; clear H. cbn [d_revs d_cur d_atts d_binl].
        assert (shape (d_revs d ++ [nr_lose]) = shape t1) as Hs by (unfold t1; rewrite !shape_app, Hsl; reflexivity).
        split.
        * split; [assumption|]. cbn [d_revs d_cur d_atts d_binl].
          intros r Hr L C X. apply in_app_or in Hr. destruct Hr as [Hr|[<-|[]]].
          -- assert (is_leaf (d_revs d) r = true) as L0 by (eapply leaf_t1_old; eassumption).
             apply (S r Hr L0).
             ++ unfold is_cur in *. cbn [d_cur] in C. destruct (d_cur d) as [c|]; [|discriminate].
                cbn in Esame. apply revid_eqb_eq in Esame. subst c. assumption.
             ++ destruct X as [X|X]; [left; assumption|]. rewrite (Hexcl' _ r Hr eq_refl) in X. discriminate.
          -- apply Hlose. destruct X as [X|X]; [left; assumption|]. right. destruct fixed; [discriminate X | discriminate].
        * exists wr. split; [apply in_or_app; left; assumption|]. split; [reflexivity|].
          unfold is_leaf. rewrite (has_child_shape _ _ _ Hs). assumption.
      + (* a non-winning body is promoted: only the repaired behaviour is covered *)
        inversion H; subst d' pr; clear H. destruct Hp as [Hf|Hf]; [|discriminate]. subst fixed.
        cbn [d_revs d_cur d_atts d_binl].
        set (clr := fun r : rev => Rev (r_id r) (r_parent r) (r_deleted r) [] false) in *.
        assert (shape (set_rev (r_id wr) clr (demote d (d_revs d)) ++ [nr_lose]) = shape t1) as Hs.
        { unfold t1. rewrite !shape_app, Hsl, shape_set_rev, shape_demote; [reflexivity|]. intros; split; reflexivity. }
        split.
        * split; [reflexivity|]. cbn [d_revs d_cur d_atts d_binl].
          intros r Hr L C X. apply in_app_or in Hr. destruct Hr as [Hr|[<-|[]]].
          2:{ apply Hlose. destruct X as [X|X]; [left; assumption | discriminate X]. }
          unfold set_rev in Hr. apply in_map_iff in Hr. destruct Hr as [r1 [E Hr1]].
          destruct (revid_eqb (r_id r1) (r_id wr)) eqn:E1; subst r.
          { reflexivity. }
          unfold is_cur in C. cbn [d_cur] in C.
          unfold demote in Hr1. destruct (d_cur d) as [c|] eqn:Hc.
          -- unfold set_rev in Hr1. apply in_map_iff in Hr1. destruct Hr1 as [r0 [E Hr0]].
             destruct (revid_eqb (r_id r0) c) eqn:Ec; subst r1.
             ++ cbn [r_inline r_flag r_id] in *. destruct X as [X|X]; [|discriminate X].
                apply demoted_ok; assumption.
             ++ assert (is_leaf (d_revs d) r0 = true) as L0 by (eapply leaf_t1_old; eassumption).
                apply (S r0 Hr0 L0).
                ** unfold is_cur. rewrite Hc. cbn. rewrite revid_eqb_sym. assumption.
                ** destruct X as [X|X]; [left; assumption | discriminate X].
          -- assert (is_leaf (d_revs d) r1 = true) as L0 by (eapply leaf_t1_old; eassumption).
             apply (S r1 Hr1 L0).
             ++ unfold is_cur. rewrite Hc. reflexivity.
             ++ destruct X as [X|X]; [left; assumption | discriminate X].
        * exists (clr wr). split.
          -- apply in_or_app. left. unfold set_rev. apply in_map_iff.
             (* the promoted record, possibly demoted first (it is not: it is not the outgoing winner) *)
             unfold demote. destruct (d_cur d) as [c|] eqn:Hc.
             ++ exists wr. split.
                ** rewrite revid_eqb_refl. reflexivity.
                ** unfold set_rev. apply in_map_iff. exists wr. split; [|assumption].
                   cbn in Esame. rewrite revid_eqb_sym in Esame. rewrite Esame. reflexivity.
             ++ exists wr. rewrite revid_eqb_refl. auto.
          -- split; [reflexivity|]. unfold is_leaf. rewrite (has_child_shape _ _ _ Hs). cbn [clr r_id]. assumption.
  Qed.
End Commit.
