(* Proofs about the write loop (repaired code: [fixed = true]) for EVERY schedule of Prepare/Write steps of
   any number of writers. *)
From Coq Require Import Permutation.
From SG Require Import Base.Prelude C05.WriteLoop.
Open Scope N_scope.

(* ---------- list helpers ---------- *)
Lemma set_nth_length {A} i (x : A) l : length (set_nth i x l) = length l.
Proof. revert i; induction l as [|y r IH]; intros [|i]; cbn; auto. Qed.

Lemma nth_error_set_nth_eq {A} i (x : A) l y : nth_error l i = Some y -> nth_error (set_nth i x l) i = Some x.
Proof. revert i; induction l as [|z r IH]; intros [|i]; cbn; try discriminate; auto. Qed.

Lemma nth_error_set_nth_neq {A} i j (x : A) l : i <> j -> nth_error (set_nth i x l) j = nth_error l j.
Proof.
  revert i j; induction l as [|z r IH]; intros [|i] [|j] H; cbn; try reflexivity; try congruence.
  apply IH; congruence.
Qed.

Lemma flat_map_set_nth {A B} (f : A -> list B) i x l y :
  nth_error l i = Some y ->
  exists rest, Permutation (flat_map f l) (f y ++ rest) /\ Permutation (flat_map f (set_nth i x l)) (f x ++ rest).
Proof.
  revert i; induction l as [|z r IH]; intros [|i] H; cbn in *; try discriminate.
  - inv H. exists (flat_map f r). split; apply Permutation_refl.
  - destruct (IH _ H) as (rest & P1 & P2). exists (f z ++ rest). split.
    + rewrite P1. rewrite !app_assoc. apply Permutation_app_tail, Permutation_app_comm.
    + rewrite P2. rewrite !app_assoc. apply Permutation_app_tail, Permutation_app_comm.
Qed.

(* ---------- accounting ---------- *)
Definition wcar (w : writer) : list N := carried_seqs (w_docseq w) (w_unusedseqs w).
Definition cseqs (c : commit) : list N := c_seq c :: c_unused c.
Definition acc (s : world) : list N := flat_map cseqs (commits s) ++ released s ++ flat_map wcar (ws s).

Fixpoint commits_ok (prev : N) (cs : list commit) : Prop :=
  match cs with
  | [] => True
  | c :: r => c_prevseq c = prev /\ prev < c_seq c /\ commits_ok (c_seq c) r
  end.
Definition last_seq (prev : N) (cs : list commit) : N := fold_left (fun _ c => c_seq c) cs prev.

Lemma commits_ok_app prev cs c :
  commits_ok prev cs -> c_prevseq c = last_seq prev cs -> last_seq prev cs < c_seq c ->
  commits_ok prev (cs ++ [c]) /\ last_seq prev (cs ++ [c]) = c_seq c.
Proof.
  revert prev; induction cs as [|d r IH]; intros prev H Hp Hl; cbn in *.
  - auto.
  - destruct H as (H1 & H2 & H3). destruct (IH _ H3 Hp Hl) as (I1 & I2). auto.
Qed.

Definition prep_ok (s : world) (w : writer) (p : prepared) : Prop :=
  w_out w = None /\ d_seq (p_doc p) = w_docseq w /\ d_unused (p_doc p) = w_unusedseqs w /\ 0 < w_docseq w /\
  p_cas p <= d_cas (st s) /\
  (p_cas p = d_cas (st s) ->
     d_seq (st s) < d_seq (p_doc p) /\ d_cas (p_doc p) = d_cas (st s) + 1 /\
     exists nr, d_tree (p_doc p) = d_tree (st s) ++ nr /\ has_rev nr (p_rev p) = true).

Record Inv (s : world) : Prop := {
  inv_nodup : NoDup (acc s);
  inv_range : forall x, In x (acc s) <-> 1 <= x <= last s;
  inv_seq_le : d_seq (st s) <= last s;
  inv_prep : forall i w p, nth_error (ws s) i = Some w -> w_prep w = Some p -> prep_ok s w p;
  inv_done : forall i w, nth_error (ws s) i = Some w -> w_out w <> None -> wcar w = [] /\ w_prep w = None;
  inv_commits : commits_ok 0 (commits s) /\ last_seq 0 (commits s) = d_seq (st s);
  inv_acked : forall i w r q, nth_error (ws s) i = Some w -> w_out w = Some (OAck r q) ->
                has_rev (d_tree (st s)) r = true /\ exists c, In c (commits s) /\ c_rev c = r /\ c_seq c = q
}.

Lemma has_rev_app t u r : has_rev (t ++ u) r = has_rev t r || has_rev u r.
Proof. unfold has_rev. apply existsb_app. Qed.

Lemma rev_last_in nr r : rev_last nr = Some r -> has_rev nr (r_id r) = true.
Proof.
  unfold rev_last, has_rev. induction nr as [|x l IH]; cbn; [discriminate|].
  destruct l as [|y l'].
  - cbn. intros H; inv H. unfold revid_eqb. rewrite !N.eqb_refl. reflexivity.
  - intros H. cbn [map] in *. rewrite (IH H). apply orb_true_r.
Qed.

Lemma rev_last_some nr : nr <> [] -> exists r, rev_last nr = Some r.
Proof.
  unfold rev_last. induction nr as [|x l IH]; [congruence|]. intros _.
  destruct l as [|y l']; cbn; eauto. cbn in IH. apply IH. discriminate.
Qed.

Lemma chain_nonempty par revs del : revs <> [] -> chain par revs del <> [].
Proof. revert par; induction revs as [|x r IH]; [congruence|]. intros par _. destruct r; cbn; discriminate. Qed.

(* the revisions added by one attempt are never empty *)
Lemma push_check_add ac skip t hist del nr : push_check ac skip t hist del = PAdd nr -> nr <> [].
Proof.
  unfold push_check. destruct (split_known t hist []) as [news par]. destruct news as [|x r]; [discriminate|].
  destruct (negb skip && illegal_conflict _ _ _ _ _); [discriminate|]. destruct (gens_ok _ _); [|discriminate].
  intros H; inv H. destruct r; cbn; discriminate.
Qed.

(* a pushed revision's plan that adds something is push_check's, whatever the options *)
Lemma push_plan_add_inv ac o t nr : push_plan ac o t = Some (PAdd nr) ->
  push_check (ac && negb (o_noconf (w_opt o))) (o_force (w_opt o) && tree_tombstoned t) t (w_push o) (w_deleted o) = PAdd nr.
Proof.
  unfold push_plan. destruct (push_check _ _ _ _ _) as [| | |nr']; try discriminate.
  - destruct (o_resolver (w_opt o)); discriminate.
  - intros H; inv H. reflexivity.
Qed.

Lemma push_plan_add ac o t nr : push_plan ac o t = Some (PAdd nr) -> nr <> [].
Proof. intros H. apply push_plan_add_inv in H. eapply push_check_add; eauto. Qed.

Lemma init_inv ops : Inv (init_world ops).
Proof.
  assert (Hc : forall l, flat_map wcar (map new_writer l) = []) by (induction l; cbn; auto).
  constructor; cbn.
  - unfold acc; cbn. rewrite Hc. constructor.
  - unfold acc; cbn. rewrite Hc. cbn. intros x; split; [tauto | lia].
  - lia.
  - intros i w p H Hp. apply nth_error_In in H. apply in_map_iff in H as (o & <- & _). discriminate.
  - intros i w H Hn. apply nth_error_In in H. apply in_map_iff in H as (o & <- & _). cbn in Hn. congruence.
  - auto.
  - intros i w r q H Ho. apply nth_error_In in H. apply in_map_iff in H as (o & <- & _). discriminate.
Qed.

(* ---------- a writer-local transition that does not touch the stored document ---------- *)
Definition extra_ok (s : world) (extra : list N) (l' : N) : Prop :=
  (extra = [] /\ l' = last s) \/ (extra = [last s + 1] /\ l' = last s + 1).

Lemma acc_extend s (a' : list N) extra l' :
  NoDup (acc s) -> (forall x, In x (acc s) <-> 1 <= x <= last s) ->
  Permutation a' (extra ++ acc s) -> extra_ok s extra l' ->
  NoDup a' /\ (forall x, In x a' <-> 1 <= x <= l').
Proof.
  intros Hnd Hr Hp [[-> ->]|[-> ->]]; cbn in Hp.
  - split; [eapply Permutation_NoDup; [apply Permutation_sym, Hp | exact Hnd]|].
    intros x. rewrite <- Hr. split; intros H; [eapply Permutation_in; eauto | eapply Permutation_in; [apply Permutation_sym|]; eauto].
  - assert (Hn : ~ In (last s + 1) (acc s)) by (rewrite Hr; lia).
    split; [eapply Permutation_NoDup; [apply Permutation_sym, Hp | constructor; assumption]|].
    intros x. split; intros H.
    + eapply Permutation_in in H; [|exact Hp]. destruct H as [<-|H]; [lia | apply Hr in H; lia].
    + eapply Permutation_in; [apply Permutation_sym, Hp|]. destruct (N.eq_dec x (last s + 1)) as [->|Hne]; [left; reflexivity|].
      right. apply Hr. lia.
Qed.

Definition not_ack (o : option outcome) : Prop := forall r q, o <> Some (OAck r q).

Lemma inv_update s i w w' rel extra l' :
  Inv s -> nth_error (ws s) i = Some w ->
  Permutation (rel ++ wcar w') (extra ++ wcar w) -> extra_ok s extra l' ->
  (forall p, w_prep w' = Some p -> prep_ok s w' p) ->
  (w_out w' <> None -> wcar w' = [] /\ w_prep w' = None) ->
  not_ack (w_out w') ->
  Inv {| st := st s; last := l'; released := released s ++ rel; ws := set_nth i w' (ws s); commits := commits s |}.
Proof.
  intros I Hn Hp He Hprep Hdone Hna.
  destruct (flat_map_set_nth wcar i w' (ws s) w Hn) as (rest & P1 & P2).
  assert (Pacc : Permutation (acc {| st := st s; last := l'; released := released s ++ rel; ws := set_nth i w' (ws s); commits := commits s |})
                             (extra ++ acc s)).
  { unfold acc; cbn [commits released ws]. rewrite P2, P1.
    set (C := flat_map cseqs (commits s)). set (R := released s).
    transitivity (C ++ R ++ (rel ++ wcar w') ++ rest).
    { rewrite <- !app_assoc. reflexivity. }
    rewrite Hp. rewrite <- !app_assoc.
    transitivity (extra ++ C ++ R ++ wcar w ++ rest); [|reflexivity].
    rewrite (app_assoc C R). rewrite (app_assoc (C ++ R) extra). rewrite (Permutation_app_comm (C ++ R) extra).
    rewrite <- !app_assoc. reflexivity. }
  destruct (acc_extend s _ extra l' (inv_nodup s I) (inv_range s I) Pacc He) as (Hnd & Hr).
  assert (Hl : last s <= l') by (destruct He as [[_ ->]|[_ ->]]; lia).
  constructor; cbn [st last released ws commits].
  - exact Hnd.
  - exact Hr.
  - pose proof (inv_seq_le s I). lia.
  - intros j wj p Hj Hpj. destruct (Nat.eq_dec i j) as [<-|Hne].
    + rewrite (nth_error_set_nth_eq _ _ _ _ Hn) in Hj. inv Hj. apply Hprep in Hpj. exact Hpj.
    + rewrite nth_error_set_nth_neq in Hj by assumption. exact (inv_prep s I j wj p Hj Hpj).
  - intros j wj Hj Ho. destruct (Nat.eq_dec i j) as [<-|Hne].
    + rewrite (nth_error_set_nth_eq _ _ _ _ Hn) in Hj. inv Hj. auto.
    + rewrite nth_error_set_nth_neq in Hj by assumption. exact (inv_done s I j wj Hj Ho).
  - exact (inv_commits s I).
  - intros j wj r q Hj Ho. destruct (Nat.eq_dec i j) as [<-|Hne].
    + rewrite (nth_error_set_nth_eq _ _ _ _ Hn) in Hj. inv Hj. exfalso. eapply Hna; eauto.
    + rewrite nth_error_set_nth_neq in Hj by assumption. exact (inv_acked s I j wj r q Hj Ho).
Qed.

Lemma assign_perm s (w : writer) :
  let reuse := negb (w_docseq w <=? d_seq (st s)) in
  let docseq' := if reuse then w_docseq w else last s + 1 in
  let unused' := if reuse then w_unusedseqs w
                 else if 0 <? w_docseq w then w_unusedseqs w ++ [w_docseq w] else w_unusedseqs w in
  let last' := if reuse then last s else last s + 1 in
  exists extra, Permutation (carried_seqs docseq' unused') (extra ++ wcar w) /\ extra_ok s extra last' /\
                0 < docseq' /\ (d_seq (st s) <= last s -> d_seq (st s) < docseq').
Proof.
  cbn zeta. unfold wcar, carried_seqs.
  destruct (w_docseq w <=? d_seq (st s)) eqn:E; cbn [negb].
  - exists [last s + 1]. assert (0 <? last s + 1 = true) as -> by lia.
    destruct (0 <? w_docseq w) eqn:E0; cbn [app]; (split; [|split; [right; auto | split; lia]]).
    + constructor. rewrite Permutation_app_comm. reflexivity.
    + reflexivity.
  - exists []. split; [reflexivity|]. split; [left; auto|]. split; lia.
Qed.

Definition failed_writer (w : writer) (o : outcome) : writer :=
  {| w_op := w_op w; w_attempt := w_attempt w; w_matchrev := w_matchrev w; w_docseq := 0; w_unusedseqs := []; w_prep := None; w_out := Some o |}.

Lemma fail_case s i w ds us o extra l' :
  Inv s -> nth_error (ws s) i = Some w ->
  Permutation (carried_seqs ds us) (extra ++ wcar w) -> extra_ok s extra l' ->
  (forall r q, o <> OAck r q) ->
  Inv {| st := st s; last := l'; released := released s ++ carried_seqs ds us;
         ws := set_nth i (failed_writer w o) (ws s); commits := commits s |}.
Proof.
  intros I Hn Hp He Ho.
  apply (inv_update s i w (failed_writer w o) (carried_seqs ds us) extra l' I Hn).
  - unfold wcar at 1, failed_writer; cbn [w_docseq w_unusedseqs]. unfold carried_seqs at 2. cbn. rewrite app_nil_r. exact Hp.
  - exact He.
  - cbn. discriminate.
  - intros _. split; reflexivity.
  - intros r q H. cbn in H. inv H. eapply Ho; reflexivity.
Qed.

Section Fixed.
  Variable ac : bool.
  Variable tab : digtab.
  Notation stepT := (step true false ac tab).

  Lemma prepare_inv s i w : Inv s -> nth_error (ws s) i = Some w -> w_out w = None -> w_prep w = None ->
    Inv (prepare true ac tab s i w).
  Proof.
    intros I Hn Ho Hp. unfold prepare. cbn zeta.
    assert (Hsame : Permutation (carried_seqs (w_docseq w) (w_unusedseqs w)) ([] ++ wcar w)) by reflexivity.
    assert (He0 : extra_ok s [] (last s)) by (left; auto).
    set (plan := plan_of _ _ _ _ _ _).
    destruct plan as [[| | |newrevs]|] eqn:Eplan; cbn [finish_failed].
    - apply fail_case with (extra := []); auto; discriminate.
    - apply fail_case with (extra := []); auto; discriminate.
    - apply fail_case with (extra := []); auto; discriminate.
    - destruct (w_reject (w_op w)); [apply fail_case with (extra := []); auto; discriminate|].
      destruct (assign_perm s w) as (extra & Pp & Hex & Hpos & Hgt). cbn zeta in *.
      destruct (nth (w_attempt w) (w_fail_after (w_op w)) false).
      + cbn [finish_failed]. apply fail_case with (extra := extra); auto; discriminate.
      + (* prepared *)
        assert (Hnr : newrevs <> []).
        { subst plan. unfold plan_of in Eplan. destruct (w_push (w_op w)) eqn:Epush.
          - destruct (put_check _ _ _ _); [|discriminate]. destruct (dig_lookup _ _); [|discriminate].
            destruct (has_rev _ _); inv Eplan. discriminate.
          - eapply push_plan_add; eauto. }
        match goal with |- Inv {| st := _; last := ?l; released := released s ++ []; ws := set_nth i ?w' _; commits := _ |} =>
          replace (released s ++ []) with (released s ++ ([] : list N)) by reflexivity;
          apply (inv_update s i w w' [] extra l I Hn) end.
        * cbn [app]. exact Pp.
        * exact Hex.
        * cbn [w_prep]. intros p Hpp. inv Hpp. unfold prep_ok; cbn [w_out p_doc p_cas p_rev d_seq d_unused d_cas d_tree w_docseq w_unusedseqs].
          split; [reflexivity|]. split; [reflexivity|]. split; [reflexivity|]. split; [exact Hpos|]. split; [lia|].
          intros _. split; [apply Hgt, (inv_seq_le s I)|]. split; [reflexivity|].
          exists newrevs. split; [reflexivity|]. destruct (rev_last_some newrevs Hnr) as (r & Er). rewrite Er. apply rev_last_in, Er.
        * cbn [w_out]. congruence.
        * intros r q H. cbn in H. discriminate.
    - apply fail_case with (extra := []); auto; discriminate.
  Qed.
End Fixed.

Lemma wcar_pos w : 0 < w_docseq w -> wcar w = w_docseq w :: w_unusedseqs w.
Proof. intros H. unfold wcar, carried_seqs. assert (0 <? w_docseq w = true) as -> by lia. reflexivity. Qed.

Section Fixed2.
  Variable ac : bool.
  Variable tab : digtab.

  Lemma write_inv s i w p : Inv s -> nth_error (ws s) i = Some w -> w_out w = None -> w_prep w = Some p ->
    Inv (write false s i w p).
  Proof.
    intros I Hn Ho Hp. pose proof (inv_prep s I i w p Hn Hp) as (_ & Hds & Hus & Hpos & Hle & Himp).
    unfold write, write_gate, tomb_quirk. cbn [andb]. rewrite orb_false_r. destruct (p_cas p =? d_cas (st s)) eqn:Ecas.
    - apply N.eqb_eq in Ecas. destruct (Himp Ecas) as (Hgt & Hcas & nr & Htree & Hin).
      destruct (w_fail_write (w_op w)).
      + cbn [finish_failed]. apply (fail_case s i w (w_docseq w) (w_unusedseqs w) OFailed [] (last s) I Hn); [reflexivity | left; auto | discriminate].
      + (* commit *)
        set (wa := acked_writer w p).
        set (c := commit_of i w p (d_seq (st s))).
        destruct (flat_map_set_nth wcar i wa (ws s) w Hn) as (rest & P1 & P2).
        assert (Pacc : Permutation (acc {| st := p_doc p; last := last s; released := released s; ws := set_nth i wa (ws s); commits := commits s ++ [c] |}) (acc s)).
        { assert (Hwa : wcar wa = []) by reflexivity.
          assert (Hc : cseqs c = wcar w) by (unfold cseqs; subst c; cbn [commit_of c_seq c_unused]; rewrite Hds, Hus, (wcar_pos w Hpos); reflexivity).
          unfold acc; cbn [commits released ws]. rewrite P2, P1, flat_map_app. cbn [flat_map]. rewrite app_nil_r, Hwa, Hc. cbn [app].
          set (C := flat_map cseqs (commits s)). set (R := released s). set (X := wcar w).
          rewrite <- app_assoc. apply Permutation_app_head. rewrite !app_assoc. apply Permutation_app_tail, Permutation_app_comm. }
        assert (Hmem : In (w_docseq w) (acc s)).
        { unfold acc. apply in_or_app; right. apply in_or_app; right. eapply Permutation_in; [apply Permutation_sym, P1|].
          apply in_or_app; left. rewrite (wcar_pos w Hpos). left; reflexivity. }
        constructor; cbn [st last released ws commits].
        * eapply Permutation_NoDup; [apply Permutation_sym, Pacc | exact (inv_nodup s I)].
        * intros x. rewrite <- (inv_range s I x). split; intros H; [eapply Permutation_in; eauto | eapply Permutation_in; [apply Permutation_sym|]; eauto].
        * rewrite Hds. apply (inv_range s I) in Hmem. lia.
        * intros j wj pj Hj Hpj. destruct (Nat.eq_dec i j) as [<-|Hne].
          { rewrite (nth_error_set_nth_eq _ _ _ _ Hn) in Hj. inv Hj. discriminate. }
          rewrite nth_error_set_nth_neq in Hj by assumption.
          destruct (inv_prep s I j wj pj Hj Hpj) as (A1 & A2 & A3 & A4 & A5 & A6).
          unfold prep_ok. cbn [st]. rewrite Hcas. do 5 (split; [assumption || lia|]). intros Heq. exfalso. lia.
        * intros j wj Hj Hoj. destruct (Nat.eq_dec i j) as [<-|Hne].
          { rewrite (nth_error_set_nth_eq _ _ _ _ Hn) in Hj. inv Hj. split; reflexivity. }
          rewrite nth_error_set_nth_neq in Hj by assumption. exact (inv_done s I j wj Hj Hoj).
        * destruct (inv_commits s I) as (Hc1 & Hc2).
          destruct (commits_ok_app 0 (commits s) c Hc1) as (H1 & H2); subst c; cbn [commit_of c_prevseq c_seq]; auto; lia.
        * intros j wj r q Hj Hoj. destruct (Nat.eq_dec i j) as [<-|Hne].
          { rewrite (nth_error_set_nth_eq _ _ _ _ Hn) in Hj. inv Hj. cbn in Hoj. inv Hoj. split.
            - rewrite Htree, has_rev_app, Hin. apply orb_true_r.
            - exists c. split; [apply in_or_app; right; left; reflexivity | split; reflexivity]. }
          rewrite nth_error_set_nth_neq in Hj by assumption.
          destruct (inv_acked s I j wj r q Hj Hoj) as (B1 & c' & B2 & B3 & B4). split.
          { rewrite Htree, has_rev_app, B1. reflexivity. }
          exists c'. split; [apply in_or_app; left; exact B2 | auto].
    - (* CAS mismatch: back to Prepare, still carrying the sequences *)
      match goal with |- Inv {| st := _; last := _; released := _; ws := set_nth i ?w' _; commits := _ |} =>
        replace (released s) with (released s ++ []) by apply app_nil_r;
        apply (inv_update s i w w' [] [] (last s) I Hn) end.
      + reflexivity.
      + left; auto.
      + cbn. discriminate.
      + cbn. congruence.
      + intros r q H. cbn in H. discriminate.
  Qed.

  Lemma step_inv s e : Inv s -> Inv (step true false ac tab s e).
  Proof.
    intros I. destruct e as [i|i]; cbn [step]; destruct (nth_error (ws s) i) as [w|] eqn:Hn; auto;
      destruct (w_out w) eqn:Ho; auto; destruct (w_prep w) as [p|] eqn:Hp; auto.
    - apply prepare_inv; auto.
    - apply write_inv; auto.
  Qed.

  Theorem run_inv ops sched : Inv (run true false ac tab ops sched).
  Proof.
    unfold run. generalize (init_inv ops). generalize (init_world ops) as s.
    induction sched as [|e r IH]; intros s I; cbn [fold_left]; [exact I|]. apply IH, step_inv, I.
  Qed.
End Fixed2.
