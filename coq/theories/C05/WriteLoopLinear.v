(* C05: linearizability of the stored revision tree, for EVERY schedule (compare-and-swap discipline):
   the stored tree is the concatenation, in commit order, of the revisions each acknowledged write added, and each
   acknowledged write's plan (parent check, conflict check, generation check, revisions to add) was computed on
   exactly the tree the earlier commits produced.  Consequences (lifting WriteLoopTree.v along the commit order):
   the stored tree is always well-formed; with conflicts disallowed it has at most one live leaf and, without
   tombstones, is a single chain; the stored current revision is the maximal leaf and the stored sequence is the
   last commit's. *)
From Coq Require Import Permutation.
From SG Require Import Base.Prelude C05.WriteLoop C05.WriteLoopProofs C05.WriteLoopParents C05.WriteLoopTree.
Open Scope N_scope.

Section Lin.
  Variable ac : bool.
  Variable tab : digtab.

  (* commit [c] is what its writer's callback decides on tree [t] *)
  Definition applies (t : tree) (c : commit) : Prop :=
    plan_of ac tab (c_op c) (c_attempt c) (c_matchrev c) t = Some (PAdd (c_added c)) /\
    w_reject (c_op c) = false /\
    option_map r_id (rev_last (c_added c)) = Some (c_rev c) /\
    c_cur c = option_map r_id (winner (t ++ c_added c)) /\
    c_put c = match w_push (c_op c) with [] => true | _ => false end.

  Inductive lin_commits : list commit -> Prop :=
  | lin_nil : lin_commits []
  | lin_snoc cs c : lin_commits cs -> applies (flat_map c_added cs) c -> lin_commits (cs ++ [c]).

  Lemma lin_commits_split cs : lin_commits cs ->
    forall l1 c l2, cs = l1 ++ c :: l2 -> lin_commits l1 /\ applies (flat_map c_added l1) c.
  Proof.
    induction 1 as [|cs c0 Hl IH Ha]; intros l1 c l2 E.
    - destruct l1; discriminate.
    - destruct l2 as [|y l2].
      + apply app_inj_tail in E as [-> ->]. auto.
      + destruct (@exists_last _ (y :: l2)) as (l2' & x & El); [discriminate|].
        rewrite El in E. change (l1 ++ c :: l2' ++ [x]) with (l1 ++ (c :: l2') ++ [x]) in E.
        rewrite app_assoc in E. apply app_inj_tail in E as [-> _]. eapply IH; eauto.
  Qed.

  (* running the acknowledged writes one after another, in commit order, each on the tree the previous ones left *)
  Definition replay1 (ot : option tree) (c : commit) : option tree :=
    match ot with
    | None => None
    | Some t => match plan_of ac tab (c_op c) (c_attempt c) (c_matchrev c) t with
                | Some (PAdd nr) => if w_reject (c_op c) then None else Some (t ++ nr)
                | _ => None
                end
    end.
  Definition replay (cs : list commit) : option tree := fold_left replay1 cs (Some []).

  Lemma lin_replay cs : lin_commits cs -> replay cs = Some (flat_map c_added cs).
  Proof.
    induction 1 as [|cs c Hl IH (Hp & Hr & _)]; [reflexivity|].
    unfold replay in *. rewrite fold_left_app, IH. cbn [fold_left replay1]. rewrite Hp, Hr, flat_map_app. cbn. rewrite app_nil_r. reflexivity.
  Qed.

  Definition lin_prep (s : world) (w : writer) (p : prepared) : Prop :=
    p_cas p = d_cas (st s) ->
      plan_of ac tab (w_op w) (p_att p) (p_match p) (d_tree (st s)) = Some (PAdd (p_added p)) /\
      w_reject (w_op w) = false /\
      d_tree (p_doc p) = d_tree (st s) ++ p_added p /\
      option_map r_id (rev_last (p_added p)) = Some (p_rev p) /\
      d_cur (p_doc p) = option_map r_id (winner (d_tree (p_doc p))).

  Variable ops0 : list wop.

  Record LInv (s : world) : Prop := {
    li_tree : d_tree (st s) = flat_map c_added (commits s);
    li_cur : d_cur (st s) = option_map r_id (winner (d_tree (st s)));
    li_lin : lin_commits (commits s);
    li_prep : forall i w p, nth_error (ws s) i = Some w -> w_prep w = Some p -> lin_prep s w p;
    li_ack : forall c, In c (commits s) ->
               exists w, nth_error (ws s) (c_widx c) = Some w /\ w_op w = c_op c /\ w_out w = Some (OAck (c_rev c) (c_seq c));
    li_ops : map w_op (ws s) = ops0
  }.

  Lemma map_set_nth {A B} (f : A -> B) i x l y : nth_error l i = Some y -> f x = f y -> map f (set_nth i x l) = map f l.
  Proof.
    revert i; induction l as [|z r IH]; intros [|i] H E; cbn in *; try discriminate.
    - inv H. rewrite E. reflexivity.
    - rewrite (IH _ H E). reflexivity.
  Qed.

  (* a step of writer [i] that neither commits nor changes the stored document *)
  Lemma linv_update s s' i w w' :
    LInv s -> nth_error (ws s) i = Some w -> w_out w = None ->
    st s' = st s -> commits s' = commits s -> ws s' = set_nth i w' (ws s) -> w_op w' = w_op w ->
    (forall p, w_prep w' = Some p -> lin_prep s w' p) ->
    LInv s'.
  Proof.
    intros L Hn Ho Hst Hcm Hws Hop Hprep. constructor; rewrite ?Hst, ?Hcm, ?Hws.
    - apply (li_tree s L).
    - apply (li_cur s L).
    - apply (li_lin s L).
    - intros j wj pj Hj Hpj. destruct (Nat.eq_dec i j) as [<-|Hne].
      + rewrite (nth_error_set_nth_eq _ _ _ _ Hn) in Hj. inv Hj. unfold lin_prep. rewrite Hst. apply Hprep, Hpj.
      + rewrite nth_error_set_nth_neq in Hj by assumption. pose proof (li_prep s L j wj pj Hj Hpj) as H.
        unfold lin_prep in *. rewrite Hst. exact H.
    - intros c Hc. destruct (li_ack s L c Hc) as (w0 & H0 & Hop0 & Hout0). exists w0.
      destruct (Nat.eq_dec i (c_widx c)) as [E|Hne]; [rewrite <- E in H0; congruence|].
      rewrite nth_error_set_nth_neq by assumption. auto.
    - rewrite (map_set_nth w_op i w' (ws s) w Hn Hop). apply (li_ops s L).
  Qed.

  Ltac fail_branch :=
    cbn [finish_failed st commits ws];
    split; [reflexivity|]; split; [reflexivity|]; eexists; split; [reflexivity|]; split; [reflexivity|];
    cbn [w_prep]; intros ? ?; discriminate.

  Lemma prepare_lin s i w :
    let s' := prepare true ac tab s i w in
    st s' = st s /\ commits s' = commits s /\
    exists w', ws s' = set_nth i w' (ws s) /\ w_op w' = w_op w /\
      (forall p, w_prep w' = Some p -> lin_prep s w' p).
  Proof.
    unfold prepare. cbn zeta.
    set (plan := plan_of _ _ _ _ _ _).
    destruct plan as [[| | |newrevs]|] eqn:Eplan; try fail_branch.
    destruct (w_reject (w_op w)) eqn:Erej; try fail_branch.
    destruct (nth (w_attempt w) (w_fail_after (w_op w)) false); try fail_branch.
    split; [reflexivity|]. split; [reflexivity|]. eexists. split; [reflexivity|]. split; [reflexivity|].
    cbn [w_prep w_op]. intros p Hp. inv Hp. unfold lin_prep. cbn [p_cas p_doc p_rev p_added p_att p_match d_tree d_cur w_op].
    intros _. split; [exact Eplan|]. split; [exact Erej|]. split; [reflexivity|]. split; [|reflexivity].
    destruct (plan_shape _ _ _ _ _ _ _ Eplan) as (parent & Hne & _).
    destruct (rev_last_some newrevs Hne) as (r & Er). rewrite Er. reflexivity.
  Qed.

  Lemma step_linv s e : Inv s -> LInv s -> LInv (step true false ac tab s e).
  Proof.
    intros I L. destruct e as [i|i]; cbn [step]; destruct (nth_error (ws s) i) as [w|] eqn:Hn; auto;
      destruct (w_out w) eqn:Ho; auto; destruct (w_prep w) as [p|] eqn:Hp; auto.
    - (* Prepare *)
      destruct (prepare_lin s i w) as (Hst & Hcm & w' & Hws & Hop & Hw'). cbn zeta in *.
      eapply linv_update; eauto.
    - (* Write *)
      unfold write, write_gate, tomb_quirk. cbn [andb]. rewrite orb_false_r.
      pose proof (inv_prep s I i w p Hn Hp) as (_ & Hds & Hus & Hpos & Hle & Himp).
      destruct (p_cas p =? d_cas (st s)) eqn:Ecas.
      + apply N.eqb_eq in Ecas. destruct (Himp Ecas) as (Hgt & Hcas & nr & Htree & Hin).
        destruct (w_fail_write (w_op w)); cbn [finish_failed].
        * eapply (linv_update s _ i w _ L Hn Ho); [reflexivity | reflexivity | reflexivity | reflexivity | cbn; intros ? ?; discriminate].
        * (* commit *)
          destruct (li_prep s L i w p Hn Hp Ecas) as (Hplan & Hrej & Hadd & Hlast & Hcur).
          constructor; cbn [st commits ws].
          { rewrite Hadd, (li_tree s L), flat_map_app. cbn. rewrite app_nil_r. reflexivity. }
          { exact Hcur. }
          { apply lin_snoc; [apply (li_lin s L)|]. rewrite <- (li_tree s L). unfold applies. cbn [commit_of c_op c_attempt c_matchrev c_added c_rev c_cur c_put].
            rewrite <- Hadd. auto. }
          { intros j wj pj Hj Hpj. destruct (Nat.eq_dec i j) as [<-|Hne].
            - rewrite (nth_error_set_nth_eq _ _ _ _ Hn) in Hj. inv Hj. discriminate.
            - rewrite nth_error_set_nth_neq in Hj by assumption.
              destruct (inv_prep s I j wj pj Hj Hpj) as (_ & _ & _ & _ & Hlej & _).
              unfold lin_prep. intros Heq. exfalso. cbn [st] in Heq. rewrite Hcas in Heq. lia. }
          { intros c Hc. apply in_app_or in Hc as [Hc|[<-|[]]].
            - destruct (li_ack s L c Hc) as (w0 & H0 & Hop0 & Hout0). exists w0.
              destruct (Nat.eq_dec i (c_widx c)) as [E|Hne]; [rewrite <- E in H0; congruence|].
              rewrite nth_error_set_nth_neq by assumption. auto.
            - cbn [commit_of c_widx c_op c_rev c_seq]. exists (acked_writer w p).
              split; [eapply nth_error_set_nth_eq; eauto|]. split; reflexivity. }
          { rewrite (map_set_nth w_op i (acked_writer w p) (ws s) w Hn eq_refl). apply (li_ops s L). }
      + (* CAS mismatch *)
        eapply (linv_update s _ i w _ L Hn Ho); [reflexivity | reflexivity | reflexivity | reflexivity | cbn; intros ? ?; discriminate].
  Qed.
End Lin.

Lemma init_linv ac tab ops : LInv ac tab ops (init_world ops).
Proof.
  constructor; cbn.
  - reflexivity.
  - reflexivity.
  - constructor.
  - intros i w p H Hp. apply nth_error_In in H. apply in_map_iff in H as (o & <- & _). discriminate.
  - intros c [].
  - rewrite map_map. cbn. apply map_id.
Qed.

Theorem run_linv ac tab ops sched : LInv ac tab ops (run true false ac tab ops sched).
Proof.
  unfold run. assert (H : forall s, Inv s -> LInv ac tab ops s -> LInv ac tab ops (fold_left (step true false ac tab) sched s)).
  { induction sched as [|e r IH]; intros s I L; cbn [fold_left]; [exact L|].
    apply IH; [apply step_inv, I | apply step_linv; assumption]. }
  apply H; [apply init_inv | apply init_linv].
Qed.

(* ---------- lifting the tree-level lemmas along the commit order ---------- *)
Lemma lin_wf ac tab cs : lin_commits ac tab cs -> wf (flat_map c_added cs).
Proof.
  induction 1 as [|cs c Hl IH (Hp & _)]; [apply wf_nil|].
  rewrite flat_map_app. cbn. rewrite app_nil_r. eapply plan_wf; eauto.
Qed.

Lemma lin_amo tab cs : lin_commits false tab cs -> amo (flat_map c_added cs).
Proof.
  induction 1 as [|cs c Hl IH (Hp & _)]; [apply amo_nil|].
  rewrite flat_map_app. cbn. rewrite app_nil_r. eapply plan_amo; eauto. eapply lin_wf; eauto.
Qed.

Lemma lin_single_chain tab cs : lin_commits false tab cs -> all_live (flat_map c_added cs) -> single_chain (flat_map c_added cs).
Proof.
  induction 1 as [|cs c Hl IH (Hp & _)]; intros Al; [apply single_chain_nil|].
  rewrite flat_map_app in *. cbn in *. rewrite app_nil_r in *.
  assert (Al0 : all_live (flat_map c_added cs)) by (intros r Hr; apply Al, in_or_app; left; exact Hr).
  eapply plan_single_chain; eauto. eapply lin_amo; eauto.
Qed.

(* conflict-free mode: as long as no acknowledged pushed revision carried ForceAllowConflictingTombstone, every
   revision is the only child of its parent *)
Lemma lin_uc tab cs : lin_commits false tab cs ->
  (forall c, In c cs -> w_push (c_op c) <> [] -> o_force (w_opt (c_op c)) = false) -> uc (flat_map c_added cs).
Proof.
  induction 1 as [|cs c Hl IH (Hp & _)]; intros Hnf; [apply uc_nil|].
  rewrite flat_map_app. cbn. rewrite app_nil_r.
  assert (U : uc (flat_map c_added cs)) by (apply IH; intros c0 Hc0; apply Hnf, in_or_app; left; exact Hc0).
  destruct (plan_uc _ _ _ _ _ _ (lin_wf _ _ _ Hl) U Hp) as [U'|(Hpush & Hf & _)]; [exact U'|].
  rewrite (Hnf c) in Hf; [discriminate | apply in_or_app; right; left; reflexivity | exact Hpush].
Qed.

Lemma lin_put_single ac tab cs : lin_commits ac tab cs -> forall c, In c cs -> c_put c = true -> length (c_added c) = 1%nat.
Proof.
  intros Hl c Hc Hput. apply in_split in Hc as (l1 & l2 & ->).
  destruct (lin_commits_split ac tab _ Hl l1 c l2 eq_refl) as (_ & Hp & _ & _ & _ & Eput).
  rewrite Hput in Eput. unfold plan_of in Hp. destruct (w_push (c_op c)); [|discriminate].
  destruct (put_check _ _ _ _); [|discriminate]. destruct (dig_lookup _ _); [|discriminate].
  destruct (has_rev _ _); [discriminate|]. injection Hp as Hp. rewrite <- Hp. reflexivity.
Qed.

Lemma lin_live ac tab cs : lin_commits ac tab cs -> (forall c, In c cs -> w_deleted (c_op c) = false) -> all_live (flat_map c_added cs).
Proof.
  intros Hl Hd r Hr. apply in_flat_map in Hr as (c & Hc & Hr). pose proof (Hd c Hc) as Hdc.
  apply in_split in Hc as (l1 & l2 & ->).
  destruct (lin_commits_split ac tab _ Hl l1 c l2 eq_refl) as (_ & Hp & _).
  destruct (plan_shape _ _ _ _ _ _ _ Hp) as (parent & _ & _ & _ & _ & Hlive & _). apply Hlive; assumption.
Qed.

Lemma nodup_ids_eq (t : tree) x y : NoDup (map r_id t) -> In x t -> In y t -> r_id x = r_id y -> x = y.
Proof.
  induction t as [|a t IH]; intros Hnd Hx Hy E; [destruct Hx|]. cbn in Hnd. inv Hnd.
  destruct Hx as [<-|Hx], Hy as [<-|Hy]; auto.
  - exfalso. apply H1. rewrite E. apply in_map, Hy.
  - exfalso. apply H1. rewrite <- E. apply in_map, Hx.
Qed.

Lemma flat_map_length_sum {A B} (f : A -> list B) l : length (flat_map f l) = list_sum (map (fun x => length (f x)) l).
Proof. induction l as [|x l IH]; cbn; [reflexivity|]. rewrite app_length, IH. reflexivity. Qed.

(* ---------- theorems over every schedule ---------- *)
Section Thm.
  Variable ac : bool.
  Variable tab : digtab.
  Variable ops : list wop.
  Variable sched : list sstep.
  Let s := run true false ac tab ops sched.

  (* (1) linearizability *)
  Theorem tree_linearizable :
    d_tree (st s) = flat_map c_added (commits s) /\
    (forall l1 c l2, commits s = l1 ++ c :: l2 ->
       plan_of ac tab (c_op c) (c_attempt c) (c_matchrev c) (flat_map c_added l1) = Some (PAdd (c_added c)) /\
       w_reject (c_op c) = false /\ option_map r_id (rev_last (c_added c)) = Some (c_rev c)) /\
    replay ac tab (commits s) = Some (d_tree (st s)).
  Proof.
    pose proof (run_linv ac tab ops sched) as L. fold s in L. split; [apply (li_tree _ _ _ _ L)|]. split.
    - intros l1 c l2 E. destruct (lin_commits_split ac tab _ (li_lin _ _ _ _ L) l1 c l2 E) as (_ & H1 & H2 & H3 & _). auto.
    - rewrite (li_tree _ _ _ _ L). apply lin_replay, (li_lin _ _ _ _ L).
  Qed.

  (* every commit is the acknowledged write of exactly the writer it names, one of the given requests *)
  Theorem commits_are_acks c : In c (commits s) ->
    exists w, nth_error (ws s) (c_widx c) = Some w /\ w_op w = c_op c /\ w_out w = Some (OAck (c_rev c) (c_seq c)) /\ In (c_op c) ops.
  Proof.
    intros Hc. pose proof (run_linv ac tab ops sched) as L. fold s in L.
    destruct (li_ack _ _ _ _ L c Hc) as (w & Hn & Hop & Hout). exists w. repeat split; auto.
    rewrite <- (li_ops _ _ _ _ L), <- Hop. apply in_map. eapply nth_error_In; eauto.
  Qed.

  (* the stored tree is well-formed in either mode: ids unique, parents present, generation above the parent's *)
  Theorem tree_wellformed : wf (d_tree (st s)).
  Proof. pose proof (run_linv ac tab ops sched) as L. fold s in L. rewrite (li_tree _ _ _ _ L). eapply lin_wf, (li_lin _ _ _ _ L). Qed.

  Theorem tree_length :
    length (d_tree (st s)) = list_sum (map (fun c => length (c_added c)) (commits s)) /\
    ((forall c, In c (commits s) -> c_put c = true) -> length (d_tree (st s)) = length (commits s)).
  Proof.
    pose proof (run_linv ac tab ops sched) as L. fold s in L. rewrite (li_tree _ _ _ _ L). split; [apply flat_map_length_sum|].
    intros Hput. pose proof (lin_put_single ac tab _ (li_lin _ _ _ _ L)) as H1.
    assert (G : forall l : list commit, (forall c, In c l -> length (c_added c) = 1%nat) -> length (flat_map c_added l) = length l).
    { induction l as [|c l IH]; intros Hl; [reflexivity|]. cbn [flat_map length]. rewrite app_length, (Hl c (or_introl eq_refl)), IH; [reflexivity|].
      intros c' Hc'. apply Hl. right; exact Hc'. }
    apply G. intros c Hc. apply H1; auto.
  Qed.

  (* one accepted child per parent, the single write: an acknowledged write for which conflicts are disallowed (by
     the database, or by its own NoConflicts option) either is a forced tombstone written onto a tombstoned
     document, or every revision it added is the only child of its parent *)
  Theorem noconflict_write_second_child_only_forced l1 c l2 :
    commits s = l1 ++ c :: l2 -> ac && negb (o_noconf (w_opt (c_op c))) = false ->
    (c_put c = false /\ w_push (c_op c) <> [] /\ o_force (w_opt (c_op c)) = true /\
     tree_tombstoned (flat_map c_added l1) = true) \/
    (forall x y q, In x (flat_map c_added l1 ++ c_added c) -> In y (c_added c) ->
                   r_parent x = Some q -> r_parent y = Some q -> x = y).
  Proof.
    intros E Hcf. pose proof (run_linv ac tab ops sched) as L. fold s in L.
    destruct (lin_commits_split ac tab _ (li_lin _ _ _ _ L) l1 c l2 E) as (Hl1 & Hp & _ & _ & _ & Eput).
    destruct (plan_new_only_child _ _ _ _ _ _ _ (lin_wf _ _ _ Hl1) Hcf Hp) as [(Hpush & Hf & Ht)|H]; [left | right; exact H].
    split; [|auto]. rewrite Eput. destruct (w_push (c_op c)); [congruence | reflexivity].
  Qed.

  (* (3) the stored current revision is the winner of the stored tree, i.e. its maximal leaf; the stored sequence
     and current revision are those of the last commit *)
  Theorem feed_final_rev :
    d_cur (st s) = option_map r_id (winner (d_tree (st s))) /\
    (forall w, winner (d_tree (st s)) = Some w ->
       In w (leaves (d_tree (st s))) /\
       forall x, In x (leaves (d_tree (st s))) -> beats x w = false /\ (x <> w -> beats w x = true)) /\
    (forall l c, commits s = l ++ [c] ->
       d_seq (st s) = c_seq c /\ d_cur (st s) = c_cur c /\ exists w, winner (d_tree (st s)) = Some w /\ c_cur c = Some (r_id w)) /\
    (commits s = [] -> d_tree (st s) = [] /\ d_seq (st s) = 0 /\ d_cur (st s) = None).
  Proof.
    pose proof (run_linv ac tab ops sched) as L. pose proof (run_inv ac tab ops sched) as I. pose proof tree_wellformed as W. fold s in L, I.
    split; [apply (li_cur _ _ _ _ L)|]. split; [|split].
    - intros w Hw. destruct (winner_max _ _ Hw) as (Hin & Hmax). split; [exact Hin|]. intros x Hx. split; [apply Hmax, Hx|].
      intros Hne. apply beats_total; [apply Hmax, Hx|]. intros E. apply Hne.
      apply leaves_in in Hx as [Hx _]. apply leaves_in in Hin as [Hin _]. eapply nodup_ids_eq; eauto. apply (wf_nodup _ W).
    - intros l c E. destruct (inv_commits _ I) as (_ & Hseq). rewrite E in Hseq. unfold last_seq in Hseq. rewrite fold_left_app in Hseq. cbn in Hseq.
      split; [congruence|].
      destruct (lin_commits_split ac tab _ (li_lin _ _ _ _ L) l c [] E) as (_ & _ & _ & Hlast & Hcur & _).
      assert (Et : d_tree (st s) = flat_map c_added l ++ c_added c).
      { rewrite (li_tree _ _ _ _ L), E, flat_map_app. cbn. rewrite app_nil_r. reflexivity. }
      rewrite <- Et in Hcur. split; [rewrite (li_cur _ _ _ _ L); congruence|].
      destruct (wf_winner_some _ W) as (w & Hw).
      + rewrite Et. destruct (c_added c); [discriminate|]. intros H. apply app_eq_nil in H as [_ H]. discriminate.
      + exists w. split; [exact Hw|]. rewrite Hcur, Hw. reflexivity.
    - intros E. destruct (inv_commits _ I) as (_ & Hseq). rewrite E in Hseq. cbn in Hseq.
      assert (Et : d_tree (st s) = []) by (rewrite (li_tree _ _ _ _ L), E; reflexivity).
      split; [exact Et|]. split; [congruence|]. rewrite (li_cur _ _ _ _ L), Et. reflexivity.
  Qed.
End Thm.

(* (2) conflict-free mode, ALL writers (REST and pushed revisions) *)
Section ConflictFree.
  Variable tab : digtab.
  Variable ops : list wop.
  Variable sched : list sstep.
  Let s := run true false false tab ops sched.

  Theorem conflict_free_one_live_leaf : (length (live_leaves (d_tree (st s))) <= 1)%nat.
  Proof.
    pose proof (run_linv false tab ops sched) as L. fold s in L. apply amo_count; [apply tree_wellformed|].
    rewrite (li_tree _ _ _ _ L). apply lin_amo with tab, (li_lin _ _ _ _ L).
  Qed.

  Theorem conflict_free_single_chain : all_live (d_tree (st s)) ->
    single_chain (d_tree (st s)) /\
    length (d_tree (st s)) = list_sum (map (fun c => length (c_added c)) (commits s)) /\
    (d_tree (st s) <> [] -> exists r, leaves (d_tree (st s)) = [r] /\ rev_last (d_tree (st s)) = Some r).
  Proof.
    intros Al. pose proof (run_linv false tab ops sched) as L. fold s in L.
    assert (S : single_chain (d_tree (st s))).
    { rewrite (li_tree _ _ _ _ L) in *. apply lin_single_chain with tab; [apply (li_lin _ _ _ _ L) | exact Al]. }
    split; [exact S|]. split; [apply (tree_length false tab ops sched)|]. apply single_chain_one_leaf, S.
  Qed.

  (* when no request deletes, no stored revision is a tombstone *)
  Theorem no_delete_all_live : (forall o, In o ops -> w_deleted o = false) -> all_live (d_tree (st s)).
  Proof.
    intros Hd. pose proof (run_linv false tab ops sched) as L. fold s in L. rewrite (li_tree _ _ _ _ L).
    apply lin_live with false tab; [apply (li_lin _ _ _ _ L)|]. intros c Hc.
    destruct (commits_are_acks false tab ops sched c Hc) as (_ & _ & _ & _ & Hin). apply Hd, Hin.
  Qed.

  (* ONE ACCEPTED CHILD PER PARENT, all writers.  Each acknowledged write either
       (1) is a pushed revision written with ForceAllowConflictingTombstone onto a document that was a tombstone
           when its (successful) callback ran -- the only way to skip the conflict check -- or
       (2) every revision it added is, at its commit, the ONLY child of its parent: the parent had no child in the
           tree the earlier commits produced, and the write itself adds one child per parent. *)
  Theorem conflict_free_second_child_only_forced l1 c l2 :
    commits s = l1 ++ c :: l2 ->
    (c_put c = false /\ w_push (c_op c) <> [] /\ o_force (w_opt (c_op c)) = true /\
     tree_tombstoned (flat_map c_added l1) = true) \/
    (forall x y q, In x (flat_map c_added l1 ++ c_added c) -> In y (c_added c) ->
                   r_parent x = Some q -> r_parent y = Some q -> x = y).
  Proof.
    intros E. exact (noconflict_write_second_child_only_forced false tab ops sched l1 c l2 E eq_refl).
  Qed.

  (* hence: when no pushed revision carries the option, every stored revision is the only child of its parent *)
  Theorem conflict_free_unforced_one_child_per_parent :
    (forall o, In o ops -> w_push o <> [] -> o_force (w_opt o) = false) -> uc (d_tree (st s)).
  Proof.
    intros Hnf. pose proof (run_linv false tab ops sched) as L. fold s in L. rewrite (li_tree _ _ _ _ L).
    apply lin_uc with tab; [apply (li_lin _ _ _ _ L)|]. intros c Hc.
    destruct (commits_are_acks false tab ops sched c Hc) as (_ & _ & _ & _ & Hin). apply Hnf, Hin.
  Qed.
End ConflictFree.

(* a concrete conflict-free run for the non-vacuity example in C05_Properties.v: three REST writers and three pushes
   (one refused by the generation check, one refused as a conflict) *)
Definition cf_ops : list wop :=
  [ {| w_tag := 1; w_parent := None; w_deleted := false; w_push := [(1, 1)]; w_reject := false; w_fail_after := []; w_fail_write := false; w_opt := no_opts |};
    {| w_tag := 2; w_parent := Some (1, 1); w_deleted := false; w_push := []; w_reject := false; w_fail_after := []; w_fail_write := false; w_opt := no_opts |};
    {| w_tag := 3; w_parent := Some (1, 1); w_deleted := false; w_push := []; w_reject := false; w_fail_after := []; w_fail_write := false; w_opt := no_opts |};
    {| w_tag := 4; w_parent := None; w_deleted := false; w_push := [(4, 40); (3, 33); (2, 22)]; w_reject := false; w_fail_after := []; w_fail_write := false; w_opt := no_opts |};
    {| w_tag := 5; w_parent := None; w_deleted := false; w_push := [(2, 50); (2, 22)]; w_reject := false; w_fail_after := []; w_fail_write := false; w_opt := no_opts |};
    {| w_tag := 6; w_parent := None; w_deleted := false; w_push := [(2, 60); (1, 1)]; w_reject := false; w_fail_after := []; w_fail_write := false; w_opt := no_opts |} ].
Definition cf_tab : digtab := [((2, Some (1, 1)), 22); ((3, Some (1, 1)), 31)].
Definition cf_sched : list sstep :=
  [Prepare 0; Write 0; Prepare 1; Prepare 2; Write 1; Write 2; Prepare 2; Prepare 3; Prepare 4; Write 4; Write 3; Prepare 5; Write 5]%nat.
