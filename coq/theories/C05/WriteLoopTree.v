(* C05: the revision tree under the write loop -- tree-level lemmas.
   What ONE run of the update callback (plan_of) does to a tree: well-formedness (ids unique, parents present,
   generations strictly above the parent's: RevTree.addRevision's checks), the leaves of an extended tree, the
   winner as the maximal leaf, and the conflict-free mode (IsIllegalConflict): at most one live leaf, a single
   chain when there is no tombstone.  No world / schedule here: WriteLoopLinear.v lifts these along the commit
   order. *)
From Coq Require Import Permutation.
From SG Require Import Base.Prelude C05.WriteLoop C05.WriteLoopProofs C05.WriteLoopParents.
Open Scope N_scope.

(* ---------- small facts ---------- *)
Lemma orevid_eqb_eq a b : orevid_eqb a b = true <-> a = b.
Proof.
  unfold orevid_eqb, option_eqb. destruct a as [a|], b as [b|]; try (split; congruence).
  rewrite revid_eqb_eq. split; congruence.
Qed.

Lemma has_rev_in t id : has_rev t id = true <-> exists x, In x t /\ r_id x = id.
Proof.
  unfold has_rev. rewrite existsb_exists. split; intros (x & Hx & E); exists x; (split; [exact Hx|]); apply revid_eqb_eq; exact E.
Qed.

Lemma has_rev_false t id x : has_rev t id = false -> In x t -> r_id x <> id.
Proof.
  intros H Hin E. assert (Ht : has_rev t id = true) by (apply has_rev_in; eauto). congruence.
Qed.

Lemma has_child_in t q : has_child t q = true <-> exists x, In x t /\ r_parent x = Some q.
Proof.
  unfold has_child. rewrite existsb_exists. split; intros (x & Hx & E); exists x; (split; [exact Hx|]); apply orevid_eqb_eq; exact E.
Qed.

Lemma leaves_in t x : In x (leaves t) <-> In x t /\ has_child t (r_id x) = false.
Proof. unfold leaves. rewrite filter_In. destruct (has_child t (r_id x)); cbn; intuition congruence. Qed.

Lemma find_rev t p : has_rev t p = true ->
  exists y, find (fun r => revid_eqb (r_id r) p) t = Some y /\ In y t /\ r_id y = p.
Proof.
  intros H. destruct (find (fun r => revid_eqb (r_id r) p) t) as [y|] eqn:E.
  - apply find_some in E as [Hin He]. exists y. split; [reflexivity|]. split; [exact Hin|]. apply revid_eqb_eq, He.
  - exfalso. apply has_rev_in in H as (x & Hx & Ex). pose proof (find_none _ _ E x Hx) as Hn. cbn in Hn.
    rewrite Ex, revid_eqb_refl in Hn. discriminate.
Qed.

Lemma rev_last_snoc (l : list revinfo) r : rev_last (l ++ [r]) = Some r.
Proof. unfold rev_last. rewrite map_app. cbn. apply last_last. Qed.

Lemma rev_last_cons r (l : list revinfo) : l <> [] -> rev_last (r :: l) = rev_last l.
Proof. unfold rev_last. destruct l; [congruence|]. reflexivity. Qed.

Lemma rev_last_in_list (l : list revinfo) r : rev_last l = Some r -> In r l.
Proof.
  induction l as [|x l IH]; [discriminate|]. destruct l as [|y l'].
  - cbn. intros H; inv H. auto.
  - rewrite rev_last_cons by discriminate. intros H. right. apply IH, H.
Qed.

Lemma rev_last_none (l : list revinfo) : rev_last l = None -> l = [].
Proof. destruct l as [|x l]; [reflexivity|]. intros H. destruct (rev_last_some (x :: l)) as (r & E); [discriminate|]. congruence. Qed.

(* ---------- well-formed trees ---------- *)
Record wf (t : tree) : Prop := {
  wf_nodup : NoDup (map r_id t);
  wf_parent : forall x p, In x t -> r_parent x = Some p -> has_rev t p = true;
  wf_gen : forall x p, In x t -> r_parent x = Some p -> fst p < fst (r_id x)
}.

(* what RevTree.addRevision accepts *)
Definition good_add (t : tree) (r : revinfo) : Prop :=
  has_rev t (r_id r) = false /\
  match r_parent r with None => True | Some p => has_rev t p = true /\ fst p < fst (r_id r) end.

Fixpoint adds (t : tree) (nr : list revinfo) : Prop :=
  match nr with [] => True | r :: nr' => good_add t r /\ adds (t ++ [r]) nr' end.

Lemma wf_nil : wf [].
Proof. constructor; cbn; [constructor | tauto | tauto]. Qed.

Lemma wf_add t r : wf t -> good_add t r -> wf (t ++ [r]).
Proof.
  intros [Hnd Hp Hg] [Hfresh Hpar]. constructor.
  - rewrite map_app. cbn. apply Permutation_NoDup with (r_id r :: map r_id t); [apply Permutation_cons_append|].
    constructor; [|exact Hnd]. intros Hin. apply in_map_iff in Hin as (x & Ex & Hx). eapply has_rev_false; eauto.
  - intros x p Hin E. rewrite has_rev_app. apply in_app_or in Hin as [Hin|[<-|[]]].
    + rewrite (Hp x p Hin E). reflexivity.
    + rewrite E in Hpar. destruct Hpar as [-> _]. reflexivity.
  - intros x p Hin E. apply in_app_or in Hin as [Hin|[<-|[]]]; [eauto|]. rewrite E in Hpar. tauto.
Qed.

Lemma snoc_app {A} (t : list A) r nr : t ++ r :: nr = (t ++ [r]) ++ nr.
Proof. rewrite <- app_assoc. reflexivity. Qed.

Lemma adds_wf nr : forall t, wf t -> adds t nr -> wf (t ++ nr).
Proof.
  induction nr as [|r nr IH]; intros t W A; [rewrite app_nil_r; exact W|].
  destruct A as [G A]. rewrite snoc_app. apply IH; [apply wf_add; assumption | exact A].
Qed.

(* ---------- leaves of an extended tree ---------- *)
Lemma leaves_add t r : wf t -> good_add t r ->
  forall x, In x (leaves (t ++ [r])) <-> (In x (leaves t) /\ r_parent r <> Some (r_id x)) \/ x = r.
Proof.
  intros W [Hfresh Hpar] x. rewrite !leaves_in, in_app_iff, has_child_app.
  assert (Hone : forall q, has_child [r] q = orevid_eqb (r_parent r) (Some q)) by (intros q; unfold has_child; cbn; apply orb_false_r).
  rewrite Hone. split.
  - intros [[Hin|[<-|[]]] Hc]; [|right; reflexivity]. apply orb_false_iff in Hc as [Hc1 Hc2]. left. split; [auto|].
    intros E. apply orevid_eqb_eq in E. congruence.
  - intros [[[Hin Hc] Hne]| ->].
    + split; [auto|]. rewrite Hc. cbn. destruct (orevid_eqb (r_parent r) (Some (r_id x))) eqn:E; [|reflexivity].
      apply orevid_eqb_eq in E. congruence.
    + split; [right; left; reflexivity|]. apply orb_false_iff. split.
      * destruct (has_child t (r_id r)) eqn:E; [|reflexivity]. apply has_child_in in E as (y & Hy & Ey).
        rewrite (wf_parent t W y _ Hy Ey) in Hfresh. discriminate.
      * destruct (orevid_eqb (r_parent r) (Some (r_id r))) eqn:E; [|reflexivity]. apply orevid_eqb_eq in E.
        rewrite E in Hpar. destruct Hpar as [H _]. congruence.
Qed.

(* a non-empty well-formed tree has a leaf (generations rise along parent links, so there is no cycle) *)
Lemma max_gen (t : tree) : t <> [] -> exists x, In x t /\ forall y, In y t -> fst (r_id y) <= fst (r_id x).
Proof.
  induction t as [|a t IH]; [congruence|]. intros _. destruct t as [|b t'].
  - exists a. split; [left; reflexivity|]. intros y [<-|[]]. lia.
  - destruct IH as (m & Hm & Hmax); [discriminate|].
    destruct (fst (r_id m) <=? fst (r_id a)) eqn:E.
    + exists a. split; [left; reflexivity|]. intros y [<-|Hy]; [lia|]. specialize (Hmax y Hy). lia.
    + exists m. split; [right; exact Hm|]. intros y [<-|Hy]; [lia|]. apply Hmax, Hy.
Qed.

Lemma wf_has_leaf t : wf t -> t <> [] -> exists x, In x (leaves t).
Proof.
  intros W Hne. destruct (max_gen t Hne) as (m & Hm & Hmax). exists m. apply leaves_in. split; [exact Hm|].
  destruct (has_child t (r_id m)) eqn:E; [|reflexivity]. apply has_child_in in E as (y & Hy & Ey).
  pose proof (wf_gen t W y _ Hy Ey). specialize (Hmax y Hy). lia.
Qed.

(* ---------- the winner is the maximal leaf ---------- *)
(* the update condition of winningRevision's loop: leaf [r] replaces the candidate [w] *)
Definition beats (r w : revinfo) : bool :=
  let ex := negb (r_deleted r) in let wex := negb (r_deleted w) in
  (ex && negb wex) || (Bool.eqb ex wex && rev_gt (r_id r) (r_id w)).

Lemma winner_step_beats acc r :
  winner_step acc r = match acc with None => Some r | Some w => if beats r w then Some r else Some w end.
Proof. reflexivity. Qed.

Ltac beats_crush :=
  unfold beats, rev_gt;
  repeat match goal with x : revinfo |- _ => destruct x as [[? ?] ? []] end; cbn; lia.

Lemma beats_irrefl x : beats x x = false.
Proof. beats_crush. Qed.
Lemma beats_trans x y z : beats x y = true -> beats y z = true -> beats x z = true.
Proof. beats_crush. Qed.
Lemma beats_negtrans x y z : beats x y = false -> beats y z = false -> beats x z = false.
Proof. beats_crush. Qed.
Lemma beats_total x w : beats x w = false -> r_id x <> r_id w -> beats w x = true.
Proof.
  intros H Hne. assert (Hd : fst (r_id x) <> fst (r_id w) \/ snd (r_id x) <> snd (r_id w)).
  { destruct (r_id x) as [a b], (r_id w) as [c d]. cbn. destruct (N.eq_dec a c), (N.eq_dec b d); subst; auto. }
  revert H Hd. clear Hne. beats_crush.
Qed.
Lemma beats_live_over_deleted x w : r_deleted x = false -> r_deleted w = true -> beats x w = true.
Proof. unfold beats. intros -> ->. reflexivity. Qed.

Lemma fold_winner_some l a : fold_left winner_step l (Some a) <> None.
Proof.
  revert a; induction l as [|r l IH]; intros a; cbn [fold_left]; [discriminate|].
  rewrite winner_step_beats. destruct (beats r a); apply IH.
Qed.

Lemma fold_winner_max l : forall acc w, fold_left winner_step l acc = Some w ->
  (forall a, acc = Some a -> beats a w = false) /\ (forall x, In x l -> beats x w = false).
Proof.
  induction l as [|r l IH]; intros acc w H; cbn [fold_left] in H.
  - subst acc. split; [intros a E; inv E; apply beats_irrefl | intros x []].
  - destruct (IH _ _ H) as (Ha & Hl). rewrite winner_step_beats in Ha. destruct acc as [a|].
    + destruct (beats r a) eqn:E.
      * pose proof (Ha r eq_refl) as Hr. split.
        { intros a' Ea; inv Ea. destruct (beats a' w) eqn:E2; [|reflexivity]. rewrite (beats_trans _ _ _ E E2) in Hr. discriminate. }
        { intros x [<-|Hx]; auto. }
      * pose proof (Ha a eq_refl) as Haw. split.
        { intros a' Ea; inv Ea. exact Haw. }
        { intros x [<-|Hx]; [eapply beats_negtrans; eauto | auto]. }
    + split; [discriminate|]. intros x [<-|Hx]; auto.
Qed.

Lemma winner_max t w : winner t = Some w -> In w (leaves t) /\ forall x, In x (leaves t) -> beats x w = false.
Proof.
  unfold winner. intros H. split.
  - apply fold_winner_in in H as [H|H]; [discriminate | exact H].
  - apply fold_winner_max in H as [_ H]. exact H.
Qed.

Lemma winner_none t : winner t = None -> leaves t = [].
Proof.
  unfold winner. destruct (leaves t) as [|r l]; [reflexivity|]. cbn [fold_left]. intros H. exfalso. revert H.
  rewrite winner_step_beats. apply fold_winner_some.
Qed.

Lemma winner_deleted_all t w : winner t = Some w -> r_deleted w = true -> forall x, In x (leaves t) -> r_deleted x = true.
Proof.
  intros H Hd x Hx. destruct (winner_max t w H) as [_ Hm]. specialize (Hm x Hx).
  destruct (r_deleted x) eqn:E; [reflexivity|]. rewrite (beats_live_over_deleted x w E Hd) in Hm. discriminate.
Qed.

Lemma wf_winner_some t : wf t -> t <> [] -> exists w, winner t = Some w.
Proof.
  intros W Hne. destruct (winner t) as [w|] eqn:E; [eauto|]. apply winner_none in E.
  destruct (wf_has_leaf t W Hne) as (x & Hx). rewrite E in Hx. destruct Hx.
Qed.

(* ---------- conflict-free mode: live leaves ---------- *)
Definition amo (t : tree) : Prop :=          (* at most one live leaf *)
  forall x y, In x (leaves t) -> In y (leaves t) -> r_deleted x = false -> r_deleted y = false -> x = y.
Definition live_at (t : tree) (parent : option revid) : Prop :=   (* every live leaf is [parent] *)
  forall x, In x (leaves t) -> r_deleted x = false -> parent = Some (r_id x).
Definition only_live (t : tree) (r : revinfo) : Prop :=
  forall x, In x (leaves t) -> r_deleted x = false -> x = r.

Lemma amo_nil : amo [].
Proof. intros x y []. Qed.

Lemma only_live_amo t r : only_live t r -> amo t.
Proof. intros H x y Hx Hy Dx Dy. rewrite (H x Hx Dx), (H y Hy Dy). reflexivity. Qed.

Lemma only_live_live_at t r : only_live t r -> live_at t (Some (r_id r)).
Proof. intros H x Hx Dx. rewrite (H x Hx Dx). reflexivity. Qed.

Lemma add_only_live t r : wf t -> good_add t r -> live_at t (r_parent r) -> only_live (t ++ [r]) r.
Proof.
  intros W G L x Hx Dx. apply (leaves_add t r W G) in Hx as [[Hx Hne]| ->]; [|reflexivity].
  exfalso. apply Hne. apply L; assumption.
Qed.

Fixpoint chain_from (p : option revid) (t : tree) : Prop :=
  match t with [] => True | r :: t' => r_parent r = p /\ chain_from (Some (r_id r)) t' end.

Lemma adds_only_live nr : forall t parent, wf t -> nr <> [] -> adds t nr -> chain_from parent nr -> live_at t parent ->
  exists r, rev_last nr = Some r /\ only_live (t ++ nr) r.
Proof.
  induction nr as [|r nr IH]; intros t parent W Hne A C L; [congruence|].
  destruct A as [G A]. destruct C as [Ep C]. rewrite <- Ep in L.
  pose proof (add_only_live t r W G L) as Q. destruct nr as [|r2 nr'].
  - exists r. split; [reflexivity | exact Q].
  - destruct (IH (t ++ [r]) (Some (r_id r))) as (z & Ez & Qz); try assumption; [apply wf_add; assumption | discriminate | apply only_live_live_at, Q |].
    exists z. split; [rewrite rev_last_cons by discriminate; exact Ez | rewrite snoc_app; exact Qz].
Qed.

(* IsIllegalConflict's three legal shapes all attach the new revisions below the only live leaf (if any) *)
Lemma not_illegal_live_at t parent del hist : amo t ->
  illegal_conflict false t parent del hist = false -> live_at t parent.
Proof.
  intros A H x Hx Dx. unfold illegal_conflict in H. destruct (winner t) as [w|] eqn:Ew.
  2:{ apply winner_none in Ew. rewrite Ew in Hx. destruct Hx. }
  destruct (winner_max t w Ew) as [Hw _].
  assert (Hall : r_deleted w = true -> False).
  { intros Hd. rewrite (winner_deleted_all t w Ew Hd x Hx) in Dx. discriminate. }
  destruct (orevid_eqb parent (Some (r_id w))) eqn:Ep.
  - apply orevid_eqb_eq in Ep. subst parent. destruct (r_deleted w) eqn:Dw; [exfalso; auto|].
    rewrite (A x w Hx Hw Dx Dw). reflexivity.
  - destruct del.
    + destruct parent as [p|]; [|discriminate]. apply negb_false_iff, andb_true_iff in H as [Hl Hd].
      unfold is_leaf in Hl. apply andb_true_iff in Hl as [Hr Hc]. apply negb_true_iff in Hc. apply negb_true_iff in Hd.
      destruct (find_rev t p Hr) as (y & Ef & Hy & Ey). unfold rev_deleted in Hd. rewrite Ef in Hd.
      assert (Hyl : In y (leaves t)) by (apply leaves_in; split; [exact Hy | rewrite Ey; exact Hc]).
      rewrite (A x y Hx Hyl Dx Hd), Ey. reflexivity.
    + destruct (r_deleted w) eqn:Dw; [exfalso; auto | discriminate].
Qed.

Lemma put_check_live_at t pe del par : amo t -> put_check false t pe del = Some par -> live_at t par.
Proof.
  intros A H. unfold put_check in H. destruct pe as [p|].
  - destruct (is_leaf t p && negb (illegal_conflict false t (Some p) del [])) eqn:E; [|discriminate]. inv H.
    apply andb_true_iff in E as [_ E]. apply negb_true_iff in E. eapply not_illegal_live_at; eauto.
  - destruct (winner t) as [w|] eqn:Ew.
    + destruct (r_deleted w) eqn:Dw; [|discriminate]. inv H. intros x Hx Dx.
      rewrite (winner_deleted_all t w Ew Dw x Hx) in Dx. discriminate.
    + inv H. apply winner_none in Ew. intros x Hx. rewrite Ew in Hx. destruct Hx.
Qed.

Lemma put_check_parent_in ac t pe del p : put_check ac t pe del = Some (Some p) -> has_rev t p = true.
Proof.
  unfold put_check. destruct pe as [p0|].
  - destruct (is_leaf t p0 && _) eqn:E; [|discriminate]. intros H; inv H.
    apply andb_true_iff in E as [E _]. unfold is_leaf in E. apply andb_true_iff in E as [E _]. exact E.
  - destruct (winner t) as [w|] eqn:Ew; [|discriminate]. destruct (r_deleted w); [|discriminate]. intros H; inv H.
    destruct (winner_max t w Ew) as [Hw _]. apply leaves_in in Hw as [Hw _]. apply has_rev_in. eauto.
Qed.

(* ---------- what a pushed history adds ---------- *)
Lemma split_known_spec t hist : forall acc news parent, split_known t hist acc = (news, parent) ->
  (forall x, In x acc -> has_rev t x = false) ->
  (forall x, In x news -> has_rev t x = false) /\ match parent with Some p => has_rev t p = true | None => True end.
Proof.
  induction hist as [|h r IH]; intros acc news parent H Hacc; cbn in H.
  - inv H. auto.
  - destruct (has_rev t h) eqn:E.
    + inv H. auto.
    + eapply IH; eauto. intros x [<-|Hx]; auto.
Qed.

Lemma gens_ok_lt l : forall p, gens_ok (Some p) l = true -> forall y, In y l -> fst p < fst y.
Proof.
  induction l as [|x l IH]; intros p H y Hy; [destruct Hy|]. cbn in H. apply andb_true_iff in H as [H1 H2].
  destruct Hy as [<-|Hy]; [lia|]. specialize (IH x H2 y Hy). lia.
Qed.

Lemma chain_cons2 parent x y r del :
  chain parent (x :: y :: r) del = {| r_id := x; r_parent := parent; r_deleted := false |} :: chain (Some x) (y :: r) del.
Proof. reflexivity. Qed.

Lemma chain_adds news : forall t parent del,
  (forall x, In x news -> has_rev t x = false) -> gens_ok parent news = true ->
  match parent with Some p => has_rev t p = true | None => True end ->
  adds t (chain parent news del) /\ chain_from parent (chain parent news del).
Proof.
  induction news as [|x r IH]; intros t parent del Hf Hg Hp; [cbn; auto|].
  cbn [gens_ok] in Hg. apply andb_true_iff in Hg as [Hg1 Hg2].
  assert (G : forall d, good_add t {| r_id := x; r_parent := parent; r_deleted := d |}).
  { intros d. split; cbn [r_id r_parent]; [apply Hf; left; reflexivity|]. destruct parent as [p|]; [|exact I]. split; [exact Hp | lia]. }
  destruct r as [|y r'].
  - cbn. repeat split; try apply G; auto.
  - rewrite chain_cons2. cbn [adds chain_from r_id r_parent].
    destruct (IH (t ++ [{| r_id := x; r_parent := parent; r_deleted := false |}]) (Some x) del) as (A & C).
    + intros z Hz. rewrite has_rev_app, (Hf z (or_intror Hz)). cbn. rewrite orb_false_r.
      pose proof (gens_ok_lt _ _ Hg2 z Hz) as Hlt. destruct (revid_eqb x z) eqn:E; [|reflexivity].
      apply revid_eqb_eq in E. subst z. lia.
    + exact Hg2.
    + rewrite has_rev_app. cbn. rewrite revid_eqb_refl. cbn. apply orb_true_r.
    + repeat split; try apply G; auto.
Qed.

Lemma chain_last news : forall parent del, news <> [] ->
  exists r, rev_last (chain parent news del) = Some r /\ r_deleted r = del.
Proof.
  induction news as [|x r IH]; intros parent del Hne; [congruence|]. destruct r as [|y r'].
  - eexists. split; reflexivity.
  - rewrite chain_cons2. destruct (IH (Some x) del) as (z & Ez & Dz); [discriminate|].
    exists z. split; [|exact Dz]. rewrite rev_last_cons; [exact Ez|]. apply chain_nonempty. discriminate.
Qed.

Lemma chain_live news : forall parent, forall r, In r (chain parent news false) -> r_deleted r = false.
Proof.
  induction news as [|x l IH]; intros parent r Hr; [destruct Hr|]. destruct l as [|y l'].
  - destruct Hr as [<-|[]]. reflexivity.
  - rewrite chain_cons2 in Hr. destruct Hr as [<-|Hr]; [reflexivity | eapply IH; eauto].
Qed.

(* a tombstoned document has no live leaf *)
Lemma tombstoned_live_at t parent : tree_tombstoned t = true -> live_at t parent.
Proof.
  unfold tree_tombstoned. destruct (winner t) as [w|] eqn:Ew; [|discriminate]. intros Hd x Hx Dx.
  rewrite (winner_deleted_all t w Ew Hd x Hx) in Dx. discriminate.
Qed.

(* ---------- the shape of every plan ---------- *)
Definition all_live (t : tree) : Prop := forall r, In r t -> r_deleted r = false.

Lemma plan_shape ac tab o att m t nr : plan_of ac tab o att m t = Some (PAdd nr) ->
  exists parent, nr <> [] /\ adds t nr /\ chain_from parent nr /\
    (exists r, rev_last nr = Some r /\ r_deleted r = w_deleted o) /\
    (w_deleted o = false -> all_live nr) /\
    match parent with Some p => has_rev t p = true | None => True end /\
    (ac = false -> amo t -> live_at t parent).
Proof.
  unfold plan_of. destruct (w_push o) as [|h hist] eqn:Epush.
  - destruct (put_check ac t (parent_eff o m) (w_deleted o)) as [par|] eqn:Epc; [|discriminate].
    destruct (dig_lookup tab _) as [dg|]; [|discriminate].
    destruct (has_rev t (gen_of par + 1, dg)) eqn:Eh; intros H; inv H.
    exists par. split; [discriminate|]. split.
    { cbn. split; [|exact I]. split; cbn [r_id r_parent]; [exact Eh|]. destruct par as [p|]; [|exact I].
      split; [eapply put_check_parent_in; eauto | cbn; lia]. }
    split; [cbn; auto|]. split; [eexists; split; reflexivity|]. split.
    { intros Hd r [<-|[]]. exact Hd. }
    split.
    { destruct par as [p|]; [|exact I]. eapply put_check_parent_in; eauto. }
    intros -> A. eapply put_check_live_at; eauto.
  - intros H. apply push_plan_add_inv in H. rewrite Epush in H. revert H.
    unfold push_check. destruct (split_known t (h :: hist) []) as [news parent] eqn:Es.
    destruct (split_known_spec t (h :: hist) [] news parent Es) as (Hf & Hp); [intros x []|].
    destruct news as [|x r]; [discriminate|].
    destruct (negb (o_force (w_opt o) && tree_tombstoned t) &&
              illegal_conflict (ac && negb (o_noconf (w_opt o))) t parent (w_deleted o) (h :: hist)) eqn:Eill; [discriminate|].
    destruct (gens_ok parent (x :: r)) eqn:Eg; [|discriminate]. intros H. injection H as H.
    assert (En : nr = chain parent (x :: r) (w_deleted o)) by (rewrite <- H; reflexivity). clear H. subst nr.
    exists parent. split; [apply chain_nonempty; discriminate|].
    destruct (chain_adds (x :: r) t parent (w_deleted o) Hf Eg Hp) as (A & C).
    split; [exact A|]. split; [exact C|]. split; [apply chain_last; discriminate|]. split.
    { intros Hd. rewrite Hd. intros z Hz. eapply chain_live; eauto. }
    split; [exact Hp|]. intros -> Am. apply andb_false_iff in Eill as [Eskip|Eill].
    + (* the conflict check was skipped: the document is a tombstone, it has no live leaf *)
      apply negb_false_iff, andb_true_iff in Eskip as [_ Et]. apply tombstoned_live_at, Et.
    + cbn [andb] in Eill. eapply not_illegal_live_at; eauto.
Qed.

(* one run of the callback keeps the tree well-formed, in either mode *)
Lemma plan_wf ac tab o att m t nr : wf t -> plan_of ac tab o att m t = Some (PAdd nr) -> wf (t ++ nr).
Proof. intros W H. destruct (plan_shape _ _ _ _ _ _ _ H) as (parent & _ & A & _). apply adds_wf; assumption. Qed.

(* conflict-free mode: one run of the callback keeps "at most one live leaf" *)
Lemma plan_amo tab o att m t nr : wf t -> amo t -> plan_of false tab o att m t = Some (PAdd nr) -> amo (t ++ nr).
Proof.
  intros W Am H. destruct (plan_shape _ _ _ _ _ _ _ H) as (parent & Hne & A & C & _ & _ & _ & L).
  destruct (adds_only_live nr t parent W Hne A C (L eq_refl Am)) as (r & _ & Q). eapply only_live_amo; eauto.
Qed.

(* ---------- single chain ---------- *)
Fixpoint lastid (p : option revid) (t : tree) : option revid :=
  match t with [] => p | r :: t' => lastid (Some (r_id r)) t' end.

Lemma lastid_app p t u : lastid p (t ++ u) = lastid (lastid p t) u.
Proof. revert p; induction t as [|r t IH]; intros p; cbn; auto. Qed.

Lemma lastid_rev_last t : forall p, lastid p t = match rev_last t with Some r => Some (r_id r) | None => p end.
Proof.
  induction t as [|r t IH]; intros p; [reflexivity|]. cbn [lastid]. rewrite IH. destruct t as [|y t'].
  - reflexivity.
  - rewrite (rev_last_cons r (y :: t')) by discriminate. destruct (rev_last_some (y :: t')) as (z & Ez); [discriminate|].
    rewrite Ez. reflexivity.
Qed.

Lemma chain_from_app t : forall p u, chain_from p (t ++ u) <-> chain_from p t /\ chain_from (lastid p t) u.
Proof.
  induction t as [|r t IH]; intros p u; cbn [app chain_from lastid]; [tauto|]. rewrite IH. tauto.
Qed.

(* the list, in stored order, is one chain from a root, and its only leaf is its last element *)
Record single_chain (t : tree) : Prop := {
  sc_wf : wf t;
  sc_chain : chain_from None t;
  sc_leaves : forall x, In x (leaves t) <-> rev_last t = Some x
}.

Lemma single_chain_nil : single_chain [].
Proof. constructor; [apply wf_nil | exact I |]. intros x. cbn. split; [tauto | discriminate]. Qed.

Lemma single_chain_add t r : single_chain t -> good_add t r -> r_parent r = lastid None t -> single_chain (t ++ [r]).
Proof.
  intros [W C L] G Ep. constructor.
  - apply wf_add; assumption.
  - apply chain_from_app. split; [exact C|]. cbn. auto.
  - intros x. rewrite rev_last_snoc, (leaves_add t r W G). split.
    + intros [[Hx Hne]| ->]; [|reflexivity]. exfalso. apply Hne. rewrite Ep, lastid_rev_last.
      apply L in Hx. rewrite Hx. reflexivity.
    + intros E; inv E. right; reflexivity.
Qed.

Lemma single_chain_adds nr : forall t, single_chain t -> adds t nr -> chain_from (lastid None t) nr -> single_chain (t ++ nr).
Proof.
  induction nr as [|r nr IH]; intros t S A C; [rewrite app_nil_r; exact S|].
  destruct A as [G A]. destruct C as [Ep C]. rewrite snoc_app. apply IH.
  - apply single_chain_add; assumption.
  - exact A.
  - rewrite lastid_app. cbn. exact C.
Qed.

(* conflict-free mode, no tombstone: one run of the callback extends the chain at its end *)
Lemma plan_single_chain tab o att m t nr : single_chain t -> amo t -> all_live t ->
  plan_of false tab o att m t = Some (PAdd nr) -> single_chain (t ++ nr).
Proof.
  intros S Am Al H. destruct (plan_shape _ _ _ _ _ _ _ H) as (parent & Hne & A & C & _ & _ & Hp & L).
  specialize (L eq_refl Am). apply single_chain_adds; [exact S | exact A|].
  assert (E : parent = lastid None t).
  { rewrite lastid_rev_last. destruct (rev_last t) as [z|] eqn:Ez.
    - apply L; [apply (sc_leaves t S), Ez | apply Al, rev_last_in_list, Ez].
    - apply rev_last_none in Ez. subst t. destruct parent as [p|]; [cbn in Hp; discriminate | reflexivity]. }
  rewrite <- E. exact C.
Qed.

(* "at most one live leaf" as a count *)
Definition live_leaves (t : tree) : list revinfo := filter (fun r => negb (r_deleted r)) (leaves t).

Lemma amo_count t : wf t -> amo t -> (length (live_leaves t) <= 1)%nat.
Proof.
  intros W A. assert (Hnd : NoDup (live_leaves t)).
  { unfold live_leaves, leaves. do 2 apply NoDup_filter. eapply NoDup_map_inv, (wf_nodup t W). }
  destruct (live_leaves t) as [|a [|b l]] eqn:E; cbn; try lia. exfalso.
  assert (Ha : In a (live_leaves t)) by (rewrite E; left; reflexivity).
  assert (Hb : In b (live_leaves t)) by (rewrite E; right; left; reflexivity).
  unfold live_leaves in Ha, Hb. apply filter_In in Ha as [Ha Da]. apply filter_In in Hb as [Hb Db].
  apply negb_true_iff in Da. apply negb_true_iff in Db. pose proof (A a b Ha Hb Da Db) as Eab. subst b.
  inv Hnd. apply H1. left; reflexivity.
Qed.

Lemma single_chain_one_leaf t : single_chain t -> t <> [] -> exists r, leaves t = [r] /\ rev_last t = Some r.
Proof.
  intros S Hne. destruct (rev_last_some t Hne) as (r & Er). exists r. split; [|exact Er].
  assert (Hnd : NoDup (leaves t)) by (unfold leaves; apply NoDup_filter; eapply NoDup_map_inv, (wf_nodup t (sc_wf t S))).
  assert (Hr : In r (leaves t)) by (apply (sc_leaves t S), Er).
  destruct (leaves t) as [|a [|b l]] eqn:E; [destruct Hr | |].
  - destruct Hr as [->|[]]. reflexivity.
  - exfalso. assert (Ha : a = r) by (assert (H : In a (leaves t)) by (rewrite E; left; reflexivity); apply (sc_leaves t S) in H; congruence).
    assert (Hb : b = r) by (assert (H : In b (leaves t)) by (rewrite E; right; left; reflexivity); apply (sc_leaves t S) in H; congruence).
    subst a b. inv Hnd. apply H1. left; reflexivity.
Qed.

(* ---------- one child per parent (conflict-free mode) ---------- *)
(* every revision is the only child of its parent *)
Definition uc (t : tree) : Prop :=
  forall x y q, In x t -> In y t -> r_parent x = Some q -> r_parent y = Some q -> x = y.

Lemma uc_nil : uc [].
Proof. intros x y q []. Qed.

Lemma split_known_parent_in t hist : forall acc news parent, split_known t hist acc = (news, parent) ->
  match parent with Some p => In p hist | None => True end.
Proof.
  induction hist as [|h r IH]; intros acc news parent H; cbn in H.
  - inv H. exact I.
  - destruct (has_rev t h) eqn:E.
    + inv H. left; reflexivity.
    + specialize (IH _ _ _ H). destruct parent; [right; exact IH | exact I].
Qed.

(* IsIllegalConflict's three legal shapes all attach the new revisions below a LEAF (or start a new root) *)
Lemma not_illegal_parent_leaf t parent del hist : wf t ->
  match parent with Some p => has_rev t p = true /\ In p hist | None => True end ->
  illegal_conflict false t parent del hist = false ->
  forall q, parent = Some q -> has_child t q = false.
Proof.
  intros W Hp H q ->. destruct Hp as [Hr Hin]. unfold illegal_conflict in H. destruct (winner t) as [w|] eqn:Ew.
  2:{ exfalso. apply winner_none in Ew. destruct (wf_has_leaf t W) as (x & Hx).
      - intros ->. cbn in Hr. discriminate.
      - rewrite Ew in Hx. destruct Hx. }
  destruct (orevid_eqb (Some q) (Some (r_id w))) eqn:Ep.
  - apply orevid_eqb_eq in Ep. inv Ep. eapply winner_is_leaf; eauto.
  - destruct del.
    + apply negb_false_iff, andb_true_iff in H as [Hl _]. unfold is_leaf in Hl. apply andb_true_iff in Hl as [_ Hc].
      apply negb_true_iff in Hc. exact Hc.
    + destruct (r_deleted w); [|discriminate]. exfalso.
      assert (Ht : existsb (has_rev t) hist = true) by (apply existsb_exists; exists q; auto). congruence.
Qed.

Lemma add_uc t r : wf t -> uc t -> good_add t r -> (forall q, r_parent r = Some q -> has_child t q = false) ->
  uc (t ++ [r]) /\ has_child (t ++ [r]) (r_id r) = false.
Proof.
  intros W U [Hfresh Hpar] Hleaf. split.
  - intros x y q Hx Hy Ex Ey. apply in_app_or in Hx as [Hx|[<-|[]]]; apply in_app_or in Hy as [Hy|[<-|[]]].
    + eapply U; eauto.
    + exfalso. assert (Hc : has_child t q = true) by (apply has_child_in; eauto). rewrite (Hleaf q Ey) in Hc. discriminate.
    + exfalso. assert (Hc : has_child t q = true) by (apply has_child_in; eauto). rewrite (Hleaf q Ex) in Hc. discriminate.
    + reflexivity.
  - rewrite has_child_app. apply orb_false_iff. split.
    + destruct (has_child t (r_id r)) eqn:E; [|reflexivity]. apply has_child_in in E as (y & Hy & Ey).
      rewrite (wf_parent t W y _ Hy Ey) in Hfresh. discriminate.
    + unfold has_child. cbn. rewrite orb_false_r. destruct (orevid_eqb (r_parent r) (Some (r_id r))) eqn:E; [|reflexivity].
      apply orevid_eqb_eq in E. rewrite E in Hpar. destruct Hpar as [_ Hlt]. lia.
Qed.

Lemma adds_uc nr : forall t parent, wf t -> uc t -> adds t nr -> chain_from parent nr ->
  (forall q, parent = Some q -> has_child t q = false) -> uc (t ++ nr).
Proof.
  induction nr as [|r nr IH]; intros t parent W U A C Hleaf; [rewrite app_nil_r; exact U|].
  destruct A as [G A]. destruct C as [Ep C]. rewrite <- Ep in Hleaf.
  destruct (add_uc t r W U G Hleaf) as (U' & Hc). rewrite snoc_app.
  apply IH with (Some (r_id r)); auto; [apply wf_add; assumption|]. intros q E. inv E. exact Hc.
Qed.

(* the parent one run of the callback attaches its revisions to has no child yet -- unless the conflict check was
   skipped: a pushed revision written with ForceAllowConflictingTombstone onto a document that is a tombstone *)
Definition forced_on_tombstone (o : wop) (t : tree) : Prop :=
  w_push o <> [] /\ o_force (w_opt o) = true /\ tree_tombstoned t = true.

Lemma plan_parent_leaf ac tab o att m t nr parent : wf t -> ac && negb (o_noconf (w_opt o)) = false ->
  plan_of ac tab o att m t = Some (PAdd nr) -> nr <> [] -> chain_from parent nr ->
  (forall q, parent = Some q -> has_child t q = false) \/ forced_on_tombstone o t.
Proof.
  intros W Hcf. unfold plan_of. destruct (w_push o) as [|h hist] eqn:Epush.
  - destruct (put_check ac t (parent_eff o m) (w_deleted o)) as [par|] eqn:Epc; [|discriminate].
    destruct (dig_lookup tab _) as [dg|]; [|discriminate].
    destruct (has_rev t (gen_of par + 1, dg)) eqn:Eh; intros H; inv H. intros _ [Ep _]. cbn in Ep. subst parent.
    left. eapply put_check_leaf; eauto.
  - intros H. apply push_plan_add_inv in H. rewrite Epush, Hcf in H. revert H.
    unfold push_check. destruct (split_known t (h :: hist) []) as [news parent0] eqn:Es.
    destruct (split_known_spec t (h :: hist) [] news parent0 Es) as (Hf & Hp); [intros x []|].
    pose proof (split_known_parent_in t (h :: hist) [] news parent0 Es) as Hin.
    destruct news as [|x r]; [discriminate|].
    destruct (negb (o_force (w_opt o) && tree_tombstoned t) &&
              illegal_conflict false t parent0 (w_deleted o) (h :: hist)) eqn:Eill; [discriminate|].
    destruct (gens_ok parent0 (x :: r)) eqn:Eg; [|discriminate]. intros H. injection H as H.
    assert (En : nr = chain parent0 (x :: r) (w_deleted o)) by (rewrite <- H; reflexivity). clear H. subst nr.
    intros _ C. assert (Epar : parent = parent0).
    { destruct r as [|y r']; [cbn in C | rewrite chain_cons2 in C; cbn [chain_from r_parent] in C]; destruct C as [E _]; symmetry; exact E. }
    subst parent0. apply andb_false_iff in Eill as [Eskip|Eill].
    + right. apply negb_false_iff, andb_true_iff in Eskip as [Ef Et]. split; [rewrite Epush; discriminate | auto].
    + left. eapply not_illegal_parent_leaf; eauto. destruct parent as [p|]; [split; assumption | exact I].
Qed.

(* conflict-free mode: one run of the callback keeps "every revision is the only child of its parent", unless it
   is a forced tombstone written onto a tombstoned document *)
Lemma plan_uc tab o att m t nr : wf t -> uc t -> plan_of false tab o att m t = Some (PAdd nr) ->
  uc (t ++ nr) \/ forced_on_tombstone o t.
Proof.
  intros W U H. destruct (plan_shape _ _ _ _ _ _ _ H) as (parent & Hne & A & C & _).
  destruct (plan_parent_leaf false tab o att m t nr parent W eq_refl H Hne C) as [Hleaf|F]; [left | right; exact F].
  eapply adds_uc; eauto.
Qed.

(* ... and, whatever the earlier writes did (forced ones included), the revisions an unforced write adds get a
   parent that had no child, and are the only children of their parents *)
Lemma adds_new_only_child nr : forall t parent, wf t -> adds t nr -> chain_from parent nr ->
  (forall q, parent = Some q -> has_child t q = false) ->
  forall x y q, In x (t ++ nr) -> In y nr -> r_parent x = Some q -> r_parent y = Some q -> x = y.
Proof.
  induction nr as [|r nr IH]; intros t parent W A C Hleaf x y q Hx Hy Ex Ey; [destruct Hy|].
  destruct A as [G A]. destruct C as [Ep C]. rewrite <- Ep in Hleaf.
  assert (Hc : has_child (t ++ [r]) (r_id r) = false).
  { destruct G as [Hfresh Hpar]. rewrite has_child_app. apply orb_false_iff. split.
    - destruct (has_child t (r_id r)) eqn:E; [|reflexivity]. apply has_child_in in E as (z & Hz & Ez).
      rewrite (wf_parent t W z _ Hz Ez) in Hfresh. discriminate.
    - unfold has_child. cbn. rewrite orb_false_r. destruct (orevid_eqb (r_parent r) (Some (r_id r))) eqn:E; [|reflexivity].
      apply orevid_eqb_eq in E. rewrite E in Hpar. destruct Hpar as [_ Hlt]. lia. }
  assert (Hleaf' : forall q0, Some (r_id r) = Some q0 -> has_child (t ++ [r]) q0 = false) by (intros q0 E; inv E; exact Hc).
  pose proof (IH (t ++ [r]) (Some (r_id r)) (wf_add t r W G) A C Hleaf') as IH'.
  rewrite snoc_app in Hx. destruct Hy as [<-|Hy].
  - (* y = r, the first new revision: its parent had no child in t, and the later new revisions hang below r *)
    apply in_app_or in Hx as [Hx|Hx].
    + apply in_app_or in Hx as [Hx|[<-|[]]]; [|reflexivity]. exfalso.
      assert (Hch : has_child t q = true) by (apply has_child_in; eauto). rewrite (Hleaf q Ey) in Hch. discriminate.
    + (* x among the later ones and has the same parent as r: by IH' applied with y := x ... x is the only child of q
         in (t ++ [r]) ++ nr, and r is in it *)
      symmetry. apply (IH' r x q); auto. apply in_or_app. left. apply in_or_app. right. left. reflexivity.
  - apply (IH' x y q); auto.
Qed.

Lemma plan_new_only_child ac tab o att m t nr : wf t -> ac && negb (o_noconf (w_opt o)) = false ->
  plan_of ac tab o att m t = Some (PAdd nr) ->
  forced_on_tombstone o t \/
  (forall x y q, In x (t ++ nr) -> In y nr -> r_parent x = Some q -> r_parent y = Some q -> x = y).
Proof.
  intros W Hcf H. destruct (plan_shape _ _ _ _ _ _ _ H) as (parent & Hne & A & C & _).
  destruct (plan_parent_leaf _ _ _ _ _ _ _ parent W Hcf H Hne C) as [Hleaf|F]; [right | left; exact F].
  eapply adds_new_only_child; eauto.
Qed.

(* the converse: with the option on a tombstoned document the conflict check is not consulted at all -- the plan
   is the one of a database that allows conflicts *)
Lemma forced_plan_ignores_conflicts ac o t : o_force (w_opt o) = true -> tree_tombstoned t = true ->
  push_plan ac o t = Some (push_check true true t (w_push o) (w_deleted o)) /\
  push_check true true t (w_push o) (w_deleted o) <> PConflict.
Proof.
  intros Hf Ht. unfold push_plan. rewrite Hf, Ht. cbn [andb]. unfold push_check.
  destruct (split_known t (w_push o) []) as [news parent]. destruct news as [|x r]; [split; [reflexivity | discriminate]|].
  cbn [negb andb]. destruct (gens_ok parent (x :: r)); split; try reflexivity; discriminate.
Qed.
