(* C05: the rule by which the BLIP rev handler (db/blip_handler.go processRev) derives the write options of a pushed
   revision from the connection it arrived on and from the rev message.

       forceAllowConflictingTombstone := newDoc.Deleted && (!bh.conflictResolver.IsEmpty() || bh.clientType == BLIPClientTypeSGR2)
       opts.ConflictResolver          := bh.conflictResolver.revTreeConflictResolver
       opts.NoConflicts               := true when that resolver is set, otherwise the message's "noconflicts" property

   [BlipSyncContext.conflictResolver] is a VALUE of type ConflictResolvers: "empty" means that neither of its two
   resolvers is set (an active pull replicator sets them; a connection opened by a client never has any).
   The write loop then runs with these options ([wopts], WriteLoop.v): a plain client -- not a Sync Gateway peer, no
   resolver -- never gets ForceAllowConflictingTombstone, hence (conflict-free mode) never a second child. *)
From SG Require Import Base.Prelude C05.WriteLoop C05.WriteLoopProofs C05.WriteLoopParents C05.WriteLoopTree C05.WriteLoopLinear.
Open Scope N_scope.

Record conn := { k_sgr2 : bool;          (* clientType == BLIPClientTypeSGR2: the passive side of an inter-Sync-Gateway replication *)
                 k_rt_resolver : bool;   (* conflictResolver.revTreeConflictResolver != nil (active pull replicator) *)
                 k_hlv_resolver : bool }.  (* conflictResolver.hlvConflictResolver != nil *)

(* ConflictResolvers.IsEmpty() on the connection's value-typed field *)
Definition resolvers_empty (k : conn) : bool := negb (k_rt_resolver k) && negb (k_hlv_resolver k).

Definition rev_opts (k : conn) (deleted noconflicts : bool) : wopts :=
  {| o_force := deleted && (negb (resolvers_empty k) || k_sgr2 k);
     o_resolver := k_rt_resolver k;
     o_noconf := if k_rt_resolver k then true else noconflicts |}.

(* a connection opened by a client (Couchbase Lite, any BLIP client): not a peer gateway, no resolver *)
Definition plain_client (k : conn) : Prop := k_sgr2 k = false /\ k_rt_resolver k = false /\ k_hlv_resolver k = false.

(* the writer of a revision pushed over connection [k] with the message property noconflicts = [nc] *)
Definition pushed_over (k : conn) (nc : bool) (o : wop) : wop :=
  {| w_tag := w_tag o; w_parent := w_parent o; w_deleted := w_deleted o; w_push := w_push o; w_reject := w_reject o;
     w_fail_after := w_fail_after o; w_fail_write := w_fail_write o; w_opt := rev_opts k (w_deleted o) nc |}.

Lemma plain_never_forces k deleted nc : plain_client k -> o_force (rev_opts k deleted nc) = false.
Proof. intros (H1 & H2 & H3). unfold rev_opts, resolvers_empty. cbn. rewrite H1, H2, H3. cbn. apply andb_false_r. Qed.

(* exactly: the option is derived for a tombstone arriving from a peer gateway or on a connection with a resolver *)
Lemma force_derived_iff k deleted nc :
  o_force (rev_opts k deleted nc) = true <->
  deleted = true /\ (k_sgr2 k = true \/ k_rt_resolver k = true \/ k_hlv_resolver k = true).
Proof.
  unfold rev_opts, resolvers_empty. cbn. destruct deleted, (k_sgr2 k), (k_rt_resolver k), (k_hlv_resolver k); cbn; intuition congruence.
Qed.

(* a client's "noconflicts" property is honoured; without it the database setting decides *)
Lemma plain_noconf k deleted nc : plain_client k ->
  o_noconf (rev_opts k deleted nc) = nc /\ o_resolver (rev_opts k deleted nc) = false.
Proof. intros (_ & H2 & _). unfold rev_opts. cbn. rewrite H2. auto. Qed.

(* conflict-free database, every interleaving: when every pushed revision arrived from a plain client, each stored
   revision is the only child of its parent *)
Theorem plain_clients_one_child_per_parent tab ops sched :
  (forall o, In o ops -> w_push o <> [] -> exists k nc, plain_client k /\ w_opt o = rev_opts k (w_deleted o) nc) ->
  uc (d_tree (st (run true false false tab ops sched))).
Proof.
  intros H. apply conflict_free_unforced_one_child_per_parent. intros o Hin Hpush.
  destruct (H o Hin Hpush) as (k & nc & Hk & ->). apply plain_never_forces, Hk.
Qed.

(* ---------- witnesses ---------- *)
Definition peer_gateway : conn := {| k_sgr2 := true; k_rt_resolver := false; k_hlv_resolver := false |}.
Definition client_conn : conn := {| k_sgr2 := false; k_rt_resolver := false; k_hlv_resolver := false |}.

Definition mkpush (tag : N) (hist : list revid) (deleted : bool) : wop :=
  {| w_tag := tag; w_parent := None; w_deleted := deleted; w_push := hist; w_reject := false; w_fail_after := [];
     w_fail_write := false; w_opt := no_opts |}.

(* 1-1 is created, deleted by 2-21, and a second, different tombstone 2-22 of 1-1 is pushed *)
Definition tomb_ops (k : conn) : list wop :=
  [ pushed_over k true (mkpush 1 [(1, 1)] false);
    pushed_over k true (mkpush 2 [(2, 21); (1, 1)] true);
    pushed_over k true (mkpush 3 [(2, 22); (1, 1)] true) ].
Definition tomb_sched : list sstep := [Prepare 0; Write 0; Prepare 1; Write 1; Prepare 2; Write 2]%nat.

(* ... from a peer gateway it is acknowledged: 1-1 has two accepted children in a conflict-free database (the
   characterisation of conflict_free_second_child_only_forced is exact: case (1) does happen) *)
Lemma forced_tombstone_second_child :
  let s := run true false false [] (tomb_ops peer_gateway) tomb_sched in
  map w_out (ws s) = [Some (OAck (1, 1) 1); Some (OAck (2, 21) 2); Some (OAck (2, 22) 3)] /\
  ~ uc (d_tree (st s)).
Proof.
  split; [vm_compute; reflexivity|]. intros U.
  specialize (U {| r_id := (2, 21); r_parent := Some (1, 1); r_deleted := true |}
                {| r_id := (2, 22); r_parent := Some (1, 1); r_deleted := true |} (1, 1)).
  vm_compute in U. assert (E : (21 : N) = 22); [|discriminate E].
  assert (X : {| r_id := (2, 21); r_parent := Some (1, 1); r_deleted := true |} =
              {| r_id := (2, 22); r_parent := Some (1, 1); r_deleted := true |}) by (apply U; auto).
  inv X.
Qed.

(* ... from a client it is refused with the conflict error, leaves no trace and keeps no sequence *)
Lemma plain_tombstone_refused :
  let s := run true false false [] (tomb_ops client_conn) tomb_sched in
  map w_out (ws s) = [Some (OAck (1, 1) 1); Some (OAck (2, 21) 2); Some OConflict] /\
  length (d_tree (st s)) = 2%nat /\ d_seq (st s) = 2 /\ last s = 2.
Proof. vm_compute. auto. Qed.
