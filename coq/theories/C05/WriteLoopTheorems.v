(* Consequences of the write-loop invariant, stated over every schedule. *)
From Coq Require Import Permutation.
From SG Require Import Base.Prelude C05.WriteLoop C05.WriteLoopProofs.
Open Scope N_scope.

Section Thm.
  Variable ac : bool.
  Variable tab : digtab.
  Variable ops : list wop.
  Variable sched : list sstep.
  Let s := run true false ac tab ops sched.

  Definition all_finished (w : world) : Prop := forall x, In x (ws w) -> w_out x <> None.
  Definition committed_seqs (w : world) : list N := flat_map cseqs (commits w).

  (* C07 / C11: every sequence reserved from the allocator is, at every moment and under every interleaving,
     exactly one of: carried by a committed revision (its sequence or its unused list), published as unused,
     or still held by a writer that has not finished; nothing is used twice *)
  Lemma accounted_always :
    NoDup (committed_seqs s ++ released s ++ flat_map wcar (ws s)) /\
    forall x, In x (committed_seqs s ++ released s ++ flat_map wcar (ws s)) <-> 1 <= x <= last s.
  Proof. pose proof (run_inv ac tab ops sched) as I. split; [apply (inv_nodup _ I) | apply (inv_range _ I)]. Qed.

  Lemma finished_carry_nothing : all_finished s -> flat_map wcar (ws s) = [].
  Proof.
    intros Hf. pose proof (run_inv ac tab ops sched) as I. fold s in I.
    assert (H : forall l, (forall x, In x l -> wcar x = []) -> flat_map wcar l = []).
    { induction l as [|x r IH]; cbn; intros Hl; [reflexivity|]. rewrite (Hl x) by (left; reflexivity). apply IH. intros y Hy. apply Hl. right; exact Hy. }
    apply H. intros x Hx. destruct (In_nth_error _ _ Hx) as (i & Hi).
    apply (inv_done _ I i x Hi (Hf x Hx)).
  Qed.

  Lemma accounted_when_finished : all_finished s ->
    NoDup (committed_seqs s ++ released s) /\
    forall x, 1 <= x <= last s <-> (In x (committed_seqs s) \/ In x (released s)).
  Proof.
    intros Hf. destruct accounted_always as (Hnd & Hr). rewrite (finished_carry_nothing Hf), app_nil_r in *.
    split; [exact Hnd|]. intros x. rewrite <- Hr, in_app_iff. tauto.
  Qed.

  (* C05: an acknowledged write is in the stored history and has its own sequence *)
  Lemma acked_present i w r q : nth_error (ws s) i = Some w -> w_out w = Some (OAck r q) ->
    has_rev (d_tree (st s)) r = true /\ exists c, In c (commits s) /\ c_rev c = r /\ c_seq c = q.
  Proof. intros Hn Ho. exact (inv_acked _ (run_inv ac tab ops sched) i w r q Hn Ho). Qed.

  (* C05: every committed write received a sequence strictly above the one it superseded; the stored sequence
     is that of the last commit *)
  Lemma acked_seq_increasing : commits_ok 0 (commits s) /\ last_seq 0 (commits s) = d_seq (st s).
  Proof. exact (inv_commits _ (run_inv ac tab ops sched)). Qed.
End Thm.

Lemma commits_ok_sorted prev cs : commits_ok prev cs ->
  forall c, In c cs -> prev < c_seq c /\ c_prevseq c < c_seq c.
Proof.
  revert prev; induction cs as [|d r IH]; intros prev H c Hin; [destruct Hin|].
  destruct H as (H1 & H2 & H3). destruct Hin as [<-|Hin]; [lia|].
  destruct (IH _ H3 c Hin). lia.
Qed.

(* C05 / C11: the stored document changes only at an acknowledged write; a step that ends any other way
   (409, 403, storage error, CAS mismatch, cancelled push) leaves the document exactly as it was.  Holds for
   the unrepaired code as well ([fixed] arbitrary). *)
Lemma store_changes_only_by_ack fixed ac tab s e :
  st (step fixed false ac tab s e) <> st s ->
  exists i w p, e = Write i /\ nth_error (ws s) i = Some w /\ w_prep w = Some p /\ w_out w = None /\
    st (step fixed false ac tab s e) = p_doc p /\ p_cas p = d_cas (st s) /\
    nth_error (ws (step fixed false ac tab s e)) i =
      Some {| w_op := w_op w; w_attempt := w_attempt w; w_matchrev := w_matchrev w; w_docseq := 0; w_unusedseqs := []; w_prep := None;
              w_out := Some (OAck (p_rev p) (d_seq (p_doc p))) |}.
Proof.
  destruct e as [i|i]; cbn [step]; destruct (nth_error (ws s) i) as [w|] eqn:Hn; try congruence;
    destruct (w_out w) eqn:Ho; try congruence; destruct (w_prep w) as [p|] eqn:Hp; try congruence.
  - (* Prepare never touches the store *)
    intros H. exfalso. apply H. unfold prepare. cbn zeta.
    repeat match goal with
    | |- context[match ?x with _ => _ end] => destruct x; cbn [st finish_failed]
    | |- context[if ?x then _ else _] => destruct x; cbn [st finish_failed]
    end; reflexivity.
  - unfold write, write_gate, tomb_quirk. cbn [andb]. rewrite orb_false_r. destruct (p_cas p =? d_cas (st s)) eqn:Ec; [|cbn; congruence].
    destruct (w_fail_write (w_op w)); cbn [finish_failed st]; [congruence|]. intros _.
    exists i, w, p. repeat split; auto; [apply N.eqb_eq, Ec|]. cbn [ws]. eapply nth_error_set_nth_eq; eauto.
Qed.

(* DESIGN section 6 items 1-2: the unrepaired write loop leaks a reserved sequence.  Witness by vm_compute. *)
Definition leak_ops : list wop :=
  [ {| w_tag := 1; w_parent := None; w_deleted := false; w_push := [(1, 1)]; w_reject := false; w_fail_after := []; w_fail_write := false; w_opt := no_opts |};
    {| w_tag := 2; w_parent := Some (1, 1); w_deleted := false; w_push := []; w_reject := false; w_fail_after := []; w_fail_write := false; w_opt := no_opts |};
    {| w_tag := 3; w_parent := None; w_deleted := false; w_push := [(1, 7)]; w_reject := false; w_fail_after := []; w_fail_write := false; w_opt := no_opts |};
    {| w_tag := 4; w_parent := None; w_deleted := false; w_push := [(1, 8)]; w_reject := false; w_fail_after := []; w_fail_write := false; w_opt := no_opts |};
    {| w_tag := 5; w_parent := Some (1, 1); w_deleted := false; w_push := []; w_reject := false; w_fail_after := []; w_fail_write := false; w_opt := no_opts |} ].
Definition leak_tab : digtab := [((2, Some (1, 1)), 22); ((5, Some (1, 1)), 55)].
Definition leak_sched : list sstep :=
  [Prepare 0; Write 0; Prepare 1; Prepare 2; Write 2; Write 1; Prepare 1; Prepare 3; Write 3; Prepare 4; Write 4; Write 1; Prepare 1]%nat.

Lemma unrepaired_leaks :
  let s := run false false true leak_tab leak_ops leak_sched in
  (forall x, In x (ws s) -> w_out x <> None) /\ 2 <= last s /\
  ~ In 2 (flat_map cseqs (commits s) ++ released s ++ flat_map wcar (ws s)).
Proof.
  vm_compute. split; [|split].
  - intros x H. repeat (destruct H as [<-|H]; [discriminate|]). destruct H.
  - discriminate.
  - intros H. repeat (destruct H as [H|H]; [discriminate|]). destruct H.
Qed.

Lemma repaired_same_schedule_accounts :
  let s := run true false true leak_tab leak_ops leak_sched in
  In 2 (released s).
Proof. vm_compute. tauto. Qed.

(* ---------- the faithful storage layer: resurrection of a tombstone is not compare-and-swap ---------- *)
(* [no_stale_resurrection]: along the run, the unchecked resurrection write never fires where the compare-and-swap
   would have failed, i.e. no live revision is written over a tombstone that changed since it was read.  Under
   this hypothesis the faithful model ([resurrect_unchecked = true]) and the intended discipline coincide, so
   every theorem above transfers to the code as it is. *)
Fixpoint gates_agree (fixed ac : bool) (tab : digtab) (s : world) (sched : list sstep) : Prop :=
  match sched with
  | [] => True
  | e :: r => step fixed true ac tab s e = step fixed false ac tab s e /\
              gates_agree fixed ac tab (step fixed false ac tab s e) r
  end.
Definition no_stale_resurrection (fixed ac : bool) (tab : digtab) (ops : list wop) (sched : list sstep) : Prop :=
  gates_agree fixed ac tab (init_world ops) sched.

Lemma faithful_run_eq fixed ac tab ops sched :
  no_stale_resurrection fixed ac tab ops sched -> run fixed true ac tab ops sched = run fixed false ac tab ops sched.
Proof.
  unfold no_stale_resurrection, run. generalize (init_world ops) as s.
  induction sched as [|e r IH]; intros s H; cbn [fold_left gates_agree] in *; [reflexivity|].
  destruct H as (H1 & H2). rewrite H1. apply IH, H2.
Qed.

(* known finding (C05_Refuted.v): a live revision written over a tombstone overwrites a concurrent acknowledged
   tombstone revision.  Writer 0 pushes a tombstoned document [2-18, 1-17]; writer 1 prepares a live child of
   2-18; writer 2's deletion of 2-18 commits in between; writer 1's resurrection write is not CAS-checked and
   replaces the stored document by one built from the stale snapshot: writer 2's acknowledged revision is gone
   and the stored sequence went backwards. *)
Definition res_ops : list wop :=
  [ {| w_tag := 1; w_parent := None; w_deleted := true; w_push := [(2, 18); (1, 17)]; w_reject := false; w_fail_after := []; w_fail_write := false; w_opt := no_opts |};
    {| w_tag := 2; w_parent := Some (2, 18); w_deleted := false; w_push := []; w_reject := false; w_fail_after := []; w_fail_write := false; w_opt := no_opts |};
    {| w_tag := 3; w_parent := Some (2, 18); w_deleted := true; w_push := []; w_reject := false; w_fail_after := []; w_fail_write := false; w_opt := no_opts |} ].
Definition res_tab : digtab := [((2, Some (2, 18)), 132); ((3, Some (2, 18)), 330)].
Definition res_sched : list sstep := [Prepare 0; Write 0; Prepare 1; Prepare 2; Write 2; Write 1]%nat.

Lemma unchecked_resurrection_loses_acked_write :
  let s := run true true true res_tab res_ops res_sched in
  exists w, nth_error (ws s) 2 = Some w /\ w_out w = Some (OAck (3, 330) 3) /\
            has_rev (d_tree (st s)) (3, 330) = false /\ d_seq (st s) = 2.
Proof. vm_compute. eexists. repeat split; reflexivity. Qed.

Lemma checked_resurrection_keeps_it :
  let s := run true false true res_tab res_ops res_sched in
  has_rev (d_tree (st s)) (3, 330) = true /\ d_seq (st s) = 3.
Proof. vm_compute. auto. Qed.
