(* C05 / C11 / C07(write path): the document write loop.
   One document, any number of concurrent writers.  Each writer runs the loop of
   sgbucket WriteUpdateWithXattrs as driven by db.updateAndReturnDoc:

       Prepare i : read the stored document (snapshot + CAS), run the update callback on the snapshot
                   (REST Put: leaf / conflict check, add the revision; sync function; assignSequence),
       Write   i : compare-and-swap write; on CAS mismatch the writer goes back to Prepare, carrying
                   the sequence it reserved (docSequence) and the list of sequences it can no longer use.

   A system run is ANY list of steps [Prepare i | Write i] (invalid steps stutter), i.e. every
   interleaving of the writers' storage-level steps.  Sequence allocation is the abstract allocator
   "fresh = last + 1" (the batching / release logic of the real allocator is C07's model).

   The callback's decision is the function [plan_of] (parent / leaf check, IsIllegalConflict, RevTree.addRevision's
   "already contains" and generation checks).  A pushed revision is written with options ([wopts]: NoConflicts,
   ForceAllowConflictingTombstone, a conflict resolver); the rule by which the BLIP rev handler derives them from
   the connection is C05/RevOptions.v.  The stored document carries the tree, the sequence, the unused list
   and the current revision (winningRevision of the new tree).  Ghost data, read by no step: what an attempt planned
   ([p_added], [p_att], [p_match]) and the list of commits with who made them and what they added -- the
   linearizability theorems (WriteLoopLinear.v) are stated over it.

   [fixed] selects between the code before the repair of DESIGN section 6 items 1-2 (false) and after (true):
     item 1: a failing attempt forgot the unused sequences accumulated by earlier attempts;
     item 2: a sequence reserved by assignSequence was forgotten when a later step of the same attempt failed. *)
From SG Require Import Base.Prelude.
Open Scope N_scope.

Definition revid : Type := (N * N)%type.            (* generation, digest (as a number) *)
Definition revid_eqb (a b : revid) : bool := (fst a =? fst b) && (snd a =? snd b).
Definition orevid_eqb (a b : option revid) : bool := option_eqb revid_eqb a b.

Record revinfo := { r_id : revid; r_parent : option revid; r_deleted : bool }.
Definition tree := list revinfo.

Definition has_rev (t : tree) (id : revid) : bool := existsb (fun r => revid_eqb (r_id r) id) t.
Definition has_child (t : tree) (id : revid) : bool := existsb (fun r => orevid_eqb (r_parent r) (Some id)) t.
Definition is_leaf (t : tree) (id : revid) : bool := has_rev t id && negb (has_child t id).
Definition leaves (t : tree) : list revinfo := filter (fun r => negb (has_child t (r_id r))) t.
Definition rev_deleted (t : tree) (id : revid) : bool :=
  match find (fun r => revid_eqb (r_id r) id) t with Some r => r_deleted r | None => false end.

(* compareRevIDs: generation first, then digest *)
Definition rev_gt (a b : revid) : bool := (fst b <? fst a) || ((fst a =? fst b) && (snd b <? snd a)).

(* RevTree.winningRevision: a live leaf beats a deleted one; otherwise the greater revision id *)
Definition winner_step (acc : option revinfo) (r : revinfo) : option revinfo :=
  match acc with
  | None => Some r
  | Some w =>
      let ex := negb (r_deleted r) in let wex := negb (r_deleted w) in
      if (ex && negb wex) || (Bool.eqb ex wex && rev_gt (r_id r) (r_id w)) then Some r else Some w
  end.
Definition winner (t : tree) : option revinfo := fold_left winner_step (leaves t) None.

(* ---------- REST Put callback: which parent does the new revision get, or 409 ---------- *)
Definition illegal_conflict (allow_conflicts : bool) (t : tree) (parent : option revid) (deleted : bool)
                            (hist : list revid) : bool :=
  if allow_conflicts then false
  else match winner t with
       | None => false
       | Some w =>
           if orevid_eqb parent (Some (r_id w)) then false
           else if deleted then
             negb (match parent with Some p => is_leaf t p && negb (rev_deleted t p) | None => false end)
           else if r_deleted w then existsb (has_rev t) hist   (* case (c): a disconnected branch may resurrect *)
           else true
       end.

(* what one run of the update callback decides: reject with 409, nothing to add (a pushed revision that is
   already known), or the list of revisions to add (oldest first) *)
Inductive pcheck := PConflict | PCancel | PFailAdd | PAdd (newrevs : list revinfo).

(* REST Put *)
Definition put_check (ac : bool) (t : tree) (parent : option revid) (deleted : bool) : option (option revid) :=
  match parent with
  | None => match winner t with
            | None => Some None
            | Some w => if r_deleted w then Some (Some (r_id w)) else None
            end
  | Some p => if is_leaf t p && negb (illegal_conflict ac t (Some p) deleted []) then Some (Some p) else None
  end.

(* PutExistingRev: [hist] is the pushed history, newest first *)
Fixpoint split_known (t : tree) (hist : list revid) (acc : list revid) : list revid * option revid :=
  match hist with
  | [] => (acc, None)
  | h :: r => if has_rev t h then (acc, Some h) else split_known t r (h :: acc)
  end.
(* [acc] comes back oldest first; chain them below [parent], only the newest carries [deleted] *)
Fixpoint chain (parent : option revid) (revs : list revid) (deleted : bool) : list revinfo :=
  match revs with
  | [] => []
  | [x] => [{| r_id := x; r_parent := parent; r_deleted := deleted |}]
  | x :: r => {| r_id := x; r_parent := parent; r_deleted := false |} :: chain (Some x) r deleted
  end.
(* RevTree.addRevision, called once per new revision (oldest first): a revision whose generation is not above
   its parent's is refused with an error (CBG-5713) -- after the conflict check, before anything is stored.  The
   other refusal of addRevision ("already contains") cannot fire first for a pushed history: the new revisions are
   unknown to the tree, and a repetition inside the history breaks the strictly increasing generations earlier. *)
Fixpoint gens_ok (parent : option revid) (news : list revid) : bool :=
  match news with
  | [] => true
  | x :: r => match parent with Some p => fst p <? fst x | None => true end && gens_ok (Some x) r
  end.

(* Document.IsDeleted(): the stored current revision (the winner) is a tombstone *)
Definition tree_tombstoned (t : tree) : bool :=
  match winner t with Some w => r_deleted w | None => false end.

(* [skip]: PutExistingRevWithConflictResolution's allowConflictingTombstone =
   opts.ForceAllowConflictingTombstone && doc.IsDeleted() -- the conflict check is not run at all *)
Definition push_check (ac : bool) (skip : bool) (t : tree) (hist : list revid) (deleted : bool) : pcheck :=
  let '(newrevs, parent) := split_known t hist [] in
  match newrevs with
  | [] => PCancel
  | _ => if negb skip && illegal_conflict ac t parent deleted hist then PConflict
         else if gens_ok parent newrevs then PAdd (chain parent newrevs deleted) else PFailAdd
  end.

(* ---------- write options (PutDocOptions) ---------- *)
(* The options a pushed revision is written with.  The REST handlers and db.PutExistingRevWithBody use [no_opts];
   the BLIP rev handler derives them from the connection and the message (C05/RevOptions.v). *)
Record wopts := { o_force : bool;     (* ForceAllowConflictingTombstone *)
                  o_resolver : bool;  (* ConflictResolver != nil *)
                  o_noconf : bool }.  (* NoConflicts *)
Definition no_opts : wopts := {| o_force := false; o_resolver := false; o_noconf := false |}.

(* ---------- writers ---------- *)
Record wop := { w_tag : N; w_parent : option revid; w_deleted : bool;
                w_push : list revid;    (* [] = REST Put with parent w_parent; otherwise a pushed revision with this history (newest first) *)
                w_reject : bool;        (* the sync function rejects this body (403) *)
                w_fail_after : list bool; (* per attempt: a step after assignSequence fails (storage error while persisting an
                                             out-of-line revision body, failing re-evaluation of the sync function...) -- an
                                             adversarial environment input, like a timer *)
                w_fail_write : bool;    (* the storage write itself returns an error (not a CAS mismatch) *)
                w_opt : wopts }.        (* the write options of a pushed revision (ignored by a REST Put) *)

Inductive outcome := OAck (r : revid) (s : N) | OConflict | OForbidden | OFailed | OCancel | OUnsupported.

Record docstate := { d_cas : N; d_seq : N; d_unused : list N; d_tree : tree;
                     d_cur : option revid (* the stored current revision (SyncData.RevTreeID), set by
                                             updateWinningRevAndSetDocFlags from winningRevision of the new tree *) }.
Record prepared := { p_cas : N; p_doc : docstate; p_rev : revid;
                     p_delbody : bool;  (* the snapshot was live and the new current revision is a tombstone: the storage
                                           layer is asked to delete the body *)
                     p_resurrect : bool; (* the snapshot was a tombstone and the new current revision is live: the storage
                                           layer writes it with insert semantics, WITHOUT the compare-and-swap *)
                     (* ghost (not read by any step): what this attempt's callback decided and in which writer-local state *)
                     p_added : list revinfo; p_att : nat; p_match : option revid }.
Record writer := { w_op : wop; w_attempt : nat;
                   w_matchrev : option revid; (* db.Put keeps the parent it picked for a request without _rev across CAS retries *)
                   w_docseq : N; w_unusedseqs : list N; w_prep : option prepared; w_out : option outcome }.

Record commit := { c_rev : revid; c_parent : option revid; c_seq : N; c_unused : list N; c_prevseq : N;
                   c_put : bool; (* made by a REST Put (as opposed to a pushed revision) *)
                   (* ghost: who committed, in which writer-local state (attempt number, remembered parent) the
                      successful attempt ran, the revisions it added (oldest first) and the current revision it stored *)
                   c_widx : nat; c_op : wop; c_attempt : nat; c_matchrev : option revid;
                   c_added : list revinfo; c_cur : option revid }.

Record world := { st : docstate; last : N; released : list N; ws : list writer; commits : list commit }.

Definition digkey : Type := (N * option revid)%type.
Definition digtab := list (digkey * N).
Definition digkey_eqb (a b : digkey) : bool := (fst a =? fst b) && orevid_eqb (snd a) (snd b).
Fixpoint dig_lookup (tab : digtab) (k : digkey) : option N :=
  match tab with
  | [] => None
  | (k', d) :: r => if digkey_eqb k k' then Some d else dig_lookup r k
  end.

Definition init_doc : docstate := {| d_cas := 0; d_seq := 0; d_unused := []; d_tree := []; d_cur := None |}.
Definition new_writer (o : wop) : writer :=
  {| w_op := o; w_attempt := 0; w_matchrev := None; w_docseq := 0; w_unusedseqs := []; w_prep := None; w_out := None |}.
Definition init_world (ops : list wop) : world :=
  {| st := init_doc; last := 0; released := []; ws := map new_writer ops; commits := [] |}.

Fixpoint set_nth {A} (i : nat) (x : A) (l : list A) : list A :=
  match l, i with
  | [], _ => []
  | _ :: r, O => x :: r
  | y :: r, S j => y :: set_nth j x r
  end.

Definition carried_seqs (docseq : N) (unused : list N) : list N :=
  (if 0 <? docseq then [docseq] else []) ++ unused.

(* the error path of updateAndReturnDoc: the writer gives back docSequence and its unused list *)
Definition finish_failed (w : writer) (docseq : N) (unused : list N) (o : outcome) : writer * list N :=
  ({| w_op := w_op w; w_attempt := w_attempt w; w_matchrev := w_matchrev w; w_docseq := 0; w_unusedseqs := []; w_prep := None; w_out := Some o |},
   carried_seqs docseq unused).

Definition rev_parent_of (d : docstate) (r : revid) : option revid :=
  match find (fun x => revid_eqb (r_id x) r) (d_tree d) with Some x => r_parent x | None => None end.

Definition rev_last (l : list revinfo) : option revinfo := List.last (map Some l) None.

(* db.Put deletes _deleted from the request body inside the update callback, so on a CAS retry the revision
   id of a tombstone is computed from a different byte string than at the first attempt *)
Definition dig_tag (o : wop) (attempt : nat) : N :=
  if w_deleted o && negb (Nat.eqb attempt 0) then w_tag o + 1000000 else w_tag o.

Definition gen_of (p : option revid) : N := match p with Some r => fst r | None => 0 end.

Definition is_tombstone (d : docstate) : bool :=
  match winner (d_tree d) with Some w => r_deleted w | None => false end.

(* a Put without _rev that once found a tombstoned current revision keeps it as its parent on retries *)
Definition parent_eff (o : wop) (matchrev : option revid) : option revid :=
  match w_parent o with Some p => Some p | None => matchrev end.

(* PutExistingRevWithConflictResolution's callback on tree [t] with the writer's options:
     - IsIllegalConflict returns false at once when db.AllowConflicts() && !opts.NoConflicts;
     - the conflict check is skipped when opts.ForceAllowConflictingTombstone && doc.IsDeleted();
     - a detected conflict is a 409 unless a conflict resolver is given.  Conflict resolution itself (local wins /
       remote wins / merge rewrite the incoming history) is NOT modelled: such a run is not comparable (None). *)
Definition push_plan (allow_conflicts : bool) (o : wop) (t : tree) : option pcheck :=
  match push_check (allow_conflicts && negb (o_noconf (w_opt o))) (o_force (w_opt o) && tree_tombstoned t)
                   t (w_push o) (w_deleted o) with
  | PConflict => if o_resolver (w_opt o) then None else Some PConflict
  | p => Some p
  end.

(* what the update callback of writer [o] -- at its attempt number [attempt], remembering [matchrev] -- decides on
   the tree [t] (None: the harness supplied no digest for this (writer, parent), the case is not comparable) *)
Definition plan_of (allow_conflicts : bool) (tab : digtab) (o : wop) (attempt : nat) (matchrev : option revid)
                   (t : tree) : option pcheck :=
  match w_push o with
  | [] => match put_check allow_conflicts t (parent_eff o matchrev) (w_deleted o) with
          | None => Some PConflict
          | Some par => match dig_lookup tab (dig_tag o attempt, par) with
                        | None => None
                        | Some dg =>
                            (* RevTree.addRevision refuses a revision id the tree already contains *)
                            if has_rev t (gen_of par + 1, dg) then Some PFailAdd
                            else Some (PAdd [{| r_id := (gen_of par + 1, dg); r_parent := par; r_deleted := w_deleted o |}])
                        end
          end
  | _ :: _ => push_plan allow_conflicts o t
  end.

(* the writer after its acknowledged write, and the ghost record of that write *)
Definition acked_writer (w : writer) (p : prepared) : writer :=
  {| w_op := w_op w; w_attempt := w_attempt w; w_matchrev := w_matchrev w; w_docseq := 0; w_unusedseqs := []; w_prep := None;
     w_out := Some (OAck (p_rev p) (d_seq (p_doc p))) |}.
Definition commit_of (i : nat) (w : writer) (p : prepared) (prevseq : N) : commit :=
  {| c_rev := p_rev p; c_parent := rev_parent_of (p_doc p) (p_rev p);
     c_seq := d_seq (p_doc p); c_unused := d_unused (p_doc p); c_prevseq := prevseq;
     c_put := match w_push (w_op w) with [] => true | _ => false end;
     c_widx := i; c_op := w_op w; c_attempt := p_att p; c_matchrev := p_match p;
     c_added := p_added p; c_cur := d_cur (p_doc p) |}.

Section Step.
  Variable fixed : bool.
  (* [true]: faithful to the storage layer -- resurrecting a tombstone (WriteResurrectionWithXattrs) is not
     CAS-checked: it succeeds whenever the stored document is still a tombstone, even if it changed since it was
     read (known finding, C05_Refuted.v).  [false]: the intended discipline, every write is compare-and-swap. *)
  Variable resurrect_unchecked : bool.
  Variable allow_conflicts : bool.
  Variable tab : digtab.

  Definition prepare (s : world) (i : nat) (w : writer) : world :=
    let snap := st s in
    let o := w_op w in
    let upd (w' : writer) (rel : list N) (lst : N) :=
      {| st := st s; last := lst; released := released s ++ rel; ws := set_nth i w' (ws s); commits := commits s |} in
    (* unused sequences as the caller still knows them after a failing attempt *)
    let kept := if fixed then w_unusedseqs w else [] in
    let match' := match w_push o, w_parent o, put_check allow_conflicts (d_tree snap) (parent_eff o (w_matchrev w)) (w_deleted o) with
                  | [], None, Some (Some p) => Some p
                  | _, _, _ => w_matchrev w
                  end in
    let plan : option pcheck := plan_of allow_conflicts tab o (w_attempt w) (w_matchrev w) (d_tree snap) in
    match plan with
    | None => let '(w', rel) := finish_failed w (w_docseq w) kept OUnsupported in upd w' rel (last s)
    | Some PConflict => let '(w', rel) := finish_failed w (w_docseq w) kept OConflict in upd w' rel (last s)
    | Some PCancel => let '(w', rel) := finish_failed w (w_docseq w) kept OCancel in upd w' rel (last s)
    | Some PFailAdd => let '(w', rel) := finish_failed w (w_docseq w) kept OFailed in upd w' rel (last s)
    | Some (PAdd newrevs) =>
        if w_reject o then let '(w', rel) := finish_failed w (w_docseq w) kept OForbidden in upd w' rel (last s)
        else
              let newid : revid := match rev_last newrevs with Some r => r_id r | None => (0, 0) end in
              let t' := d_tree snap ++ newrevs in
              (* assignSequence *)
              let reuse := negb (w_docseq w <=? d_seq snap) in
              let docseq' := if reuse then w_docseq w else last s + 1 in
              let unused' := if reuse then w_unusedseqs w
                             else if 0 <? w_docseq w then w_unusedseqs w ++ [w_docseq w] else w_unusedseqs w in
              let last' := if reuse then last s else last s + 1 in
              if nth (w_attempt w) (w_fail_after o) false then
                let '(w', rel) := if fixed then finish_failed w docseq' unused' OFailed
                                  else finish_failed w (w_docseq w) [] OFailed in
                upd w' rel last'
              else
                let nd := {| d_cas := d_cas snap + 1; d_seq := docseq'; d_unused := unused'; d_tree := t';
                             d_cur := option_map r_id (winner t') |} in
                upd {| w_op := o; w_attempt := S (w_attempt w); w_matchrev := match'; w_docseq := docseq'; w_unusedseqs := unused';
                       w_prep := Some {| p_cas := d_cas snap; p_doc := nd; p_rev := newid;
                                         p_delbody := negb (is_tombstone snap) && negb (Nat.eqb (length (d_tree snap)) 0) && is_tombstone nd;
                                         p_resurrect := is_tombstone snap && negb (is_tombstone nd);
                                         p_added := newrevs; p_att := w_attempt w; p_match := w_matchrev w |}; w_out := None |} [] last'
    end.

  Definition write_gate (s : world) (p : prepared) : bool :=
    (p_cas p =? d_cas (st s)) || (resurrect_unchecked && p_resurrect p && is_tombstone (st s)).

  (* rosmar quirk (the test storage): a tombstone write prepared on a live snapshot ("delete the body") that finds
     the document already tombstoned fails with a storage error instead of a CAS mismatch: no retry, the writer
     fails and gives its sequences back.  Only in the faithful variant. *)
  Definition tomb_quirk (s : world) (p : prepared) : bool :=
    resurrect_unchecked && p_delbody p && is_tombstone (st s).

  Definition write (s : world) (i : nat) (w : writer) (p : prepared) : world :=
    if write_gate s p then
      if w_fail_write (w_op w) then
        let '(w', rel) := finish_failed w (w_docseq w) (w_unusedseqs w) OFailed in
        {| st := st s; last := last s; released := released s ++ rel; ws := set_nth i w' (ws s); commits := commits s |}
      else
        {| st := if p_cas p =? d_cas (st s) then p_doc p
                 else {| d_cas := d_cas (st s) + 1; d_seq := d_seq (p_doc p); d_unused := d_unused (p_doc p); d_tree := d_tree (p_doc p);
                         d_cur := d_cur (p_doc p) |};
           last := last s; released := released s;
           ws := set_nth i (acked_writer w p) (ws s);
           commits := commits s ++ [commit_of i w p (d_seq (st s))] |}
    else if tomb_quirk s p then
      let '(w', rel) := finish_failed w (w_docseq w) (w_unusedseqs w) OFailed in
      {| st := st s; last := last s; released := released s ++ rel; ws := set_nth i w' (ws s); commits := commits s |}
    else (* CAS mismatch: run the callback again *)
      {| st := st s; last := last s; released := released s;
         ws := set_nth i {| w_op := w_op w; w_attempt := w_attempt w; w_matchrev := w_matchrev w; w_docseq := w_docseq w; w_unusedseqs := w_unusedseqs w; w_prep := None; w_out := None |} (ws s);
         commits := commits s |}.

  Inductive sstep := Prepare (i : nat) | Write (i : nat).

  Definition step (s : world) (e : sstep) : world :=
    match e with
    | Prepare i =>
        match nth_error (ws s) i with
        | Some w => match w_out w, w_prep w with
                    | None, None => prepare s i w
                    | _, _ => s
                    end
        | None => s
        end
    | Write i =>
        match nth_error (ws s) i with
        | Some w => match w_out w, w_prep w with
                    | None, Some p => write s i w p
                    | _, _ => s
                    end
        | None => s
        end
    end.

  Definition run (ops : list wop) (sched : list sstep) : world := fold_left step sched (init_world ops).
End Step.
