(* C05/C11/C07w correspondence: schedules run on the real write path (harness/db/verif_c05_test.go) are
   replayed on the model. *)
From SG Require Export Base.Prelude C05.WriteLoop C05.RevOptions.
Open Scope N_scope.

(* the tree is [code_fixed]: the unused-sequence repairs (fix: commits) are in /repo *)
Definition code_fixed : bool := true.

Record final := Fin { f_seq : N; f_unused : list N; f_cur : option revid;
                      f_tree : list (revid * option revid * bool); f_released : list N; f_last : N }.

(* a REST Put, or a revision pushed through db.PutExistingRevWithBody (default options) *)
Definition W (tag : N) (parent : option revid) (push : list revid) (deleted reject : bool) (fail_after : list bool) (fail_write : bool) : wop :=
  {| w_tag := tag; w_parent := parent; w_deleted := deleted; w_push := push; w_reject := reject; w_fail_after := fail_after; w_fail_write := fail_write;
     w_opt := no_opts |}.
(* a revision pushed through db.PutExistingRevWithConflictResolution with explicit PutDocOptions *)
Definition WO (force noconf : bool) (tag : N) (parent : option revid) (push : list revid) (deleted reject : bool) (fail_after : list bool) (fail_write : bool) : wop :=
  {| w_tag := tag; w_parent := parent; w_deleted := deleted; w_push := push; w_reject := reject; w_fail_after := fail_after; w_fail_write := fail_write;
     w_opt := {| o_force := force; o_resolver := false; o_noconf := noconf |} |}.
(* a rev message handled by the BLIP rev handler of a connection (peer gateway? revtree resolver? HLV resolver?) with
   the message property noconflicts: the options are DERIVED here, by [rev_opts], not reported by the harness *)
Definition WB (sgr2 rt_resolver hlv_resolver noconf : bool) (tag : N) (parent : option revid) (push : list revid) (deleted reject : bool) (fail_after : list bool) (fail_write : bool) : wop :=
  pushed_over {| k_sgr2 := sgr2; k_rt_resolver := rt_resolver; k_hlv_resolver := hlv_resolver |} noconf
              (W tag parent push deleted reject fail_after fail_write).

Inductive case :=
| CWrite (allow_conflicts : bool) (tab : digtab) (ops : list wop) (sched : list sstep)
         (outs : list (option outcome)) (fin : final).

Definition outcome_eqb (a b : outcome) : bool :=
  match a, b with
  | OAck r s, OAck r' s' => revid_eqb r r' && (s =? s')
  | OConflict, OConflict | OForbidden, OForbidden | OFailed, OFailed | OCancel, OCancel | OUnsupported, OUnsupported => true
  | _, _ => false
  end.

Fixpoint insert_sorted (x : N) (l : list N) : list N :=
  match l with
  | [] => [x]
  | y :: r => if x <=? y then x :: l else y :: insert_sorted x r
  end.
Definition sort_N (l : list N) : list N := fold_right insert_sorted [] l.

Definition row_in (t : tree) (row : revid * option revid * bool) : bool :=
  let '(id, par, del) := row in
  existsb (fun r => revid_eqb (r_id r) id && orevid_eqb (r_parent r) par && Bool.eqb (r_deleted r) del) t.

Definition check (c : case) : bool :=
  match c with
  | CWrite ac tab ops sched outs fin =>
      let s := run code_fixed true ac tab ops sched in
      list_eqb (option_eqb outcome_eqb) (map w_out (ws s)) outs
      && (d_seq (st s) =? f_seq fin)
      && list_eqb N.eqb (d_unused (st s)) (f_unused fin)
      && option_eqb revid_eqb (option_map r_id (winner (d_tree (st s)))) (f_cur fin)
      && option_eqb revid_eqb (d_cur (st s)) (f_cur fin)   (* the stored current revision (SyncData.RevTreeID) *)
      && (N.of_nat (length (d_tree (st s))) =? N.of_nat (length (f_tree fin)))
      && forallb (row_in (d_tree (st s))) (f_tree fin)
      && list_eqb N.eqb (sort_N (released s)) (f_released fin)
      && (last s =? f_last fin)
  end.

Definition mismatches (cs : list case) : list N := failing check cs.
