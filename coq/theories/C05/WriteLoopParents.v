(* C05, one accepted child per parent: a REST Put is never acknowledged on a parent revision that already has
   an acknowledged child (whoever wrote that child), under every schedule. *)
From SG Require Import Base.Prelude C05.WriteLoop C05.WriteLoopProofs.
Open Scope N_scope.

Lemma revid_eqb_eq a b : revid_eqb a b = true <-> a = b.
Proof.
  unfold revid_eqb. destruct a as [g d], b as [g' d']; cbn. rewrite andb_true_iff, !N.eqb_eq.
  split; [intros [-> ->]; reflexivity | intros H; inv H; auto].
Qed.
Lemma revid_eqb_refl a : revid_eqb a a = true.
Proof. apply revid_eqb_eq. reflexivity. Qed.

Lemma has_child_app t u q : has_child (t ++ u) q = has_child t q || has_child u q.
Proof. unfold has_child. apply existsb_app. Qed.

Lemma winner_step_in acc r w : winner_step acc r = Some w -> acc = Some w \/ w = r.
Proof.
  unfold winner_step. destruct acc as [a|]; [|intros H; inv H; auto].
  destruct (_ || _); intros H; inv H; auto.
Qed.

Lemma fold_winner_in l acc w : fold_left winner_step l acc = Some w -> acc = Some w \/ In w l.
Proof.
  revert acc; induction l as [|r l IH]; cbn; intros acc H; [auto|].
  apply IH in H. destruct H as [H|H]; [|auto].
  apply winner_step_in in H. destruct H as [H| ->]; auto.
Qed.

Lemma winner_is_leaf t w : winner t = Some w -> has_child t (r_id w) = false.
Proof.
  unfold winner. intros H. apply fold_winner_in in H. destruct H as [H|H]; [discriminate|].
  unfold leaves in H. apply filter_In in H as [_ H]. destruct (has_child t (r_id w)); [discriminate | reflexivity].
Qed.

Lemma put_check_leaf ac t parent del par : put_check ac t parent del = Some par ->
  forall q, par = Some q -> has_child t q = false.
Proof.
  unfold put_check. intros H q Hq. subst par. destruct parent as [p0|].
  - destruct (is_leaf t p0 && _) eqn:E; [|discriminate]. inv H.
    apply andb_true_iff in E as [E _]. unfold is_leaf in E. apply andb_true_iff in E as [_ E].
    destruct (has_child t q); [discriminate | reflexivity].
  - destruct (winner t) as [w|] eqn:Ew; [|discriminate].
    destruct (r_deleted w); [|discriminate]. inv H. eapply winner_is_leaf; eauto.
Qed.

Lemma find_app_notin (t : tree) (r : revinfo) id : has_rev t id = false -> r_id r = id ->
  find (fun x => revid_eqb (r_id x) id) (t ++ [r]) = Some r.
Proof.
  unfold has_rev. induction t as [|x t IH]; cbn; intros H Hid.
  - subst. rewrite revid_eqb_refl. reflexivity.
  - apply orb_false_iff in H as [H1 H2]. rewrite H1. apply IH; auto.
Qed.

Lemma rev_parent_has_child d r q : rev_parent_of d r = Some q -> has_child (d_tree d) q = true.
Proof.
  unfold rev_parent_of, has_child. destruct (find _ (d_tree d)) as [x|] eqn:E; [|discriminate].
  intros H. apply find_some in E as [Hin _]. apply existsb_exists. exists x. split; [exact Hin|].
  rewrite H. unfold orevid_eqb; cbn. apply revid_eqb_refl.
Qed.

Inductive ok_commits : list commit -> Prop :=
| ok_nil : ok_commits []
| ok_snoc cs c : ok_commits cs ->
    (c_put c = true -> forall q, c_parent c = Some q -> forall c1, In c1 cs -> c_parent c1 <> Some q) ->
    ok_commits (cs ++ [c]).

Lemma ok_commits_spec cs : ok_commits cs ->
  forall l1 c2 l3, cs = l1 ++ c2 :: l3 -> c_put c2 = true ->
  forall q, c_parent c2 = Some q -> forall c1, In c1 l1 -> c_parent c1 <> Some q.
Proof.
  induction 1 as [|cs c Hok IH Hc]; intros l1 c2 l3 E Hput q Hq c1 Hin.
  - destruct l1; discriminate.
  - destruct l3 as [|y l3].
    + apply app_inj_tail in E as [-> ->]. eapply Hc; eauto.
    + destruct (@exists_last _ (y :: l3)) as (l3' & x & El); [discriminate|].
      rewrite El in E. change (l1 ++ c2 :: l3' ++ [x]) with (l1 ++ (c2 :: l3') ++ [x]) in E.
      rewrite app_assoc in E. apply app_inj_tail in E as [-> _]. eapply IH; eauto.
Qed.

Definition put_prep_ok (s : world) (w : writer) (p : prepared) : Prop :=
  w_push (w_op w) = [] -> p_cas p = d_cas (st s) ->
  exists par del, d_tree (p_doc p) = d_tree (st s) ++ [{| r_id := p_rev p; r_parent := par; r_deleted := del |}] /\
     has_rev (d_tree (st s)) (p_rev p) = false /\
     (forall q, par = Some q -> has_child (d_tree (st s)) q = false).

Record PInv (s : world) : Prop := {
  pi_commits : forall c q, In c (commits s) -> c_parent c = Some q -> has_child (d_tree (st s)) q = true;
  pi_prep : forall i w p, nth_error (ws s) i = Some w -> w_prep w = Some p -> put_prep_ok s w p;
  pi_unique : ok_commits (commits s)
}.

Lemma init_pinv ops : PInv (init_world ops).
Proof.
  constructor; cbn.
  - intros c q [].
  - intros i w p H Hp. apply nth_error_In in H. apply in_map_iff in H as (o & <- & _). discriminate.
  - constructor.
Qed.

Section Step.
  Variable ac : bool.
  Variable tab : digtab.

  (* a Prepare step only changes writer i, the released list and the allocator position *)
  Lemma prepare_shape s i w :
    let s' := prepare true ac tab s i w in
    st s' = st s /\ commits s' = commits s /\
    exists w', ws s' = set_nth i w' (ws s) /\
      (forall p, w_prep w' = Some p -> w_op w' = w_op w /\ p_cas p = d_cas (st s) /\
         (w_push (w_op w) = [] ->
            exists par del, d_tree (p_doc p) = d_tree (st s) ++ [{| r_id := p_rev p; r_parent := par; r_deleted := del |}] /\
              has_rev (d_tree (st s)) (p_rev p) = false /\
              (forall q, par = Some q -> has_child (d_tree (st s)) q = false))).
  Proof.
    unfold prepare. cbn zeta.
    set (plan := plan_of _ _ _ _ _ _).
    destruct plan as [[| | |newrevs]|] eqn:Eplan; cbn [finish_failed st commits ws];
      try (split; [reflexivity|]; split; [reflexivity|]; eexists; split; [reflexivity|]; cbn; intros p Hp; discriminate).
    destruct (w_reject (w_op w)); cbn [finish_failed st commits ws];
      try (split; [reflexivity|]; split; [reflexivity|]; eexists; split; [reflexivity|]; cbn; intros p Hp; discriminate).
    destruct (nth (w_attempt w) (w_fail_after (w_op w)) false); cbn [finish_failed st commits ws];
      try (split; [reflexivity|]; split; [reflexivity|]; eexists; split; [reflexivity|]; cbn; intros p Hp; discriminate).
    split; [reflexivity|]. split; [reflexivity|]. eexists. split; [reflexivity|].
    cbn [w_prep w_op]. intros p Hp. inv Hp. cbn [p_cas p_doc p_rev d_tree]. split; [reflexivity|]. split; [reflexivity|].
    intros Hpush. subst plan. unfold plan_of in Eplan. rewrite Hpush in Eplan.
    destruct (put_check ac (d_tree (st s)) _ (w_deleted (w_op w))) as [par|] eqn:Epc; [|discriminate].
    destruct (dig_lookup tab _) as [dg|]; [|discriminate].
    destruct (has_rev (d_tree (st s)) (gen_of par + 1, dg)) eqn:Eh; inv Eplan.
    exists par, (w_deleted (w_op w)). cbn. split; [reflexivity|]. split; [exact Eh|].
    eapply put_check_leaf; eauto.
  Qed.

  Lemma step_pinv s e : Inv s -> PInv s -> PInv (step true false ac tab s e).
  Proof.
    intros I P. destruct e as [i|i]; cbn [step]; destruct (nth_error (ws s) i) as [w|] eqn:Hn; auto;
      destruct (w_out w) eqn:Ho; auto; destruct (w_prep w) as [p|] eqn:Hp; auto.
    - (* Prepare *)
      destruct (prepare_shape s i w) as (Hst & Hcm & w' & Hws & Hw'). cbn zeta in *.
      constructor; rewrite ?Hst, ?Hcm.
      + apply (pi_commits s P).
      + intros j wj pj Hj Hpj. rewrite Hws in Hj. destruct (Nat.eq_dec i j) as [<-|Hne].
        * rewrite (nth_error_set_nth_eq _ _ _ _ Hn) in Hj. inv Hj.
          destruct (Hw' pj Hpj) as (Hop & Hc & Hput). unfold put_prep_ok. rewrite Hst, Hop. intros Hpush _. apply Hput, Hpush.
        * rewrite nth_error_set_nth_neq in Hj by assumption. pose proof (pi_prep s P j wj pj Hj Hpj) as H.
          unfold put_prep_ok in *. rewrite Hst. exact H.
      + apply (pi_unique s P).
    - (* Write *)
      unfold write, write_gate, tomb_quirk. cbn [andb]. rewrite orb_false_r. pose proof (inv_prep s I i w p Hn Hp) as (_ & Hds & Hus & Hpos & Hle & Himp).
      destruct (p_cas p =? d_cas (st s)) eqn:Ecas.
      + apply N.eqb_eq in Ecas. destruct (Himp Ecas) as (Hgt & Hcas & nr & Htree & Hin).
        destruct (w_fail_write (w_op w)); cbn [finish_failed].
        * constructor; cbn [st commits ws]; [apply (pi_commits s P) | | apply (pi_unique s P)].
          intros j wj pj Hj Hpj. destruct (Nat.eq_dec i j) as [<-|Hne].
          { rewrite (nth_error_set_nth_eq _ _ _ _ Hn) in Hj. inv Hj. discriminate. }
          rewrite nth_error_set_nth_neq in Hj by assumption. exact (pi_prep s P j wj pj Hj Hpj).
        * (* commit *)
          constructor; cbn [st commits ws].
          { intros c q Hc Hq. apply in_app_or in Hc as [Hc|[<-|[]]].
            - rewrite Htree, has_child_app, (pi_commits s P c q Hc Hq). reflexivity.
            - cbn [commit_of c_parent] in Hq. eapply rev_parent_has_child; eauto. }
          { intros j wj pj Hj Hpj. destruct (Nat.eq_dec i j) as [<-|Hne].
            - rewrite (nth_error_set_nth_eq _ _ _ _ Hn) in Hj. inv Hj. discriminate.
            - rewrite nth_error_set_nth_neq in Hj by assumption.
              destruct (inv_prep s I j wj pj Hj Hpj) as (_ & _ & _ & _ & Hlej & _).
              unfold put_prep_ok. intros _ Heq. exfalso. cbn [st] in Heq. rewrite Hcas in Heq. lia. }
          { apply ok_snoc; [apply (pi_unique s P)|]. cbn [commit_of c_put c_parent]. intros Hput q Hq c1 Hc1 Hq1.
            destruct (w_push (w_op w)) eqn:Epush; [|discriminate].
            destruct (pi_prep s P i w p Hn Hp Epush Ecas) as (par & del & Htr & Hnew & Hleaf).
            unfold rev_parent_of in Hq. rewrite Htr in Hq.
            rewrite (find_app_notin (d_tree (st s)) {| r_id := p_rev p; r_parent := par; r_deleted := del |} (p_rev p) Hnew eq_refl) in Hq. cbn in Hq.
            pose proof (pi_commits s P c1 q Hc1 Hq1) as Hch. rewrite (Hleaf q Hq) in Hch. discriminate. }
      + (* CAS mismatch *)
        constructor; cbn [st commits ws]; [apply (pi_commits s P) | | apply (pi_unique s P)].
        intros j wj pj Hj Hpj. destruct (Nat.eq_dec i j) as [<-|Hne].
        { rewrite (nth_error_set_nth_eq _ _ _ _ Hn) in Hj. inv Hj. discriminate. }
        rewrite nth_error_set_nth_neq in Hj by assumption. exact (pi_prep s P j wj pj Hj Hpj).
  Qed.

  Theorem run_pinv ops sched : PInv (run true false ac tab ops sched).
  Proof.
    unfold run. assert (H : forall s, Inv s -> PInv s -> PInv (fold_left (step true false ac tab) sched s)).
    { induction sched as [|e r IH]; intros s I P; cbn [fold_left]; [exact P|].
      apply IH; [apply step_inv, I | apply step_pinv; assumption]. }
    apply H; [apply init_inv | apply init_pinv].
  Qed.

  (* among the commits, in commit order: a REST Put is never acknowledged on a parent that an earlier
     acknowledged write (Put or pushed revision) already extended *)
  Theorem put_one_child_per_parent ops sched l1 c2 l3 q c1 :
    commits (run true false ac tab ops sched) = l1 ++ c2 :: l3 -> c_put c2 = true -> c_parent c2 = Some q ->
    In c1 l1 -> c_parent c1 <> Some q.
  Proof. intros E Hput Hq Hin. eapply ok_commits_spec; eauto. apply (pi_unique _ (run_pinv ops sched)). Qed.
End Step.
