(* C05, not property obligations: statements the faithful model of the code refutes. *)
From SG Require Import Base.Prelude C05.WriteLoop C05.WriteLoopProofs C05.WriteLoopTheorems C05.WriteLoopLinear.
Open Scope N_scope.

(* KNOWN FINDING (known_findings.json, signature lost-update-tombstone-resurrection-race): "every acknowledged
   write is present afterwards" fails for the storage layer as it is, because resurrecting a tombstone is an
   insert, not a compare-and-swap.  Witness found by the correspondence harness on the real code (random
   schedule), reproduced here on the faithful model. *)
Lemma C05_acked_present_refuted_for_unchecked_resurrection :
  exists ac tab ops sched i w r q,
    nth_error (ws (run true true ac tab ops sched)) i = Some w /\ w_out w = Some (OAck r q) /\
    has_rev (d_tree (st (run true true ac tab ops sched))) r = false.
Proof.
  exists true, res_tab, res_ops, res_sched, 2%nat.
  destruct unchecked_resurrection_loses_acked_write as (w & H1 & H2 & H3 & _).
  exists w, (3, 330), 3. auto.
Qed.

(* the same known finding refutes linearizability for the storage layer as it is: after the stale resurrection
   the stored tree is no longer the concatenation of what the acknowledged writes added (three commits, the third
   one built on the first one's tree), and replaying the commits in order fails at the third *)
Lemma C05_tree_linearizable_refuted_for_unchecked_resurrection :
  exists ac tab ops sched,
    let s := run true true ac tab ops sched in
    d_tree (st s) <> flat_map c_added (commits s) /\ replay ac tab (commits s) = None.
Proof. exists true, res_tab, res_ops, res_sched. vm_compute. split; [discriminate | reflexivity]. Qed.

(* FIXED (fix: 1ddf6a0): the unrepaired write loop forgot reserved sequences *)
Lemma C05_unrepaired_write_loop_leaks_sequences :
  let s := run false false true leak_tab leak_ops leak_sched in
  (forall x, In x (ws s) -> w_out x <> None) /\ 2 <= last s /\
  ~ In 2 (flat_map cseqs (commits s) ++ released s ++ flat_map wcar (ws s)).
Proof. exact unrepaired_leaks. Qed.
