(* C05 -- Acknowledged writes are never lost; one accepted child per parent revision.
   Model: C05/WriteLoop.v (Prepare/Write steps of any number of writers of one document, any schedule).
   Only property theorems here, each closed by [exact]. *)
From Coq Require Import Permutation.
From SG Require Import Base.Prelude C05.WriteLoop C05.WriteLoopProofs C05.WriteLoopTheorems C05.WriteLoopParents C05.WriteLoopTree C05.WriteLoopLinear C05.RevOptions.
Open Scope N_scope.

(* every acknowledged write is present in the document's revision history and has its own commit/sequence,
   whatever the interleaving of the writers' read / callback / compare-and-swap steps *)
Theorem C05_acked_present : forall ac tab ops sched i w r q,
  nth_error (ws (run true false ac tab ops sched)) i = Some w -> w_out w = Some (OAck r q) ->
  has_rev (d_tree (st (run true false ac tab ops sched))) r = true /\
  exists c, In c (commits (run true false ac tab ops sched)) /\ c_rev c = r /\ c_seq c = q.
Proof. exact acked_present. Qed.
Print Assumptions C05_acked_present.

(* each committed write received a sequence strictly greater than that of the write it superseded, and the
   stored document carries the sequence of the last commit (what the feed will announce) *)
Theorem C05_acked_seq_increasing : forall ac tab ops sched,
  commits_ok 0 (commits (run true false ac tab ops sched)) /\
  last_seq 0 (commits (run true false ac tab ops sched)) = d_seq (st (run true false ac tab ops sched)).
Proof. exact acked_seq_increasing. Qed.
Print Assumptions C05_acked_seq_increasing.

Theorem C05_commit_sequences_ordered : forall prev cs, commits_ok prev cs ->
  forall c, In c cs -> prev < c_seq c /\ c_prevseq c < c_seq c.
Proof. exact commits_ok_sorted. Qed.
Print Assumptions C05_commit_sequences_ordered.

(* no two writes ever share a sequence, and none is both stored and published as unused *)
Theorem C05_sequences_unique : forall ac tab ops sched,
  NoDup (committed_seqs (run true false ac tab ops sched) ++ released (run true false ac tab ops sched)
         ++ flat_map wcar (ws (run true false ac tab ops sched))) /\
  forall x, In x (committed_seqs (run true false ac tab ops sched) ++ released (run true false ac tab ops sched)
                  ++ flat_map wcar (ws (run true false ac tab ops sched))) <-> 1 <= x <= last (run true false ac tab ops sched).
Proof. exact accounted_always. Qed.
Print Assumptions C05_sequences_unique.

(* a writer that does not end with an acknowledgement (409, 403, storage error, cancelled push, lost CAS race)
   leaves no trace in the stored document: the document changes only at an acknowledged write *)
Theorem C05_loser_leaves_no_trace : forall fixed ac tab s e,
  st (step fixed false ac tab s e) <> st s ->
  exists i w p, e = Write i /\ nth_error (ws s) i = Some w /\ w_prep w = Some p /\ w_out w = None /\
    st (step fixed false ac tab s e) = p_doc p /\ p_cas p = d_cas (st s) /\
    nth_error (ws (step fixed false ac tab s e)) i =
      Some {| w_op := w_op w; w_attempt := w_attempt w; w_matchrev := w_matchrev w; w_docseq := 0; w_unusedseqs := []; w_prep := None;
              w_out := Some (OAck (p_rev p) (d_seq (p_doc p))) |}.
Proof. exact store_changes_only_by_ack. Qed.
Print Assumptions C05_loser_leaves_no_trace.

(* one accepted child per parent: a REST write is never acknowledged on a parent revision that an earlier
   acknowledged write (REST or pushed) already extended -- every other writer on that parent gets the
   conflict error.  (Pushed revisions may legitimately branch when conflicts are allowed, so the statement is
   about REST writes; for conflict-free databases the tree-level chain property is C04's.) *)
Theorem C05_put_one_child_per_parent : forall ac tab ops sched l1 c2 l3 q c1,
  commits (run true false ac tab ops sched) = l1 ++ c2 :: l3 -> c_put c2 = true -> c_parent c2 = Some q ->
  In c1 l1 -> c_parent c1 <> Some q.
Proof. exact put_one_child_per_parent. Qed.
Print Assumptions C05_put_one_child_per_parent.

(* LINEARIZABILITY of the revision tree.  For every schedule the stored tree is the concatenation, in commit
   order, of the revisions each acknowledged write added ([c_added]); each acknowledged write's plan -- parent /
   leaf check, conflict check, generation check, revisions to add -- was computed ([plan_of], in the writer-local
   state of the successful attempt: attempt number, remembered parent) on exactly the tree the earlier commits
   produced, and its sync function did not reject; hence replaying the acknowledged writes one after another in
   commit order ([replay]) yields exactly the stored tree. *)
Theorem C05_tree_linearizable : forall ac tab ops sched,
  let s := run true false ac tab ops sched in
  d_tree (st s) = flat_map c_added (commits s) /\
  (forall l1 c l2, commits s = l1 ++ c :: l2 ->
     plan_of ac tab (c_op c) (c_attempt c) (c_matchrev c) (flat_map c_added l1) = Some (PAdd (c_added c)) /\
     w_reject (c_op c) = false /\ option_map r_id (rev_last (c_added c)) = Some (c_rev c)) /\
  replay ac tab (commits s) = Some (d_tree (st s)).
Proof. exact tree_linearizable. Qed.
Print Assumptions C05_tree_linearizable.

(* the commits are exactly the acknowledgements: each commit is the acknowledged write of the writer it names, one
   of the given requests (C05_acked_present gives the converse: every acknowledgement has its commit) *)
Theorem C05_commits_are_acks : forall ac tab ops sched c,
  let s := run true false ac tab ops sched in
  In c (commits s) ->
  exists w, nth_error (ws s) (c_widx c) = Some w /\ w_op w = c_op c /\ w_out w = Some (OAck (c_rev c) (c_seq c)) /\ In (c_op c) ops.
Proof. exact commits_are_acks. Qed.
Print Assumptions C05_commits_are_acks.

(* the stored tree is well-formed in either mode, whatever is pushed: revision ids unique, every parent present,
   every revision's generation strictly above its parent's (RevTree.addRevision's generation check) *)
Theorem C05_tree_wellformed : forall ac tab ops sched, wf (d_tree (st (run true false ac tab ops sched))).
Proof. exact tree_wellformed. Qed.
Print Assumptions C05_tree_wellformed.

(* the history has as many revisions as the acknowledged writes added; as many as there are acknowledged writes
   when they are all REST writes (one revision each) *)
Theorem C05_tree_length : forall ac tab ops sched,
  let s := run true false ac tab ops sched in
  length (d_tree (st s)) = list_sum (map (fun c => length (c_added c)) (commits s)) /\
  ((forall c, In c (commits s) -> c_put c = true) -> length (d_tree (st s)) = length (commits s)).
Proof. exact tree_length. Qed.
Print Assumptions C05_tree_length.

(* CONFLICT-FREE MODE, all writers (REST writes and pushed revisions): every reachable stored tree has at most one
   live leaf ... *)
Theorem C05_conflict_free_one_live_leaf : forall tab ops sched,
  (length (live_leaves (d_tree (st (run true false false tab ops sched)))) <= 1)%nat.
Proof. exact conflict_free_one_live_leaf. Qed.
Print Assumptions C05_conflict_free_one_live_leaf.

(* ... and while it holds no tombstone it is a single chain -- in stored order: the first revision is the root,
   each further revision's parent is the one before it, the last one is the only leaf -- whose length is the number
   of revisions added by acknowledged writes (= the number of acknowledged writes for single-revision writes,
   C05_tree_length) *)
Theorem C05_conflict_free_single_chain : forall tab ops sched,
  let s := run true false false tab ops sched in
  all_live (d_tree (st s)) ->
  single_chain (d_tree (st s)) /\
  length (d_tree (st s)) = list_sum (map (fun c => length (c_added c)) (commits s)) /\
  (d_tree (st s) <> [] -> exists r, leaves (d_tree (st s)) = [r] /\ rev_last (d_tree (st s)) = Some r).
Proof. exact conflict_free_single_chain. Qed.
Print Assumptions C05_conflict_free_single_chain.

(* the hypothesis holds in particular when no request deletes *)
Theorem C05_no_delete_all_live : forall tab ops sched,
  (forall o, In o ops -> w_deleted o = false) -> all_live (d_tree (st (run true false false tab ops sched))).
Proof. exact no_delete_all_live. Qed.
Print Assumptions C05_no_delete_all_live.

(* ONE ACCEPTED CHILD PER PARENT in a conflict-free database, ALL writers (REST writes and pushed revisions with any
   write options), every interleaving.  Each acknowledged write either
     (1) is a pushed revision whose options carry ForceAllowConflictingTombstone and whose successful callback ran on a
         document that was a tombstone (the tree the earlier commits produced has a deleted winner) -- the only way
         the conflict check is skipped -- or
     (2) every revision it added is, at its commit, the ONLY child of its parent: no revision stored before it and no
         other revision it adds has the same parent.
   So a parent gets a second accepted child ONLY through (1). *)
Theorem C05_conflict_free_second_child_only_forced : forall tab ops sched l1 c l2,
  let s := run true false false tab ops sched in
  commits s = l1 ++ c :: l2 ->
  (c_put c = false /\ w_push (c_op c) <> [] /\ o_force (w_opt (c_op c)) = true /\
   tree_tombstoned (flat_map c_added l1) = true) \/
  (forall x y q, In x (flat_map c_added l1 ++ c_added c) -> In y (c_added c) ->
                 r_parent x = Some q -> r_parent y = Some q -> x = y).
Proof. exact conflict_free_second_child_only_forced. Qed.
Print Assumptions C05_conflict_free_second_child_only_forced.

(* the same for a single write in a database that allows conflicts: a pushed revision written with NoConflicts (the
   "noconflicts" property of a rev message) is bound by the same rule *)
Theorem C05_noconflict_write_second_child_only_forced : forall ac tab ops sched l1 c l2,
  let s := run true false ac tab ops sched in
  commits s = l1 ++ c :: l2 -> ac && negb (o_noconf (w_opt (c_op c))) = false ->
  (c_put c = false /\ w_push (c_op c) <> [] /\ o_force (w_opt (c_op c)) = true /\
   tree_tombstoned (flat_map c_added l1) = true) \/
  (forall x y q, In x (flat_map c_added l1 ++ c_added c) -> In y (c_added c) ->
                 r_parent x = Some q -> r_parent y = Some q -> x = y).
Proof. exact noconflict_write_second_child_only_forced. Qed.
Print Assumptions C05_noconflict_write_second_child_only_forced.

(* the characterisation is exact: with the option on a tombstoned document the conflict rules are not consulted at
   all (the plan is the one of a database that allows conflicts, never a 409), in either mode ... *)
Theorem C05_forced_tombstone_skips_conflict_check : forall ac o t,
  o_force (w_opt o) = true -> tree_tombstoned t = true ->
  push_plan ac o t = Some (push_check true true t (w_push o) (w_deleted o)) /\
  push_check true true t (w_push o) (w_deleted o) <> PConflict.
Proof. exact forced_plan_ignores_conflicts. Qed.
Print Assumptions C05_forced_tombstone_skips_conflict_check.

(* ... and when no pushed revision carries the option, every stored revision is the only child of its parent *)
Theorem C05_conflict_free_unforced_one_child_per_parent : forall tab ops sched,
  (forall o, In o ops -> w_push o <> [] -> o_force (w_opt o) = false) ->
  uc (d_tree (st (run true false false tab ops sched))).
Proof. exact conflict_free_unforced_one_child_per_parent. Qed.
Print Assumptions C05_conflict_free_unforced_one_child_per_parent.

(* THE BLIP REV HANDLER'S RULE (RevOptions.v, [rev_opts] = the assignments before the write in processRev): a
   connection opened by a client -- not a peer Sync Gateway, no conflict resolver of either kind -- never derives
   ForceAllowConflictingTombstone, whatever the message says *)
Theorem C05_plain_client_never_forces_conflicting_tombstone : forall k deleted noconflicts,
  plain_client k -> o_force (rev_opts k deleted noconflicts) = false.
Proof. exact plain_never_forces. Qed.
Print Assumptions C05_plain_client_never_forces_conflicting_tombstone.

(* exactly: the option is derived for a tombstone that arrives from a peer gateway or on a connection with a resolver *)
Theorem C05_force_derived_iff : forall k deleted noconflicts,
  o_force (rev_opts k deleted noconflicts) = true <->
  deleted = true /\ (k_sgr2 k = true \/ k_rt_resolver k = true \/ k_hlv_resolver k = true).
Proof. exact force_derived_iff. Qed.
Print Assumptions C05_force_derived_iff.

(* end to end: conflict-free database, every interleaving of any number of REST writers and of revisions pushed by
   plain clients (any noconflicts property): each stored revision is the only child of its parent *)
Theorem C05_plain_clients_one_child_per_parent : forall tab ops sched,
  (forall o, In o ops -> w_push o <> [] -> exists k nc, plain_client k /\ w_opt o = rev_opts k (w_deleted o) nc) ->
  uc (d_tree (st (run true false false tab ops sched))).
Proof. exact plain_clients_one_child_per_parent. Qed.
Print Assumptions C05_plain_clients_one_child_per_parent.

(* feed_final_rev: the stored current revision (what the feed announces together with the stored sequence) is the
   winner of the stored tree, and the winner is its maximal leaf -- no leaf beats it in winningRevision's order
   (live before deleted, then generation, then digest) and it beats every other leaf; the stored sequence and
   current revision are those the LAST commit wrote (C05_acked_seq_increasing: its sequence is the greatest) *)
Theorem C05_feed_final_rev : forall ac tab ops sched,
  let s := run true false ac tab ops sched in
  d_cur (st s) = option_map r_id (winner (d_tree (st s))) /\
  (forall w, winner (d_tree (st s)) = Some w ->
     In w (leaves (d_tree (st s))) /\
     forall x, In x (leaves (d_tree (st s))) -> beats x w = false /\ (x <> w -> beats w x = true)) /\
  (forall l c, commits s = l ++ [c] ->
     d_seq (st s) = c_seq c /\ d_cur (st s) = c_cur c /\ exists w, winner (d_tree (st s)) = Some w /\ c_cur c = Some (r_id w)) /\
  (commits s = [] -> d_tree (st s) = [] /\ d_seq (st s) = 0 /\ d_cur (st s) = None).
Proof. exact feed_final_rev. Qed.
Print Assumptions C05_feed_final_rev.

(* Transfer to the code as it is.  The theorems above are stated for the model in which every write is
   compare-and-swap ([resurrect_unchecked = false]).  The storage layer writes a live revision over a tombstone
   WITHOUT the compare-and-swap (known finding, C05_Refuted.v); the correspondence harness runs the faithful
   model ([true]).  The two coincide on every run in which no live revision is written over a tombstone that
   changed since it was read: *)
Theorem C05_faithful_model_coincides : forall fixed ac tab ops sched,
  no_stale_resurrection fixed ac tab ops sched ->
  run fixed true ac tab ops sched = run fixed false ac tab ops sched.
Proof. exact faithful_run_eq. Qed.
Print Assumptions C05_faithful_model_coincides.

(* non-vacuity of the conflict-free theorems: three REST writers and two pushes (one refused by the generation
   check, one refused as a conflict) race in conflict-free mode; the stored tree is the chain 1-1, 2-22, 3-33, 4-40 *)
Example C05_nonvacuous_conflict_free :
  let s := run true false false cf_tab cf_ops cf_sched in
  all_finished s /\ all_live (d_tree (st s)) /\ length (commits s) = 3%nat /\ length (d_tree (st s)) = 4%nat /\
  d_cur (st s) = Some (4, 40) /\ map w_out (ws s) =
    [Some (OAck (1, 1) 1); Some (OAck (2, 22) 2); Some OConflict; Some (OAck (4, 40) 4); Some OFailed; Some OConflict].
Proof.
  vm_compute. split; [|split; [|repeat split]].
  - intros x H. repeat (destruct H as [<-|H]; [discriminate|]). destruct H.
  - intros r H. repeat (destruct H as [<-|H]; [reflexivity|]). destruct H.
Qed.

(* non-vacuity: a concrete racing schedule in which a writer loses two CAS races and is then rejected *)
Example C05_nonvacuous :
  let s := run true false true leak_tab leak_ops leak_sched in
  all_finished s /\ length (commits s) = 4%nat /\ last s = 6 /\
  exists w, nth_error (ws s) 1 = Some w /\ w_out w = Some OConflict /\
  no_stale_resurrection true true leak_tab leak_ops leak_sched.
Proof.
  vm_compute. split; [|split; [reflexivity | split; [reflexivity | eexists; split; [reflexivity | split; [reflexivity | repeat split]]]]].
  intros x H. repeat (destruct H as [<-|H]; [discriminate|]). destruct H.
Qed.

(* non-vacuity of the one-child-per-parent characterisation: 1-1 is deleted by 2-21, then a different tombstone 2-22
   of 1-1 is pushed.  From a peer gateway it is acknowledged (case (1) happens: two accepted children); from a
   client it gets the conflict error, leaves no trace and keeps no sequence *)
Example C05_nonvacuous_forced_tombstone :
  (let s := run true false false [] (tomb_ops peer_gateway) tomb_sched in
   map w_out (ws s) = [Some (OAck (1, 1) 1); Some (OAck (2, 21) 2); Some (OAck (2, 22) 3)] /\ ~ uc (d_tree (st s))) /\
  (let s := run true false false [] (tomb_ops client_conn) tomb_sched in
   map w_out (ws s) = [Some (OAck (1, 1) 1); Some (OAck (2, 21) 2); Some OConflict] /\
   length (d_tree (st s)) = 2%nat /\ d_seq (st s) = 2 /\ last s = 2) /\
  plain_client client_conn.
Proof. split; [exact forced_tombstone_second_child | split; [exact plain_tombstone_refused | repeat split]]. Qed.
