(* C05 -- Acknowledged writes are never lost; one accepted child per parent revision.
   Model: C05/WriteLoop.v (Prepare/Write steps of any number of writers of one document, any schedule).
   Only property theorems here, each closed by [exact]. *)
From Coq Require Import Permutation.
From SG Require Import Base.Prelude C05.WriteLoop C05.WriteLoopProofs C05.WriteLoopTheorems C05.WriteLoopParents.
Open Scope N_scope.

(* every acknowledged write is present in the document's revision history and has its own commit/sequence,
   whatever the interleaving of the writers' read / callback / compare-and-swap steps *)
Theorem C05_acked_present : forall ac tab ops sched i w r q,
  nth_error (ws (run true false ac tab ops sched)) i = Some w -> w_out w = Some (OAck r q) ->
  has_rev (d_tree (st (run true false ac tab ops sched))) r = true /\
  exists c, In c (commits (run true false ac tab ops sched)) /\ c_rev c = r /\ c_seq c = q.
Proof. exact acked_present. Qed.
Print Assumptions C05_acked_present.

(* each committed write received a sequence strictly greater than that of the write it superseded, and the
   stored document carries the sequence of the last commit (what the feed will announce) *)
Theorem C05_acked_seq_increasing : forall ac tab ops sched,
  commits_ok 0 (commits (run true false ac tab ops sched)) /\
  last_seq 0 (commits (run true false ac tab ops sched)) = d_seq (st (run true false ac tab ops sched)).
Proof. exact acked_seq_increasing. Qed.
Print Assumptions C05_acked_seq_increasing.

Theorem C05_commit_sequences_ordered : forall prev cs, commits_ok prev cs ->
  forall c, In c cs -> prev < c_seq c /\ c_prevseq c < c_seq c.
Proof. exact commits_ok_sorted. Qed.
Print Assumptions C05_commit_sequences_ordered.

(* no two writes ever share a sequence, and none is both stored and published as unused *)
Theorem C05_sequences_unique : forall ac tab ops sched,
  NoDup (committed_seqs (run true false ac tab ops sched) ++ released (run true false ac tab ops sched)
         ++ flat_map wcar (ws (run true false ac tab ops sched))) /\
  forall x, In x (committed_seqs (run true false ac tab ops sched) ++ released (run true false ac tab ops sched)
                  ++ flat_map wcar (ws (run true false ac tab ops sched))) <-> 1 <= x <= last (run true false ac tab ops sched).
Proof. exact accounted_always. Qed.
Print Assumptions C05_sequences_unique.

(* a writer that does not end with an acknowledgement (409, 403, storage error, cancelled push, lost CAS race)
   leaves no trace in the stored document: the document changes only at an acknowledged write *)
Theorem C05_loser_leaves_no_trace : forall fixed ac tab s e,
  st (step fixed false ac tab s e) <> st s ->
  exists i w p, e = Write i /\ nth_error (ws s) i = Some w /\ w_prep w = Some p /\ w_out w = None /\
    st (step fixed false ac tab s e) = p_doc p /\ p_cas p = d_cas (st s) /\
    nth_error (ws (step fixed false ac tab s e)) i =
      Some {| w_op := w_op w; w_attempt := w_attempt w; w_matchrev := w_matchrev w; w_docseq := 0; w_unusedseqs := []; w_prep := None;
              w_out := Some (OAck (p_rev p) (d_seq (p_doc p))) |}.
Proof. exact store_changes_only_by_ack. Qed.
Print Assumptions C05_loser_leaves_no_trace.

(* one accepted child per parent: a REST write is never acknowledged on a parent revision that an earlier
   acknowledged write (REST or pushed) already extended -- every other writer on that parent gets the
   conflict error.  (Pushed revisions may legitimately branch when conflicts are allowed, so the statement is
   about REST writes; for conflict-free databases the tree-level chain property is C04's.) *)
Theorem C05_put_one_child_per_parent : forall ac tab ops sched l1 c2 l3 q c1,
  commits (run true false ac tab ops sched) = l1 ++ c2 :: l3 -> c_put c2 = true -> c_parent c2 = Some q ->
  In c1 l1 -> c_parent c1 <> Some q.
Proof. exact put_one_child_per_parent. Qed.
Print Assumptions C05_put_one_child_per_parent.

(* Transfer to the code as it is.  The theorems above are stated for the model in which every write is
   compare-and-swap ([resurrect_unchecked = false]).  The storage layer writes a live revision over a tombstone
   WITHOUT the compare-and-swap (known finding, C05_Refuted.v); the correspondence harness runs the faithful
   model ([true]).  The two coincide on every run in which no live revision is written over a tombstone that
   changed since it was read: *)
Theorem C05_faithful_model_coincides : forall fixed ac tab ops sched,
  no_stale_resurrection fixed ac tab ops sched ->
  run fixed true ac tab ops sched = run fixed false ac tab ops sched.
Proof. exact faithful_run_eq. Qed.
Print Assumptions C05_faithful_model_coincides.

(* non-vacuity: a concrete racing schedule in which a writer loses two CAS races and is then rejected *)
Example C05_nonvacuous :
  let s := run true false true leak_tab leak_ops leak_sched in
  all_finished s /\ length (commits s) = 4%nat /\ last s = 6 /\
  exists w, nth_error (ws s) 1 = Some w /\ w_out w = Some OConflict /\
  no_stale_resurrection true true leak_tab leak_ops leak_sched.
Proof.
  vm_compute. split; [|split; [reflexivity | split; [reflexivity | eexists; split; [reflexivity | split; [reflexivity | repeat split]]]]].
  intros x H. repeat (destruct H as [<-|H]; [discriminate|]). destruct H.
Qed.
