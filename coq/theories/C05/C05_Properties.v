(* C05 -- Acknowledged writes are never lost; one accepted child per parent revision.
   Model: C05/WriteLoop.v (Prepare/Write steps of any number of writers of one document, any schedule).
   Only property theorems here, each closed by [exact]. *)
From Coq Require Import Permutation.
From SG Require Import Base.Prelude C05.WriteLoop C05.WriteLoopProofs C05.WriteLoopTheorems.
Open Scope N_scope.

(* every acknowledged write is present in the document's revision history and has its own commit/sequence,
   whatever the interleaving of the writers' read / callback / compare-and-swap steps *)
Theorem C05_acked_present : forall ac tab ops sched i w r q,
  nth_error (ws (run true ac tab ops sched)) i = Some w -> w_out w = Some (OAck r q) ->
  has_rev (d_tree (st (run true ac tab ops sched))) r = true /\
  exists c, In c (commits (run true ac tab ops sched)) /\ c_rev c = r /\ c_seq c = q.
Proof. exact acked_present. Qed.
Print Assumptions C05_acked_present.

(* each committed write received a sequence strictly greater than that of the write it superseded, and the
   stored document carries the sequence of the last commit (what the feed will announce) *)
Theorem C05_acked_seq_increasing : forall ac tab ops sched,
  commits_ok 0 (commits (run true ac tab ops sched)) /\
  last_seq 0 (commits (run true ac tab ops sched)) = d_seq (st (run true ac tab ops sched)).
Proof. exact acked_seq_increasing. Qed.
Print Assumptions C05_acked_seq_increasing.

Theorem C05_commit_sequences_ordered : forall prev cs, commits_ok prev cs ->
  forall c, In c cs -> prev < c_seq c /\ c_prevseq c < c_seq c.
Proof. exact commits_ok_sorted. Qed.
Print Assumptions C05_commit_sequences_ordered.

(* no two writes ever share a sequence, and none is both stored and published as unused *)
Theorem C05_sequences_unique : forall ac tab ops sched,
  NoDup (committed_seqs (run true ac tab ops sched) ++ released (run true ac tab ops sched)
         ++ flat_map wcar (ws (run true ac tab ops sched))) /\
  forall x, In x (committed_seqs (run true ac tab ops sched) ++ released (run true ac tab ops sched)
                  ++ flat_map wcar (ws (run true ac tab ops sched))) <-> 1 <= x <= last (run true ac tab ops sched).
Proof. exact accounted_always. Qed.
Print Assumptions C05_sequences_unique.

(* a writer that does not end with an acknowledgement (409, 403, storage error, cancelled push, lost CAS race)
   leaves no trace in the stored document: the document changes only at an acknowledged write *)
Theorem C05_loser_leaves_no_trace : forall fixed ac tab s e,
  st (step fixed ac tab s e) <> st s ->
  exists i w p, e = Write i /\ nth_error (ws s) i = Some w /\ w_prep w = Some p /\ w_out w = None /\
    st (step fixed ac tab s e) = p_doc p /\ p_cas p = d_cas (st s) /\
    nth_error (ws (step fixed ac tab s e)) i =
      Some {| w_op := w_op w; w_attempt := w_attempt w; w_docseq := 0; w_unusedseqs := []; w_prep := None;
              w_out := Some (OAck (p_rev p) (d_seq (p_doc p))) |}.
Proof. exact store_changes_only_by_ack. Qed.
Print Assumptions C05_loser_leaves_no_trace.

(* PARTIAL: "with conflicts disallowed at most one acknowledged write exists per parent, the history is a
   single chain whose length is the number of acknowledged writes" is not proved over this model (the leaf /
   conflict checks are modelled and compared with the code on every harness case, and monitored on the
   implementation by the one_child_per_parent and no_conflict_single_live_leaf monitors). *)
Definition C05_one_child_per_parent_full_statement : Prop :=
  forall tab ops sched c1 c2 p,
    let s := run true false tab ops sched in
    In c1 (commits s) -> In c2 (commits s) -> c_parent c1 = Some p -> c_parent c2 = Some p -> c1 = c2.

(* non-vacuity: a concrete racing schedule in which a writer loses two CAS races and is then rejected *)
Example C05_nonvacuous :
  let s := run true true leak_tab leak_ops leak_sched in
  all_finished s /\ length (commits s) = 4%nat /\ last s = 6 /\
  exists w, nth_error (ws s) 1 = Some w /\ w_out w = Some OConflict.
Proof.
  vm_compute. split; [|split; [reflexivity | split; [reflexivity | eexists; split; reflexivity]]].
  intros x H. repeat (destruct H as [<-|H]; [discriminate|]). destruct H.
Qed.
