(* C20, not a property obligation: the parser as it was before the repair (fix: commit in /repo)
   returns a non-client error for malformed compound tokens.  Witness by vm_compute; the same inputs,
   run on the unrepaired implementation, gave HTTP 500 (see known_findings.json, status fixed). *)
From Coq Require Import String.
From SG Require Import Base.Prelude C20.SeqIdGen C20.SeqId.

Lemma parse_old_reject_refuted : exists str, parse_old str = ERaw.
Proof. exists "1:x"%string. vm_compute. reflexivity. Qed.
