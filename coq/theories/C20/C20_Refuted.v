(* C20, not a property obligation: the parser as it was before the repair (fix: commit in /repo)
   returns a non-client error for malformed compound tokens.  Witness by vm_compute; the same inputs,
   run on the unrepaired implementation, gave HTTP 500 (see known_findings.json, status fixed). *)
From Coq Require Import String.
From SG Require Import Base.Prelude C20.SeqIdGen C20.SeqId.

Lemma parse_old_reject_refuted : exists str, parse_old str = ERaw.
Proof. exists "1:x"%string. vm_compute. reflexivity. Qed.

(* Outside the [emitted] hypothesis of C20_emit_order_preserved: revocation rows (db/changes.go buildRevokedFeed)
   carry TriggeredBy = the revocation sequence together with a document sequence that may be ABOVE it; such a
   token is ordered at its TriggeredBy by [before] but printed as the plain sequence, so the order a client
   recomputes from the printed tokens differs from the order of the response.  This is the root cause of the known
   finding C13 visible-doc-missing/revocation-token-skips-rows. *)
From SG Require Import C20.SeqIdOrder C20.SeqIdCodec.
Open Scope N_scope.
Lemma emit_order_not_preserved_without_emitted :
  exists e1 e2, LowSeq e1 = 0 /\ LowSeq e2 = 0 /\ emitted e1 = false /\
    before e1 e2 = true /\ before (canon (stamp 0 e1)) (canon (stamp 0 e2)) = false /\
    parse (print_token e1) = POk (mk 0 0 10).
Proof. exists (mk 7 0 10), (mk 0 0 8). vm_compute. repeat split; reflexivity. Qed.
