(* C20 model: position tokens.  The decision functions ([Before], [SafeSequence], the format
   selection of [intSeqToString]) are NOT written here: they are regenerated from
   /repo/db/sequence_id.go into SeqIdGen.v on every check.  This file adds what the translator does
   not cover: decimal rendering, the parser ([parseIntegerSequenceID]) and the JSON (un)marshalling,
   written by hand and tied to the code by the correspondence harness. *)
From Coq Require Import String Ascii DecimalString Decimal DecimalN.
From SG Require Import Base.Prelude C20.SeqIdGen.
Open Scope string_scope.
Open Scope N_scope.

Definition seqid := SequenceID.
Definition mk (t l s : N) : seqid := {| TriggeredBy := t; LowSeq := l; Seq := s |}.

(* ---------- rendering ---------- *)
Definition print_N (n : N) : string := NilEmpty.string_of_uint (N.to_uint n).

(* fmt.Sprintf for formats made of literal characters and %d *)
Fixpoint render (f : string) (args : list N) : string :=
  match f with
  | EmptyString => EmptyString
  | String c r =>
      match r with
      | String c2 r2 =>
          if (Ascii.eqb c "%" && Ascii.eqb c2 "d")%bool then
            match args with
            | a :: rest => print_N a ++ render r2 rest
            | [] => render r2 []
            end
          else String c (render r args)
      | EmptyString => String c EmptyString
      end
  end.

Definition print_token (s : seqid) : string := render (fst (intSeqToString s)) (snd (intSeqToString s)).

(* ---------- parsing ---------- *)
Definition colon : ascii := ":"%char.

Fixpoint split_colon (s : string) : list string :=
  match s with
  | EmptyString => [EmptyString]
  | String c r =>
      if Ascii.eqb c colon then EmptyString :: split_colon r
      else match split_colon r with
           | h :: t => String c h :: t
           | [] => [String c EmptyString]
           end
  end.

Definition two64 : N := 18446744073709551616.

(* strconv.ParseUint(s, 10, 64): non-empty, decimal digits only (no sign, no underscore, no space),
   value below 2^64; leading zeros are accepted *)
Definition parse_uint64 (s : string) : option N :=
  match s with
  | EmptyString => None
  | _ => match NilEmpty.uint_of_string s with
         | Some d => let n := N.of_uint d in if n <? two64 then Some n else None
         | None => None
         end
  end.

Definition parse_comp (s : string) (allow_empty : bool) : option N :=
  match s with
  | EmptyString => if allow_empty then Some 0 else None
  | _ => parse_uint64 s
  end.

(* error kinds as the caller sees them: [E400] is base.HTTPError 400, [ERaw] is the bare
   *strconv.NumError that parseIntegerSequenceID returns from its two- and three-component branches
   (base.ErrorAsHTTPStatus maps it to 500) *)
Inductive presult := POk (s : seqid) | E400 | ERaw.

(* parseIntegerSequenceID as repaired by the fix: commit (every malformed token is HTTP 400) *)
Definition parse (str : string) : presult :=
  match str with
  | EmptyString => POk (mk 0 0 0)
  | _ =>
    match split_colon str with
    | [a] => match parse_comp a false with Some s => POk (mk 0 0 s) | None => E400 end
    | [a; b] =>
        match parse_comp a false with
        | None => E400
        | Some t => match parse_comp b false with None => E400 | Some s => POk (mk t 0 s) end
        end
    | [a; b; c] =>
        match parse_comp a false with
        | None => E400
        | Some l =>
          match parse_comp b true with
          | None => E400
          | Some t => match parse_comp c false with None => E400 | Some s => POk (mk t l s) end
          end
        end
    | _ => E400
    end
  end.


(* the parser as it was before the repair: the two- and three-component branches returned the bare
   strconv error (HTTP 500).  Kept for C20_Refuted.v. *)
Definition parse_old (str : string) : presult :=
  match str with
  | EmptyString => POk (mk 0 0 0)
  | _ =>
    match split_colon str with
    | [a] => match parse_comp a false with Some s => POk (mk 0 0 s) | None => E400 end
    | [a; b] =>
        match parse_comp a false with
        | None => ERaw
        | Some t => match parse_comp b false with None => ERaw | Some s => POk (mk t 0 s) end
        end
    | [a; b; c] =>
        match parse_comp a false with
        | None => ERaw
        | Some l =>
          match parse_comp b true with
          | None => ERaw
          | Some t => match parse_comp c false with None => ERaw | Some s => POk (mk t l s) end
          end
        end
    | _ => E400
    end
  end.


(* ---------- JSON marshalling ---------- *)
Definition quote : string := String """"%char EmptyString.
Definition marshal (s : seqid) : string :=
  if ((0 <? TriggeredBy s) || (0 <? LowSeq s))%bool then quote ++ print_token s ++ quote
  else print_N (Seq s).

(* ---------- equality / order helpers ---------- *)
Definition seqid_eqb (a b : seqid) : bool :=
  ((TriggeredBy a =? TriggeredBy b) && (LowSeq a =? LowSeq b) && (Seq a =? Seq b))%bool.

Definition before (a b : seqid) : bool :=
  match Before a b with Some r => r | None => false end.

(* what a resumed changes request reads from [since] *)
Definition backfill (s : seqid) : bool := ((0 <? TriggeredBy s) && (Seq s <? TriggeredBy s))%bool.
(* tokens the channel feed can build: TriggeredBy is cleared once Seq reaches it *)
Definition emitted (s : seqid) : bool := ((TriggeredBy s =? 0) || (Seq s <? TriggeredBy s))%bool.

Definition presult_eqb (a b : presult) : bool :=
  match a, b with
  | POk x, POk y => seqid_eqb x y
  | E400, E400 => true
  | ERaw, ERaw => true
  | _, _ => false
  end.

(* ---------- JSON unmarshalling (inputs without backslash escapes) ---------- *)
Definition dq : ascii := """"%char.
Definition bs : ascii := "\"%char.
Fixpoint plain (s : string) : bool :=
  match s with
  | EmptyString => true
  | String c r => (negb (Ascii.eqb c dq) && negb (Ascii.eqb c bs) && plain r)%bool
  end.

(* [strip_last s] = Some r when s = r ++ [dq] *)
Fixpoint strip_last (s : string) : option string :=
  match s with
  | EmptyString => None
  | String c EmptyString => if Ascii.eqb c dq then Some EmptyString else None
  | String c r => match strip_last r with Some r' => Some (String c r') | None => None end
  end.

Definition unquote (s : string) : option string :=
  match s with
  | String c r => if Ascii.eqb c dq then
                    match strip_last r with
                    | Some inner => if plain inner then Some inner else None
                    | None => None
                    end
                  else None
  | EmptyString => None
  end.

(* JSON insignificant whitespace (encoding/json skips it around the value) *)
Definition is_ws (c : ascii) : bool :=
  (Ascii.eqb c " " || Ascii.eqb c "009" || Ascii.eqb c "010" || Ascii.eqb c "013")%bool.
Fixpoint ltrim (s : string) : string :=
  match s with
  | String c r => if is_ws c then ltrim r else s
  | EmptyString => EmptyString
  end.
Fixpoint rtrim (s : string) : string :=
  match s with
  | EmptyString => EmptyString
  | String c r => match rtrim r with
                  | EmptyString => if is_ws c then EmptyString else String c EmptyString
                  | r' => String c r'
                  end
  end.
Definition trim_ws (s : string) : string := rtrim (ltrim s).

(* SequenceID.UnmarshalJSON: a JSON string (possibly surrounded by whitespace) is unwrapped, anything else is
   parsed as it stands *)
Definition unmarshal (data : string) : presult :=
  match unquote (trim_ws data) with
  | Some raw => parse raw
  | None => parse data
  end.
