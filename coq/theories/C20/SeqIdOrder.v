(* C20: the order laws, proved DIRECTLY on the definition regenerated from the Go source
   (SeqIdGen.v) with a structure-insensitive tactic: a rewrite of SequenceID.Before that keeps it a
   strict total order still proves; one that breaks a law does not. *)
From SG Require Import Base.Prelude C20.SeqIdGen C20.SeqId.
Open Scope N_scope.

Ltac open_before :=
  unfold before, Before, Before_fuel in *; cbn [Before_f TriggeredBy LowSeq Seq] in *.

Lemma before_defined a b : exists r, Before a b = Some r.
Proof. destruct a as [t l s], b as [t2 l2 s2]; open_before; break_ifs; try (eexists; reflexivity); exfalso; lia. Qed.

Lemma before_irrefl a : before a a = false.
Proof. destruct a as [t l s]; open_before; break_ifs; lia. Qed.

Lemma before_asym a b : before a b = true -> before b a = false.
Proof. destruct a as [t l s], b as [t2 l2 s2]; open_before; intros H; break_ifs; lia. Qed.

Lemma before_total a b : a <> b -> before a b = true \/ before b a = true.
Proof.
  destruct a as [t l s], b as [t2 l2 s2]; intros H.
  assert (t <> t2 \/ l <> l2 \/ s <> s2) as Hne
    by (destruct (N.eq_dec t t2), (N.eq_dec l l2), (N.eq_dec s s2); subst; try tauto; lia).
  clear H; open_before; break_ifs; lia.
Qed.

Lemma before_trans a b c : before a b = true -> before b c = true -> before a c = true.
Proof.
  destruct a as [t l s], b as [t2 l2 s2], c as [t3 l3 s3]; open_before; intros H1 H2; break_ifs; lia.
Qed.
