(* C20: the parser never mis-parses and rejects with a client error; JSON round trip. *)
From Coq Require Import String Ascii DecimalString Decimal DecimalN DecimalPos.
From SG Require Import Base.Prelude C20.SeqIdGen C20.SeqId C20.SeqIdOrder C20.SeqIdCodec.
Open Scope string_scope.
Open Scope N_scope.

(* [denotes c n]: c is a non-empty string of decimal digits whose value is n, and n fits 64 bits *)
Definition denotes (c : string) (n : N) : Prop :=
  c <> EmptyString /\ exists d, NilEmpty.string_of_uint d = c /\ N.of_uint d = n /\ n < two64.

Lemma parse_uint64_denotes c n : parse_uint64 c = Some n -> denotes c n.
Proof.
  unfold parse_uint64, denotes. destruct c as [|a r]; [discriminate|].
  destruct (NilEmpty.uint_of_string (String a r)) as [d|] eqn:E; [|discriminate].
  destruct (N.ltb_spec (N.of_uint d) two64) as [Hlt|Hge]; [|discriminate]. intros Hs; inv Hs.
  split; [discriminate|]. exists d. split; [apply NilEmpty.sus, E | split; [reflexivity | assumption]].
Qed.

Lemma parse_comp_false c n : parse_comp c false = Some n -> denotes c n.
Proof. destruct c; [discriminate | apply parse_uint64_denotes]. Qed.

Lemma parse_comp_true c n : parse_comp c true = Some n -> (c = EmptyString /\ n = 0) \/ denotes c n.
Proof. destruct c; [cbn; intros H; inv H; auto | intros H; right; apply parse_uint64_denotes; exact H]. Qed.

Fixpoint join_colon (l : list string) : string :=
  match l with
  | [] => EmptyString
  | [a] => a
  | a :: r => a ++ String colon (join_colon r)
  end.

Lemma ascii_eqb_eq a b : Ascii.eqb a b = true -> a = b.
Proof. apply Ascii.eqb_eq. Qed.

Lemma join_cons a l : l <> [] -> join_colon (a :: l) = (a ++ String colon (join_colon l))%string.
Proof. destruct l; [congruence | reflexivity]. Qed.

Lemma join_split s : join_colon (split_colon s) = s.
Proof.
  induction s as [|c r IH]; [reflexivity|]. cbn [split_colon].
  destruct (Ascii.eqb c colon) eqn:E.
  - apply ascii_eqb_eq in E; subst c. rewrite join_cons by apply split_colon_nonnil.
    rewrite IH. reflexivity.
  - destruct (split_colon r) as [|h t] eqn:Er; [exfalso; eapply split_colon_nonnil; eauto|].
    destruct t as [|h2 t2]; cbn [join_colon] in *; rewrite <- IH; reflexivity.
Qed.

(* a token that parses is one of the four well-formed shapes and each field is the value of the
   corresponding decimal component: nothing is mis-parsed *)
Theorem parse_sound str s : parse str = POk s ->
  (str = EmptyString /\ s = mk 0 0 0) \/
  (denotes str (Seq s) /\ TriggeredBy s = 0 /\ LowSeq s = 0) \/
  (exists a b, str = (a ++ String colon b)%string /\ denotes a (TriggeredBy s) /\ denotes b (Seq s) /\ LowSeq s = 0) \/
  (exists a b c, str = (a ++ String colon (b ++ String colon c))%string /\ denotes a (LowSeq s) /\
      ((b = EmptyString /\ TriggeredBy s = 0) \/ denotes b (TriggeredBy s)) /\ denotes c (Seq s)).
Proof.
  unfold parse. destruct str as [|c0 r0] eqn:Estr; [intros H; inv H; auto|].
  rewrite <- Estr. pose proof (join_split str) as J.
  destruct (split_colon str) as [|a [|b [|c [|d t]]]]; try discriminate.
  - destruct (parse_comp a false) eqn:Ea; [|discriminate]. intros H; inv H.
    right; left. cbn in J. subst a. cbn. auto using parse_comp_false.
  - destruct (parse_comp a false) eqn:Ea; [|discriminate].
    destruct (parse_comp b false) eqn:Eb; [|discriminate]. intros H; inv H.
    right; right; left. exists a, b. cbn in J. cbn. auto using parse_comp_false.
  - destruct (parse_comp a false) eqn:Ea; [|discriminate].
    destruct (parse_comp b true) eqn:Eb; [|discriminate].
    destruct (parse_comp c false) eqn:Ec; [|discriminate]. intros H; inv H.
    right; right; right. exists a, b, c. cbn in J. cbn.
    apply parse_comp_true in Eb.
    split; [auto|]. split; [apply parse_comp_false, Ea|]. split; [exact Eb | apply parse_comp_false, Ec].
Qed.

(* rejection is always the client error: the model of the repaired parser has no other error *)
Theorem parse_reject_is_client_error str : (forall s, parse str <> POk s) -> parse str = E400.
Proof.
  unfold parse. destruct str as [|c0 r0]; [intros H; exfalso; eapply H; reflexivity|].
  destruct (split_colon _) as [|x [|y [|z [|w t]]]]; intros H; try reflexivity;
    repeat match goal with
    | |- context[match parse_comp ?x ?y with _ => _ end] => destruct (parse_comp x y)
    end; try reflexivity; exfalso; eapply H; reflexivity.
Qed.

(* ---------- JSON ---------- *)
Lemma plain_app a b : plain (a ++ b) = (plain a && plain b)%bool.
Proof. induction a as [|c r IH]; cbn; [reflexivity|]. rewrite IH. destruct (Ascii.eqb c dq), (Ascii.eqb c bs); reflexivity. Qed.

Lemma string_of_uint_plain d : plain (NilEmpty.string_of_uint d) = true.
Proof. induction d; cbn; auto. Qed.

Lemma print_N_plain n : plain (print_N n) = true.
Proof. apply string_of_uint_plain. Qed.

Lemma print_token_plain s : plain (print_token s) = true.
Proof.
  destruct s as [t l q]. unfold print_token, intSeqToString; cbn [TriggeredBy LowSeq Seq].
  break_ifs; cbn [fst snd render Ascii.eqb Bool.eqb andb]; repeat (rewrite ?plain_app, ?print_N_plain; cbn [plain andb]); reflexivity.
Qed.

Lemma strip_last_cons c c' y :
  strip_last (String c (String c' y)) =
  match strip_last (String c' y) with Some r' => Some (String c r') | None => None end.
Proof. reflexivity. Qed.

Lemma strip_last_app x : strip_last (x ++ String dq EmptyString) = Some x.
Proof.
  induction x as [|c r IH]; [reflexivity|].
  change (String c r ++ String dq EmptyString)%string with (String c (r ++ String dq EmptyString)).
  remember (r ++ String dq EmptyString)%string as y eqn:Ey. destruct y as [|c' y'].
  - destruct r; discriminate.
  - rewrite strip_last_cons, IH. reflexivity.
Qed.

Lemma unquote_quote x : plain x = true -> unquote (quote ++ x ++ quote) = Some x.
Proof.
  intros H. unfold quote. cbn [append unquote]. change (Ascii.eqb """" dq) with true. cbn match.
  rewrite strip_last_app, H. reflexivity.
Qed.

Lemma unquote_digits n : unquote (print_N n) = None.
Proof.
  unfold print_N. destruct (N.to_uint n) as [|d|d|d|d|d|d|d|d|d|d]; reflexivity.
Qed.

(* strings without whitespace are fixed by trimming *)
Fixpoint nows (s : string) : bool :=
  match s with
  | EmptyString => true
  | String c r => (negb (is_ws c) && nows r)%bool
  end.
Lemma nows_app a b : nows (a ++ b) = (nows a && nows b)%bool.
Proof. induction a as [|c r IH]; cbn; [reflexivity|]. rewrite IH. destruct (is_ws c); reflexivity. Qed.
Lemma ltrim_nows s : nows s = true -> ltrim s = s.
Proof. destruct s as [|c r]; cbn; [reflexivity|]. destruct (is_ws c); [discriminate | reflexivity]. Qed.
Lemma rtrim_nows s : nows s = true -> rtrim s = s.
Proof.
  induction s as [|c r IH]; cbn; [reflexivity|]. destruct (is_ws c) eqn:E; [discriminate|]. cbn. intros H.
  rewrite (IH H). destruct r; reflexivity.
Qed.
Lemma trim_nows s : nows s = true -> trim_ws s = s.
Proof. intros H. unfold trim_ws. rewrite (ltrim_nows s H). apply rtrim_nows, H. Qed.
Lemma string_of_uint_nows d : nows (NilEmpty.string_of_uint d) = true.
Proof. induction d; cbn; auto. Qed.
Lemma print_N_nows n : nows (print_N n) = true.
Proof. apply string_of_uint_nows. Qed.
Lemma print_token_nows s : nows (print_token s) = true.
Proof.
  destruct s as [t l q]. unfold print_token, intSeqToString; cbn [TriggeredBy LowSeq Seq].
  break_ifs; cbn [fst snd render Ascii.eqb Bool.eqb andb]; repeat (rewrite ?nows_app, ?print_N_nows; cbn [nows andb]); reflexivity.
Qed.

Theorem json_roundtrip s : wf64 s -> unmarshal (marshal s) = POk (canon s) /\
   ((TriggeredBy s = 0 /\ LowSeq s = 0) -> canon s = s).
Proof.
  intros H. split.
  - unfold unmarshal, marshal.
    destruct ((0 <? TriggeredBy s) || (0 <? LowSeq s))%bool eqn:Ec.
    + rewrite trim_nows by (unfold quote; rewrite !nows_app, print_token_nows; reflexivity).
      rewrite unquote_quote by apply print_token_plain. apply parse_print, H.
    + rewrite trim_nows by apply print_N_nows. rewrite unquote_digits.
      destruct s as [t l q]; destruct H as (Ht & Hl & Hq); cbn [TriggeredBy LowSeq Seq] in *.
      assert (t = 0 /\ l = 0) as [-> ->] by lia.
      rewrite parse_simple by assumption. reflexivity.
  - intros [Ht Hl]. destruct s as [t l q]; cbn [TriggeredBy LowSeq Seq] in *; subst. reflexivity.
Qed.
