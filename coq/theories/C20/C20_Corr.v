(* C20 correspondence: cases observed on the real db.SequenceID by the Go harness
   (harness/db/verif_c20_test.go) are re-evaluated here on the model with vm_compute. *)
From Coq Require Import String.
From SG Require Export Base.Prelude Base.Bytes C20.SeqIdGen C20.SeqId.
Open Scope N_scope.

Inductive case :=
| CBeforeTable (toks : list seqid) (rows : list (list bool))   (* rows[i][j] = toks[i].Before(toks[j]) *)
| CSafe (a : seqid) (r : N)
| CPrint (a : seqid) (out : list N)
| CParse (inp : list N) (r : presult)
| CMarshal (a : seqid) (out : list N)
| CUnmarshal (inp : list N) (r : presult).

Definition T (t l s : N) : seqid := mk t l s.

Definition before_opt_eqb (a b : seqid) (r : bool) : bool :=
  match Before a b with Some x => Bool.eqb x r | None => false end.

Definition check (c : case) : bool :=
  match c with
  | CBeforeTable toks rows =>
      list_eqb (list_eqb Bool.eqb) (map (fun a => map (fun b => before a b) toks) toks) rows
      && forallb (fun a => forallb (fun b => match Before a b with Some _ => true | None => false end) toks) toks
  | CSafe a r => SafeSequence a =? r
  | CPrint a out => String.eqb (print_token a) (B out)
  | CParse inp r => presult_eqb (parse (B inp)) r
  | CMarshal a out => String.eqb (marshal a) (B out)
  | CUnmarshal inp r => presult_eqb (unmarshal (B inp)) r
  end.

Definition mismatches (cs : list case) : list N := failing check cs.
