(* C20 -- Sequence tokens round-trip and order consistently.
   This file contains nothing but the property theorems; each is closed by [exact] of a lemma proved
   elsewhere and followed by Print Assumptions.  [before] is the function regenerated from
   SequenceID.Before in /repo/db/sequence_id.go (SeqIdGen.v). *)
From Coq Require Import String.
From SG Require Import Base.Prelude C20.SeqIdGen C20.SeqId C20.SeqIdOrder C20.SeqIdCodec C20.SeqIdParse.
Open Scope N_scope.

(* the ordering used to merge feeds and compute checkpoints is a strict (total) order, on all of N^3 *)
Theorem C20_before_defined : forall a b, exists r, Before a b = Some r.
Proof. exact before_defined. Qed.
Print Assumptions C20_before_defined.

Theorem C20_before_irreflexive : forall a, before a a = false.
Proof. exact before_irrefl. Qed.
Print Assumptions C20_before_irreflexive.

Theorem C20_before_asymmetric : forall a b, before a b = true -> before b a = false.
Proof. exact before_asym. Qed.
Print Assumptions C20_before_asymmetric.

Theorem C20_before_transitive : forall a b c, before a b = true -> before b c = true -> before a c = true.
Proof. exact before_trans. Qed.
Print Assumptions C20_before_transitive.

Theorem C20_before_total : forall a b, a <> b -> before a b = true \/ before b a = true.
Proof. exact before_total. Qed.
Print Assumptions C20_before_total.

(* every emitted token parses back to a token denoting the same resume position *)
Theorem C20_print_parse_resume : forall s, wf64 s ->
  exists s', parse (print_token s) = POk s' /\
    SafeSequence s' = SafeSequence s /\ Seq s' = Seq s /\
    (backfill s = true -> TriggeredBy s' = TriggeredBy s) /\
    (backfill s = false -> TriggeredBy s' = 0) /\
    (emitted s = true -> TriggeredBy s' = TriggeredBy s).
Proof. exact print_parse_resume. Qed.
Print Assumptions C20_print_parse_resume.

Theorem C20_print_canonical : forall s, wf64 s ->
  parse (print_token s) = POk (canon s) /\ print_token (canon s) = print_token s /\ canon (canon s) = canon s.
Proof. intros s H. exact (conj (parse_print s H) (conj (print_canon s) (canon_idem s))). Qed.
Print Assumptions C20_print_canonical.

Theorem C20_json_roundtrip : forall s, wf64 s ->
  unmarshal (marshal s) = POk (canon s) /\ ((TriggeredBy s = 0 /\ LowSeq s = 0) -> canon s = s).
Proof. exact json_roundtrip. Qed.
Print Assumptions C20_json_roundtrip.

(* malformed tokens are rejected with the client error and never mis-parsed *)
Theorem C20_parse_sound : forall str s, parse str = POk s ->
  (str = EmptyString /\ s = mk 0 0 0) \/
  (denotes str (Seq s) /\ TriggeredBy s = 0 /\ LowSeq s = 0) \/
  (exists a b, str = (a ++ String colon b)%string /\ denotes a (TriggeredBy s) /\ denotes b (Seq s) /\ LowSeq s = 0) \/
  (exists a b c, str = (a ++ String colon (b ++ String colon c))%string /\ denotes a (LowSeq s) /\
      ((b = EmptyString /\ TriggeredBy s = 0) \/ denotes b (TriggeredBy s)) /\ denotes c (Seq s)).
Proof. exact parse_sound. Qed.
Print Assumptions C20_parse_sound.

Theorem C20_reject_is_client_error : forall str, (forall s, parse str <> POk s) -> parse str = E400.
Proof. exact parse_reject_is_client_error. Qed.
Print Assumptions C20_reject_is_client_error.

(* the order of rows in a response agrees with the order clients recompute from the printed tokens *)
Theorem C20_emit_order_preserved : forall L e1 e2,
  LowSeq e1 = 0 -> LowSeq e2 = 0 -> emitted e1 = true -> emitted e2 = true ->
  before e1 e2 = true -> before (canon (stamp L e1)) (canon (stamp L e2)) = true.
Proof. exact emit_order_preserved. Qed.
Print Assumptions C20_emit_order_preserved.

(* non-vacuity: concrete tokens meeting the hypotheses *)
Example C20_nonvacuous :
  wf64 (mk 9 4 7) /\ backfill (mk 9 4 7) = true /\ emitted (mk 9 0 7) = true /\
  before (mk 9 0 7) (mk 0 0 9) = true /\ parse (print_token (mk 9 4 7)) = POk (mk 9 4 7).
Proof. unfold wf64; cbn [TriggeredBy LowSeq Seq mk]; repeat split; try reflexivity; vm_compute; reflexivity. Qed.
