(* C20: print / parse round trips, rejection, and agreement of the response order with the order
   clients recompute from the printed tokens. *)
From Coq Require Import String Ascii DecimalString Decimal DecimalN DecimalPos.
From SG Require Import Base.Prelude C20.SeqIdGen C20.SeqId C20.SeqIdOrder.
Open Scope string_scope.
Open Scope N_scope.

(* ---------- digit strings ---------- *)
Fixpoint nocolon (s : string) : bool :=
  match s with
  | EmptyString => true
  | String c r => negb (Ascii.eqb c colon) && nocolon r
  end.

Lemma string_of_uint_nocolon d : nocolon (NilEmpty.string_of_uint d) = true.
Proof. induction d; cbn; auto. Qed.

Lemma string_of_uint_nonempty d : d <> Nil -> NilEmpty.string_of_uint d <> EmptyString.
Proof. destruct d; cbn; congruence. Qed.

Lemma to_uint_nonnil n : N.to_uint n <> Nil.
Proof.
  destruct n as [|p]; cbn; [discriminate | apply DecimalPos.Unsigned.to_uint_nonnil].
Qed.

Lemma print_N_nocolon n : nocolon (print_N n) = true.
Proof. apply string_of_uint_nocolon. Qed.

Lemma print_N_nonempty n : print_N n <> EmptyString.
Proof. apply string_of_uint_nonempty, to_uint_nonnil. Qed.

Lemma parse_uint64_print n : n < two64 -> parse_uint64 (print_N n) = Some n.
Proof.
  intros Hn. unfold parse_uint64.
  destruct (print_N n) eqn:E; [exfalso; eapply print_N_nonempty; eauto|].
  rewrite <- E. unfold print_N. rewrite NilEmpty.usu, DecimalN.Unsigned.of_to.
  destruct (N.ltb_spec n two64); [reflexivity | lia].
Qed.

Lemma parse_comp_print n ae : n < two64 -> parse_comp (print_N n) ae = Some n.
Proof.
  intros Hn. unfold parse_comp.
  destruct (print_N n) eqn:E; [exfalso; eapply print_N_nonempty; eauto|].
  rewrite <- E. apply parse_uint64_print, Hn.
Qed.

(* ---------- splitting ---------- *)
Lemma split_colon_nonnil s : split_colon s <> [].
Proof. destruct s as [|c r]; cbn; [discriminate|]. destruct (Ascii.eqb c colon); [discriminate|].
  destruct (split_colon r); discriminate. Qed.

Lemma split_nocolon a : nocolon a = true -> split_colon a = [a].
Proof.
  induction a as [|c r IH]; cbn; [reflexivity|]. intros H. apply andb_true_iff in H as [Hc Hr].
  destruct (Ascii.eqb c colon); [discriminate|]. rewrite IH by assumption. reflexivity.
Qed.

Lemma split_app a b : nocolon a = true ->
  split_colon (a ++ String colon b) = a :: split_colon b.
Proof.
  induction a as [|c r IH]; cbn; intros H.
  - reflexivity.
  - apply andb_true_iff in H as [Hc Hr]. destruct (Ascii.eqb c colon); [discriminate|].
    rewrite IH by assumption. reflexivity.
Qed.

Lemma app_nonempty_l a b : a <> EmptyString -> (a ++ b)%string <> EmptyString.
Proof. destruct a; cbn; congruence. Qed.

(* ---------- the four printed forms parse back ---------- *)
Definition wf64 (s : seqid) : Prop := TriggeredBy s < two64 /\ LowSeq s < two64 /\ Seq s < two64.

Definition sep : string := String colon EmptyString.

Lemma parse_simple s : s < two64 -> parse (print_N s) = POk (mk 0 0 s).
Proof.
  intros H. unfold parse. destruct (print_N s) eqn:E; [exfalso; eapply print_N_nonempty; eauto|].
  rewrite <- E, split_nocolon by apply print_N_nocolon. rewrite parse_comp_print by assumption. reflexivity.
Qed.

Lemma parse_two t s : t < two64 -> s < two64 ->
  parse (print_N t ++ String colon (print_N s)) = POk (mk t 0 s).
Proof.
  intros Ht Hs. unfold parse.
  destruct (print_N t ++ String colon (print_N s))%string eqn:E;
    [exfalso; eapply (app_nonempty_l (print_N t)); [apply print_N_nonempty | eauto]|].
  rewrite <- E, split_app by apply print_N_nocolon.
  rewrite split_nocolon by apply print_N_nocolon.
  rewrite !parse_comp_print by assumption. reflexivity.
Qed.

Lemma parse_three l t s : l < two64 -> t < two64 -> s < two64 ->
  parse (print_N l ++ String colon (print_N t ++ String colon (print_N s))) = POk (mk t l s).
Proof.
  intros Hl Ht Hs. unfold parse.
  destruct (print_N l ++ String colon (print_N t ++ String colon (print_N s)))%string eqn:E;
    [exfalso; eapply (app_nonempty_l (print_N l)); [apply print_N_nonempty | eauto]|].
  rewrite <- E, split_app by apply print_N_nocolon.
  rewrite split_app by apply print_N_nocolon.
  rewrite split_nocolon by apply print_N_nocolon.
  rewrite !parse_comp_print by assumption. reflexivity.
Qed.

Lemma parse_low l s : l < two64 -> s < two64 ->
  parse (print_N l ++ String colon (String colon (print_N s))) = POk (mk 0 l s).
Proof.
  intros Hl Hs. unfold parse.
  destruct (print_N l ++ String colon (String colon (print_N s)))%string eqn:E;
    [exfalso; eapply (app_nonempty_l (print_N l)); [apply print_N_nonempty | eauto]|].
  rewrite <- E, split_app by apply print_N_nocolon.
  change (String colon (print_N s)) with (EmptyString ++ String colon (print_N s))%string.
  rewrite split_app by reflexivity.
  rewrite split_nocolon by apply print_N_nocolon.
  rewrite !parse_comp_print by assumption. reflexivity.
Qed.

(* what the printed token of [s] parses to: the canonical form of s *)
Definition canon (s : seqid) : seqid :=
  if backfill s then
    if ((0 <? LowSeq s) && (LowSeq s <? TriggeredBy s))%bool then s
    else mk (TriggeredBy s) 0 (Seq s)
  else if ((0 <? LowSeq s) && (LowSeq s <? Seq s))%bool then mk 0 (LowSeq s) (Seq s)
  else mk 0 0 (Seq s).

Lemma app_empty_r (s : string) : (s ++ "")%string = s.
Proof. induction s; cbn; congruence. Qed.

Lemma parse_print s : wf64 s -> parse (print_token s) = POk (canon s).
Proof.
  destruct s as [t l q]; intros (Ht & Hl & Hq); cbn [TriggeredBy LowSeq Seq] in *.
  unfold print_token, intSeqToString, canon, backfill; cbn [TriggeredBy LowSeq Seq].
  break_ifs; cbn [fst snd render Ascii.eqb Bool.eqb andb]; rewrite ?app_empty_r;
    first [ apply parse_three; assumption | apply parse_two; assumption
          | apply parse_low; assumption | apply parse_simple; assumption | exfalso; lia ].
Qed.

Lemma print_parse_resume s : wf64 s ->
  exists s', parse (print_token s) = POk s' /\
    SafeSequence s' = SafeSequence s /\ Seq s' = Seq s /\
    (backfill s = true -> TriggeredBy s' = TriggeredBy s) /\
    (backfill s = false -> TriggeredBy s' = 0) /\
    (emitted s = true -> TriggeredBy s' = TriggeredBy s).
Proof.
  intros H. exists (canon s). split; [apply parse_print, H|].
  destruct s as [t l q]. unfold canon, backfill, emitted, SafeSequence, mk; cbn [TriggeredBy LowSeq Seq].
  repeat split; break_ifs; cbn [TriggeredBy LowSeq Seq] in *; intros; lia.
Qed.

(* printing is canonical: the parsed token prints to the same text *)
Lemma canon_idem s : canon (canon s) = canon s.
Proof.
  destruct s as [t l q]. unfold canon, backfill, mk; cbn [TriggeredBy LowSeq Seq].
  break_ifs; cbn [TriggeredBy LowSeq Seq] in *; try reflexivity; try (exfalso; lia);
    f_equal; lia.
Qed.

Lemma print_canon s : print_token (canon s) = print_token s.
Proof.
  destruct s as [t l q]. unfold print_token, intSeqToString, canon, backfill, mk; cbn [TriggeredBy LowSeq Seq].
  break_ifs; cbn [TriggeredBy LowSeq Seq fst snd] in *; try reflexivity; exfalso; lia.
Qed.

(* ---------- the response order agrees with the order recomputed by clients ---------- *)
(* two rows built by channel feeds (LowSeq still 0, [emitted]) and ordered by the merge loop, both
   stamped with the same low sequence L, then printed and parsed by the client *)
Definition stamp (L : N) (e : seqid) : seqid := mk (TriggeredBy e) L (Seq e).

Lemma emit_order_preserved L e1 e2 :
  LowSeq e1 = 0 -> LowSeq e2 = 0 -> emitted e1 = true -> emitted e2 = true ->
  before e1 e2 = true -> before (canon (stamp L e1)) (canon (stamp L e2)) = true.
Proof.
  destruct e1 as [t1 l1 s1], e2 as [t2 l2 s2]; cbn [LowSeq]; intros -> -> H1 H2 Hb.
  unfold canon, stamp, backfill, emitted, mk in *; cbn [TriggeredBy LowSeq Seq] in *.
  open_before. break_ifs; open_before; break_ifs; lia.
Qed.
