(* C10, not property obligations: statements of the property text that the faithful model of the
   UNCHANGED code violates.  Witnesses by vm_compute; the same history run on the real
   HybridLogicalVector API gives the same vectors (harness corpus history 1, monitor signature
   "same-merge-accept-drops-local-version").

   History: replicas 1 and 2 create the document independently (1@s1, 1@s2); replica 3 copies 1@s1;
   replica 1 pulls from 2: conflict, merge -> cv 2@s1, mv {s1:1, s2:1}; replica 2 pulls the old 1@s1 from 3:
   conflict, merge -> cv 2@s2, mv {s1:1, s2:1}.  Replica 1 now pulls from replica 2: neither side has seen
   the other's current version, the merge versions are equal, IsInConflict answers "no conflict" and
   UpdateWithIncomingHLV replaces the local vector by cv 2@s2, mv {s1:1, s2:1}: replica 1's own version
   2@s1 is listed nowhere (UpdateHistory ignores the result of AddVersionToPV for the other side's cv
   when its source is in mv with an older value). *)
From SG Require Import Base.Prelude C10.AMap C10.HLV C10.HLVProofs C10.Replica C10.ReplicaProofs.
Open Scope N_scope.

Definition same_merge_history : list ev :=
  [EEdit 1 0; EEdit 2 0; EPull 3 1 0; EPull 1 2 0; EPull 2 3 0; EPull 1 2 0].

(* the last pull is accepted on the same-merge rule ... *)
Lemma same_merge_history_outcomes :
  outcomes_from init same_merge_history = [OEdited 1; OEdited 1; OCopied; OMerged 2; OMerged 2; OSameMerge].
Proof. vm_compute. reflexivity. Qed.

(* ... and afterwards replica 1 has seen its own version 2@1 but its vector does not record it
   ("nothing lost" fails), and the value recorded for source 1 went down from 2 to 1 ("no source's value
   lowered" fails) *)
Lemma nothing_lost_refuted :
  exists evs r p, In p (rseen (run evs r)) /\ dominates (rh (run evs r)) p = false.
Proof. exists same_merge_history, 1, (1, 2). vm_compute. split; [tauto | reflexivity]. Qed.

Definition actor_of (e : ev) : N := match e with EEdit r _ => r | EPull r _ _ => r | ERestart r => r end.

Lemma no_value_lowered_refuted :
  exists evs e s, value (rh (fst (step (run evs) e) (actor_of e))) s < value (rh (run evs (actor_of e))) s.
Proof.
  exists [EEdit 1 0; EEdit 2 0; EPull 3 1 0; EPull 1 2 0; EPull 2 3 0], (EPull 1 2 0), 1. vm_compute. reflexivity.
Qed.

(* hence the representation invariant is NOT preserved by every history: the statement of
   [history_repr] without the hypothesis [clean] is false *)
Definition history_repr_full_statement : Prop := forall evs, Inv (run evs).

Theorem history_repr_full_statement_refuted : ~ history_repr_full_statement.
Proof.
  intros H. specialize (H same_merge_history).
  assert (E : src (rh (run same_merge_history 1)) <> 0) by (vm_compute; discriminate).
  destruct (inv_repr _ H 1 E) as [_ [_ DO]].
  specialize (DO (1, 2)). assert (I : In (1, 2) (rseen (run same_merge_history 1))) by (vm_compute; tauto).
  specialize (DO I). vm_compute in DO. discriminate.
Qed.

(* a later consequence: replica 1 then reports its own earlier version 2@1 (held by replica 3 after a
   copy) as new ("no conflict") although it has seen it *)
Lemma known_iff_seen_refuted :
  exists evs r q, In (cv (rh (run evs q))) (rseen (run evs r)) /\
                  is_in_conflict (rh (run evs r)) (rh (run evs q)) = NoConflict.
Proof.
  exists [EEdit 1 0; EEdit 2 0; EPull 3 1 0; EPull 1 2 0; EPull 2 3 0; EPull 3 1 0; EPull 1 2 0], 1, 3.
  vm_compute. split; [tauto | reflexivity].
Qed.
