(* C10, not property obligations: statements of the property text that the faithful model of the
   UNCHANGED code violates.  Witnesses by vm_compute; the same history run on the real
   HybridLogicalVector API gives the same vectors (harness corpus history 1, monitor signature
   "same-merge-accept-drops-local-version").

   History: replicas 1 and 2 create the document independently (1@s1, 1@s2); replica 3 copies 1@s1;
   replica 1 pulls from 2: conflict, merge -> cv 2@s1, mv {s1:1, s2:1}; replica 2 pulls the old 1@s1 from 3:
   conflict, merge -> cv 2@s2, mv {s1:1, s2:1}.  Replica 1 now pulls from replica 2: neither side has seen
   the other's current version, the merge versions are equal, IsInConflict answers "no conflict" and
   UpdateWithIncomingHLV replaces the local vector by cv 2@s2, mv {s1:1, s2:1}: replica 1's own version
   2@s1 is listed nowhere (UpdateHistory ignores the result of AddVersionToPV for the other side's cv
   when its source is in mv with an older value). *)
From SG Require Import Base.Prelude C10.AMap C10.HLV C10.HLVProofs C10.HLVOps C10.Replica C10.ReplicaProofs
                       C10.HLVUpdate C10.HLVCompact C10.HLVCodec C10.HLVCodecProofs C10.HLVWire C10.HLVLegacy.
Open Scope N_scope.

Definition same_merge_history : list ev :=
  [EEdit 1 0; EEdit 2 0; EPull 3 1 0; EPull 1 2 0; EPull 2 3 0; EPull 1 2 0].

(* the last pull is accepted on the same-merge rule ... *)
Lemma same_merge_history_outcomes :
  outcomes_from init same_merge_history = [OEdited 1; OEdited 1; OCopied; OMerged 2; OMerged 2; OSameMerge].
Proof. vm_compute. reflexivity. Qed.

(* ... and afterwards replica 1 has seen its own version 2@1 but its vector does not record it
   ("nothing lost" fails), and the value recorded for source 1 went down from 2 to 1 ("no source's value
   lowered" fails) *)
Lemma nothing_lost_refuted :
  exists evs r p, In p (rseen (run evs r)) /\ dominates (rh (run evs r)) p = false.
Proof. exists same_merge_history, 1, (1, 2). vm_compute. split; [tauto | reflexivity]. Qed.

Definition actor_of (e : ev) : N := match e with EEdit r _ => r | EPull r _ _ => r | ERestart r => r end.

Lemma no_value_lowered_refuted :
  exists evs e s, value (rh (fst (step (run evs) e) (actor_of e))) s < value (rh (run evs (actor_of e))) s.
Proof.
  exists [EEdit 1 0; EEdit 2 0; EPull 3 1 0; EPull 1 2 0; EPull 2 3 0], (EPull 1 2 0), 1. vm_compute. reflexivity.
Qed.

(* hence the representation invariant is NOT preserved by every history: the statement of
   [history_repr] without the hypothesis [clean] is false *)
Definition history_repr_full_statement : Prop := forall evs, Inv (run evs).

Theorem history_repr_full_statement_refuted : ~ history_repr_full_statement.
Proof.
  intros H. specialize (H same_merge_history).
  assert (E : src (rh (run same_merge_history 1)) <> 0) by (vm_compute; discriminate).
  destruct (inv_repr _ H 1 E) as [_ [_ DO]].
  specialize (DO (1, 2)). assert (I : In (1, 2) (rseen (run same_merge_history 1))) by (vm_compute; tauto).
  specialize (DO I).
  assert (X : dominates (rh (run same_merge_history 1)) (1, 2) = false) by (vm_compute; reflexivity).
  rewrite X in DO. discriminate DO.
Qed.

(* a later consequence: replica 1 then reports its own earlier version 2@1 (held by replica 3 after a
   copy) as new ("no conflict") although it has seen it *)
Lemma known_iff_seen_refuted :
  exists evs r q, In (cv (rh (run evs q))) (rseen (run evs r)) /\
                  is_in_conflict (rh (run evs r)) (rh (run evs q)) = NoConflict.
Proof.
  exists [EEdit 1 0; EEdit 2 0; EPull 3 1 0; EPull 1 2 0; EPull 2 3 0; EPull 3 1 0; EPull 1 2 0], 1, 3.
  vm_compute. split; [tauto | reflexivity].
Qed.


(* ==================================================================================================
   Deepening round.
   ================================================================================================== *)

(* A further consequence of the same defect, with an adversarial clock: after the same-merge acceptance
   replica 1's vector has forgotten its own version 2@1; its clock is restarted and reads an early time; the
   next local edit computes the floor from the vector (1) and generates 2@1 AGAIN -- a second, different
   revision under an existing version.  So "versions generated locally strictly increase per source" fails
   for unrestricted histories (it holds for clean ones: C10_local_versions_increase, and against the
   recorded versions for all: C10_local_versions_increase_all).  Replayed on the real API by the harness
   (corpus history of verif_c10_deep_test.go: the correspondence confirms the generated value). *)
Lemma local_versions_increase_full_refuted :
  exists evs e r v q x, generated e (snd (step (run evs) e)) = Some (r, v) /\
                        In (r, x) (rseen (run evs q)) /\ v <= x.
Proof.
  exists (same_merge_history ++ [ERestart 1]), (EEdit 1 0), 1, 2, 1, 2.
  vm_compute. split; [reflexivity|]. split; [tauto|]. discriminate.
Qed.

(* Model level only (the sets below are not causally closed, no history reaches them): that the incoming
   vector dominates the local current version -- the test on which IsInConflict accepts a pull other than by
   the same-merge rule -- does not by itself imply that UpdateWithIncomingHLV loses nothing; the extra
   hypothesis of C10_update_repr_noconflict (or [incl Sl Si], or reachability in a clean history) is needed. *)
Lemma update_repr_dominating_only_refuted :
  exists hl hi Sl Si, good Sl /\ good Si /\ repr hl Sl /\ repr hi Si /\
    is_in_conflict hl hi = NoConflict /\ dominates hi (cv hl) = true /\
    ~ repr (update_with_incoming hl hi) (Sl ++ Si).
Proof.
  set (hl := mkH 1 5 [] [(2, 9)]). set (hi := mkH 2 3 [] [(1, 5)]).
  set (Sl := [(1, 5); (2, 9)]). set (Si := [(2, 3); (1, 5)]).
  assert (Gl : good Sl) by (intros s v [E|[E|[]]]; inv E; lia).
  assert (Gi : good Si) by (intros s v [E|[E|[]]]; inv E; lia).
  assert (Rl : repr hl Sl).
  { split; [|split].
    - constructor; cbn; try lia; try constructor; try tauto; try constructor.
    - intros p [E|[[]|[E|[]]]]; subst; cbn; auto.
    - intros p [E|[E|[]]]; subst; vm_compute; reflexivity. }
  assert (Ri : repr hi Si).
  { split; [|split].
    - constructor; cbn; try lia; try constructor; try tauto; try constructor.
    - intros p [E|[[]|[E|[]]]]; subst; cbn; auto.
    - intros p [E|[E|[]]]; subst; vm_compute; reflexivity. }
  exists hl, hi, Sl, Si.
  split; [exact Gl|]. split; [exact Gi|]. split; [exact Rl|]. split; [exact Ri|].
  split; [vm_compute; reflexivity|]. split; [vm_compute; reflexivity|].
  intros R. pose proof (proj1 (update_nothing_lost_iff hl hi Sl Si Gl Gi Rl Ri) R) as K.
  specialize (K (2, 9) (or_intror (or_introl eq_refl))). vm_compute in K. discriminate.
Qed.

(* GENUINE DEFECT (wire form, legacy peer), REPAIRED in /repo by commit 136d16a -- the witness below is about the
   sender BEFORE that commit ([history_legacy_old] = history_legacy_gen false; the correspondence and
   C10_wire_legacy_roundtrip use the repaired sender, switch [legacy_sender_repaired] in HLVLegacy.v).
   A vector with merge versions and no previous versions, sent to a peer that holds a legacy revision
   (history = hlvHistory , revID , revTreeHistory...): toHistoryForHLV gives "mv1,mv2;" , the old sender appended
   ",3-abc" , the receiver glues  cv,mv1,mv2;,3-abc  and extractHLVFromBlipString fails on the empty entry in
   front of the legacy id ("Malformed version string , delimiter not found") -- the revision was refused with
   422.  Monitor signature wire-legacy-mv-only-history-rejected (harness stream wire-legacy, real
   buildRevHistory / blipRevMessageProperties / GetHLVFromRevMessage); it fires again on a tree with 136d16a
   reverted.  With the repaired sender the same input round-trips (wire_legacy_mv_only_repaired). *)
Definition wl_vec : svec := mkS 0 [97] 5 [([98], 3)] [].      (* cv 5@a, mv {b:3}, no pv *)
Definition wl_legacy : list bytes := [[51; 45; 97; 98; 99]].   (* "3-abc" *)

Lemma wire_legacy_mv_only_refuted :
  sendable wl_vec /\ wl_legacy <> [] /\ (forall x, In x wl_legacy -> legacy_ok x) /\
  history_legacy_old wl_vec wl_legacy = [51; 64; 98; 59; 44; 51; 45; 97; 98; 99] /\     (* "3@b;,3-abc" *)
  extract_hlv (wire_join (cv_string wl_vec) (history_legacy_old wl_vec wl_legacy)) = None.
Proof.
  split; [|split; [discriminate|split; [|split; vm_compute; reflexivity]]].
  - unfold sendable, wl_vec. cbn [s_src s_ver s_mv s_pv map fst].
    assert (GE : forall k x, In k [[97]; [98]] -> x < two64 -> good_entry (k, x)).
    { intros k x [E|[E|[]]] L; subst;
        (split; [split; [discriminate | repeat constructor; unfold COMMA, SEMI; lia] | exact L]). }
    split; [apply GE; [cbn; auto | unfold two64; lia]|].
    split; [intros e [E|[]]; subst; apply GE; [cbn; auto | unfold two64; lia]|].
    split; [intros e []|].
    split; [repeat constructor; tauto|]. split; [constructor|]. split; [intros k []|].
    intros [E|[]]. discriminate.
  - intros x [E|[]]. subst. unfold legacy_ok. split; [discriminate|]. split; [reflexivity|].
    split; [vm_compute; reflexivity|]. split; [vm_compute; reflexivity|].
    repeat constructor; unfold COMMA, SEMI; lia.
Qed.

(* the full round trip is false for the OLD sender ... *)
Theorem wire_legacy_full_statement_refuted :
  ~ (forall v lg, sendable v -> lg <> [] -> (forall x, In x lg -> legacy_ok x) ->
     exists v', extract_hlv (wire_join (cv_string v) (history_legacy_old v lg)) = Some (v', lg) /\ svec_equiv v' (wire_view v)).
Proof.
  intros H. destruct wire_legacy_mv_only_refuted as [A [B [C [_ D]]]].
  destruct (H wl_vec wl_legacy A B C) as [v' [E _]]. rewrite D in E. discriminate.
Qed.

(* ... and the repaired sender writes "3@b;3-abc" for the same input, which parses back *)
Lemma wire_legacy_mv_only_repaired :
  history_legacy wl_vec wl_legacy = [51; 64; 98; 59; 51; 45; 97; 98; 99] /\
  exists v', extract_hlv (wire_join (cv_string wl_vec) (history_legacy wl_vec wl_legacy)) = Some (v', wl_legacy).
Proof. split; [vm_compute; reflexivity|]. eexists. vm_compute. reflexivity. Qed.

(* ---------- BY DESIGN, not defects: compaction is sound (C10_compact_sound) but not complete ---------- *)
(* local compaction: the incoming revision was already known, afterwards it is reported as a conflict *)
Lemma compact_known_becomes_conflict :
  exists hl hi c hl', compact_okb hl c hl' = true /\
    is_in_conflict hl hi = AlreadyPresent /\ is_in_conflict hl' hi = Conflict.
Proof.
  exists (mkH 1 9 [] [(2, 1); (3, 2); (4, 3); (5, 4); (6, 5)]), (mkH 2 1 [] []), 3,
         (mkH 1 9 [] [(4, 3); (5, 4); (6, 5)]).
  vm_compute. repeat split.
Qed.

(* compaction on the incoming side: a fast-forward becomes a conflict *)
Lemma compact_fast_forward_becomes_conflict :
  exists hl hi c hi', compact_okb hi c hi' = true /\
    is_in_conflict hl hi = NoConflict /\ is_in_conflict hl hi' = Conflict.
Proof.
  exists (mkH 2 1 [] []), (mkH 1 9 [] [(2, 1); (3, 2); (4, 3); (5, 4); (6, 5)]), 3,
         (mkH 1 9 [] [(4, 3); (5, 4); (6, 5)]).
  vm_compute. repeat split.
Qed.

(* together with the same-merge rule: a revision that was already known (and is OLDER than the local one) is
   accepted again after local compaction, and UpdateWithIncomingHLV then goes back to it *)
Lemma compact_known_accepted_by_same_merge :
  exists hl hi c hl', compact_okb hl c hl' = true /\
    is_in_conflict hl hi = AlreadyPresent /\ is_in_conflict hl' hi = NoConflict /\
    cv (update_with_incoming hl' hi) = cv hi.
Proof.
  exists (mkH 1 9 [(7, 1); (8, 1)] [(2, 1); (3, 2); (4, 3); (5, 4); (6, 5)]), (mkH 2 1 [(7, 1); (8, 1)] []), 3,
         (mkH 1 9 [(7, 1); (8, 1)] [(4, 3); (5, 4); (6, 5)]).
  vm_compute. repeat split.
Qed.
