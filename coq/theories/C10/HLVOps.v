(* C10 proofs, part 2: AddVersion, UpdateWithIncomingHLV and MergeWithIncomingHLV preserve the
   representation invariant (nothing lost, nothing invented, no source twice, no value lowered). *)
From SG Require Import Base.Prelude C10.AMap C10.HLV C10.HLVProofs.
Open Scope N_scope.
#[local] Arguments N.max : simpl never.
#[local] Arguments N.eqb : simpl never.
#[local] Arguments N.leb : simpl never.
#[local] Arguments N.ltb : simpl never.
#[local] Arguments N.add : simpl never.

Ltac eqb_simpl :=
  repeat match goal with
  | H : ?a <> ?b |- context[?a =? ?b] => rewrite (proj2 (N.eqb_neq a b) H)
  | H : ?b <> ?a |- context[?a =? ?b] => rewrite (proj2 (N.eqb_neq a b) (not_eq_sym H))
  | |- context[?a =? ?a] => rewrite N.eqb_refl
  end.

(* ---------- InvalidateMV ---------- *)
Definition inv_step (c : N) (p : amap) (e : N * N) : amap :=
  if fst e =? c then p else set p (fst e) (snd e).

Lemma invalidate_pv : forall h, pv (invalidate_mv h) = fold_left (inv_step (src h)) (mv h) (pv h).
Proof. reflexivity. Qed.

Lemma fold_inv_lookup : forall l c p x, NoDup (keys l) ->
  lookup (fold_left (inv_step c) l p) x =
  match lookup l x with
  | Some m => if x =? c then lookup p x else Some m
  | None => lookup p x
  end.
Proof.
  induction l as [|[k m] r IH]; intros c p x ND; [reflexivity|].
  cbn [fold_left]. cbn in ND. inv ND. rewrite IH by assumption. unfold inv_step. cbn [fst snd lookup].
  destruct (N.eqb_spec k c).
  - subst. destruct (N.eqb_spec c x).
    + subst. rewrite N.eqb_refl.
      assert (E : lookup r x = None) by now apply lookup_None_keys. now rewrite E.
    + reflexivity.
  - destruct (N.eqb_spec k x).
    + subst. assert (E : lookup r x = None) by now apply lookup_None_keys. rewrite E.
      rewrite lookup_set, N.eqb_refl. destruct (N.eqb_spec x c); [congruence|reflexivity].
    + rewrite lookup_set. destruct (N.eqb_spec x k); [congruence|]. reflexivity.
Qed.

Lemma fold_inv_nodup : forall l c p, NoDup (keys p) -> NoDup (keys (fold_left (inv_step c) l p)).
Proof.
  induction l as [|[k m] r IH]; intros c p ND; [assumption|].
  cbn [fold_left]. apply IH. unfold inv_step. cbn [fst snd].
  destruct (k =? c); [assumption|]. now apply NoDup_keys_set.
Qed.

(* ---------- maxValueForSource bounds GetValue ---------- *)
Lemma mvfs_ge_value : forall h s, wf h -> value h s <= max_value_for_source h s.
Proof.
  intros h s W. unfold value, get_value, max_value_for_source, lookup0.
  destruct (N.eqb_spec s 0); [lia|].
  destruct (N.eqb_spec s (src h)); [lia|].
  destruct (lookup (mv h) s) eqn:E.
  - destruct (lookup (pv h) s) eqn:F; [|lia].
    exfalso. apply lookup_In_keys in E, F. now apply (wf_disj _ W s).
  - destruct (lookup (pv h) s); lia.
Qed.

(* ---------- AddVersion ---------- *)
Lemma add_version_empty : forall r v, r <> 0 -> v <> 0 ->
  add_version empty_hlv (r, v) = Some (mkH r v [] []) /\ repr (mkH r v [] []) [(r, v)].
Proof.
  intros r v Hr Hv. split; [reflexivity|]. split; [|split].
  - constructor; cbn; auto; constructor.
  - intros p [L|[L|L]]; cbn in *; [left; auto | tauto | tauto].
  - intros p [L|[]]. subst. unfold dominates, get_value. cbn.
    destruct (N.eqb_spec r 0); [tauto|]. rewrite N.eqb_refl. lia.
Qed.

Lemma add_version_repr : forall h S r v, good S -> repr h S -> r <> 0 -> max_value_for_source h r < v ->
  exists h', add_version h (r, v) = Some h' /\ repr h' ((r, v) :: S) /\
             src h' = r /\ ver h' = v /\ mv h' = [] /\
             (forall s e, get_value h s = Some e -> exists e', get_value h' s = Some e' /\ e <= e').
Proof.
  intros h S r v G [W [LI DO]] Hr Hv.
  pose proof (mvfs_ge_value h r W) as Hfloor.
  pose proof (wf_src _ W) as Hsrc.
  set (P := fold_left (inv_step (src h)) (mv h) (pv h)).
  assert (PL : forall x, lookup P x = match lookup (mv h) x with
                                      | Some m => if x =? src h then lookup (pv h) x else Some m
                                      | None => lookup (pv h) x end)
    by (intros x; unfold P; apply fold_inv_lookup; apply W).
  assert (PN : NoDup (keys P)) by (unfold P; apply fold_inv_nodup; apply W).
  assert (Psrc : lookup P (src h) = None).
  { rewrite PL. rewrite N.eqb_refl.
    assert (E : lookup (pv h) (src h) = None) by (apply lookup_None_keys; apply W).
    rewrite E. now destruct (lookup (mv h) (src h)). }
  assert (Pprov : forall x e, lookup P x = Some e -> In (x, e) S).
  { intros x e. rewrite PL. destruct (lookup (mv h) x) eqn:E.
    - destruct (x =? src h).
      + intros F. apply LI. right; right. now apply lookup_In.
      + intros F. inv F. apply LI. right; left. now apply lookup_In.
    - intros F. apply LI. right; right. now apply lookup_In. }
  assert (NoErr : (match get_value h r with Some e => v <? e | None => false end) = false).
  { unfold value in Hfloor. destruct (get_value h r); auto. apply N.ltb_ge. lia. }
  unfold add_version. destruct (N.eqb_spec (src h) 0); [tauto|]. rewrite NoErr.
  rewrite invalidate_pv. fold P. cbn [mv pv invalidate_mv].
  destruct (N.eqb_spec r (src h)) as [Er|Er].
  - (* same source as cv *)
    subst r. eexists. split; [reflexivity|]. split; [|cbn; repeat split; auto].
    + split; [|split].
      * constructor; cbn; auto; try constructor. now apply lookup_None_keys.
      * intros p [L|[L|L]]; cbn in L; [left; auto | tauto |].
        destruct p as [x e]. right. apply Pprov. now apply In_lookup.
      * intros [s x0] [L|L]; [inv L; unfold dominates, get_value; cbn; destruct (N.eqb_spec (src h) 0); [tauto|]; rewrite N.eqb_refl; lia|].
        pose proof (DO _ L) as D. apply dominates_spec in D. destruct D as [e [E Le]].
        apply dominates_spec. unfold get_value in *. cbn.
        destruct (N.eqb_spec s 0); [discriminate|].
        destruct (N.eqb_spec s (src h)).
        -- subst. inv E. exists v. split; auto. unfold value, get_value in Hfloor.
           destruct (N.eqb_spec (src h) 0); [tauto|]. rewrite N.eqb_refl in Hfloor. lia.
        -- rewrite PL. eqb_simpl. destruct (lookup (mv h) s); [inv E; eauto | eauto].
    + intros s e E. unfold get_value in *. cbn.
      destruct (N.eqb_spec s 0); [discriminate|].
      destruct (N.eqb_spec s (src h)).
      * subst. inv E. exists v. split; auto. unfold value, get_value in Hfloor.
        destruct (N.eqb_spec (src h) 0); [tauto|]. rewrite N.eqb_refl in Hfloor. lia.
      * rewrite PL. eqb_simpl. destruct (lookup (mv h) s); [inv E; exists e; split; auto; lia | exists e; split; auto; lia].
  - (* new source *)
    set (P' := remove (set P (src h) (ver h)) r).
    assert (PL' : forall x, lookup P' x = if x =? r then None else if x =? src h then Some (ver h) else lookup P x)
      by (intros x; unfold P'; now rewrite lookup_remove, lookup_set).
    assert (PN' : NoDup (keys P')) by (unfold P'; apply NoDup_keys_remove, NoDup_keys_set, PN).
    assert (Mono : forall s e, get_value h s = Some e ->
                     exists e', get_value (mkH r v [] P') s = Some e' /\ e <= e').
    { intros s e E. unfold get_value in *. cbn.
      destruct (N.eqb_spec s 0); [discriminate|].
      destruct (N.eqb_spec s r).
      - subst. exists v. split; auto. unfold value, get_value in Hfloor.
        destruct (N.eqb_spec r 0); [tauto|]. rewrite E in Hfloor. lia.
      - rewrite PL'. destruct (N.eqb_spec s r); [tauto|].
        destruct (N.eqb_spec s (src h)).
        + inv E. exists (ver h). split; auto. lia.
        + rewrite PL. eqb_simpl. destruct (lookup (mv h) s); [inv E; exists e; split; auto; lia | exists e; split; auto; lia]. }
    eexists. split; [reflexivity|]. fold P'. split; [|cbn; repeat split; auto].
    split; [|split].
    + constructor; cbn; auto; try constructor.
      apply lookup_None_keys. rewrite PL'. now rewrite N.eqb_refl.
    + intros p [L|[L|L]]; cbn in L; [left; auto | tauto |].
      destruct p as [x e]. right. apply In_lookup in L; auto. rewrite PL' in L.
      destruct (x =? r); [discriminate|]. destruct (N.eqb_spec x (src h)).
      * inv L. apply LI. left. reflexivity.
      * now apply Pprov.
    + intros [s x0] [L|L].
      * injection L as <- <-. unfold dominates, get_value. cbn. destruct (N.eqb_spec r 0); [tauto|]. rewrite N.eqb_refl. lia.
      * pose proof (DO _ L) as D. apply dominates_spec in D. destruct D as [e [E Le]].
        apply dominates_spec. destruct (Mono _ _ E) as [e' [E' Le']]. exists e'. split; auto. lia.
Qed.

(* ---------- AddVersionToPV and the loops of UpdateHistory ---------- *)
Definition guard (h : hlv) (s : N) : bool := negb (src h =? s) && negb (mem (mv h) s).

Definition pv_put (p : amap) (s v : N) : amap :=
  match lookup p s with
  | Some o => if o <? v then set p s v else p
  | None => set p s v
  end.

Lemma atp_fst : forall h s v,
  fst (add_version_to_pv h s v) = if guard h s then mkH (src h) (ver h) (mv h) (pv_put (pv h) s v) else h.
Proof.
  intros [c cvv m p] s v. unfold add_version_to_pv, guard, mem, pv_put. cbn [src ver mv pv].
  destruct (c =? s); cbn; [reflexivity|].
  destruct (lookup m s); cbn; [now destruct (v <=? n)|].
  destruct (lookup p s); [destruct (n <? v)|]; reflexivity.
Qed.

Lemma atp_not_older : forall h s v, (forall m, lookup (mv h) s = Some m -> v <= m) ->
  snd (add_version_to_pv h s v) <> InMVOlder.
Proof.
  intros h s v H. unfold add_version_to_pv.
  destruct (src h =? s); cbn; [discriminate|].
  destruct (lookup (mv h) s) eqn:E.
  - specialize (H _ eq_refl). destruct (N.leb_spec v n); cbn; [discriminate|lia].
  - destruct (lookup (pv h) s); [destruct (n <? v)|]; cbn; discriminate.
Qed.

Lemma atp_keeps : forall h s v, let h' := fst (add_version_to_pv h s v) in
  src h' = src h /\ ver h' = ver h /\ mv h' = mv h.
Proof. intros h s v. cbn zeta. rewrite atp_fst. destruct (guard h s); cbn; auto. Qed.

Definition putG (G : N -> bool) (p : amap) (e : N * N) : amap :=
  if G (fst e) then pv_put p (fst e) (snd e) else p.

Lemma add_all_spec : forall l h,
  add_all_to_pv h l = mkH (src h) (ver h) (mv h) (fold_left (putG (guard h)) l (pv h)).
Proof.
  unfold add_all_to_pv. induction l as [|[s v] r IH]; intros h.
  - destruct h; reflexivity.
  - cbn [fold_left fst snd]. rewrite IH.
    destruct (atp_keeps h s v) as [A [B C]]. rewrite A, B, C.
    assert (GE : guard (fst (add_version_to_pv h s v)) = guard h).
    { unfold guard. rewrite A, C. reflexivity. }
    rewrite GE. f_equal. f_equal. rewrite atp_fst. unfold putG. cbn [fst snd].
    destruct (guard h s); reflexivity.
Qed.

Lemma amuo_no_older : forall l h,
  (forall s v m, In (s, v) l -> lookup (mv h) s = Some m -> v <= m) ->
  add_mv_until_older h l = (add_all_to_pv h l, false).
Proof.
  induction l as [|[s v] r IH]; intros h H; [reflexivity|].
  cbn [add_mv_until_older]. unfold add_all_to_pv. cbn [fold_left fst snd]. fold (add_all_to_pv (fst (add_version_to_pv h s v)) r).
  pose proof (atp_not_older h s v (fun m E => H s v m (or_introl eq_refl) E)) as NO.
  destruct (atp_keeps h s v) as [_ [_ C]].
  destruct (add_version_to_pv h s v) as [h' res] eqn:E. cbn [fst snd] in *.
  assert (R : add_mv_until_older h' r = (add_all_to_pv h' r, false)).
  { apply IH. intros s0 v0 m I L. rewrite C in L. eapply H; eauto. right. exact I. }
  destruct res; try exact R. congruence.
Qed.

Lemma lookup_pv_put : forall p s v x,
  lookup (pv_put p s v) x =
  if x =? s then Some (match lookup p s with Some o => N.max o v | None => v end) else lookup p x.
Proof.
  intros p s v x. unfold pv_put. destruct (lookup p s) as [o|] eqn:E.
  - destruct (N.ltb_spec o v).
    + rewrite lookup_set. destruct (N.eqb_spec x s); auto. f_equal. lia.
    + destruct (N.eqb_spec x s); auto. subst. rewrite E. f_equal. lia.
  - now rewrite lookup_set.
Qed.

Lemma nodup_pv_put : forall p s v, NoDup (keys p) -> NoDup (keys (pv_put p s v)).
Proof.
  intros p s v ND. unfold pv_put. destruct (lookup p s); [destruct (n <? v)|]; auto using NoDup_keys_set.
Qed.

Section FoldPut.
  Variable G : N -> bool.

  Lemma foldput_nodup : forall l p, NoDup (keys p) -> NoDup (keys (fold_left (putG G) l p)).
  Proof.
    induction l as [|e r IH]; intros p ND; [assumption|]. cbn [fold_left]. apply IH.
    unfold putG. destruct (G (fst e)); auto using nodup_pv_put.
  Qed.

  Lemma foldput_mono : forall l p x o, lookup p x = Some o ->
    exists o', lookup (fold_left (putG G) l p) x = Some o' /\ o <= o'.
  Proof.
    induction l as [|e r IH]; intros p x o H; [exists o; split; auto; lia|].
    cbn [fold_left].
    assert (S1 : exists o1, lookup (putG G p e) x = Some o1 /\ o <= o1).
    { unfold putG. destruct (G (fst e)); [|exists o; split; auto; lia].
      rewrite lookup_pv_put. destruct (N.eqb_spec x (fst e)).
      - subst. rewrite H. eexists. split; [reflexivity|lia].
      - exists o. split; auto. lia. }
    destruct S1 as [o1 [E1 L1]]. destruct (IH _ _ _ E1) as [o' [E' L']]. exists o'. split; auto. lia.
  Qed.

  Lemma foldput_in : forall l p s v, In (s, v) l -> G s = true ->
    exists o', lookup (fold_left (putG G) l p) s = Some o' /\ v <= o'.
  Proof.
    induction l as [|e r IH]; intros p s v I Gs; [destruct I|].
    cbn [fold_left]. destruct I as [I|I].
    - subst e. assert (S1 : exists o1, lookup (putG G p (s, v)) s = Some o1 /\ v <= o1).
      { unfold putG. cbn [fst snd]. rewrite Gs, lookup_pv_put, N.eqb_refl.
        eexists. split; [reflexivity|]. destruct (lookup p s); lia. }
      destruct S1 as [o1 [E1 L1]]. destruct (foldput_mono r _ _ _ E1) as [o' [E' L']].
      exists o'. split; auto. lia.
    - eauto.
  Qed.

  Lemma foldput_prov : forall l p x o, lookup (fold_left (putG G) l p) x = Some o ->
    lookup p x = Some o \/ (In (x, o) l /\ G x = true).
  Proof.
    induction l as [|[s v] r IH]; intros p x o H; [left; exact H|].
    cbn [fold_left] in H. apply IH in H. destruct H as [H|[H1 H2]]; [|right; split; auto; right; auto].
    unfold putG in H. cbn [fst snd] in H. destruct (G s) eqn:Gs; [|left; exact H].
    rewrite lookup_pv_put in H. destruct (N.eqb_spec x s); [|left; exact H].
    subst x. destruct (lookup p s) as [o0|] eqn:E.
    - inv H. destruct (N.max_spec o0 v) as [[A B]|[A B]]; rewrite B.
      + right. split; auto. left. reflexivity.
      + left. reflexivity.
    - inv H. right. split; auto. left. reflexivity.
  Qed.
End FoldPut.

(* ---------- UpdateWithIncomingHLV when the incoming vector has seen everything we list ---------- *)
Lemma atp_dominated : forall h s v, wf h -> s <> 0 -> dominates h (s, v) = true ->
  add_version_to_pv h s v = (h, snd (add_version_to_pv h s v)) /\ snd (add_version_to_pv h s v) <> InMVOlder.
Proof.
  intros h s v W Hs D. apply dominates_spec in D. destruct D as [e [E L]].
  unfold get_value in E. destruct (N.eqb_spec s 0); [tauto|].
  unfold add_version_to_pv.
  destruct (N.eqb_spec s (src h)).
  - subst. rewrite N.eqb_refl. cbn. split; [reflexivity|discriminate].
  - destruct (N.eqb_spec (src h) s); [congruence|].
    destruct (lookup (mv h) s) eqn:M.
    + inv E. destruct (N.leb_spec v e); [|lia]. cbn. split; [reflexivity|discriminate].
    + rewrite E. destruct (N.ltb_spec e v); [lia|]. cbn. split; [reflexivity|discriminate].
Qed.

Lemma add_all_dominated : forall l h, wf h ->
  (forall s v, In (s, v) l -> s <> 0 /\ dominates h (s, v) = true) -> add_all_to_pv h l = h.
Proof.
  unfold add_all_to_pv. induction l as [|[s v] r IH]; intros h W H; [reflexivity|].
  cbn [fold_left fst snd]. destruct (H s v (or_introl eq_refl)) as [Hs D].
  destruct (atp_dominated h s v W Hs D) as [E _]. rewrite E. cbn [fst].
  apply IH; auto. intros s0 v0 I. apply H. right. exact I.
Qed.

Lemma amuo_dominated : forall l h, wf h ->
  (forall s v, In (s, v) l -> s <> 0 /\ dominates h (s, v) = true) -> add_mv_until_older h l = (h, false).
Proof.
  induction l as [|[s v] r IH]; intros h W H; [reflexivity|].
  cbn [add_mv_until_older]. destruct (H s v (or_introl eq_refl)) as [Hs D].
  destruct (atp_dominated h s v W Hs D) as [E NO]. rewrite E.
  assert (R : add_mv_until_older h r = (h, false)) by (apply IH; auto; intros s0 v0 I; apply H; right; exact I).
  destruct (snd (add_version_to_pv h s v)); try exact R. congruence.
Qed.

Lemma update_history_absorbed : forall h inc, wf h ->
  (forall p, listed inc p -> fst p <> 0 /\ dominates h p = true) -> update_history h inc = h.
Proof.
  intros h inc W H. unfold update_history.
  assert (H1 : (if src inc =? 0 then h else fst (add_version_to_pv h (src inc) (ver inc))) = h).
  { destruct (N.eqb_spec (src inc) 0); auto.
    destruct (H (cv inc) (or_introl eq_refl)) as [Hs D]. cbn in Hs.
    destruct (atp_dominated h (src inc) (ver inc) W Hs D) as [E _]. now rewrite E. }
  rewrite H1. rewrite amuo_dominated; auto.
  - apply add_all_dominated; auto. intros s v I. apply (H (s, v)). right; right. exact I.
  - intros s v I. apply (H (s, v)). right; left. exact I.
Qed.

Lemma update_empty : forall hi, update_with_incoming empty_hlv hi = hi.
Proof. intros hi. unfold update_with_incoming, update_history. cbn. reflexivity. Qed.

Lemma value_zero : forall h, value h 0 = 0.
Proof. intros h. unfold value, get_value. now rewrite N.eqb_refl. Qed.

Lemma repr_incl : forall h S S', repr h S -> incl S' S -> incl S S' -> repr h S'.
Proof.
  intros h S S' [W [LI DO]] A B. split; [exact W|]. split.
  - intros p L. apply B. now apply LI.
  - intros p I. apply DO. now apply A.
Qed.

(* accepted pull (fast-forward): the incoming replica has seen everything the local one has *)
Theorem update_repr : forall hl hi Sl Si, good Sl -> good Si -> repr hl Sl -> repr hi Si -> incl Sl Si ->
  update_with_incoming hl hi = hi /\
  repr (update_with_incoming hl hi) (Sl ++ Si) /\
  (forall s, value hl s <= value (update_with_incoming hl hi) s).
Proof.
  intros hl hi Sl Si Gl Gi Rl Ri Inc.
  assert (E : update_with_incoming hl hi = hi).
  { unfold update_with_incoming. apply update_history_absorbed; [apply Ri|].
    intros [s v] L. destruct Rl as [_ [LI _]]. apply LI in L. split.
    - cbn. apply (Gl s v L).
    - destruct Ri as [_ [_ DO]]. apply DO. now apply Inc. }
  rewrite E. split; [reflexivity|]. split.
  - eapply repr_incl; [exact Ri| |].
    + intros p I. apply in_app_or in I. destruct I; auto.
    + intros p I. apply in_or_app. auto.
  - intros s. destruct (N.eq_dec s 0) as [->|Hs]; [rewrite !value_zero; lia|].
    rewrite (repr_value hl Sl Gl Rl s Hs), (repr_value hi Si Gi Ri s Hs).
    destruct (N.eq_dec (max_ver Sl s) 0) as [Z|Z]; [lia|].
    apply max_ver_ge. apply Inc. now apply max_ver_attained.
Qed.

(* ---------- MergeWithIncomingHLV on two concurrent vectors ---------- *)
Lemma good_cons : forall S r v, good S -> r <> 0 -> v <> 0 -> good ((r, v) :: S).
Proof. intros S r v G Hr Hv s x [I|I]; [inv I; auto | eauto]. Qed.

Lemma good_app : forall A B, good A -> good B -> good (A ++ B).
Proof. intros A B GA GB s v I. apply in_app_or in I. destruct I; eauto. Qed.

Theorem merge_repr : forall hl hi Sl Si r v, good Sl -> good Si -> repr hl Sl -> repr hi Si ->
  dominates hi (cv hl) = false -> dominates hl (cv hi) = false ->
  r <> 0 -> max_value_for_source hl r < v -> max_value_for_source hi r < v ->
  exists h', merge_with_incoming hl (r, v) hi = Some h' /\
             repr h' ((r, v) :: Sl ++ Si) /\ cv h' = (r, v) /\
             (forall s, value hl s <= value h' s) /\ (forall s, value hi s <= value h' s).
Proof.
  intros hl hi Sl Si r v Gl Gi Rl Ri NDi NDl Hr Fl Fi.
  assert (Hv : v <> 0) by lia.
  destruct (cv_good_l hl Sl Gl Rl) as [Hsl Hvl]. destruct (cv_good_i hi Si Gi Ri) as [Hsi Hvi].
  destruct (add_version_repr hl Sl r v Gl Rl Hr Fl) as [h1 [A1 [R1 [S1 [V1 [M1 Mono1]]]]]].
  pose proof Rl as [Wl [LIl DOl]]. pose proof Ri as [Wi [LIi DOi]]. pose proof R1 as [W1 [LI1 DO1]].
  (* facts from concurrency *)
  assert (Vil : value hi (src hl) < ver hl).
  { destruct (N.lt_ge_cases (value hi (src hl)) (ver hl)); auto.
    assert (D : dominates hi (cv hl) = true) by (apply dominates_value; auto). congruence. }
  assert (Vli : value hl (src hi) < ver hi).
  { destruct (N.lt_ge_cases (value hl (src hi)) (ver hi)); auto.
    assert (D : dominates hl (cv hi) = true) by (apply dominates_value; auto). congruence. }
  assert (Vll : value hl (src hl) = ver hl).
  { unfold value, get_value. destruct (N.eqb_spec (src hl) 0); [tauto|]. now rewrite N.eqb_refl. }
  assert (Vii : value hi (src hi) = ver hi).
  { unfold value, get_value. destruct (N.eqb_spec (src hi) 0); [tauto|]. now rewrite N.eqb_refl. }
  assert (Nsrc : src hl <> src hi) by (intros E; rewrite E in *; lia).
  unfold merge_with_incoming. rewrite A1.
  set (M3 := set (set (mv h1) (src hi) (ver hi)) (src hl) (ver hl)).
  set (P3 := remove (remove (pv h1) (src hi)) (src hl)).
  set (h3 := add_merge_version (add_merge_version h1 (src hi) (ver hi)) (src hl) (ver hl)).
  assert (H3 : h3 = mkH r v M3 P3) by (unfold h3, add_merge_version; cbn; now rewrite S1, V1).
  assert (M3L : forall x, lookup M3 x = if x =? src hl then Some (ver hl) else if x =? src hi then Some (ver hi) else None).
  { intros x. unfold M3. rewrite !lookup_set, M1. reflexivity. }
  assert (M3N : NoDup (keys M3)).
  { unfold M3. apply NoDup_keys_set, NoDup_keys_set. rewrite M1. constructor. }
  assert (P3L : forall x, lookup P3 x = if x =? src hl then None else if x =? src hi then None else lookup (pv h1) x).
  { intros x. unfold P3. now rewrite !lookup_remove. }
  assert (P3N : NoDup (keys P3)) by (unfold P3; apply NoDup_keys_remove, NoDup_keys_remove, W1).
  assert (Pr : lookup (pv h1) r = None).
  { apply lookup_None_keys. rewrite <- S1. apply W1. }
  set (G := guard h3).
  assert (GL : forall x, G x = negb (r =? x) && negb (x =? src hl) && negb (x =? src hi)).
  { intros x. unfold G, guard, mem. rewrite H3. cbn [src mv]. rewrite M3L.
    destruct (r =? x), (x =? src hl), (x =? src hi); reflexivity. }
  (* step 1: cv of the incoming vector is already a merge version (or shares our new source) *)
  assert (Step1 : (if src hi =? 0 then h3 else fst (add_version_to_pv h3 (src hi) (ver hi))) = h3).
  { destruct (N.eqb_spec (src hi) 0); auto. rewrite atp_fst. fold G. rewrite GL, N.eqb_refl.
    now rewrite !andb_false_r. }
  (* step 2: no incoming merge version is newer than ours *)
  assert (NoOlder : forall s x m, In (s, x) (mv hi) -> lookup (mv h3) s = Some m -> x <= m).
  { intros s x m I L. rewrite H3 in L. cbn [mv] in L. rewrite M3L in L.
    assert (Ls : lookup (mv hi) s = Some x) by (apply In_lookup; auto; apply Wi).
    assert (Ss : s <> 0) by (apply (Gi s x); apply LIi; right; left; exact I).
    destruct (N.eqb_spec s (src hl)).
    - inv L. unfold value, get_value in Vil.
      destruct (N.eqb_spec (src hl) 0); [tauto|]. destruct (N.eqb_spec (src hl) (src hi)); [tauto|].
      rewrite Ls in Vil. lia.
    - destruct (N.eqb_spec s (src hi)); [|discriminate]. inv L.
      assert (D : dominates hi (src hi, x) = true) by (apply DOi, LIi; right; left; exact I).
      apply dominates_value in D; [lia|]. apply (Gi (src hi) x). apply LIi. right; left. exact I. }
  unfold update_history. fold h3. rewrite Step1. rewrite (amuo_no_older _ _ NoOlder).
  rewrite !add_all_spec. cbn [src ver mv pv]. rewrite <- fold_left_app. fold G.
  rewrite H3. cbn [src ver mv pv].
  set (P' := fold_left (putG G) (mv hi ++ pv hi) P3).
  assert (PN' : NoDup (keys P')) by (apply foldput_nodup; exact P3N).
  (* where an entry of the merged pv comes from *)
  assert (Prov : forall x o, lookup P' x = Some o ->
            (lookup (pv h1) x = Some o /\ x <> src hl /\ x <> src hi) \/ ((In (x, o) (mv hi) \/ In (x, o) (pv hi)) /\ G x = true)).
  { intros x o L. apply foldput_prov in L. destruct L as [L|[L1 L2]].
    - left. rewrite P3L in L. destruct (N.eqb_spec x (src hl)); [discriminate|].
      destruct (N.eqb_spec x (src hi)); [discriminate|]. auto.
    - right. split; auto. now apply in_app_or. }
  assert (R' : repr (mkH r v M3 P') ((r, v) :: Sl ++ Si)).
  { split; [|split].
    - constructor; cbn [src ver mv pv]; auto.
      + intros I. apply In_keys_lookup in I. destruct I as [o L]. apply Prov in L. destruct L as [[L _]|[_ L]].
        * congruence.
        * rewrite GL, N.eqb_refl in L. discriminate.
      + intros x I J. apply In_keys_lookup in I, J. destruct I as [m Lm], J as [o Lo].
        rewrite M3L in Lm. apply Prov in Lo. destruct Lo as [[_ [N1 N2]]|[_ Lo]].
        * destruct (N.eqb_spec x (src hl)); [tauto|]. destruct (N.eqb_spec x (src hi)); [tauto|discriminate].
        * rewrite GL in Lo. destruct (x =? src hl), (x =? src hi); try discriminate;
            rewrite ?andb_false_r in Lo; discriminate.
    - intros [x o] [L|[L|L]]; cbn [cv src ver mv pv] in L.
      + left. auto.
      + right. apply in_or_app. apply In_lookup in L; auto. rewrite M3L in L.
        destruct (N.eqb_spec x (src hl)); [inv L; left; apply (repr_cv_in _ _ Rl)|].
        destruct (N.eqb_spec x (src hi)); [inv L; right; apply (repr_cv_in _ _ Ri)|discriminate].
      + apply In_lookup in L; auto. apply Prov in L. destruct L as [[L _]|[[L|L] _]].
        * assert (I : In (x, o) ((r, v) :: Sl)) by (apply LI1; right; right; now apply lookup_In).
          destruct I as [I|I]; [left; exact I | right; apply in_or_app; auto].
        * right. apply in_or_app. right. apply LIi. right; left. exact L.
        * right. apply in_or_app. right. apply LIi. right; right. exact L.
    - intros [s x0] I. apply dominates_spec. unfold get_value. cbn [src ver mv pv fst snd].
      assert (Cases : s <> 0 /\ exists e, x0 <= e /\
                ((s = r /\ e <= v) \/
                 (s <> r /\ s = src hl /\ e <= ver hl) \/
                 (s <> r /\ s <> src hl /\ s = src hi /\ e <= ver hi) \/
                 (G s = true /\ exists o, lookup P' s = Some o /\ e <= o))).
      { destruct I as [I|I]; [injection I as <- <-; split; auto; exists v; split; [lia|left; split; auto; lia]|].
        apply in_app_or in I. destruct I as [I|I].
        - (* seen by the local replica *)
          assert (Ss : s <> 0) by apply (Gl s x0 I). split; auto.
          pose proof (DOl _ I) as D. apply dominates_spec in D. destruct D as [e [E Le]].
          exists e. split; auto.
          assert (Ev : value hl s = e) by (unfold value; now rewrite E).
          destruct (N.eq_dec s r) as [->|Nr].
          + left. split; auto. pose proof (mvfs_ge_value hl r Wl). lia.
          + destruct (N.eq_dec s (src hl)) as [->|Nl]; [right; left; repeat split; auto; lia|].
            destruct (N.eq_dec s (src hi)) as [->|Ni]; [right; right; left; repeat split; auto; lia|].
            right; right; right. split.
            * rewrite GL. destruct (N.eqb_spec r s); [congruence|].
              destruct (N.eqb_spec s (src hl)); [tauto|]. destruct (N.eqb_spec s (src hi)); [tauto|]. reflexivity.
            * destruct (Mono1 _ _ E) as [e1 [E1 L1]]. unfold get_value in E1.
              destruct (N.eqb_spec s 0); [tauto|]. rewrite S1 in E1. destruct (N.eqb_spec s r); [tauto|].
              rewrite M1 in E1. cbn [lookup] in E1.
              assert (L3 : lookup P3 s = Some e1).
              { rewrite P3L. destruct (N.eqb_spec s (src hl)); [tauto|]. destruct (N.eqb_spec s (src hi)); [tauto|]. exact E1. }
              destruct (foldput_mono G (mv hi ++ pv hi) _ _ _ L3) as [o [Eo Lo]].
              exists o. split; [exact Eo|lia].
        - (* seen by the incoming replica *)
          assert (Ss : s <> 0) by apply (Gi s x0 I). split; auto.
          pose proof (DOi _ I) as D. apply dominates_spec in D. destruct D as [e [E Le]].
          exists e. split; auto.
          assert (Ev : value hi s = e) by (unfold value; now rewrite E).
          destruct (N.eq_dec s r) as [->|Nr].
          + left. split; auto. pose proof (mvfs_ge_value hi r Wi). lia.
          + destruct (N.eq_dec s (src hl)) as [->|Nl]; [right; left; repeat split; auto; lia|].
            destruct (N.eq_dec s (src hi)) as [->|Ni]; [right; right; left; repeat split; auto; lia|].
            right; right; right. split.
            * rewrite GL. destruct (N.eqb_spec r s); [congruence|].
              destruct (N.eqb_spec s (src hl)); [tauto|]. destruct (N.eqb_spec s (src hi)); [tauto|]. reflexivity.
            * assert (Gs : G s = true).
              { rewrite GL. destruct (N.eqb_spec r s); [congruence|].
                destruct (N.eqb_spec s (src hl)); [tauto|]. destruct (N.eqb_spec s (src hi)); [tauto|]. reflexivity. }
              assert (II : In (s, e) (mv hi ++ pv hi)).
              { unfold get_value in E. destruct (N.eqb_spec s 0); [tauto|]. destruct (N.eqb_spec s (src hi)); [tauto|].
                apply in_or_app. destruct (lookup (mv hi) s) eqn:Lm.
                - inv E. left. now apply lookup_In.
                - right. now apply lookup_In. }
              destruct (foldput_in G _ P3 _ _ II Gs) as [o [Eo Lo]]. exists o. split; [exact Eo|lia]. }
      destruct Cases as [Ss [e [Le C]]].
      destruct (N.eqb_spec s 0); [tauto|].
      destruct C as [[-> Lv]|[[Nr [-> Ll]]|[[Nr [Nl [-> Li]]]|[Gs [o [Eo Lo]]]]]].
      + rewrite N.eqb_refl. exists v. split; auto. lia.
      + destruct (N.eqb_spec (src hl) r); [congruence|]. rewrite M3L, N.eqb_refl. exists (ver hl). split; auto. lia.
      + destruct (N.eqb_spec (src hi) r); [congruence|]. rewrite M3L.
        destruct (N.eqb_spec (src hi) (src hl)); [congruence|]. rewrite N.eqb_refl. exists (ver hi). split; auto. lia.
      + rewrite GL in Gs. destruct (N.eqb_spec r s); [discriminate|]. destruct (N.eqb_spec s r); [congruence|].
        rewrite M3L. destruct (N.eqb_spec s (src hl)); [discriminate|]. destruct (N.eqb_spec s (src hi)); [discriminate|].
        exists o. split; [exact Eo|lia]. }
  assert (G' : good ((r, v) :: Sl ++ Si)) by (apply good_cons; auto; apply good_app; auto).
  exists (mkH r v M3 P'). split; [reflexivity|]. split; [exact R'|]. split; [reflexivity|].
  split; intros s.
  - destruct (N.eq_dec s 0) as [->|Hs]; [rewrite !value_zero; lia|].
    rewrite (repr_value hl Sl Gl Rl s Hs), (repr_value _ _ G' R' s Hs).
    cbn [max_ver fst snd]. rewrite max_ver_app. destruct (r =? s); lia.
  - destruct (N.eq_dec s 0) as [->|Hs]; [rewrite !value_zero; lia|].
    rewrite (repr_value hi Si Gi Ri s Hs), (repr_value _ _ G' R' s Hs).
    cbn [max_ver fst snd]. rewrite max_ver_app. destruct (r =? s); lia.
Qed.
