(* C10 proofs, part 1: the representation invariant [repr] (a vector lists exactly the newest version
   per source of the set of versions its replica has seen), the conflict predicate against classic
   version vectors, and the effect of AddVersion / UpdateWithIncomingHLV / MergeWithIncomingHLV. *)
From SG Require Import Base.Prelude C10.AMap C10.HLV.
Open Scope N_scope.
#[local] Arguments N.max : simpl never.
#[local] Arguments N.eqb : simpl never.
#[local] Arguments N.leb : simpl never.
#[local] Arguments N.ltb : simpl never.
#[local] Arguments N.add : simpl never.

Ltac bd :=
  repeat match goal with
  | |- context[N.eqb ?a ?b] => destruct (N.eqb_spec a b)
  | H : context[N.eqb ?a ?b] |- _ => destruct (N.eqb_spec a b)
  | |- context[N.leb ?a ?b] => destruct (N.leb_spec a b)
  | H : context[N.leb ?a ?b] |- _ => destruct (N.leb_spec a b)
  | |- context[N.ltb ?a ?b] => destruct (N.ltb_spec a b)
  | H : context[N.ltb ?a ?b] |- _ => destruct (N.ltb_spec a b)
  end.

(* ---------- definitions ---------- *)
Definition value (h : hlv) (s : N) : N := match get_value h s with Some v => v | None => 0 end.

(* the versions a vector lists *)
Definition listed (h : hlv) (p : version) : Prop := p = cv h \/ In p (mv h) \/ In p (pv h).

(* structural well-formedness: "no source listed twice" -- pv has no duplicate source, mv has no
   duplicate source, pv shares no source with cv or mv (cv and mv may share a source by design: the
   previous cv of the merging replica becomes a merge version under the same source as the new cv) *)
Record wf (h : hlv) : Prop := mkWf {
  wf_src : src h <> 0;
  wf_mv : NoDup (keys (mv h));
  wf_pv : NoDup (keys (pv h));
  wf_srcpv : ~ In (src h) (keys (pv h));
  wf_disj : forall x, In x (keys (mv h)) -> ~ In x (keys (pv h))
}.

(* a set of seen versions: sources are non-empty names, values are positive *)
Definition good (S : list version) : Prop := forall s v, In (s, v) S -> s <> 0 /\ v <> 0.

(* the vector h represents the set S of versions seen: nothing invented, nothing lost *)
Definition repr (h : hlv) (S : list version) : Prop :=
  wf h /\ (forall p, listed h p -> In p S) /\ (forall p, In p S -> dominates h p = true).

(* classic version vector of a set of versions: newest value per source (0 = none) *)
Fixpoint max_ver (S : list version) (s : N) : N :=
  match S with
  | [] => 0
  | p :: r => if fst p =? s then N.max (snd p) (max_ver r s) else max_ver r s
  end.

Definition seenV (S : list version) (p : version) : Prop := snd p <= max_ver S (fst p).

(* ---------- max_ver ---------- *)
Lemma max_ver_ge : forall S s v, In (s, v) S -> v <= max_ver S s.
Proof.
  induction S as [|[s' v'] S IH]; cbn; intros s v H; [tauto|].
  destruct H as [H|H].
  - inv H. rewrite N.eqb_refl. lia.
  - specialize (IH _ _ H). destruct (s' =? s); lia.
Qed.

Lemma max_ver_attained : forall S s, max_ver S s <> 0 -> In (s, max_ver S s) S.
Proof.
  induction S as [|[s' v'] S IH]; cbn; intros s H; [lia|].
  destruct (N.eqb_spec s' s).
  - subst. destruct (N.max_spec v' (max_ver S s)) as [[A B]|[A B]]; rewrite B in *.
    + right. apply IH. lia.
    + left. reflexivity.
  - right. auto.
Qed.

Lemma max_ver_app : forall A B s, max_ver (A ++ B) s = N.max (max_ver A s) (max_ver B s).
Proof.
  induction A as [|[s' v'] A IH]; cbn; intros B s; [lia|].
  rewrite IH. destruct (s' =? s); lia.
Qed.

(* ---------- get_value / dominates ---------- *)
Lemma get_value_listed : forall h s e, get_value h s = Some e -> listed h (s, e).
Proof.
  unfold get_value, listed, cv. intros h s e H.
  destruct (N.eqb_spec s 0); [discriminate|].
  destruct (N.eqb_spec s (src h)).
  - inv H. auto.
  - destruct (lookup (mv h) s) eqn:E.
    + inv H. right; left. now apply lookup_In.
    + right; right. now apply lookup_In.
Qed.

Lemma dominates_spec : forall h s v,
  dominates h (s, v) = true <-> exists e, get_value h s = Some e /\ v <= e.
Proof.
  unfold dominates. cbn. intros h s v. destruct (get_value h s) as [e|].
  - split; [intros H; exists e; split; auto; lia | intros [e' [E L]]; inv E; lia].
  - split; [discriminate | intros [e [E _]]; discriminate].
Qed.

Lemma dominates_value : forall h s v, v <> 0 -> (dominates h (s, v) = true <-> v <= value h s).
Proof.
  intros h s v Hv. rewrite dominates_spec. unfold value. destruct (get_value h s) as [e|].
  - split; [intros [e' [E L]]; inv E; auto | intros L; eauto].
  - split; [intros [e [E _]]; discriminate | lia].
Qed.

Lemma listed_value_le : forall h s v, wf h -> s <> 0 -> listed h (s, v) ->
  (lookup (mv h) (src h) = Some v /\ s = src h) \/ v <= value h s.
Proof.
  intros h s v W Hs [L|[L|L]].
  - inv L. right. unfold value, get_value. destruct (N.eqb_spec (src h) 0); [tauto|]. rewrite N.eqb_refl. lia.
  - apply In_lookup in L; [|apply W]. unfold value, get_value.
    destruct (N.eqb_spec s 0); [tauto|]. destruct (N.eqb_spec s (src h)).
    + subst. left. auto.
    + rewrite L. right. lia.
  - assert (K : In s (keys (pv h))) by (change s with (fst (s, v)); now apply in_map).
    apply In_lookup in L; [|apply W]. right. unfold value, get_value.
    destruct (N.eqb_spec s 0); [tauto|]. destruct (N.eqb_spec s (src h)).
    + subst. exfalso. now apply (wf_srcpv _ W).
    + destruct (lookup (mv h) s) eqn:E.
      * exfalso. apply lookup_In_keys in E. now apply (wf_disj _ W s).
      * rewrite L. lia.
Qed.

Lemma repr_value : forall h S, good S -> repr h S -> forall s, s <> 0 -> value h s = max_ver S s.
Proof.
  intros h S G [W [LI DO]] s Hs. apply N.le_antisymm.
  - unfold value. destruct (get_value h s) as [e|] eqn:E; [|lia].
    apply get_value_listed in E. apply LI in E. now apply max_ver_ge.
  - destruct (N.eq_dec (max_ver S s) 0) as [Z|Z]; [lia|].
    pose proof (max_ver_attained _ _ Z) as A. pose proof (DO _ A) as D.
    apply dominates_value in D; auto.
Qed.

Lemma repr_cv_in : forall h S, repr h S -> In (cv h) S.
Proof. intros h S [_ [LI _]]. apply LI. left. reflexivity. Qed.

Lemma repr_dominates_seenV : forall h S p, good S -> repr h S -> fst p <> 0 -> snd p <> 0 ->
  (dominates h p = true <-> seenV S p).
Proof.
  intros h S [s v] G R Hs Hv. cbn in *. rewrite dominates_value by auto. unfold seenV. cbn.
  rewrite (repr_value h S G R s Hs). tauto.
Qed.

(* ---------- the conflict predicate against version vectors ---------- *)
Lemma status_cases : forall hl hi,
  (is_in_conflict hl hi = AlreadyPresent <->
     equal_cv hl hi = true \/ (dominates hi (cv hl) = false /\ dominates hl (cv hi) = true)) /\
  (is_in_conflict hl hi = Conflict <->
     equal_cv hl hi = false /\ dominates hi (cv hl) = false /\ dominates hl (cv hi) = false /\ same_merge hl hi = false) /\
  (is_in_conflict hl hi = NoConflict <->
     equal_cv hl hi = false /\ (dominates hi (cv hl) = true \/ (dominates hl (cv hi) = false /\ same_merge hl hi = true))).
Proof.
  intros hl hi. unfold is_in_conflict.
  destruct (equal_cv hl hi), (dominates hi (cv hl)), (dominates hl (cv hi)), (same_merge hl hi);
    repeat split; intros; try discriminate; try tauto; intuition discriminate.
Qed.

Lemma equal_cv_spec : forall a b, equal_cv a b = true <-> cv a = cv b.
Proof.
  intros a b. unfold equal_cv, cv. rewrite andb_true_iff, !N.eqb_eq. split; [intros [-> ->]; auto | intros E; inv E; auto].
Qed.

Section Conflict.
  Variables (hl hi : hlv) (Sl Si : list version).
  Hypothesis Gl : good Sl.
  Hypothesis Gi : good Si.
  Hypothesis Rl : repr hl Sl.
  Hypothesis Ri : repr hi Si.

  Lemma cv_good_l : src hl <> 0 /\ ver hl <> 0.
  Proof. apply (Gl (src hl) (ver hl)). apply (repr_cv_in _ _ Rl). Qed.
  Lemma cv_good_i : src hi <> 0 /\ ver hi <> 0.
  Proof. apply (Gi (src hi) (ver hi)). apply (repr_cv_in _ _ Ri). Qed.

  Lemma dom_l : dominates hl (cv hi) = true <-> seenV Sl (cv hi).
  Proof. apply repr_dominates_seenV; auto; apply cv_good_i. Qed.
  Lemma dom_i : dominates hi (cv hl) = true <-> seenV Si (cv hl).
  Proof. apply repr_dominates_seenV; auto; apply cv_good_l. Qed.

  Lemma equal_cv_seen : equal_cv hl hi = true -> seenV Sl (cv hi) /\ seenV Si (cv hl).
  Proof.
    intros E. apply equal_cv_spec in E. split.
    - rewrite <- E. unfold seenV. apply max_ver_ge. apply (repr_cv_in _ _ Rl).
    - rewrite E. unfold seenV. apply max_ver_ge. apply (repr_cv_in _ _ Ri).
  Qed.

  (* conflict  <->  concurrent (neither side has seen the other's current version) and not the same merge *)
  Theorem conflict_iff_concurrent :
    is_in_conflict hl hi = Conflict <->
    (~ seenV Sl (cv hi) /\ ~ seenV Si (cv hl) /\ same_merge hl hi = false).
  Proof.
    destruct (status_cases hl hi) as [_ [C _]]. rewrite C. rewrite <- dom_l, <- dom_i.
    split.
    - intros [E [A [B M]]]. rewrite A, B. repeat split; auto; discriminate.
    - intros [A [B M]]. repeat split; auto.
      + destruct (equal_cv hl hi) eqn:E; auto. apply equal_cv_seen in E. destruct E as [E _].
        apply dom_l in E. tauto.
      + destruct (dominates hi (cv hl)); auto. tauto.
      + destruct (dominates hl (cv hi)); auto. tauto.
  Qed.

  (* already known <-> the local replica has seen the incoming current version, provided the two
     replicas have not each seen the other's (distinct) current version -- impossible for reachable
     vectors, see Replica: [inv_caus] *)
  Theorem known_iff_seen :
    (seenV Si (cv hl) -> seenV Sl (cv hi) -> cv hl = cv hi) ->
    (is_in_conflict hl hi = AlreadyPresent <-> seenV Sl (cv hi)).
  Proof.
    intros Anti. destruct (status_cases hl hi) as [K _]. rewrite K. rewrite <- dom_l.
    split.
    - intros [E|[_ D]]; auto. apply equal_cv_seen in E. apply dom_l. tauto.
    - intros D. destruct (equal_cv hl hi) eqn:E; auto. right. split; auto.
      destruct (dominates hi (cv hl)) eqn:D2; auto.
      apply dom_i in D2. apply dom_l in D. specialize (Anti D2 D). apply equal_cv_spec in Anti. congruence.
  Qed.

  (* otherwise accepted *)
  Theorem accepted_iff :
    (seenV Si (cv hl) -> seenV Sl (cv hi) -> cv hl = cv hi) ->
    (is_in_conflict hl hi = NoConflict <->
       ~ seenV Sl (cv hi) /\ (seenV Si (cv hl) \/ same_merge hl hi = true)).
  Proof.
    intros Anti. pose proof (known_iff_seen Anti) as K. pose proof conflict_iff_concurrent as C.
    destruct (is_in_conflict hl hi) eqn:E.
    - split; auto. intros _. split.
      + intros S. apply K in S. discriminate.
      + destruct (same_merge hl hi) eqn:M; auto. left.
        destruct (status_cases hl hi) as [_ [_ N]]. rewrite E in N. destruct N as [N _]. specialize (N eq_refl).
        destruct N as [_ [D|[_ D]]]; [now apply dom_i | congruence].
    - split; [discriminate|]. intros [A [B|B]].
      + destruct C as [C _]. specialize (C eq_refl). tauto.
      + destruct C as [C _]. specialize (C eq_refl). destruct C as [_ [_ C]]. congruence.
    - split; [discriminate|]. intros [A _]. destruct K as [K _]. specialize (K eq_refl). tauto.
  Qed.
End Conflict.
