(* C10 model, ground truth: replicas exchanging one document.  Every replica holds the vector the real
   code would hold (computed with the model of the HybridLogicalVector API, HLV.v), the set of versions
   it has really seen (the classic version-vector ground truth: a version is seen when it was created
   here or arrived with a pull), and the state of its hybrid logical clock.

   Events: a local edit (documentUpdateFunc: floor = maxValueForSource, hlc.Now, AddVersion), a pull
   from another replica (IsInConflict; already present -> nothing; no conflict -> UpdateWithIncomingHLV;
   conflict -> merge resolution: floor over both vectors, hlc.Now, MergeWithIncomingHLV), and a clock
   restart.  [phys] is the wall clock reading (adversarial input).  Replica ids are source ids; id 0
   (the empty source name) never acts.  A replica whose vector has src = 0 has no document yet. *)
From SG Require Import Base.Prelude C10.AMap C10.HLV.
Open Scope N_scope.

Record rstate := mkR { rh : hlv; rseen : list version; rclk : N }.
Definition state := N -> rstate.
Definition init : state := fun _ => mkR empty_hlv [] 0.
Definition upd (st : state) (r : N) (x : rstate) : state := fun q => if q =? r then x else st q.

Inductive ev :=
| EEdit (r phys : N)
| EPull (r q phys : N)         (* r pulls the document from q *)
| ERestart (r : N).

Inductive outcome :=
| ONone                        (* nothing to do (no such replica / nothing to pull / pull from self) *)
| OEdited (v : N)
| OEditError
| OCopied                      (* first copy of the document on this replica *)
| OKnown                       (* already present *)
| OFastForward                 (* accepted: the incoming vector has seen our current version *)
| OSameMerge                   (* accepted because both sides record the same merge *)
| OMerged (v : N)
| OMergeError
| ORestarted.

Definition step (st : state) (e : ev) : state * outcome :=
  match e with
  | EEdit r phys =>
      if r =? 0 then (st, ONone) else
      let x := st r in
      let v := hlc_now phys (rclk x) (max_value_for_source (rh x) r) in
      match add_version (rh x) (r, v) with
      | Some h' => (upd st r (mkR h' ((r, v) :: rseen x) v), OEdited v)
      | None => (upd st r (mkR (rh x) (rseen x) v), OEditError)
      end
  | EPull r q phys =>
      if (r =? 0) || (q =? 0) || (r =? q) then (st, ONone) else
      let l := st r in let i := st q in
      if src (rh i) =? 0 then (st, ONone) else
      if src (rh l) =? 0 then
        (upd st r (mkR (update_with_incoming (rh l) (rh i)) (rseen l ++ rseen i) (rclk l)), OCopied)
      else
        match is_in_conflict (rh l) (rh i) with
        | AlreadyPresent => (st, OKnown)
        | NoConflict =>
            (upd st r (mkR (update_with_incoming (rh l) (rh i)) (rseen l ++ rseen i) (rclk l)),
             if dominates (rh i) (cv (rh l)) then OFastForward else OSameMerge)
        | Conflict =>
            let v := hlc_now phys (rclk l) (N.max (max_value_for_source (rh l) r) (max_value_for_source (rh i) r)) in
            match merge_with_incoming (rh l) (r, v) (rh i) with
            | Some h' => (upd st r (mkR h' ((r, v) :: rseen l ++ rseen i) v), OMerged v)
            | None => (upd st r (mkR (rh l) (rseen l) v), OMergeError)
            end
        end
  | ERestart r => (upd st r (mkR (rh (st r)) (rseen (st r)) 0), ORestarted)
  end.

Fixpoint run_from (st : state) (evs : list ev) : state :=
  match evs with
  | [] => st
  | e :: r => run_from (fst (step st e)) r
  end.
Definition run (evs : list ev) : state := run_from init evs.

(* the outcomes of a history, in order *)
Fixpoint outcomes_from (st : state) (evs : list ev) : list outcome :=
  match evs with
  | [] => []
  | e :: r => snd (step st e) :: outcomes_from (fst (step st e)) r
  end.

(* histories in which no pull is accepted on the "same merge" rule *)
Fixpoint clean_from (st : state) (evs : list ev) : Prop :=
  match evs with
  | [] => True
  | e :: r => snd (step st e) <> OSameMerge /\ clean_from (fst (step st e)) r
  end.
Definition clean (evs : list ev) : Prop := clean_from init evs.
