(* C10 model: db.HybridLogicalVector (db/hybrid_logical_vector.go), hand-written, tied to the code by
   the correspondence harness harness/db/verif_c10_test.go.

   Source names are interned as numbers; 0 is the empty name "" (GetValue("") is "not found",
   AddVersion on a vector whose SourceID is "" is the first-version case).  Go's nil map and empty map
   are not distinguished (no function of the modelled API observes the difference).  Go ranges over
   maps in random order; the model ranges in list order -- the modelled functions are insensitive to
   the order (every harness case is run on the real code with Go's random order and must agree). *)
From SG Require Import Base.Prelude C10.AMap.
Open Scope N_scope.

Record hlv := mkH { src : N; ver : N; mv : amap; pv : amap }.

Definition empty_hlv : hlv := mkH 0 0 [] [].
Definition version := (N * N)%type.          (* (source, value) *)
Definition cv (h : hlv) : version := (src h, ver h).

(* GetValue *)
Definition get_value (h : hlv) (s : N) : option N :=
  if s =? 0 then None
  else if s =? src h then Some (ver h)
  else match lookup (mv h) s with
       | Some v => Some v
       | None => lookup (pv h) s
       end.

(* DominatesSource / IsVersionKnown *)
Definition dominates (h : hlv) (p : version) : bool :=
  match get_value h (fst p) with
  | Some e => snd p <=? e
  | None => false
  end.

Definition equal_cv (a b : hlv) : bool := (src a =? src b) && (ver a =? ver b).

Inductive status := NoConflict | Conflict | AlreadyPresent.

Definition status_eqb (a b : status) : bool :=
  match a, b with
  | NoConflict, NoConflict | Conflict, Conflict | AlreadyPresent, AlreadyPresent => true
  | _, _ => false
  end.

Definition nonempty (m : amap) : bool := match m with [] => false | _ => true end.

(* "the two vectors record the same merge" (last test of IsInConflict) *)
Definition same_merge (hl hi : hlv) : bool :=
  nonempty (mv hi) && nonempty (mv hl) && map_equal (mv hi) (mv hl).

(* IsInConflict(local, incoming) *)
Definition is_in_conflict (hl hi : hlv) : status :=
  if equal_cv hl hi then AlreadyPresent
  else if dominates hi (cv hl) then NoConflict
  else if dominates hl (cv hi) then AlreadyPresent
  else if same_merge hl hi then NoConflict
  else Conflict.

(* InvalidateMV: every merge version except one sharing the source of cv goes to pv (overwriting) *)
Definition invalidate_mv (h : hlv) : hlv :=
  mkH (src h) (ver h) []
      (fold_left (fun p e => if fst e =? src h then p else set p (fst e) (snd e)) (mv h) (pv h)).

(* AddVersion; None = the error "value less than the existing value for the same source" *)
Definition add_version (h : hlv) (nv : version) : option hlv :=
  let '(s, v) := nv in
  if src h =? 0 then Some (mkH s v (mv h) (pv h))
  else if (match get_value h s with Some e => v <? e | None => false end) then None
  else
    let h1 := invalidate_mv h in
    if s =? src h then Some (mkH (src h) v (mv h1) (pv h1))
    else Some (mkH s v (mv h1) (remove (set (pv h1) (src h) (ver h)) s)).

Inductive pvres := AddedToPV | SourceIsCV | InMVOlder | InMVNewer | InPVNewer.

(* AddVersionToPV *)
Definition add_version_to_pv (h : hlv) (s v : N) : hlv * pvres :=
  if src h =? s then (h, SourceIsCV)
  else match lookup (mv h) s with
       | Some m => if v <=? m then (h, InMVNewer) else (h, InMVOlder)
       | None =>
           match lookup (pv h) s with
           | Some p => if p <? v then (mkH (src h) (ver h) (mv h) (set (pv h) s v), AddedToPV) else (h, InPVNewer)
           | None => (mkH (src h) (ver h) (mv h) (set (pv h) s v), AddedToPV)
           end
       end.

Definition add_all_to_pv (h : hlv) (l : amap) : hlv :=
  fold_left (fun a e => fst (add_version_to_pv a (fst e) (snd e))) l h.

(* the first loop of UpdateHistory over the incoming merge versions: stops at the first entry whose
   source is in our mv with an older value; the boolean says whether that happened *)
Fixpoint add_mv_until_older (h : hlv) (l : amap) : hlv * bool :=
  match l with
  | [] => (h, false)
  | (s, v) :: r =>
      match add_version_to_pv h s v with
      | (h', InMVOlder) => (h', true)
      | (h', _) => add_mv_until_older h' r
      end
  end.

(* UpdateHistory(incoming) on receiver h *)
Definition update_history (h inc : hlv) : hlv :=
  let h1 := if src inc =? 0 then h else fst (add_version_to_pv h (src inc) (ver inc)) in
  let '(h2, older) := add_mv_until_older h1 (mv inc) in
  let h3 := if older then add_all_to_pv (invalidate_mv h2) (mv inc) else h2 in
  add_all_to_pv h3 (pv inc).

(* UpdateWithIncomingHLV: the incoming vector, completed with our history, replaces ours *)
Definition update_with_incoming (h inc : hlv) : hlv := update_history inc h.

(* AddMergeVersion *)
Definition add_merge_version (h : hlv) (s v : N) : hlv :=
  mkH (src h) (ver h) (set (mv h) s v) (remove (pv h) s).

(* MergeWithIncomingHLV(newCV, incoming) *)
Definition merge_with_incoming (h : hlv) (ncv : version) (inc : hlv) : option hlv :=
  match add_version h ncv with
  | None => None
  | Some h1 =>
      let h2 := add_merge_version h1 (src inc) (ver inc) in
      let h3 := add_merge_version h2 (src h) (ver h) in
      Some (update_history h3 inc)
  end.

(* maxValueForSource: the floor for the next locally generated version *)
Definition max_value_for_source (h : hlv) (s : N) : N :=
  if s =? 0 then 0
  else if s =? src h then N.max (ver h) (lookup0 (mv h) s)
  else match lookup (pv h) s with
       | Some p => p
       | None => lookup0 (mv h) s
       end.

(* sgbucket.HybridLogicalClock.Now(floor): [phys] is the wall clock with the logical bits cleared,
   [highest] the last value handed out; all values < 2^63 (no wrap-around modelled) *)
Definition hlc_now (phys highest floor : N) : N := N.max (N.max phys (highest + 1)) (floor + 1).

(* extensional comparison with what the implementation holds *)
Definition hlv_eqb (a b : hlv) : bool :=
  (src a =? src b) && (ver a =? ver b) && amap_eqb (mv a) (mv b) && amap_eqb (pv a) (pv b).
