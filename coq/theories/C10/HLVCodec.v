(* C10 model, codecs: the little-endian hex helpers of base/util.go, the delta-compressed stored form
   (VersionsToDeltas / PersistedDeltasToMap, MarshalJSON / UnmarshalJSON at the level of the fields of
   the JSON object -- the JSON library itself is not modelled) and the BLIP wire string form
   (GetCurrentVersionString, toHistoryForHLV, extractHLVFromBlipString with parseVectorValues,
   ParseVersion, isLegacyRev).  Source names are byte strings here. *)
From SG Require Import Base.Prelude.
Open Scope N_scope.

Definition bytes := list N.
Definition bytes_eqb (a b : bytes) : bool := list_eqb N.eqb a b.

Lemma bytes_eqb_eq : forall a b, bytes_eqb a b = true <-> a = b.
Proof. apply list_eqb_eq. intros x y. apply N.eqb_eq. Qed.

Definition two64 : N := 18446744073709551616.

(* ---------- hexadecimal ---------- *)
Definition hexdigit (n : N) : N := if n <? 10 then 48 + n else 87 + n.          (* 0-9 a-f *)

Definition unhex (c : N) : option N :=
  if (48 <=? c) && (c <=? 57) then Some (c - 48)
  else if (97 <=? c) && (c <=? 102) then Some (c - 87)
  else if (65 <=? c) && (c <=? 70) then Some (c - 55)
  else None.

Definition byte_hex (b : N) : bytes := [hexdigit (b / 16); hexdigit (b mod 16)].

(* binary.LittleEndian.PutUint64 *)
Fixpoint le_bytes (n : nat) (v : N) : list N :=
  match n with
  | O => []
  | S k => (v mod 256) :: le_bytes k (v / 256)
  end.

(* binary.LittleEndian.Uint64 on a zero-padded buffer *)
Fixpoint le_value (l : list N) : N :=
  match l with
  | [] => 0
  | b :: r => b + 256 * le_value r
  end.

Definition le_hex16 (v : N) : bytes := flat_map byte_hex (le_bytes 8 v).

(* CasToString / Uint64CASToLittleEndianHex: "0x" and 16 hex digits *)
Definition cas_to_string (v : N) : bytes := 48 :: 120 :: le_hex16 v.

(* drop trailing '0' characters *)
Fixpoint strip_trailing (l : bytes) : bytes :=
  match l with
  | [] => []
  | c :: r => match strip_trailing r with
              | [] => if c =? 48 then [] else [c]
              | r' => c :: r'
              end
  end.

(* Uint64ToLittleEndianHexAndStripZeros: trailing zeros removed, at least one character kept *)
Definition le_hex_strip (v : N) : bytes :=
  match le_hex16 v with
  | [] => []
  | c :: r => c :: strip_trailing r
  end.

(* encoding/hex.Decode on an even-length input *)
Fixpoint hex_decode (l : bytes) : option (list N) :=
  match l with
  | [] => Some []
  | a :: b :: r =>
      match unhex a, unhex b, hex_decode r with
      | Some x, Some y, Some t => Some (16 * x + y :: t)
      | _, _, _ => None
      end
  | [_] => None
  end.

(* HexCasToUint64ForDelta; None = error *)
Definition le_hex_decode (inp : bytes) : option N :=
  let p := if Nat.odd (length inp) then inp ++ [48] else inp in
  if (8 <? N.of_nat (length p) / 2) then None
  else match hex_decode p with
       | Some bs => Some (le_value bs)
       | None => None
       end.

(* HexCasToUint64: optional "0x", exactly 16 hex digits, anything else gives 0 *)
Definition hex_cas_to_uint64 (s : bytes) : N :=
  let t := match s with 48 :: 120 :: r => r | _ => s end in
  if N.of_nat (length t) =? 16 then
    match hex_decode t with Some bs => le_value bs | None => 0 end
  else 0.

(* strconv.FormatUint(v, 16) for v < 2^64 *)
Fixpoint hex_digits (fuel : nat) (v : N) (acc : bytes) : bytes :=
  match fuel with
  | O => acc
  | S k => let acc' := hexdigit (v mod 16) :: acc in
           if v / 16 =? 0 then acc' else hex_digits k (v / 16) acc'
  end.
Definition to_hex (v : N) : bytes := hex_digits 16 v [].

(* strconv.ParseUint(s, 16, 64) *)
Fixpoint parse_hex_acc (l : bytes) (acc : N) : option N :=
  match l with
  | [] => Some acc
  | c :: r => match unhex c with
              | Some d => parse_hex_acc r (16 * acc + d)
              | None => None
              end
  end.
Definition parse_uint_hex (s : bytes) : option N :=
  match s with
  | [] => None
  | _ => match parse_hex_acc s 0 with
         | Some v => if v <? two64 then Some v else None
         | None => None
         end
  end.

(* ---------- maps with byte-string keys ---------- *)
Definition smap := list (bytes * N).

Fixpoint slookup (m : smap) (k : bytes) : option N :=
  match m with
  | [] => None
  | (k', v) :: r => if bytes_eqb k' k then Some v else slookup r k
  end.
Definition sremove (m : smap) (k : bytes) : smap := filter (fun p => negb (bytes_eqb (fst p) k)) m.
Definition sset (m : smap) (k : bytes) (v : N) : smap := (k, v) :: sremove m k.
Definition smem (m : smap) (k : bytes) : bool := match slookup m k with Some _ => true | None => false end.

Fixpoint snodupb (l : list bytes) : bool :=
  match l with
  | [] => true
  | x :: r => negb (existsb (bytes_eqb x) r) && snodupb r
  end.

Definition ssub (a b : smap) : bool :=
  forallb (fun p => match slookup b (fst p) with Some v => v =? snd p | None => false end) a.
Definition smap_eqb (a b : smap) : bool :=
  snodupb (map fst a) && snodupb (map fst b) && (N.of_nat (length a) =? N.of_nat (length b)) && ssub a b.

(* ---------- strings ---------- *)
Definition AT : N := 64.      (* @ *)
Definition COMMA : N := 44.
Definition SEMI : N := 59.
Definition SPACE : N := 32.
Definition DASH : N := 45.

(* strings.Cut(s, sep) for a one-byte separator *)
Fixpoint cut (s : bytes) (sep : N) : option (bytes * bytes) :=
  match s with
  | [] => None
  | c :: r => if c =? sep then Some ([], r)
              else match cut r sep with
                   | Some (a, b) => Some (c :: a, b)
                   | None => None
                   end
  end.

(* strings.Split(s, sep) for a one-byte separator: always at least one field *)
Fixpoint split (s : bytes) (sep : N) : list bytes :=
  match s with
  | [] => [[]]
  | c :: r => if c =? sep then [] :: split r sep
              else match split r sep with
                   | h :: t => (c :: h) :: t
                   | [] => [[c]]
                   end
  end.

Fixpoint join (l : list bytes) (sep : N) : bytes :=
  match l with
  | [] => []
  | [x] => x
  | x :: r => x ++ sep :: join r sep
  end.

(* ---------- stored form: deltas ---------- *)
(* Version.StringForVersionDelta *)
Definition delta_string (e : bytes * N) : bytes := le_hex_strip (snd e) ++ AT :: fst e.

(* VersionDeltas on a list already sorted by value: first entry absolute, the rest differences *)
Fixpoint to_deltas_from (prev : N) (l : smap) : list bytes :=
  match l with
  | [] => []
  | (s, v) :: r => delta_string (s, v - prev) :: to_deltas_from v r
  end.
Definition to_deltas (l : smap) : list bytes := to_deltas_from 0 l.

Fixpoint sorted_by_value (prev : N) (l : smap) : bool :=
  match l with
  | [] => true
  | (_, v) :: r => (prev <=? v) && sorted_by_value v r
  end.

(* The order of entries with equal values in the output of VersionsToDeltas depends on Go's map
   iteration and on sort.Sort; the comparison therefore takes the order of sources from the
   implementation's output, checks that it is a sorted arrangement of the whole map and that the
   strings are exactly the deltas of that arrangement. *)
Definition source_of (d : bytes) : bytes := match cut d AT with Some (_, s) => s | None => [] end.

Fixpoint arrange (m : smap) (order : list bytes) : option smap :=
  match order with
  | [] => Some []
  | s :: r => match slookup m s, arrange m r with
              | Some v, Some t => Some ((s, v) :: t)
              | _, _ => None
              end
  end.

Definition is_arrangement (m l : smap) : bool :=
  snodupb (map fst l) && (N.of_nat (length l) =? N.of_nat (length m)) &&
  forallb (fun p => match slookup m (fst p) with Some v => v =? snd p | None => false end) l.

Definition deltas_rel (m : smap) (out : list bytes) : bool :=
  match m with
  | [] => match out with [] => true | _ => false end
  | _ => match arrange m (map source_of out) with
         | Some l => is_arrangement m l && sorted_by_value 0 l && list_eqb bytes_eqb (to_deltas l) out
         | None => false
         end
  end.
Definition check_deltas := deltas_rel.

(* PersistedDeltasToMap; None = error.  uint64 addition wraps. *)
Fixpoint from_deltas_acc (l : list bytes) (last : N) (acc : smap) : option smap :=
  match l with
  | [] => Some acc
  | d :: r => match cut d AT with
              | None => None
              | Some (ts, s) =>
                  match le_hex_decode ts with
                  | None => None
                  | Some ver => let last' := (ver + last) mod two64 in
                                from_deltas_acc r last' (sset acc s last')
                  end
              end
  end.
Definition persisted_deltas_to_map (l : list bytes) : option smap := from_deltas_acc l 0 [].

(* ---------- stored form: the JSON object, field by field ---------- *)
Record svec := mkS { s_cvcas : N; s_src : bytes; s_ver : N; s_mv : smap; s_pv : smap }.
Record jvec := mkJ { j_cvcas : option bytes; j_src : bytes; j_ver : bytes;
                     j_pv : option (list bytes); j_mv : option (list bytes) }.

Definition svec_eqb (a b : svec) : bool :=
  (s_cvcas a =? s_cvcas b) && bytes_eqb (s_src a) (s_src b) && (s_ver a =? s_ver b) &&
  smap_eqb (s_mv a) (s_mv b) && smap_eqb (s_pv a) (s_pv b).

Definition field_rel (m : smap) (f : option (list bytes)) : bool :=
  match f with
  | None => match m with [] => true | _ => false end
  | Some l => match m with [] => false | _ => deltas_rel m l end
  end.

(* MarshalJSON: j is what the implementation produced for v *)
Definition marshal_rel (v : svec) (j : jvec) : bool :=
  option_eqb bytes_eqb (j_cvcas j) (if s_cvcas v =? 0 then None else Some (cas_to_string (s_cvcas v))) &&
  bytes_eqb (j_src j) (s_src v) && bytes_eqb (j_ver j) (cas_to_string (s_ver v)) &&
  field_rel (s_pv v) (j_pv j) && field_rel (s_mv v) (j_mv j).
Definition check_marshal := marshal_rel.

(* UnmarshalJSON into a zero vector; None = error *)
Definition unmarshal (j : jvec) : option svec :=
  let cvcas := match j_cvcas j with
               | Some (c :: r) => hex_cas_to_uint64 (c :: r)
               | _ => 0
               end in
  let ver := hex_cas_to_uint64 (j_ver j) in
  match (match j_pv j with Some l => persisted_deltas_to_map l | None => Some [] end) with
  | None => None
  | Some p =>
      match (match j_mv j with Some l => persisted_deltas_to_map l | None => Some [] end) with
      | None => None
      | Some m => Some (mkS cvcas (j_src j) ver m p)
      end
  end.

(* ---------- wire form ---------- *)
(* Version.String: "" for the zero version *)
Definition version_string (e : bytes * N) : bytes :=
  match fst e with
  | [] => if snd e =? 0 then [] else to_hex (snd e) ++ [AT]
  | _ => to_hex (snd e) ++ AT :: fst e
  end.

(* GetCurrentVersionString *)
Definition cv_string (v : svec) : bytes :=
  match s_src v with
  | [] => []
  | _ => version_string (s_src v, s_ver v)
  end.

(* toHistoryForHLV with the maps ranged over in the order of the lists *)
Definition to_history (v : svec) : bytes :=
  join (map version_string (s_mv v)) COMMA ++
  (match s_mv v with [] => [] | _ => [SEMI] end) ++
  join (map version_string (s_pv v)) COMMA.
Definition check_history_string (v : svec) (h : bytes) : bool := bytes_eqb (to_history v) h.

(* the receiving side glues rev and history (GetHLVFromRevMessage) *)
Definition wire_join (rev hist : bytes) : bytes :=
  match hist with
  | [] => rev
  | _ => if existsb (N.eqb SEMI) hist then rev ++ COMMA :: hist else rev ++ SEMI :: hist
  end.

(* strconv.Atoi(s) >= 1, for isLegacyRev: optional '+', at least one decimal digit, below 2^63 *)
Fixpoint dec_acc (l : bytes) (acc : N) : option N :=
  match l with
  | [] => Some acc
  | c :: r => if (48 <=? c) && (c <=? 57) then dec_acc r (10 * acc + (c - 48)) else None
  end.
Definition atoi_ge1 (s : bytes) : bool :=
  let body := match s with 43 :: r => r | _ => s end in
  match body with
  | [] => false
  | _ => match dec_acc body 0 with
         | Some v => (1 <=? v) && (v <? 9223372036854775808)
         | None => false
         end
  end.

Definition is_legacy_rev (rev : bytes) : bool :=
  match cut rev DASH with
  | Some (gen, _) => atoi_ge1 gen
  | None => false
  end.

Definition strip_space (s : bytes) : bytes :=
  match s with c :: r => if c =? SPACE then r else s | [] => [] end.

(* ParseVersion *)
Definition parse_version (s : bytes) : option (bytes * N) :=
  match cut s AT with
  | None => None
  | Some (ts, src) => match parse_uint_hex (strip_space ts) with
                      | Some v => Some (src, v)
                      | None => None
                      end
  end.

(* parseVectorValues: versions, legacy revision ids; None = error *)
Fixpoint parse_values (l : list bytes) : option (list (bytes * N) * list bytes) :=
  match l with
  | [] => Some ([], [])
  | x :: r =>
      let x' := strip_space x in
      match parse_version x' with
      | Some ver => match parse_values r with
                    | Some (vs, lg) => Some (ver :: vs, lg)
                    | None => None
                    end
      | None => if is_legacy_rev x' then
                  match parse_values r with
                  | Some (vs, lg) => Some (vs, x' :: lg)
                  | None => None
                  end
                else None
      end
  end.
Definition parse_vector_values (s : bytes) : option (list (bytes * N) * list bytes) :=
  parse_values (split s COMMA).

Fixpoint add_mvs (src : bytes) (ver : N) (l : list (bytes * N)) (acc : smap) : option smap :=
  match l with
  | [] => Some acc
  | (s, v) :: r =>
      if smem acc s then None
      else if bytes_eqb s src && (v =? ver) then None
      else add_mvs src ver r (sset acc s v)
  end.

Fixpoint add_pvs (mvm : smap) (l : list (bytes * N)) (acc : smap) : option smap :=
  match l with
  | [] => Some acc
  | (s, v) :: r =>
      if smem acc s then None
      else if smem mvm s then None
      else add_pvs mvm r (sset acc s v)
  end.

(* extractHLVFromBlipString: the vector and the legacy revision ids found in the history; None = error *)
Definition extract_hlv (str : bytes) : option (svec * list bytes) :=
  match split str SEMI with
  | [f0] =>
      match f0 with
      | [] => None
      | _ => match parse_vector_values f0 with
             | Some ((s, v) :: rest, []) =>
                 match add_mvs s v rest [] with
                 | Some m => Some (mkS 0 s v m [], [])
                 | None => None
                 end
             | _ => None
             end
      end
  | [f0; f1] =>
      match parse_vector_values f0 with
      | Some ((s, v) :: rest, []) =>
          match add_mvs s v rest [] with
          | Some m =>
              match f1 with
              | [] => Some (mkS 0 s v m [], [])
              | _ => match parse_vector_values f1 with
                     | Some (pvl, lg) =>
                         match add_pvs m pvl [] with
                         | Some p => Some (mkS 0 s v m p, lg)
                         | None => None
                         end
                     | None => None
                     end
              end
          | None => None
          end
      | _ => None
      end
  | _ => None
  end.
