(* C10 correspondence: cases observed on the real db.HybridLogicalVector API (and the hex helpers of
   base/util.go) by harness/db/verif_c10_test.go are re-evaluated here on the model with vm_compute.
   Source names are interned by the harness (0 = the empty name); maps are compared extensionally. *)
From SG Require Export Base.Prelude Base.Bytes C10.AMap C10.HLV C10.Replica C10.HLVCodec
                       C10.HLVUpdate C10.HLVCompact C10.HLVJson C10.HLVLegacy.
Open Scope N_scope.

Definition H := mkH.

Inductive hres := HR (h : hlv) (c : N).

(* a tree of histories sharing prefixes: event, observed outcome, observed vector of the acting replica,
   continuations *)
Inductive htree := HT (e : ev) (o : outcome) (h : hlv) (kids : list htree).

(* nested list literals are slow to elaborate: tables are flattened (row-major) or packed into numbers *)
Inductive case :=
(* a history over replicas 1..3: after every event the outcome and the vector of the acting replica *)
| CHistory (evs : list ev) (obs : list (outcome * hlv))
(* all histories of a bounded-exhaustive sweep that start with the same event *)
| CHistoryTree (t : htree)
(* tables over one vector: GetValue and maxValueForSource for every s in ss, DominatesSource for ss x vs *)
| CUnary (h : hlv) (ss vs : list N) (gv : list (option N)) (mx : list N) (dom : list bool)
(* InvalidateMV, AddVersion (ss x vs), AddVersionToPV (ss x vs, with the outcome code) on copies of one vector *)
| CMut (h : hlv) (ss vs : list N) (inv : hlv) (av : list (option hlv)) (atp : list hres)
(* UpdateHistory(h, inc) and MergeWithIncomingHLV(h, (s,v), inc) for every inc of a list *)
| CBinRow (h : hlv) (incs : list hlv) (uh : list hlv) (s v : N) (mg : list (option hlv))
| CGetValue (h : hlv) (s : N) (r : option N)
| CDominates (h : hlv) (s v : N) (r : bool)
(* IsInConflict(local = hs[i], incoming = hs[j]) coded 1 no conflict, 2 conflict, 3 already present, row-major,
   packed 27 codes per number: sum over k of code_k * 4^k *)
| CConflictTable (hs : list hlv) (packed : list N)
| CConflict (hl hi : hlv) (r : N)
| CAddVersion (h : hlv) (s v : N) (r : option hlv)
| CInvalidate (h r : hlv)
| CAddToPV (h : hlv) (s v : N) (r : hlv) (res : N)
| CUpdateHistory (h inc r : hlv)
| CUpdate (h inc r : hlv)
| CMerge (h : hlv) (s v : N) (inc : hlv) (r : option hlv)
| CMaxValue (h : hlv) (s r : N)
| CNow (phys highest floor r : N)
(* codecs *)
| CLeHex (v : N) (out : list N)                       (* Uint64ToLittleEndianHexAndStripZeros *)
| CLeHexDecode (inp : list N) (r : option N)          (* HexCasToUint64ForDelta *)
| CCasString (v : N) (out : list N)                   (* CasToString *)
| CCasParse (inp : list N) (r : N)                    (* HexCasToUint64 *)
| CDeltas (m : list (list N * N)) (out : list (list N))        (* VersionsToDeltas: the strings produced, in order *)
| CFromDeltas (inp : list (list N)) (r : option (list (list N * N)))   (* PersistedDeltasToMap *)
| CMarshal (v : svec) (j : jvec)                      (* MarshalJSON, fields of the JSON object *)
| CUnmarshal (j : jvec) (r : option svec)             (* UnmarshalJSON into a fresh vector *)
| CWirePrint (v : svec) (rev : list N) (history : list N)   (* GetCurrentVersionString, ToHistoryForHLV (entries in the order used) *)
| CWireParse (inp : list N) (r : option (svec * list (list N)))    (* extractHLVFromBlipString *)
(* ---- deepening round ---- *)
(* compactWithValue(c) on h gave r *)
| CCompact (h : hlv) (c : N) (r : hlv)
(* UpdateWithIncomingHLV(local = hl, incoming = hi): for every local version p of ps, does the result still
   dominate p -- against the formula [keptb] of the general update lemma and against the model of the update *)
| CKept (hl hi : hlv) (ps : list (N * N)) (flags : list bool)
(* the same for one local vector against a list of incoming vectors (flags row-major: per incoming vector, per version) *)
| CKeptRow (hl : hlv) (his : list hlv) (ps : list (N * N)) (flags : list bool)
(* MarshalJSON: the vector, the fields read back from the bytes, the bytes *)
| CMarshalBytes (v : svec) (j : jvec) (out : list N)
(* UnmarshalJSON on bytes MarshalJSON produced *)
| CUnmarshalBytes (inp : list N) (r : option svec)
(* LegacyRevToRevTreeEncodedVersion (value or error) and GetGenerationFromEncodedVersionValue of the value *)
| CLegacyRev (rev : list N) (r : option N) (gen : N)
(* rev + history properties built by buildRevHistory / blipRevMessageProperties for a legacy peer (lg = revID ::
   revTreeHistory, the maps ranged over in list order) and what GetHLVFromRevMessage made of them *)
| CWireLegacy (v : svec) (lg : list (list N)) (rev hist : list N) (r : option (svec * list (list N))).

Definition status_code (s : status) : N :=
  match s with NoConflict => 1 | Conflict => 2 | AlreadyPresent => 3 end.
Definition pvres_code (r : pvres) : N :=
  match r with AddedToPV => 0 | SourceIsCV => 1 | InMVOlder => 2 | InMVNewer => 3 | InPVNewer => 4 end.

Definition outcome_eqb (a b : outcome) : bool :=
  match a, b with
  | ONone, ONone | OEditError, OEditError | OCopied, OCopied | OKnown, OKnown
  | OFastForward, OFastForward | OSameMerge, OSameMerge | OMergeError, OMergeError | ORestarted, ORestarted => true
  | OEdited x, OEdited y | OMerged x, OMerged y => x =? y
  | _, _ => false
  end.

Fixpoint pack4 (l : list N) : N :=
  match l with
  | [] => 0
  | c :: r => c + 4 * pack4 r
  end.

(* split a list into pieces of n elements (the last one may be shorter) *)
Fixpoint chunks {A} (n : nat) (fuel : nat) (l : list A) : list (list A) :=
  match fuel with
  | O => []
  | S f => match l with
           | [] => []
           | _ => firstn n l :: chunks n f (skipn n l)
           end
  end.

Definition actor (e : ev) : N :=
  match e with EEdit r _ => r | EPull r _ _ => r | ERestart r => r end.

Fixpoint check_history (st : state) (evs : list ev) (obs : list (outcome * hlv)) : bool :=
  match evs, obs with
  | [], [] => true
  | e :: evs', (o, h) :: obs' =>
      let '(st', o') := step st e in
      outcome_eqb o' o && hlv_eqb (rh (st' (actor e))) h && check_history st' evs' obs'
  | _, _ => false
  end.

Fixpoint check_tree (st : state) (t : htree) : bool :=
  match t with
  | HT e o h kids =>
      let '(st', o') := step st e in
      outcome_eqb o' o && hlv_eqb (rh (st' (actor e))) h && forallb (check_tree st') kids
  end.

Definition opt_hlv_eqb (a b : option hlv) : bool := option_eqb hlv_eqb a b.

Definition check (c : case) : bool :=
  match c with
  | CHistory evs obs => check_history init evs obs
  | CHistoryTree t => check_tree init t
  | CUnary h ss vs gv mx dom =>
      list_eqb (option_eqb N.eqb) (map (get_value h) ss) gv &&
      list_eqb N.eqb (map (max_value_for_source h) ss) mx &&
      list_eqb Bool.eqb (flat_map (fun s => map (fun v => dominates h (s, v)) vs) ss) dom
  | CMut h ss vs inv av atp =>
      hlv_eqb (invalidate_mv h) inv &&
      list_eqb opt_hlv_eqb (flat_map (fun s => map (fun v => add_version h (s, v)) vs) ss) av &&
      list_eqb (fun a b => match a, b with HR ha ca, HR hb cb => hlv_eqb ha hb && (ca =? cb) end)
               (flat_map (fun s => map (fun v => HR (fst (add_version_to_pv h s v)) (pvres_code (snd (add_version_to_pv h s v)))) vs) ss) atp
  | CBinRow h incs uh s v mg =>
      list_eqb hlv_eqb (map (update_history h) incs) uh &&
      list_eqb opt_hlv_eqb (map (merge_with_incoming h (s, v)) incs) mg
  | CGetValue h s r => option_eqb N.eqb (get_value h s) r
  | CDominates h s v r => Bool.eqb (dominates h (s, v)) r
  | CConflictTable hs rows =>
      list_eqb N.eqb (map pack4 (chunks 27 (S (length hs * length hs))
                                          (flat_map (fun a => map (fun b => status_code (is_in_conflict a b)) hs) hs))) rows
  | CConflict hl hi r => status_code (is_in_conflict hl hi) =? r
  | CAddVersion h s v r => opt_hlv_eqb (add_version h (s, v)) r
  | CInvalidate h r => hlv_eqb (invalidate_mv h) r
  | CAddToPV h s v r res =>
      hlv_eqb (fst (add_version_to_pv h s v)) r && (pvres_code (snd (add_version_to_pv h s v)) =? res)
  | CUpdateHistory h inc r => hlv_eqb (update_history h inc) r
  | CUpdate h inc r => hlv_eqb (update_with_incoming h inc) r
  | CMerge h s v inc r => opt_hlv_eqb (merge_with_incoming h (s, v) inc) r
  | CMaxValue h s r => max_value_for_source h s =? r
  | CNow phys hi fl r => hlc_now phys hi fl =? r
  | CLeHex v out => bytes_eqb (le_hex_strip v) out
  | CLeHexDecode inp r => option_eqb N.eqb (le_hex_decode inp) r
  | CCasString v out => bytes_eqb (cas_to_string v) out
  | CCasParse inp r => hex_cas_to_uint64 inp =? r
  | CDeltas m out => check_deltas m out
  | CFromDeltas inp r => option_eqb smap_eqb (persisted_deltas_to_map inp) r
  | CMarshal v j => check_marshal v j
  | CUnmarshal j r => option_eqb svec_eqb (unmarshal j) r
  | CWirePrint v rev hist => bytes_eqb (cv_string v) rev && check_history_string v hist
  | CWireParse inp r => option_eqb (fun a b => svec_eqb (fst a) (fst b) && list_eqb bytes_eqb (snd a) (snd b)) (extract_hlv inp) r
  | CCompact h c r => check_compact h c r
  | CKept hl hi ps flags =>
      list_eqb Bool.eqb (map (keptb hl hi) ps) flags &&
      list_eqb Bool.eqb (map (dominates (update_with_incoming hl hi)) ps) flags
  | CKeptRow hl his ps flags =>
      list_eqb Bool.eqb (flat_map (fun hi => map (keptb hl hi) ps) his) flags &&
      list_eqb Bool.eqb (flat_map (fun hi => map (dominates (update_with_incoming hl hi)) ps) his) flags
  | CMarshalBytes v j out => check_marshal_bytes v j out
  | CUnmarshalBytes inp r => option_eqb svec_eqb (unmarshal_bytes inp) r
  | CLegacyRev rev r gen => check_legacy rev r gen
  | CWireLegacy v lg rev hist r => check_wire_legacy v lg rev hist r
  end.

Definition mismatches (cs : list case) : list N := failing check cs.
