(* C10 proofs, part 4: ALL histories (no [clean] hypothesis).  Next to the set [rseen] of versions a replica
   has really seen, [rec_step] maintains the set of versions its vector still RECORDS: an accepted pull
   (fast-forward or same-merge) keeps of the local recorded versions exactly those selected by
   [keptb] (HLVUpdate.v: known to the incoming vector, or under a source that is not blocked); every
   other event records everything.  For every history every reachable vector represents its recorded
   set, the recorded set is a subset of the seen set, AddVersion / MergeWithIncomingHLV never reject a
   generated version; in a clean history recorded = seen. *)
From SG Require Import Base.Prelude C10.AMap C10.HLV C10.HLVProofs C10.HLVOps C10.HLVUpdate C10.Replica C10.ReplicaProofs.
Open Scope N_scope.
#[local] Arguments N.max : simpl never.
#[local] Arguments N.eqb : simpl never.
#[local] Arguments N.leb : simpl never.
#[local] Arguments N.ltb : simpl never.
#[local] Arguments N.add : simpl never.

Definition recs := N -> list version.
Definition rinit : recs := fun _ => [].
Definition rupd (rc : recs) (r : N) (x : list version) : recs := fun q => if q =? r then x else rc q.

Definition rec_step (st : state) (rc : recs) (e : ev) : recs :=
  match e, snd (step st e) with
  | EEdit r _, OEdited v => rupd rc r ((r, v) :: rc r)
  | EPull r q _, OCopied => rupd rc r (rc q)
  | EPull r q _, OFastForward => rupd rc r (rc q ++ filter (keptb (rh (st r)) (rh (st q))) (rc r))
  | EPull r q _, OSameMerge => rupd rc r (rc q ++ filter (keptb (rh (st r)) (rh (st q))) (rc r))
  | EPull r q _, OMerged v => rupd rc r ((r, v) :: rc r ++ rc q)
  | _, _ => rc
  end.

Fixpoint rec_run_from (st : state) (rc : recs) (evs : list ev) : recs :=
  match evs with
  | [] => rc
  | e :: r => rec_run_from (fst (step st e)) (rec_step st rc e) r
  end.
Definition rec_run (evs : list ev) : recs := rec_run_from init rinit evs.

Record InvR (st : state) (rc : recs) (r : N) : Prop := mkInvR {
  ia_good : good (rc r);
  ia_incl : incl (rc r) (rseen (st r));
  ia_emp : src (rh (st r)) = 0 -> rh (st r) = empty_hlv /\ rc r = [];
  ia_repr : src (rh (st r)) <> 0 -> repr (rh (st r)) (rc r)
}.
Definition InvA (st : state) (rc : recs) : Prop := forall r, InvR st rc r.

Lemma invA_init : InvA init rinit.
Proof.
  intros r. constructor; cbn.
  - intros s v [].
  - intros p [].
  - auto.
  - tauto.
Qed.

Lemma rupd_same : forall rc r x, rupd rc r x r = x.
Proof. intros. unfold rupd. now rewrite N.eqb_refl. Qed.
Lemma rupd_other : forall rc r x q, q <> r -> rupd rc r x q = rc q.
Proof. intros. unfold rupd. destruct (N.eqb_spec q r); [tauto|reflexivity]. Qed.

(* the acting replica gets a new vector / seen set / recorded set *)
Lemma invA_upd : forall st rc r h' S' c' R',
  InvA st rc -> good R' -> incl R' S' -> src h' <> 0 -> repr h' R' ->
  InvA (upd st r (mkR h' S' c')) (rupd rc r R').
Proof.
  intros st rc r h' S' c' R' I G Inc Hs Rp q. destruct (N.eq_dec q r) as [->|N].
  - constructor; rewrite ?upd_same, ?rupd_same; cbn [rh rseen]; auto. tauto.
  - destruct (I q) as [A B C D]. constructor; rewrite ?upd_other, ?rupd_other by auto; auto.
Qed.

(* only the clock (or nothing) changes *)
Lemma invA_clock : forall st rc r c, InvA st rc -> InvA (upd st r (mkR (rh (st r)) (rseen (st r)) c)) rc.
Proof.
  intros st rc r c I q. destruct (I q) as [A B C D]. destruct (N.eq_dec q r) as [->|N].
  - constructor; rewrite ?upd_same; cbn [rh rseen]; auto.
  - constructor; rewrite ?upd_other by auto; auto.
Qed.

Lemma good_filter : forall S f, good S -> good (filter f S).
Proof. intros S f G s v I. apply filter_In in I. apply (G s v). tauto. Qed.

Lemma hlc_pos : forall phys hi floor, hlc_now phys hi floor <> 0.
Proof. intros. unfold hlc_now. lia. Qed.

(* ---------- one step, any event, no side condition ---------- *)
Theorem step_invA : forall st rc e, InvA st rc ->
  InvA (fst (step st e)) (rec_step st rc e) /\ snd (step st e) <> OEditError /\ snd (step st e) <> OMergeError.
Proof.
  intros st rc e I. destruct e as [r phys | r q phys | r]; unfold rec_step; cbn [step].
  - (* edit *)
    destruct (N.eqb_spec r 0); [cbn [fst snd]; split; [exact I | split; discriminate]|].
    set (x := st r). set (fl := max_value_for_source (rh x) r). set (v := hlc_now phys (rclk x) fl).
    assert (Hv : fl < v) by apply hlc_now_gt.
    destruct (I r) as [G Inc Emp Rp]. fold x in Inc, Emp, Rp.
    destruct (N.eq_dec (src (rh x)) 0) as [E|E].
    + destruct (Emp E) as [Eh Es]. destruct (add_version_empty r v) as [A R]; [auto|lia|].
      rewrite Eh, A. cbn [fst snd]. split; [|split; discriminate].
      apply invA_upd; [exact I| | | |].
      * rewrite Es. apply good_cons; [intros s0 v0 []|auto|lia].
      * rewrite Es. intros p [<-|[]]. left. reflexivity.
      * cbn. auto.
      * rewrite Es. exact R.
    + destruct (add_version_repr (rh x) (rc r) r v) as [h' [A [R [S1 _]]]]; auto.
      rewrite A. cbn [fst snd]. split; [|split; discriminate].
      apply invA_upd; [exact I| | | |exact R].
      * apply good_cons; auto. lia.
      * intros p [<-|J]; [left; reflexivity | right; now apply Inc].
      * congruence.
  - (* pull *)
    destruct ((r =? 0) || (q =? 0) || (r =? q)) eqn:Guard; [cbn [fst snd]; split; [exact I | split; discriminate]|].
    apply orb_false_elim in Guard. destruct Guard as [Guard Nrq]. apply orb_false_elim in Guard.
    destruct Guard as [Nr Nq]. apply N.eqb_neq in Nr, Nq, Nrq.
    set (l := st r). set (i := st q).
    destruct (I r) as [Gl Incl Empl Rl]. destruct (I q) as [Gi Inci Empi Ri]. fold l in Incl, Empl, Rl. fold i in Inci, Empi, Ri.
    destruct (N.eqb_spec (src (rh i)) 0) as [Ei|Ei]; [cbn [fst snd]; split; [exact I | split; discriminate]|].
    specialize (Ri Ei).
    destruct (N.eqb_spec (src (rh l)) 0) as [El|El].
    + (* first copy *)
      destruct (Empl El) as [Eh Es]. cbn [fst snd]. split; [|split; discriminate].
      rewrite Eh, update_empty. apply invA_upd; [exact I|exact Gi| |exact Ei|exact Ri].
      intros p J. apply in_or_app. right. now apply Inci.
    + specialize (Rl El).
      destruct (update_general (rh l) (rh i) (rc r) (rc q) Gl Gi Rl Ri) as [RU [CU _]]. cbn zeta in RU, CU.
      assert (AccA : InvA (upd st r (mkR (update_with_incoming (rh l) (rh i)) (rseen l ++ rseen i) (rclk l)))
                          (rupd rc r (rc q ++ filter (keptb (rh l) (rh i)) (rc r)))).
      { apply invA_upd; [exact I| | | |exact RU].
        - apply good_app; auto. now apply good_filter.
        - intros p J. apply in_app_or in J. apply in_or_app. destruct J as [J|J]; [right; now apply Inci|].
          apply filter_In in J. left. apply Incl. tauto.
        - unfold cv in CU. inversion CU. congruence. }
      destruct (is_in_conflict (rh l) (rh i)) eqn:V.
      * (* accepted: fast-forward or same-merge *)
        cbn [fst snd]. split; [|split; destruct (dominates (rh i) (cv (rh l))); discriminate].
        destruct (dominates (rh i) (cv (rh l))); exact AccA.
      * (* conflict: merge *)
        set (fl := N.max (max_value_for_source (rh l) r) (max_value_for_source (rh i) r)).
        set (v := hlc_now phys (rclk l) fl).
        assert (Hv : fl < v) by apply hlc_now_gt.
        destruct (status_cases (rh l) (rh i)) as [_ [C _]]. destruct C as [C _]. specialize (C V).
        destruct C as [_ [Di [Dl _]]].
        destruct (merge_repr (rh l) (rh i) (rc r) (rc q) r v) as [h' [A [R [CV _]]]]; auto; try lia.
        rewrite A. cbn [fst snd]. split; [|split; discriminate].
        apply invA_upd; [exact I| | | |exact R].
        -- apply good_cons; [apply good_app; auto | auto | lia].
        -- intros p [<-|J]; [left; reflexivity|]. right. apply in_app_or in J. apply in_or_app.
           destruct J as [J|J]; [left; now apply Incl | right; now apply Inci].
        -- unfold cv in CV. inversion CV. congruence.
      * cbn [fst snd]. split; [exact I | split; discriminate].
  - cbn [fst snd]. split; [|split; discriminate]. now apply invA_clock.
Qed.

Lemma run_from_invA : forall evs st rc, InvA st rc -> InvA (run_from st evs) (rec_run_from st rc evs).
Proof.
  induction evs as [|e r IH]; intros st rc I; [exact I|].
  cbn. apply IH. now apply step_invA.
Qed.

(* EVERY history: each reachable vector represents the versions it records, which are versions its
   replica has seen *)
Theorem history_repr_all : forall evs, InvA (run evs) (rec_run evs).
Proof. intros evs. apply run_from_invA. apply invA_init. Qed.

Lemma no_errors_from_all : forall evs st rc, InvA st rc ->
  ~ In OEditError (outcomes_from st evs) /\ ~ In OMergeError (outcomes_from st evs).
Proof.
  induction evs as [|e r IH]; intros st rc I; [cbn; tauto|].
  cbn. destruct (step_invA st rc e I) as [I' [N1 N2]].
  destruct (IH _ _ I') as [A B]. split; intros [H|H]; auto.
Qed.

Theorem history_no_errors_all : forall evs,
  ~ In OEditError (outcomes_from init evs) /\ ~ In OMergeError (outcomes_from init evs).
Proof. intros evs. apply (no_errors_from_all evs init rinit invA_init). Qed.

(* the conflict verdict between any two replicas of any reachable state, against the recorded sets *)
Theorem history_conflict_all : forall evs r q,
  src (rh (run evs r)) <> 0 -> src (rh (run evs q)) <> 0 ->
  let hl := rh (run evs r) in let hi := rh (run evs q) in
  (is_in_conflict hl hi = Conflict <->
   ~ seenV (rec_run evs r) (cv hi) /\ ~ seenV (rec_run evs q) (cv hl) /\ same_merge hl hi = false).
Proof.
  intros evs r q Hr Hq. cbn zeta.
  destruct (history_repr_all evs r) as [Gl _ _ Rl]. destruct (history_repr_all evs q) as [Gi _ _ Ri].
  apply conflict_iff_concurrent; auto.
Qed.

(* locally generated versions are above the floor and above every version of the source the replica's
   own vector records -- in every history *)
Theorem generated_versions_new_all : forall st rc e r v, InvA st rc ->
  generated e (snd (step st e)) = Some (r, v) ->
  max_value_for_source (rh (st r)) r < v /\ (forall x, In (r, x) (rc r) -> x < v).
Proof.
  intros st rc e r v I G.
  assert (F : max_value_for_source (rh (st r)) r < v).
  { destruct e as [r0 phys | r0 q phys | r0]; cbn [step] in G.
    - destruct (N.eqb_spec r0 0); [discriminate|].
      destruct (add_version (rh (st r0)) (r0, _)) eqn:A; cbn in G; [|discriminate]. inv G. apply hlc_now_gt.
    - destruct ((r0 =? 0) || (q =? 0) || (r0 =? q)); [discriminate|].
      destruct (src (rh (st q)) =? 0); [discriminate|].
      destruct (src (rh (st r0)) =? 0); [discriminate|].
      destruct (is_in_conflict (rh (st r0)) (rh (st q))); cbn in G; try discriminate.
      + destruct (dominates (rh (st q)) (cv (rh (st r0)))); discriminate.
      + destruct (merge_with_incoming (rh (st r0)) (r0, _) (rh (st q))) eqn:A; cbn in G; [|discriminate]. inv G.
        set (fl := N.max (max_value_for_source (rh (st r)) r) (max_value_for_source (rh (st q)) r)).
        assert (F : fl < hlc_now phys (rclk (st r)) fl) by apply hlc_now_gt. lia.
    - discriminate. }
  split; [exact F|]. intros x J. destruct (I r) as [Gd _ Emp Rp].
  destruct (N.eq_dec (src (rh (st r))) 0) as [E|E].
  - destruct (Emp E) as [_ Es]. rewrite Es in J. destruct J.
  - destruct (Rp E) as [W [_ DO]]. destruct (Gd _ _ J) as [_ Hx]. apply DO in J.
    apply dominates_value in J; auto. pose proof (mvfs_ge_value (rh (st r)) r W). lia.
Qed.

(* ---------- clean histories record everything ---------- *)
Definition same_set (A B : list version) : Prop := forall p, In p A <-> In p B.

Lemma step_records_all : forall st rc e, Inv st -> InvA st rc -> snd (step st e) <> OSameMerge ->
  (forall r, same_set (rc r) (rseen (st r))) ->
  forall r, same_set (rec_step st rc e r) (rseen (fst (step st e) r)).
Proof.
  intros st rc e I IA NS EQ. destruct e as [r phys | r q phys | r]; unfold rec_step in *; cbn [step] in *.
  - destruct (N.eqb_spec r 0); [cbn [fst snd]; exact EQ|].
    destruct (add_version (rh (st r)) (r, _)); cbn [fst snd]; intros q p.
    + destruct (N.eq_dec q r) as [->|N]; [rewrite upd_same, rupd_same | rewrite upd_other, rupd_other by auto; apply EQ].
      cbn [rseen In]. now rewrite (EQ r p).
    + destruct (N.eq_dec q r) as [->|N]; [rewrite upd_same | rewrite upd_other by auto]; cbn [rseen]; apply EQ.
  - destruct ((r =? 0) || (q =? 0) || (r =? q)) eqn:Guard; [cbn [fst snd]; exact EQ|].
    destruct (N.eqb_spec (src (rh (st q))) 0) as [Ei|Ei]; [cbn [fst snd]; exact EQ|].
    destruct (N.eqb_spec (src (rh (st r))) 0) as [El|El].
    + cbn [fst snd]. intros q0 p.
      destruct (N.eq_dec q0 r) as [->|N]; [rewrite upd_same, rupd_same | rewrite upd_other, rupd_other by auto; apply EQ].
      cbn [rseen]. destruct (inv_emp _ I _ El) as [_ Es]. rewrite Es. cbn [app]. apply EQ.
    + destruct (is_in_conflict (rh (st r)) (rh (st q))) eqn:V.
      * cbn [fst snd] in *. destruct (dominates (rh (st q)) (cv (rh (st r)))) eqn:D; [|congruence].
        intros q0 p.
        destruct (N.eq_dec q0 r) as [->|N]; [rewrite upd_same, rupd_same | rewrite upd_other, rupd_other by auto; apply EQ].
        cbn [rseen]. apply (dominates_in st r q I El Ei) in D.
        destruct (inv_caus _ I _ _ El D) as [Inc _].
        rewrite !in_app_iff, filter_In, (EQ r p), (EQ q p). split; [tauto|].
        intros [J|J]; [left; now apply Inc | left; exact J].
      * destruct (merge_with_incoming (rh (st r)) (r, _) (rh (st q))); cbn [fst snd]; intros q0 p.
        -- destruct (N.eq_dec q0 r) as [->|N]; [rewrite upd_same, rupd_same | rewrite upd_other, rupd_other by auto; apply EQ].
           cbn [rseen In]. now rewrite !in_app_iff, (EQ r p), (EQ q p).
        -- destruct (N.eq_dec q0 r) as [->|N]; [rewrite upd_same | rewrite upd_other by auto]; cbn [rseen]; apply EQ.
      * cbn [fst snd]. exact EQ.
  - cbn [fst snd]. intros q p. destruct (N.eq_dec q r) as [->|N]; [rewrite upd_same | rewrite upd_other by auto]; cbn [rseen]; apply EQ.
Qed.

Lemma run_from_records_all : forall evs st rc, Inv st -> InvA st rc -> clean_from st evs ->
  (forall r, same_set (rc r) (rseen (st r))) ->
  forall r, same_set (rec_run_from st rc evs r) (rseen (run_from st evs r)).
Proof.
  induction evs as [|e t IH]; intros st rc I IA C EQ; [exact EQ|].
  cbn in *. destruct C as [C1 C2]. apply IH; auto.
  - now apply step_inv.
  - now apply step_invA.
  - now apply step_records_all.
Qed.

(* in a clean history (no same-merge acceptance) every vector records all its replica has seen: the
   all-histories theorem specialises to the partial one *)
Theorem clean_records_all : forall evs, clean evs -> forall r, same_set (rec_run evs r) (rseen (run evs r)).
Proof.
  intros evs C. apply run_from_records_all; auto using inv_init, invA_init.
  intros r p. cbn. tauto.
Qed.

(* every accepted pull of a reachable state of a clean history that is not accepted on the same-merge
   rule loses nothing (the hypothesis of [update_repr] is met) *)
Theorem history_fast_forward_lossless : forall evs r q, clean evs ->
  src (rh (run evs r)) <> 0 -> src (rh (run evs q)) <> 0 ->
  dominates (rh (run evs q)) (cv (rh (run evs r))) = true ->
  let hl := rh (run evs r) in let hi := rh (run evs q) in
  update_with_incoming hl hi = hi /\
  repr (update_with_incoming hl hi) (rseen (run evs r) ++ rseen (run evs q)).
Proof.
  intros evs r q C Hr Hq D. cbn zeta. pose proof (history_repr evs C) as I.
  apply (dominates_in _ r q I Hr Hq) in D. destruct (inv_caus _ I _ _ Hr D) as [Inc _].
  destruct (update_repr (rh (run evs r)) (rh (run evs q)) (rseen (run evs r)) (rseen (run evs q))
              (inv_good _ I r) (inv_good _ I q) (inv_repr _ I _ Hr) (inv_repr _ I _ Hq) Inc) as [E [R _]].
  split; [exact E | exact R].
Qed.
