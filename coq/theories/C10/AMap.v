(* C10: association lists with keys and values in N (the Go type HLVVersions = map[string]uint64 with
   source names interned as numbers; 0 stands for the empty source name "").  Executable; the order of
   the entries is an artefact of the model, all observations go through [lookup]. *)
From SG Require Import Base.Prelude.
Open Scope N_scope.

Definition amap := list (N * N).

Fixpoint lookup (m : amap) (k : N) : option N :=
  match m with
  | [] => None
  | (k', v) :: r => if k' =? k then Some v else lookup r k
  end.

Definition remove (m : amap) (k : N) : amap := filter (fun p => negb (fst p =? k)) m.

(* Go: m[k] = v *)
Definition set (m : amap) (k v : N) : amap := (k, v) :: remove m k.

Definition keys (m : amap) : list N := map fst m.

Definition mem (m : amap) (k : N) : bool :=
  match lookup m k with Some _ => true | None => false end.

(* value or 0 (Go: m[k] on a missing key) *)
Definition lookup0 (m : amap) (k : N) : N :=
  match lookup m k with Some v => v | None => 0 end.

(* Go: maps.Equal -- same length, same value under every key (the lists here have distinct keys) *)
Definition sub_map (a b : amap) : bool :=
  forallb (fun p => match lookup b (fst p) with Some v => v =? snd p | None => false end) a.
Definition map_equal (a b : amap) : bool :=
  (N.of_nat (length a) =? N.of_nat (length b)) && sub_map a b.

Fixpoint nodupb (l : list N) : bool :=
  match l with
  | [] => true
  | x :: r => negb (existsb (N.eqb x) r) && nodupb r
  end.

(* extensional equality used by the correspondence: both key lists duplicate free, same entries *)
Definition amap_eqb (a b : amap) : bool :=
  nodupb (keys a) && nodupb (keys b) && map_equal a b.

(* ---------- lemmas ---------- *)
Lemma lookup_In : forall m k v, lookup m k = Some v -> In (k, v) m.
Proof.
  induction m as [|[k' v'] r IH]; cbn; intros k v H; [discriminate|].
  destruct (N.eqb_spec k' k).
  - inv H. auto.
  - right. eauto.
Qed.

Lemma lookup_In_keys : forall m k v, lookup m k = Some v -> In k (keys m).
Proof. intros m k v H. apply lookup_In in H. unfold keys. change k with (fst (k, v)). now apply in_map. Qed.

Lemma lookup_None_keys : forall m k, lookup m k = None <-> ~ In k (keys m).
Proof.
  induction m as [|[k' v'] r IH]; cbn; intros k.
  - tauto.
  - destruct (N.eqb_spec k' k).
    + split; [discriminate| intros H; exfalso; apply H; auto].
    + rewrite IH. tauto.
Qed.

Lemma In_lookup : forall m k v, NoDup (keys m) -> In (k, v) m -> lookup m k = Some v.
Proof.
  induction m as [|[k' v'] r IH]; cbn; intros k v ND H; [tauto|].
  inv ND. destruct H as [H|H].
  - inv H. now rewrite N.eqb_refl.
  - destruct (N.eqb_spec k' k).
    + subst. exfalso. apply H2. change k with (fst (k, v)). now apply in_map.
    + auto.
Qed.

Lemma In_keys_lookup : forall m k, In k (keys m) -> exists v, lookup m k = Some v.
Proof.
  intros m k H. destruct (lookup m k) eqn:E; [eauto|]. apply lookup_None_keys in E. tauto.
Qed.

Lemma In_remove : forall m k p, In p (remove m k) <-> In p m /\ fst p <> k.
Proof.
  intros m k p. unfold remove. rewrite filter_In. destruct (N.eqb_spec (fst p) k); cbn; intuition congruence.
Qed.

Lemma keys_remove : forall m k x, In x (keys (remove m k)) <-> In x (keys m) /\ x <> k.
Proof.
  intros m k x. unfold keys. rewrite !in_map_iff. split.
  - intros [p [E H]]. apply In_remove in H. destruct H as [H1 H2]. subst. split; eauto.
  - intros [[p [E H]] N]. exists p. split; auto. apply In_remove. subst. auto.
Qed.

Lemma remove_cons : forall k' v' r k,
  remove ((k', v') :: r) k = if k' =? k then remove r k else (k', v') :: remove r k.
Proof. intros. unfold remove. cbn. now destruct (k' =? k). Qed.

Lemma NoDup_keys_remove : forall m k, NoDup (keys m) -> NoDup (keys (remove m k)).
Proof.
  induction m as [|[k' v'] r IH]; intros k ND; [constructor|].
  rewrite remove_cons. cbn in ND. inv ND. destruct (N.eqb_spec k' k); auto.
  cbn. constructor; auto. rewrite keys_remove. tauto.
Qed.

Lemma NoDup_keys_set : forall m k v, NoDup (keys m) -> NoDup (keys (set m k v)).
Proof.
  intros m k v ND. unfold set. cbn. constructor.
  - rewrite keys_remove. tauto.
  - now apply NoDup_keys_remove.
Qed.

Lemma lookup_remove : forall m k x, lookup (remove m k) x = if x =? k then None else lookup m x.
Proof.
  induction m as [|[k' v'] r IH]; intros k x.
  - cbn. now destruct (x =? k).
  - rewrite remove_cons. destruct (N.eqb_spec k' k); cbn.
    + rewrite IH. subst. destruct (N.eqb_spec x k); auto.
      destruct (N.eqb_spec k x); auto. congruence.
    + destruct (N.eqb_spec k' x); auto.
      subst. destruct (N.eqb_spec x k); auto. congruence.
Qed.

Lemma lookup_set : forall m k v x, lookup (set m k v) x = if x =? k then Some v else lookup m x.
Proof.
  intros m k v x. unfold set. cbn. rewrite lookup_remove.
  destruct (N.eqb_spec k x), (N.eqb_spec x k); congruence.
Qed.

Lemma keys_set : forall m k v x, In x (keys (set m k v)) <-> x = k \/ In x (keys m).
Proof.
  intros m k v x. unfold set. cbn. rewrite keys_remove.
  destruct (N.eq_dec x k); intuition congruence.
Qed.

Lemma In_set : forall m k v p, In p (set m k v) <-> p = (k, v) \/ (In p m /\ fst p <> k).
Proof. intros m k v p. unfold set. cbn. rewrite In_remove. intuition congruence. Qed.

Lemma nodupb_NoDup : forall l, nodupb l = true <-> NoDup l.
Proof.
  induction l as [|x r IH]; cbn.
  - split; [constructor|auto].
  - rewrite andb_true_iff, negb_true_iff, IH. split.
    + intros [H1 H2]. constructor; auto. intros HI.
      assert (existsb (N.eqb x) r = true) by (apply existsb_exists; exists x; split; auto; apply N.eqb_refl).
      congruence.
    + intros ND. inv ND. split; auto.
      destruct (existsb (N.eqb x) r) eqn:E; auto.
      apply existsb_exists in E. destruct E as [y [Hy E]]. apply N.eqb_eq in E. subst. tauto.
Qed.
