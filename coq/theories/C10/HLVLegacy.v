(* C10 model + proofs: legacy revision-tree ids inside version vectors.
   (a) LegacyRevToRevTreeEncodedVersion / GetGenerationFromEncodedVersionValue (db/hybrid_logical_vector.go
       with parseRevID of db/revision.go): a revision id "gen-digest" becomes a version of the reserved
       source "Revision+Tree+Encoding" whose value is  gen << 40 | first 40 bits of the digest.
   (b) the history property of a rev message for a peer that still holds a legacy revision
       (BlipSyncContext.buildRevHistory scenario 3 + blipRevMessageProperties): the vector history, the
       revision id and the revision-tree history joined by commas; the receiver (GetHLVFromRevMessage +
       extractHLVFromBlipString, model [wire_join] / [extract_hlv] of HLVCodec.v) must get the vector
       back and the legacy ids in order. *)
From SG Require Import Base.Prelude C10.HLVCodec C10.HLVCodecProofs C10.HLVWire.
Open Scope N_scope.

Definition two40 : N := 1099511627776.
Definition two24 : N := 16777216.
Definition two63 : N := 9223372036854775808.

(* strconv.Atoi(s) = g with g >= 1 and strconv.Itoa(g) = s: decimal digits, first one not '0', below 2^63 *)
Definition canonical_gen (s : bytes) : option N :=
  match s with
  | [] => None
  | c :: _ => if (49 <=? c) && (c <=? 57) then
                match dec_acc s 0 with
                | Some v => if v <? two63 then Some v else None
                | None => None
                end
              else None
  end.

(* the digest cut or right-padded with '0' to 10 characters *)
Definition pad10 (d : bytes) : bytes := firstn 10 (d ++ repeat 48 10).

(* LegacyRevToRevTreeEncodedVersion: the value; None = error *)
Definition legacy_rev_to_version (rev : bytes) : option N :=
  match cut rev DASH with
  | None => None
  | Some (g, d) =>
      match canonical_gen g with
      | None => None
      | Some gen =>
          match parse_uint_hex (pad10 d) with
          | Some x => Some ((gen * two40) mod two64 + x)
          | None => None
          end
      end
  end.

(* GetGenerationFromEncodedVersionValue *)
Definition generation_of (v : N) : N := (v / two40) mod two24.

Definition check_legacy (rev : bytes) (r : option N) (gen : N) : bool :=
  option_eqb N.eqb (legacy_rev_to_version rev) r &&
  match r with Some v => generation_of v =? gen | None => true end.

(* ---------- (a) ---------- *)
Lemma parse_hex_acc_bound : forall l acc v, parse_hex_acc l acc = Some v -> v < (acc + 1) * 16 ^ N.of_nat (length l).
Proof.
  induction l as [|c r IH]; intros acc v H.
  - cbn in *. inv H. lia.
  - cbn [parse_hex_acc] in H. destruct (unhex c) as [d|] eqn:U; [|discriminate].
    assert (D : d < 16).
    { unfold unhex in U. repeat match type of U with context[if ?b then _ else _] => destruct b eqn:? end; inv U; lia. }
    apply IH in H. cbn [length]. rewrite Nat2N.inj_succ, N.pow_succ_r'. nia.
Qed.

Lemma pad10_length : forall d, length (pad10 d) = 10%nat.
Proof.
  intros d. unfold pad10. rewrite firstn_length, app_length, repeat_length. lia.
Qed.

Lemma digest_bound : forall d x, parse_uint_hex (pad10 d) = Some x -> x < two40.
Proof.
  intros d x H. unfold parse_uint_hex in H. destruct (pad10 d) eqn:E; [discriminate|]. rewrite <- E in H.
  destruct (parse_hex_acc (pad10 d) 0) as [v|] eqn:P; [|discriminate].
  destruct (v <? two64); inv H. apply parse_hex_acc_bound in P. rewrite pad10_length in P.
  change (16 ^ N.of_nat 10) with two40 in P. lia.
Qed.

Lemma pack_lt : forall T a b x y, x < T -> a < b -> a * T + x < b * T + y.
Proof.
  intros T a b x y X L. assert (M : (a + 1) * T <= b * T) by (apply N.mul_le_mono_r; lia).
  rewrite N.mul_add_distr_r, N.mul_1_l in M. lia.
Qed.

Lemma pack_bound : forall T B g x, x < T -> g < B -> T * g + x < T * B.
Proof.
  intros T B g x X L. assert (M : T * (g + 1) <= T * B) by (apply N.mul_le_mono_l; lia).
  rewrite N.mul_add_distr_l, N.mul_1_r in M. lia.
Qed.

Section Legacy.
  Variables (rev g d : bytes) (gen v : N).
  Hypothesis C : cut rev DASH = Some (g, d).
  Hypothesis G : canonical_gen g = Some gen.
  Hypothesis V : legacy_rev_to_version rev = Some v.

  Lemma legacy_value : exists x, x < two40 /\ v = (gen * two40) mod two64 + x.
  Proof.
    unfold legacy_rev_to_version in V. rewrite C, G in V.
    destruct (parse_uint_hex (pad10 d)) as [x|] eqn:P; [|discriminate]. inv V.
    exists x. split; auto. eapply digest_bound; eauto.
  Qed.

  (* the value fits in 64 bits *)
  Theorem legacy_value_bound : v < two64.
  Proof.
    destruct legacy_value as [x [X E]]. subst v.
    assert (M : (gen * two40) mod two64 = two40 * (gen mod two24)).
    { change two64 with (two40 * two24). rewrite N.mul_comm. rewrite N.mul_mod_distr_l; [reflexivity| |]; unfold two24, two40; lia. }
    rewrite M. assert (gen mod two24 < two24) by (apply N.mod_lt; unfold two24; lia).
    change two64 with (two40 * two24). now apply pack_bound.
  Qed.

  (* the generation is recovered as long as it fits in 24 bits *)
  Theorem legacy_generation_roundtrip : gen < two24 -> generation_of v = gen.
  Proof.
    intros B. destruct legacy_value as [x [X E]]. subst v. unfold generation_of.
    assert (S : gen * two40 < two64) by (change two64 with (two24 * two40); apply N.mul_lt_mono_pos_r; [unfold two40; lia | exact B]).
    rewrite (N.mod_small _ _ S).
    rewrite N.div_add_l by (unfold two40; lia). rewrite (N.div_small x two40 X).
    rewrite N.add_0_r. now apply N.mod_small.
  Qed.
End Legacy.

(* revision ids are ordered by generation first: a higher generation dominates a lower one under the
   reserved source, whatever the digests *)
Theorem legacy_order_by_generation : forall rev1 g1 d1 gen1 v1 rev2 g2 d2 gen2 v2,
  cut rev1 DASH = Some (g1, d1) -> canonical_gen g1 = Some gen1 -> legacy_rev_to_version rev1 = Some v1 ->
  cut rev2 DASH = Some (g2, d2) -> canonical_gen g2 = Some gen2 -> legacy_rev_to_version rev2 = Some v2 ->
  gen1 < gen2 -> gen2 < two24 -> v1 < v2.
Proof.
  intros rev1 g1 d1 gen1 v1 rev2 g2 d2 gen2 v2 C1 G1 V1 C2 G2 V2 L B.
  destruct (legacy_value rev1 g1 d1 gen1 v1 C1 G1 V1) as [x1 [X1 E1]].
  destruct (legacy_value rev2 g2 d2 gen2 v2 C2 G2 V2) as [x2 [X2 E2]]. subst v1 v2.
  assert (S2 : gen2 * two40 < two64) by (change two64 with (two24 * two40); apply N.mul_lt_mono_pos_r; [unfold two40; lia | exact B]).
  assert (S1 : gen1 * two40 < two64) by (change two64 with (two24 * two40); apply N.mul_lt_mono_pos_r; [unfold two40; lia | lia]).
  rewrite (N.mod_small _ _ S1), (N.mod_small _ _ S2). now apply pack_lt.
Qed.

(* every generation that parseRevID accepts is at least 1: an encoded version is never 0 *)
Lemma dec_acc_ge : forall l acc v, dec_acc l acc = Some v -> acc <= v.
Proof.
  induction l as [|c r IH]; intros acc v H; cbn [dec_acc] in H; [inv H; lia|].
  destruct ((48 <=? c) && (c <=? 57)); [|discriminate]. apply IH in H. lia.
Qed.

Lemma canonical_gen_pos : forall g gen, canonical_gen g = Some gen -> 1 <= gen.
Proof.
  intros g gen H. unfold canonical_gen in H. destruct g as [|c r]; [discriminate|].
  destruct ((49 <=? c) && (c <=? 57)) eqn:E; [|discriminate].
  destruct (dec_acc (c :: r) 0) as [v|] eqn:D; [|discriminate]. destruct (v <? two63); inv H.
  cbn [dec_acc] in D. assert (E2 : (48 <=? c) && (c <=? 57) = true) by lia. rewrite E2 in D.
  apply dec_acc_ge in D. lia.
Qed.

(* ---------- (b) the history property with legacy revision ids ---------- *)
(* buildRevHistory (scenario 3) + blipRevMessageProperties: [hlvHistory (if any), revID, revTreeHistory...]
   joined by commas; [lg] is revID :: revTreeHistory.  Since commit 136d16a of /repo ([repaired] = true) an
   hlvHistory that ends with ';' (merge versions only) takes the revID directly after the semicolon instead of
   as a further comma-joined entry; [repaired] = false is the sender before that commit, kept as the subject of
   wire_legacy_mv_only_refuted (C10_Refuted.v). *)
Definition ends_with_semi (h : bytes) : bool := last h 0 =? SEMI.

Definition history_legacy_gen (repaired : bool) (v : svec) (lg : list bytes) : bytes :=
  match to_history v, lg with
  | [], _ => join lg COMMA
  | h, [] => h
  | h, r :: t => if repaired && ends_with_semi h then join ((h ++ r) :: t) COMMA else join (h :: r :: t) COMMA
  end.

(* THE switch: which sender the correspondence (C10_Corr) and the round-trip theorem are about *)
Definition legacy_sender_repaired : bool := true.
Definition history_legacy (v : svec) (lg : list bytes) : bytes := history_legacy_gen legacy_sender_repaired v lg.
Definition history_legacy_old (v : svec) (lg : list bytes) : bytes := history_legacy_gen false v lg.

Definition check_wire_legacy (v : svec) (lg : list bytes) (rev hist : bytes) (r : option (svec * list bytes)) : bool :=
  bytes_eqb (cv_string v) rev && bytes_eqb (history_legacy v lg) hist &&
  option_eqb (fun a b => svec_eqb (fst a) (fst b) && list_eqb bytes_eqb (snd a) (snd b))
             (extract_hlv (wire_join rev hist)) r.

(* a legacy id as it travels: not a version, recognised by isLegacyRev, no separators, no leading space *)
Definition legacy_ok (x : bytes) : Prop :=
  x <> [] /\ strip_space x = x /\ parse_version x = None /\ is_legacy_rev x = true /\
  Forall (fun c => c <> COMMA /\ c <> SEMI) x.

Lemma parse_values_legacy : forall lg, (forall x, In x lg -> legacy_ok x) -> parse_values lg = Some ([], lg).
Proof.
  induction lg as [|x r IH]; intros H; [reflexivity|].
  destruct (H x (or_introl eq_refl)) as [_ [S [P [L _]]]].
  cbn [parse_values]. rewrite S, P, L. rewrite IH by (intros y I; apply H; right; exact I). reflexivity.
Qed.

Lemma parse_values_app : forall L lg, (forall e, In e L -> good_entry e) -> (forall x, In x lg -> legacy_ok x) ->
  parse_values (map version_string L ++ lg) = Some (L, lg).
Proof.
  induction L as [|e r IH]; intros lg G H; [now apply parse_values_legacy|].
  cbn [map app parse_values].
  destruct (version_string_good e (G e (or_introl eq_refl))) as [_ [_ [_ [_ [S P]]]]].
  rewrite S, P. rewrite IH; auto. intros x I. apply G. right. exact I.
Qed.

Lemma join_app_ne : forall (a b : list bytes) sep, a <> [] -> b <> [] ->
  join (a ++ b) sep = join a sep ++ sep :: join b sep.
Proof.
  induction a as [|x a IH]; intros b sep Na Nb; [tauto|].
  destruct a as [|y a'].
  - cbn [app join]. destruct b; [tauto|reflexivity].
  - change ((x :: y :: a') ++ b) with (x :: (y :: a') ++ b).
    change (join (x :: y :: a') sep) with (x ++ sep :: join (y :: a') sep).
    assert (E : join (x :: (y :: a') ++ b) sep = x ++ sep :: join ((y :: a') ++ b) sep) by reflexivity.
    rewrite E, IH by (auto; discriminate). now rewrite <- app_assoc.
Qed.

Lemma join_ne : forall (l : list bytes) sep, l <> [] -> (forall x, In x l -> x <> []) -> join l sep <> [].
Proof.
  intros [|x [|y r]] sep NE H; [tauto| |]; cbn [join].
  - apply H. left. reflexivity.
  - assert (x <> []) by (apply H; left; reflexivity). destruct x; [tauto|discriminate].
Qed.

Lemma wire_join_ne : forall rev h, h <> [] ->
  wire_join rev h = if existsb (N.eqb SEMI) h then rev ++ COMMA :: h else rev ++ SEMI :: h.
Proof. intros rev [|c r] H; [tauto|reflexivity]. Qed.

Lemma match_ne : forall (A : Type) (l : bytes) (a b : A), l <> [] -> match l with [] => a | _ :: _ => b end = b.
Proof. intros A [|c r] a b H; [tauto|reflexivity]. Qed.

Lemma last_in : forall (h : bytes) d, h <> [] -> In (last h d) h.
Proof.
  induction h as [|c r IH]; intros d NE; [tauto|]. destruct r as [|c2 r2]; [left; reflexivity|].
  right. change (last (c :: c2 :: r2) d) with (last (c2 :: r2) d). apply IH. discriminate.
Qed.

Lemma last_app_ne : forall (a x : bytes) d, x <> [] -> last (a ++ x) d = last x d.
Proof.
  induction a as [|c a IH]; intros x d NE; [reflexivity|].
  cbn [app]. destruct (a ++ x) eqn:E; [apply app_eq_nil in E; tauto|]. rewrite <- E.
  change (last (c :: a ++ x) d) with (match a ++ x with [] => c | _ => last (a ++ x) d end).
  rewrite E, <- E. now apply IH.
Qed.

Lemma ends_nosemi : forall h, Forall (fun c => c <> SEMI) h -> ends_with_semi h = false.
Proof.
  intros h F. unfold ends_with_semi. destruct (N.eqb_spec (last h 0) SEMI) as [E|]; [|reflexivity].
  destruct h as [|c r]; [cbn in E; unfold SEMI in E; discriminate|].
  rewrite Forall_forall in F. exfalso. apply (F (last (c :: r) 0)); [apply last_in; discriminate | exact E].
Qed.

Lemma history_legacy_gen_noend : forall rp v lg, ends_with_semi (to_history v) = false ->
  history_legacy_gen rp v lg = join ((match to_history v with [] => [] | h => [h] end) ++ lg) COMMA.
Proof.
  intros rp v lg H. unfold history_legacy_gen. destruct (to_history v) as [|c l]; [reflexivity|].
  destruct lg as [|r t]; [reflexivity|]. rewrite H, andb_false_r. reflexivity.
Qed.

Lemma history_legacy_old_eq : forall v lg,
  history_legacy_old v lg = join ((match to_history v with [] => [] | h => [h] end) ++ lg) COMMA.
Proof.
  intros v lg. unfold history_legacy_old, history_legacy_gen. destruct (to_history v) as [|c l]; [reflexivity|].
  destruct lg as [|r t]; reflexivity.
Qed.

Lemma join_head_app : forall (a r : bytes) t sep, join ((a ++ r) :: t) sep = a ++ join (r :: t) sep.
Proof. intros a r [|y t'] sep; cbn [join]; [reflexivity|]. now rewrite <- app_assoc. Qed.

(* THE ROUND TRIP WITH LEGACY IDS (repaired sender), for every sendable vector -- the merge-versions-only
   vectors included *)
Theorem wire_legacy_roundtrip : forall v lg, sendable v -> lg <> [] -> (forall x, In x lg -> legacy_ok x) ->
  exists v', extract_hlv (wire_join (cv_string v) (history_legacy v lg)) = Some (v', lg) /\ svec_equiv v' (wire_view v).
Proof.
  intros v lg [Gc [Gm [Gp [NDm [NDp [Dj NI]]]]]] NL LG.
  set (cvs := version_string (s_src v, s_ver v)).
  destruct (version_string_good _ Gc) as [_ [CN [CC [CS [_ _]]]]]. fold cvs in CN, CC, CS.
  assert (Ecv : cv_string v = cvs).
  { unfold cv_string, cvs. destruct Gc as [[NE _] _]. cbn [fst] in NE. destruct (s_src v); [congruence|reflexivity]. }
  set (mvs := map version_string (s_mv v)). set (pvs := map version_string (s_pv v)).
  assert (LGsep : forall sep, sep = COMMA \/ sep = SEMI -> forall x, In x lg -> Forall (fun c => c <> sep) x).
  { intros sep S x I. destruct (LG x I) as [_ [_ [_ [_ F]]]]. eapply Forall_impl; [|exact F].
    cbn. intros c [A B]. destruct S; subst; assumption. }
  assert (LGne : forall x, In x lg -> x <> []) by (intros x I; apply (LG x I)).
  assert (PLsep : forall sep, sep = COMMA \/ sep = SEMI -> forall x, In x (pvs ++ lg) -> Forall (fun c => c <> sep) x).
  { intros sep S x I. apply in_app_or in I. destruct I as [I|I]; [apply (entries_nosep (s_pv v) sep); auto | now apply LGsep]. }
  assert (PLne : pvs ++ lg <> []) by (destruct pvs; [exact NL | discriminate]).
  assert (PLsemi : Forall (fun c => c <> SEMI) (join (pvs ++ lg) COMMA)).
  { apply join_nosep; [unfold COMMA, SEMI; lia|]. apply PLsep. auto. }
  assert (F1 : parse_vector_values (join (pvs ++ lg) COMMA) = Some (s_pv v, lg)).
  { unfold parse_vector_values. rewrite split_join; [now apply parse_values_app | exact PLne | apply PLsep; auto]. }
  assert (PLnonempty : join (pvs ++ lg) COMMA <> []).
  { apply join_ne; [exact PLne|]. intros x I. apply in_app_or in I. destruct I as [I|I]; [|now apply LGne].
    apply in_map_iff in I. destruct I as [e [E I]]. subst x. apply (version_string_good e (Gp e I)). }
  assert (F0 : parse_vector_values (join (cvs :: mvs) COMMA) = Some ((s_src v, s_ver v) :: s_mv v, [])).
  { unfold parse_vector_values. rewrite split_join.
    - change (cvs :: mvs) with (map version_string ((s_src v, s_ver v) :: s_mv v)).
      apply parse_values_good. intros e [E|I]; [subst; exact Gc | now apply Gm].
    - discriminate.
    - intros x [E|I]; [subst; exact CC|]. apply (entries_nosep (s_mv v) COMMA); auto. }
  assert (AM : add_mvs (s_src v) (s_ver v) (s_mv v) [] = Some (rebuild (s_mv v) [])).
  { apply add_mvs_ok; [exact NDm | intros k _ [] | exact NI]. }
  assert (AP : add_pvs (rebuild (s_mv v) []) (s_pv v) [] = Some (rebuild (s_pv v) [])).
  { apply add_pvs_ok; [exact NDp | intros k _ [] | intros k I J; apply (proj1 (keys_rebuild_nil (s_mv v) k NDm)) in J; now apply (Dj k)]. }
  assert (F0semi : Forall (fun c => c <> SEMI) (join (cvs :: mvs) COMMA)).
  { apply join_nosep; [unfold COMMA, SEMI; lia|]. intros x [E|I]; [subst; exact CS|]. apply (entries_nosep (s_mv v) SEMI); auto. }
  exists (mkS 0 (s_src v) (s_ver v) (rebuild (s_mv v) []) (rebuild (s_pv v) [])). split.
  2:{ unfold svec_equiv, wire_view. cbn [s_cvcas s_src s_ver s_mv s_pv]. repeat split; auto;
      intros k; now apply slookup_rebuild_nil. }
  rewrite Ecv. unfold extract_hlv.
  assert (Hm : s_mv v = [] \/ exists m0 mr, s_mv v = m0 :: mr) by (destruct (s_mv v); eauto).
  destruct Hm as [Em|[m0 [mr Em]]].
  - (* no merge versions: the history is  pv entries, legacy ids  -- no ';' *)
    assert (Emvs : mvs = []) by (unfold mvs; now rewrite Em). rewrite Emvs in *.
    change (join [cvs] COMMA) with cvs in F0. rewrite Em in AM, AP, F0. cbn [rebuild fold_left add_mvs] in AM, AP.
    assert (EH : history_legacy v lg = join (pvs ++ lg) COMMA).
    { unfold history_legacy. rewrite history_legacy_gen_noend.
      2:{ apply ends_nosemi. unfold to_history. rewrite Em. cbn [map join app]. fold pvs.
          apply join_nosep; [unfold COMMA, SEMI; lia|]. apply entries_nosep; auto. }
      unfold to_history. rewrite Em. cbn [map join app]. fold pvs.
      destruct (s_pv v) as [|p0 pr] eqn:Ep.
      - unfold pvs. cbn [map join app]. reflexivity.
      - assert (Pn : pvs <> []) by (unfold pvs; discriminate).
        assert (Jn : join pvs COMMA <> []).
        { apply join_ne; auto. intros x I. apply in_map_iff in I. destruct I as [e [E I]]. subst x.
          apply (version_string_good e (Gp e I)). }
        destruct (join pvs COMMA) as [|c0 r0] eqn:Ej; [tauto|]. rewrite <- Ej.
        rewrite (join_app_ne pvs lg COMMA Pn NL). destruct lg; [tauto|]. reflexivity. }
    rewrite EH. rewrite wire_join_ne by exact PLnonempty.
    rewrite existsb_semi_false by exact PLsemi.
    rewrite split_app by exact CS. rewrite split_nosep by exact PLsemi.
    rewrite F0. cbn [add_mvs]. rewrite match_ne by exact PLnonempty. rewrite F1, AP. rewrite Em. cbn [rebuild fold_left]. reflexivity.
  - (* merge versions:  mv ; pv , legacy ids   or, without previous versions,  mv ; legacy ids *)
    assert (Mn : mvs <> []) by (unfold mvs; rewrite Em; discriminate).
    assert (TH : to_history v = join mvs COMMA ++ [SEMI] ++ join pvs COMMA).
    { unfold to_history. fold mvs pvs. now rewrite Em. }
    assert (EH : history_legacy v lg = join mvs COMMA ++ SEMI :: join (pvs ++ lg) COMMA).
    { assert (Hp : pvs = [] \/ pvs <> []) by (destruct pvs; [left; reflexivity | right; discriminate]).
      destruct Hp as [Ep|Pn].
      { (* merge versions only: the history ends with ';' and takes the first legacy id directly *)
        rewrite Ep in *. cbn [join app] in TH. cbn [app].
        destruct lg as [|r t]; [tauto|].
        unfold history_legacy, history_legacy_gen, legacy_sender_repaired. rewrite TH.
        assert (En : ends_with_semi (join mvs COMMA ++ [SEMI]) = true).
        { unfold ends_with_semi. rewrite last_last. apply N.eqb_refl. }
        destruct (join mvs COMMA ++ [SEMI]) as [|c0 r0] eqn:Eh.
        { apply app_eq_nil in Eh. destruct Eh as [_ Eh]. discriminate. }
        rewrite En. cbn [andb]. rewrite <- Eh. rewrite join_head_app. now rewrite <- app_assoc. }
      unfold history_legacy. rewrite history_legacy_gen_noend.
      2:{ rewrite TH. unfold ends_with_semi. rewrite app_assoc. rewrite last_app_ne.
          - apply ends_nosemi. apply join_nosep; [unfold COMMA, SEMI; lia|]. apply entries_nosep; auto.
          - apply join_ne; auto. intros x I. apply in_map_iff in I. destruct I as [e [E I]]. subst x.
            apply (version_string_good e (Gp e I)). }
      rewrite TH.
      destruct (join mvs COMMA ++ [SEMI] ++ join pvs COMMA) as [|c0 r0] eqn:Eh.
      { apply app_eq_nil in Eh. destruct Eh as [_ Eh]. discriminate. }
      rewrite <- Eh. rewrite (join_app_ne pvs lg COMMA Pn NL).
      assert (E2 : join ([join mvs COMMA ++ [SEMI] ++ join pvs COMMA] ++ lg) COMMA =
                   (join mvs COMMA ++ [SEMI] ++ join pvs COMMA) ++ COMMA :: join lg COMMA).
      { destruct lg; [tauto|]. reflexivity. }
      rewrite E2. rewrite <- !app_assoc. reflexivity. }
    rewrite EH. rewrite wire_join_ne by (intros Eh; apply app_eq_nil in Eh; destruct Eh as [_ Eh]; discriminate).
    rewrite existsb_semi_true.
    assert (Ef0 : cvs ++ COMMA :: join mvs COMMA ++ SEMI :: join (pvs ++ lg) COMMA =
                  join (cvs :: mvs) COMMA ++ SEMI :: join (pvs ++ lg) COMMA).
    { destruct mvs as [|y r']; [congruence|]. change (join (cvs :: y :: r') COMMA) with (cvs ++ COMMA :: join (y :: r') COMMA).
      rewrite <- app_assoc. reflexivity. }
    rewrite Ef0. rewrite split_app by exact F0semi. rewrite split_nosep by exact PLsemi.
    rewrite F0, AM. rewrite match_ne by exact PLnonempty. rewrite F1, AP. reflexivity.
Qed.
