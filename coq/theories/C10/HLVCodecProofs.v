(* C10 proofs, part 4: the codecs.  Little-endian hex round trips for every uint64, the delta-compressed
   stored form and the JSON object (field level) decode to the same vector. *)
From SG Require Import Base.Prelude C10.HLVCodec.
Open Scope N_scope.
#[local] Arguments N.mul : simpl never.
#[local] Arguments N.add : simpl never.
#[local] Arguments N.div : simpl never.
#[local] Arguments N.modulo : simpl never.
#[local] Arguments N.eqb : simpl never.
#[local] Arguments N.leb : simpl never.
#[local] Arguments N.ltb : simpl never.
#[local] Arguments N.sub : simpl never.

(* ---------- hex digits ---------- *)
Lemma unhex_hexdigit : forall x, x < 16 -> unhex (hexdigit x) = Some x.
Proof.
  intros x H.
  assert (E : forallb (fun x => option_eqb N.eqb (unhex (hexdigit x)) (Some x))
                      (map N.of_nat (seq 0 16)) = true) by (vm_compute; reflexivity).
  rewrite forallb_forall in E. specialize (E x).
  assert (I : In x (map N.of_nat (seq 0 16))).
  { apply in_map_iff. exists (N.to_nat x). split; [lia|]. apply in_seq. lia. }
  specialize (E I). unfold option_eqb in E. destruct (unhex (hexdigit x)); [|discriminate].
  apply N.eqb_eq in E. now subst.
Qed.

Lemma hexdigit_not_at : forall x, x < 16 -> hexdigit x <> AT.
Proof. intros x H. unfold hexdigit, AT. destruct (N.ltb_spec x 10); lia. Qed.

Lemma hex_decode_byte : forall b r, b < 256 ->
  hex_decode (byte_hex b ++ r) = match hex_decode r with Some t => Some (b :: t) | None => None end.
Proof.
  intros b r H. unfold byte_hex. cbn [app hex_decode].
  assert (A : b / 16 < 16) by (apply N.div_lt_upper_bound; lia).
  assert (B : b mod 16 < 16) by (apply N.mod_lt; lia).
  rewrite (unhex_hexdigit _ A), (unhex_hexdigit _ B).
  destruct (hex_decode r); auto. f_equal. f_equal.
  pose proof (N.div_mod b 16). lia.
Qed.

Lemma le_bytes_bound : forall n v, Forall (fun b => b < 256) (le_bytes n v).
Proof.
  induction n as [|n IH]; intros v; cbn [le_bytes]; constructor; auto. apply N.mod_lt. lia.
Qed.

Lemma hex_decode_flat : forall l, Forall (fun b => b < 256) l -> hex_decode (flat_map byte_hex l) = Some l.
Proof.
  induction l as [|b r IH]; intros F; [reflexivity|].
  inv F. cbn [flat_map]. rewrite hex_decode_byte by assumption. now rewrite IH.
Qed.

Lemma le_value_le_bytes : forall n v, le_value (le_bytes n v) = v mod 256 ^ N.of_nat n.
Proof.
  induction n as [|n IH]; intros v.
  - cbn [le_bytes le_value]. now rewrite N.mod_1_r.
  - cbn [le_bytes le_value]. rewrite IH.
    replace (256 ^ N.of_nat (S n)) with (256 * 256 ^ N.of_nat n)
      by (rewrite Nat2N.inj_succ, N.pow_succ_r'; reflexivity).
    rewrite N.mod_mul_r by (try apply N.pow_nonzero; lia). lia.
Qed.

Lemma le_value_bytes8 : forall v, v < two64 -> le_value (le_bytes 8 v) = v.
Proof.
  intros v H. rewrite le_value_le_bytes. apply N.mod_small.
  replace (256 ^ N.of_nat 8) with two64 by (vm_compute; reflexivity). exact H.
Qed.

Lemma hex_decode_le_hex16 : forall v, hex_decode (le_hex16 v) = Some (le_bytes 8 v).
Proof. intros v. unfold le_hex16. apply hex_decode_flat, le_bytes_bound. Qed.

Lemma length_le_hex16 : forall v, length (le_hex16 v) = 16%nat.
Proof. intros v. unfold le_hex16. cbn [le_bytes flat_map byte_hex app length]. reflexivity. Qed.

(* CasToString / HexCasToUint64 *)
Theorem cas_roundtrip : forall v, v < two64 -> hex_cas_to_uint64 (cas_to_string v) = v.
Proof.
  intros v H. unfold hex_cas_to_uint64, cas_to_string.
  rewrite length_le_hex16. cbn [N.of_nat]. rewrite hex_decode_le_hex16.
  replace (N.of_nat 16 =? 16) with true by (vm_compute; reflexivity).
  now apply le_value_bytes8.
Qed.

(* ---------- stripped little-endian hex ---------- *)
Lemma strip_trailing_spec : forall l, exists k, l = strip_trailing l ++ repeat 48 k.
Proof.
  induction l as [|c r IHl].
  - exists 0%nat. reflexivity.
  - destruct IHl as [k IH]. cbn [strip_trailing]. destruct (strip_trailing r) as [|c' r'] eqn:E.
    + destruct (N.eqb_spec c 48).
      * subst c. exists (S k). cbn. now rewrite IH at 1.
      * exists k. cbn. now rewrite IH at 1.
    + exists k. rewrite IH at 1. reflexivity.
Qed.

Lemma le_value_app_zeros : forall bs j, le_value (bs ++ repeat 0 j) = le_value bs.
Proof.
  induction bs as [|b r IH]; intros j.
  - cbn [app]. induction j as [|j IHj]; cbn [repeat le_value] in *; lia.
  - cbn [app le_value]. rewrite IH. reflexivity.
Qed.

Lemma hex_decode_app_zeros : forall n p j, length p = (2 * n)%nat ->
  hex_decode (p ++ repeat 48 (2 * j)) =
  match hex_decode p with Some bs => Some (bs ++ repeat 0 j) | None => None end.
Proof.
  induction n as [|n IH]; intros p j L.
  - destruct p; [|discriminate]. cbn [app hex_decode].
    induction j as [|j IHj]; [reflexivity|].
    replace (2 * S j)%nat with (S (S (2 * j))) by lia. cbn [repeat hex_decode].
    replace (unhex 48) with (Some 0) by (vm_compute; reflexivity). rewrite IHj. reflexivity.
  - destruct p as [|a [|b r]]; try (cbn in L; lia).
    cbn [app hex_decode]. rewrite (IH r j) by (cbn in L; lia).
    destruct (unhex a), (unhex b), (hex_decode r); reflexivity.
Qed.

Lemma even_or_odd_length : forall (p : bytes), exists n, length p = (2 * n)%nat \/ length p = (2 * n + 1)%nat.
Proof.
  intros p. exists (Nat.div2 (length p)).
  destruct (Nat.Even_or_Odd (length p)) as [[m E]|[m E]]; rewrite E.
  - left. rewrite Nat.div2_double. reflexivity.
  - right. replace (2 * m + 1)%nat with (S (2 * m)) by lia. rewrite Nat.div2_succ_double. lia.
Qed.

Lemma odd_length : forall (p : bytes) n, length p = (2 * n + 1)%nat -> Nat.odd (length p) = true.
Proof. intros p n E. rewrite E. rewrite Nat.add_comm. rewrite Nat.odd_add_mul_2. reflexivity. Qed.
Lemma even_length : forall (p : bytes) n, length p = (2 * n)%nat -> Nat.odd (length p) = false.
Proof. intros p n E. rewrite E. replace (2 * n)%nat with (0 + 2 * n)%nat by lia. rewrite Nat.odd_add_mul_2. reflexivity. Qed.

(* decoding any prefix of the 16 digits that only drops zeros gives the value back *)
Lemma decode_prefix : forall v s k, v < two64 -> le_hex16 v = s ++ repeat 48 k -> le_hex_decode s = Some v.
Proof.
  intros v s k H E.
  assert (L : (length s + k = 16)%nat).
  { rewrite <- (length_le_hex16 v), E, app_length, repeat_length. reflexivity. }
  unfold le_hex_decode.
  destruct (even_or_odd_length s) as [n [Ev|Od]].
  - rewrite (even_length s n Ev).
    assert (K : exists j, k = (2 * j)%nat) by (exists (8 - n)%nat; lia). destruct K as [j ->].
    pose proof (hex_decode_app_zeros n s j Ev) as D. rewrite <- E, hex_decode_le_hex16 in D.
    replace (8 <? N.of_nat (length s) / 2) with false.
    2:{ symmetry. apply N.ltb_ge. rewrite Ev. apply N.div_le_upper_bound; lia. }
    destruct (hex_decode s) as [bs|]; [|discriminate]. inv D.
    f_equal. rewrite <- (le_value_app_zeros bs j), <- H1. now apply le_value_bytes8.
  - rewrite (odd_length s n Od).
    assert (K : exists j, k = S (2 * j)) by (exists (7 - n)%nat; lia). destruct K as [j ->].
    assert (E' : le_hex16 v = (s ++ [48]) ++ repeat 48 (2 * j)).
    { rewrite E. rewrite <- app_assoc. reflexivity. }
    assert (Ln : length (s ++ [48]) = (2 * (n + 1))%nat) by (rewrite app_length; cbn; lia).
    pose proof (hex_decode_app_zeros (n + 1) (s ++ [48]) j Ln) as D. rewrite <- E', hex_decode_le_hex16 in D.
    replace (8 <? N.of_nat (length (s ++ [48])) / 2) with false.
    2:{ symmetry. apply N.ltb_ge. rewrite Ln. apply N.div_le_upper_bound; lia. }
    destruct (hex_decode (s ++ [48])) as [bs|]; [|discriminate]. inv D.
    f_equal. rewrite <- (le_value_app_zeros bs j), <- H1. now apply le_value_bytes8.
Qed.

(* Uint64ToLittleEndianHexAndStripZeros / HexCasToUint64ForDelta *)
Theorem le_hex_roundtrip : forall v, v < two64 -> le_hex_decode (le_hex_strip v) = Some v.
Proof.
  intros v H. unfold le_hex_strip.
  destruct (le_hex16 v) as [|c r] eqn:E.
  - pose proof (length_le_hex16 v) as L. rewrite E in L. discriminate.
  - destruct (strip_trailing_spec r) as [k K].
    apply (decode_prefix v (c :: strip_trailing r) k H). rewrite E. cbn [app]. now rewrite <- K.
Qed.

(* the stripped form contains hex digits only: no '@' *)
Lemma le_hex16_no_at : forall v, Forall (fun c => c <> AT) (le_hex16 v).
Proof.
  intros v. unfold le_hex16.
  assert (G : forall l, Forall (fun b => b < 256) l -> Forall (fun c => c <> AT) (flat_map byte_hex l)).
  { induction l as [|b r IH]; intros F; [constructor|]. inv F. cbn [flat_map byte_hex app].
    constructor; [|constructor; [|auto]].
    - apply hexdigit_not_at. apply N.div_lt_upper_bound; lia.
    - apply hexdigit_not_at. apply N.mod_lt. lia. }
  apply G, le_bytes_bound.
Qed.

Lemma strip_trailing_incl : forall l c, In c (strip_trailing l) -> In c l.
Proof.
  induction l as [|a r IH]; intros c H; [exact H|].
  cbn [strip_trailing] in H. destruct (strip_trailing r) as [|c' r'] eqn:E.
  - destruct (a =? 48); [destruct H|]. destruct H as [H|[]]. left. exact H.
  - destruct H as [H|H]; [left; exact H | right; apply IH; exact H].
Qed.

Lemma le_hex_strip_no_at : forall v, Forall (fun c => c <> AT) (le_hex_strip v).
Proof.
  intros v. pose proof (le_hex16_no_at v) as F. unfold le_hex_strip.
  destruct (le_hex16 v) as [|c r]; [constructor|]. inv F. constructor; auto.
  apply Forall_forall. intros x I. apply strip_trailing_incl in I.
  rewrite Forall_forall in H2. auto.
Qed.

Lemma cut_no_sep : forall a b sep, Forall (fun c => c <> sep) a -> cut (a ++ sep :: b) sep = Some (a, b).
Proof.
  induction a as [|c r IH]; intros b sep F.
  - cbn. now rewrite N.eqb_refl.
  - inv F. cbn [app cut]. destruct (N.eqb_spec c sep); [tauto|]. now rewrite IH.
Qed.

(* ---------- byte-string keyed maps ---------- *)
Lemma bytes_eqb_refl : forall a, bytes_eqb a a = true.
Proof. intros a. now apply bytes_eqb_eq. Qed.

Lemma bytes_eqb_spec : forall a b, reflect (a = b) (bytes_eqb a b).
Proof. intros a b. destruct (bytes_eqb a b) eqn:E; constructor; [now apply bytes_eqb_eq | intros F; apply bytes_eqb_eq in F; congruence]. Qed.

Lemma slookup_sset : forall m k v x, slookup (sset m k v) x = if bytes_eqb k x then Some v else slookup m x.
Proof.
  intros m k v x. unfold sset. cbn [slookup]. destruct (bytes_eqb_spec k x); [reflexivity|].
  unfold sremove. induction m as [|[k' v'] r IH]; [reflexivity|].
  cbn [filter fst]. destruct (bytes_eqb_spec k' k); cbn [negb].
  - subst. cbn [slookup]. destruct (bytes_eqb_spec k x); [tauto|]. exact IH.
  - cbn [slookup]. destruct (bytes_eqb k' x); [reflexivity|exact IH].
Qed.

Lemma slookup_In : forall m k v, slookup m k = Some v -> In (k, v) m.
Proof.
  induction m as [|[k' v'] r IH]; intros k v H; [discriminate|].
  cbn [slookup] in H. destruct (bytes_eqb_spec k' k); [inv H; left; reflexivity | right; auto].
Qed.

Lemma slookup_None : forall m k, slookup m k = None <-> ~ In k (map fst m).
Proof.
  induction m as [|[k' v'] r IH]; intros k; cbn [slookup map fst In]; [tauto|].
  destruct (bytes_eqb_spec k' k); [split; [discriminate | intros H; exfalso; apply H; left; exact e]|].
  rewrite IH. tauto.
Qed.

Lemma In_slookup : forall m k v, NoDup (map fst m) -> In (k, v) m -> slookup m k = Some v.
Proof.
  induction m as [|[k' v'] r IH]; intros k v ND I; [destruct I|].
  cbn in ND. inv ND. cbn [slookup]. destruct I as [I|I].
  - inv I. now rewrite bytes_eqb_refl.
  - destruct (bytes_eqb_spec k' k).
    + subst. exfalso. apply H1. change k with (fst (k, v)). now apply in_map.
    + auto.
Qed.

Lemma snodupb_NoDup : forall l, snodupb l = true -> NoDup l.
Proof.
  induction l as [|x r IH]; intros H; [constructor|].
  cbn [snodupb] in H. apply andb_true_iff in H. destruct H as [A B]. constructor; auto.
  intros I. apply negb_true_iff in A.
  assert (existsb (bytes_eqb x) r = true) by (apply existsb_exists; exists x; split; auto; apply bytes_eqb_refl).
  congruence.
Qed.

(* ---------- deltas ---------- *)
Definition small_values (l : smap) : Prop := forall k v, In (k, v) l -> v < two64.

(* what PersistedDeltasToMap builds from the deltas of a sorted arrangement *)
Definition rebuild (l : smap) (acc : smap) : smap := fold_left (fun a e => sset a (fst e) (snd e)) l acc.

Lemma from_deltas_to_deltas : forall l prev acc, prev < two64 -> small_values l -> sorted_by_value prev l = true ->
  from_deltas_acc (to_deltas_from prev l) prev acc = Some (rebuild l acc).
Proof.
  induction l as [|[s v] r IH]; intros prev acc Hp SV So; [reflexivity|].
  cbn [sorted_by_value] in So. apply andb_true_iff in So. destruct So as [Le So]. apply N.leb_le in Le.
  assert (Hv : v < two64) by (apply (SV s v); left; reflexivity).
  cbn [to_deltas_from from_deltas_acc]. unfold delta_string. cbn [fst snd].
  rewrite cut_no_sep by apply le_hex_strip_no_at.
  rewrite le_hex_roundtrip by lia.
  replace ((v - prev + prev) mod two64) with v by (rewrite N.sub_add by lia; symmetry; apply N.mod_small; lia).
  unfold rebuild. cbn [fold_left fst snd]. apply IH; auto.
  intros k x I. apply (SV k x). right. exact I.
Qed.

Lemma slookup_rebuild_notin : forall l acc k, ~ In k (map fst l) -> slookup (rebuild l acc) k = slookup acc k.
Proof.
  induction l as [|[s v] r IH]; intros acc k NI; [reflexivity|].
  unfold rebuild. cbn [fold_left fst snd]. fold (rebuild r (sset acc s v)).
  rewrite IH by (intros I; apply NI; right; exact I).
  rewrite slookup_sset. destruct (bytes_eqb_spec s k); [|reflexivity]. exfalso. apply NI. left. exact e.
Qed.

Lemma slookup_rebuild_in : forall l acc k v, NoDup (map fst l) -> In (k, v) l -> slookup (rebuild l acc) k = Some v.
Proof.
  induction l as [|[s x] r IH]; intros acc k v ND I; [destruct I|].
  cbn in ND. inv ND. unfold rebuild. cbn [fold_left fst snd]. fold (rebuild r (sset acc s x)).
  destruct I as [I|I].
  - inv I. rewrite slookup_rebuild_notin by assumption. rewrite slookup_sset. now rewrite bytes_eqb_refl.
  - now apply IH.
Qed.

Lemma arrange_fst : forall m order l, arrange m order = Some l -> map fst l = order.
Proof.
  induction order as [|s r IH]; intros l H; cbn [arrange] in H; [inv H; reflexivity|].
  destruct (slookup m s); [|discriminate]. destruct (arrange m r) eqn:E; [|discriminate]. inv H.
  cbn. f_equal. now apply IH.
Qed.

(* the stored list decodes to the map it was made from: same value under every source *)
Theorem deltas_roundtrip : forall m out, NoDup (map fst m) -> small_values m -> deltas_rel m out = true ->
  exists m', persisted_deltas_to_map out = Some m' /\ forall k, slookup m' k = slookup m k.
Proof.
  intros m out ND SV R. unfold deltas_rel in R. destruct m as [|e0 m0] eqn:Em.
  - destruct out; [|discriminate]. exists []. split; reflexivity.
  - rewrite <- Em in *. clear Em e0 m0.
    destruct (arrange m (map source_of out)) as [l|] eqn:A; [|discriminate].
    apply andb_true_iff in R. destruct R as [R Eq]. apply andb_true_iff in R. destruct R as [Ar So].
    unfold is_arrangement in Ar. apply andb_true_iff in Ar. destruct Ar as [Ar Fa].
    apply andb_true_iff in Ar. destruct Ar as [NDl Len]. apply snodupb_NoDup in NDl. apply N.eqb_eq in Len.
    assert (Eo : to_deltas l = out).
    { apply (proj1 (list_eqb_eq bytes_eqb bytes_eqb_eq _ _)). exact Eq. }
    rewrite forallb_forall in Fa.
    assert (Sub : forall k v, In (k, v) l -> slookup m k = Some v).
    { intros k v I. specialize (Fa _ I). cbn [fst snd] in Fa. destruct (slookup m k); [|discriminate].
      apply N.eqb_eq in Fa. now subst. }
    assert (SVl : small_values l).
    { intros k v I. apply (SV k v). apply slookup_In. now apply Sub. }
    exists (rebuild l []). split.
    + rewrite <- Eo. unfold persisted_deltas_to_map, to_deltas. apply from_deltas_to_deltas; auto.
      vm_compute. reflexivity.
    + intros k. destruct (in_dec (list_eq_dec N.eq_dec) k (map fst l)) as [I|NI].
      * apply in_map_iff in I. destruct I as [[k' v] [E I]]. cbn in E. subst k'.
        rewrite (slookup_rebuild_in l [] k v NDl I). symmetry. now apply Sub.
      * rewrite slookup_rebuild_notin by assumption. cbn [slookup]. symmetry. apply slookup_None.
        intros I. apply NI.
        assert (Inc : incl (map fst l) (map fst m)).
        { intros x Ix. apply in_map_iff in Ix. destruct Ix as [[k' v] [E Ix]]. cbn in E. subst k'.
          apply Sub in Ix. apply slookup_In in Ix. change x with (fst (x, v)). now apply in_map. }
        apply (@NoDup_length_incl _ (map fst l) (map fst m) NDl); [rewrite !map_length; lia | exact Inc | exact I].
Qed.

(* ---------- the JSON object ---------- *)
Definition svec_equiv (a b : svec) : Prop :=
  s_cvcas a = s_cvcas b /\ s_src a = s_src b /\ s_ver a = s_ver b /\
  (forall k, slookup (s_mv a) k = slookup (s_mv b) k) /\ (forall k, slookup (s_pv a) k = slookup (s_pv b) k).

Definition storable (v : svec) : Prop :=
  s_cvcas v < two64 /\ s_ver v < two64 /\
  NoDup (map fst (s_mv v)) /\ NoDup (map fst (s_pv v)) /\ small_values (s_mv v) /\ small_values (s_pv v).

Lemma field_roundtrip : forall m f, NoDup (map fst m) -> small_values m -> field_rel m f = true ->
  exists m', (match f with Some l => persisted_deltas_to_map l | None => Some [] end) = Some m' /\
             forall k, slookup m' k = slookup m k.
Proof.
  intros m f ND SV R. unfold field_rel in R. destruct f as [l|].
  - destruct m as [|e m0] eqn:E; [discriminate|]. rewrite <- E in *. now apply deltas_roundtrip.
  - destruct m; [|discriminate]. exists []. split; reflexivity.
Qed.

Theorem json_roundtrip : forall v j, storable v -> marshal_rel v j = true ->
  exists v', unmarshal j = Some v' /\ svec_equiv v' v.
Proof.
  intros v j [Hc [Hv [NDm [NDp [SVm SVp]]]]] R. unfold marshal_rel in R.
  repeat (apply andb_true_iff in R; destruct R as [R ?]).
  rename H into Fm, H0 into Fp, H1 into Ev, H2 into Es.
  apply bytes_eqb_eq in Ev, Es.
  destruct (field_roundtrip _ _ NDp SVp Fp) as [p' [Ep Lp]].
  destruct (field_roundtrip _ _ NDm SVm Fm) as [m' [Emm Lm]].
  unfold unmarshal. rewrite Ep, Emm. eexists. split; [reflexivity|].
  unfold svec_equiv. cbn [s_cvcas s_src s_ver s_mv s_pv]. repeat split; auto.
  - destruct (N.eqb_spec (s_cvcas v) 0) as [Z|Z].
    + destruct (j_cvcas j); [discriminate|]. now rewrite Z.
    + destruct (j_cvcas j) as [c|]; [|discriminate]. cbn [option_eqb] in R. apply bytes_eqb_eq in R. subst c.
      unfold cas_to_string at 1. fold (cas_to_string (s_cvcas v)). now apply cas_roundtrip.
  - rewrite Ev. now apply cas_roundtrip.
Qed.
