(* C10 model + proofs: the BYTES of the persisted vector (the _vv xattr).  HybridLogicalVector.MarshalJSON
   builds a struct {cvCas,omitempty; src; ver; pv,omitempty; mv,omitempty} and hands it to encoding/json;
   this file models the text encoding/json produces for such a struct -- field order, omitted fields,
   string escaping with HTML escaping on (the default of json.Marshal), arrays -- so that the stored bytes
   are a function [marshal_bytes] of the fields [jvec] (HLVCodec.v), and a reader for exactly that
   canonical text.  The correspondence compares [marshal_bytes] with the bytes the real MarshalJSON
   returned, and [unmarshal_bytes] with the real UnmarshalJSON on those bytes; reading arbitrary JSON text
   (white space, other field orders, unknown fields, \uXXXX above 00ff) stays with encoding/json.
   Bytes >= 0x80 are copied as they are (true for valid UTF-8 other than U+2028 / U+2029). *)
From SG Require Import Base.Prelude C10.HLVCodec C10.HLVCodecProofs.
Open Scope N_scope.

Definition QUOTE : N := 34.
Definition BSLASH : N := 92.
Definition LBRACE : N := 123.
Definition RBRACE : N := 125.
Definition LBRACK : N := 91.
Definition RBRACK : N := 93.
Definition COLON : N := 58.

(* encoding/json appendString, escapeHTML = true *)
Definition json_escape_byte (b : N) : bytes :=
  if b =? 34 then [92; 34]
  else if b =? 92 then [92; 92]
  else if b =? 8 then [92; 98]
  else if b =? 12 then [92; 102]
  else if b =? 10 then [92; 110]
  else if b =? 13 then [92; 114]
  else if b =? 9 then [92; 116]
  else if (b <? 32) || (b =? 60) || (b =? 62) || (b =? 38)
       then [92; 117; 48; 48; hexdigit (b / 16); hexdigit (b mod 16)]
  else [b].

Definition json_string (s : bytes) : bytes := QUOTE :: flat_map json_escape_byte s ++ [QUOTE].

Inductive jval := JStr (s : bytes) | JArr (l : list bytes).

Definition render_value (v : jval) : bytes :=
  match v with
  | JStr s => json_string s
  | JArr l => LBRACK :: join (map json_string l) COMMA ++ [RBRACK]
  end.
Definition render_member (m : bytes * jval) : bytes := json_string (fst m) ++ COLON :: render_value (snd m).
Definition render_object (ms : list (bytes * jval)) : bytes :=
  LBRACE :: join (map render_member ms) COMMA ++ [RBRACE].

Definition k_cvcas : bytes := [99; 118; 67; 97; 115].   (* cvCas *)
Definition k_src : bytes := [115; 114; 99].             (* src *)
Definition k_ver : bytes := [118; 101; 114].            (* ver *)
Definition k_pv : bytes := [112; 118].                  (* pv *)
Definition k_mv : bytes := [109; 118].                  (* mv *)

(* the members encoding/json writes for the struct, in declaration order, empty ones omitted *)
Definition members (j : jvec) : list (bytes * jval) :=
  (match j_cvcas j with Some c => [(k_cvcas, JStr c)] | None => [] end) ++
  [(k_src, JStr (j_src j)); (k_ver, JStr (j_ver j))] ++
  (match j_pv j with Some l => [(k_pv, JArr l)] | None => [] end) ++
  (match j_mv j with Some l => [(k_mv, JArr l)] | None => [] end).

Definition marshal_bytes (j : jvec) : bytes := render_object (members j).

(* MarshalJSON at the level of bytes: [out] is what the implementation returned for v, [j] its fields *)
Definition check_marshal_bytes (v : svec) (j : jvec) (out : bytes) : bool :=
  marshal_rel v j && bytes_eqb (marshal_bytes j) out.

(* ---------- the reader of the canonical text ---------- *)
Definition unesc1 (c : N) : option N :=
  if c =? 34 then Some 34 else if c =? 92 then Some 92 else if c =? 47 then Some 47
  else if c =? 98 then Some 8 else if c =? 102 then Some 12 else if c =? 110 then Some 10
  else if c =? 114 then Some 13 else if c =? 116 then Some 9 else None.

(* after the opening quote: the decoded string and what follows the closing quote *)
Fixpoint read_string (l : bytes) : option (bytes * bytes) :=
  match l with
  | [] => None
  | c :: r =>
      if c =? QUOTE then Some ([], r)
      else if c =? BSLASH then
        match r with
        | [] => None
        | e :: r1 =>
            if e =? 117 then
              match r1 with
              | z1 :: z2 :: a :: b :: r2 =>
                  if (z1 =? 48) && (z2 =? 48) then
                    match unhex a, unhex b, read_string r2 with
                    | Some x, Some y, Some (s, t) => Some (16 * x + y :: s, t)
                    | _, _, _ => None
                    end
                  else None
              | _ => None
              end
            else match unesc1 e, read_string r1 with
                 | Some d, Some (s, t) => Some (d :: s, t)
                 | _, _ => None
                 end
        end
      else if c <? 32 then None
      else match read_string r with
           | Some (s, t) => Some (c :: s, t)
           | None => None
           end
  end.

(* the elements of a non-empty array, from the opening quote of the first one *)
Fixpoint read_elems (fuel : nat) (l : bytes) : option (list bytes * bytes) :=
  match fuel with
  | O => None
  | S f =>
      match l with
      | c :: r =>
          if c =? QUOTE then
            match read_string r with
            | Some (s, d :: t') =>
                if d =? COMMA then
                  match read_elems f t' with
                  | Some (ss, u) => Some (s :: ss, u)
                  | None => None
                  end
                else if d =? RBRACK then Some ([s], t') else None
            | _ => None
            end
          else None
      | [] => None
      end
  end.

Definition read_value (l : bytes) : option (jval * bytes) :=
  match l with
  | c :: r =>
      if c =? QUOTE then
        match read_string r with Some (s, t) => Some (JStr s, t) | None => None end
      else if c =? LBRACK then
        match r with
        | d :: r' => if d =? RBRACK then Some (JArr [], r')
                     else match read_elems (length r) r with
                          | Some (ss, t) => Some (JArr ss, t)
                          | None => None
                          end
        | [] => None
        end
      else None
  | [] => None
  end.

(* the members of a non-empty object, from the opening quote of the first key to the end of the input *)
Fixpoint read_members (fuel : nat) (l : bytes) : option (list (bytes * jval)) :=
  match fuel with
  | O => None
  | S f =>
      match l with
      | c :: r =>
          if c =? QUOTE then
            match read_string r with
            | Some (k, d :: t1) =>
                if d =? COLON then
                  match read_value t1 with
                  | Some (v, e :: t3) =>
                      if e =? COMMA then
                        match read_members f t3 with
                        | Some ms => Some ((k, v) :: ms)
                        | None => None
                        end
                      else if e =? RBRACE then (match t3 with [] => Some [(k, v)] | _ => None end)
                      else None
                  | _ => None
                  end
                else None
            | _ => None
            end
          else None
      | [] => None
      end
  end.

Definition parse_object (l : bytes) : option (list (bytes * jval)) :=
  match l with
  | c :: r => if c =? LBRACE then read_members (length r) r else None
  | [] => None
  end.

Fixpoint jget (ms : list (bytes * jval)) (k : bytes) : option jval :=
  match ms with
  | [] => None
  | (k', v) :: r => if bytes_eqb k' k then Some v else jget r k
  end.

(* the fields of the struct; None = a member of the wrong type *)
Definition str_field (ms : list (bytes * jval)) (k : bytes) : option bytes :=
  match jget ms k with None => Some [] | Some (JStr s) => Some s | Some (JArr _) => None end.
Definition arr_field (ms : list (bytes * jval)) (k : bytes) : option (option (list bytes)) :=
  match jget ms k with None => Some None | Some (JArr l) => Some (Some l) | Some (JStr _) => None end.

Definition to_jvec (ms : list (bytes * jval)) : option jvec :=
  match (match jget ms k_cvcas with None => Some None | Some (JStr s) => Some (Some s) | Some (JArr _) => None end),
        str_field ms k_src, str_field ms k_ver, arr_field ms k_pv, arr_field ms k_mv with
  | Some c, Some s, Some v, Some p, Some m => Some (mkJ c s v p m)
  | _, _, _, _, _ => None
  end.

Definition parse_bytes (inp : bytes) : option jvec :=
  match parse_object inp with Some ms => to_jvec ms | None => None end.

(* UnmarshalJSON on canonical text *)
Definition unmarshal_bytes (inp : bytes) : option svec :=
  match parse_bytes inp with Some j => unmarshal j | None => None end.

(* ---------- proofs ---------- *)
(* evaluate comparisons between numerals *)
Ltac ground_cmp :=
  repeat match goal with
  | |- context[N.eqb ?a ?b] =>
      let r := eval vm_compute in (N.eqb a b) in
      lazymatch r with true => change (N.eqb a b) with true | false => change (N.eqb a b) with false end
  | |- context[N.ltb ?a ?b] =>
      let r := eval vm_compute in (N.ltb a b) in
      lazymatch r with true => change (N.ltb a b) with true | false => change (N.ltb a b) with false end
  end.

Lemma read_string_spec : forall s rest,
  read_string (flat_map json_escape_byte s ++ QUOTE :: rest) = Some (s, rest).
Proof.
  induction s as [|b s IH]; intros rest.
  - cbn [flat_map app read_string]. unfold QUOTE. ground_cmp. reflexivity.
  - cbn [flat_map]. rewrite <- app_assoc. unfold json_escape_byte.
    destruct (N.eqb_spec b 34); [subst; cbn [app read_string]; unfold QUOTE, BSLASH, unesc1; ground_cmp; cbn [andb]; now rewrite IH|].
    destruct (N.eqb_spec b 92); [subst; cbn [app read_string]; unfold QUOTE, BSLASH, unesc1; ground_cmp; now rewrite IH|].
    destruct (N.eqb_spec b 8); [subst; cbn [app read_string]; unfold QUOTE, BSLASH, unesc1; ground_cmp; now rewrite IH|].
    destruct (N.eqb_spec b 12); [subst; cbn [app read_string]; unfold QUOTE, BSLASH, unesc1; ground_cmp; now rewrite IH|].
    destruct (N.eqb_spec b 10); [subst; cbn [app read_string]; unfold QUOTE, BSLASH, unesc1; ground_cmp; now rewrite IH|].
    destruct (N.eqb_spec b 13); [subst; cbn [app read_string]; unfold QUOTE, BSLASH, unesc1; ground_cmp; now rewrite IH|].
    destruct (N.eqb_spec b 9); [subst; cbn [app read_string]; unfold QUOTE, BSLASH, unesc1; ground_cmp; now rewrite IH|].
    destruct ((b <? 32) || (b =? 60) || (b =? 62) || (b =? 38)) eqn:E.
    + assert (B : b < 64) by lia.
      cbn [app read_string]. unfold QUOTE, BSLASH. ground_cmp. cbn [andb].
      rewrite !unhex_hexdigit, IH.
      * f_equal. f_equal. f_equal. pose proof (N.div_mod b 16). lia.
      * apply N.mod_lt. lia.
      * apply N.div_lt_upper_bound; lia.
    + cbn [app read_string]. unfold QUOTE, BSLASH.
      destruct (N.eqb_spec b 34); [tauto|]. destruct (N.eqb_spec b 92); [tauto|].
      assert (L : (b <? 32) = false) by lia. rewrite L, IH. reflexivity.
Qed.

Lemma read_json_string : forall s rest, read_string (tl (json_string s) ++ rest) = Some (s, rest).
Proof. intros s rest. unfold json_string. cbn [tl]. rewrite <- app_assoc. apply read_string_spec. Qed.

Lemma json_string_cons : forall s, json_string s = QUOTE :: tl (json_string s).
Proof. reflexivity. Qed.

Lemma read_elems_spec : forall l fuel rest, l <> [] -> (length l <= fuel)%nat ->
  read_elems fuel (join (map json_string l) COMMA ++ RBRACK :: rest) = Some (l, rest).
Proof.
  induction l as [|s l IH]; intros fuel rest NE Le; [tauto|].
  destruct fuel as [|f]; [cbn in Le; lia|].
  destruct l as [|s2 l2].
  - cbn [map join read_elems]. rewrite json_string_cons. cbn [app]. unfold QUOTE at 1. ground_cmp.
    rewrite read_json_string. unfold RBRACK, COMMA. ground_cmp. reflexivity.
  - change (join (map json_string (s :: s2 :: l2)) COMMA) with (json_string s ++ COMMA :: join (map json_string (s2 :: l2)) COMMA).
    cbn [read_elems]. rewrite json_string_cons. rewrite <- app_assoc. cbn [app]. unfold QUOTE at 1. ground_cmp.
    rewrite read_json_string. unfold COMMA at 1. ground_cmp.
    rewrite IH; [reflexivity | discriminate | cbn in *; lia].
Qed.

Lemma length_json_string : forall s, (2 <= length (json_string s))%nat.
Proof. intros s. unfold json_string. cbn [length]. rewrite app_length. cbn. lia. Qed.

Lemma length_join_strings : forall l, (length l <= length (join (map json_string l) COMMA) + 1)%nat.
Proof.
  induction l as [|s l IH]; [cbn; lia|].
  destruct l as [|s2 l2].
  - cbn [map join length]. pose proof (length_json_string s). lia.
  - change (join (map json_string (s :: s2 :: l2)) COMMA) with (json_string s ++ COMMA :: join (map json_string (s2 :: l2)) COMMA).
    rewrite app_length. cbn [length] in *. pose proof (length_json_string s). lia.
Qed.

Lemma read_value_spec : forall v rest, read_value (render_value v ++ rest) = Some (v, rest).
Proof.
  intros [s|l] rest; cbn [render_value].
  - rewrite json_string_cons. cbn [app read_value]. unfold QUOTE at 1. ground_cmp. now rewrite read_json_string.
  - cbn [app read_value]. unfold LBRACK, QUOTE. ground_cmp. fold LBRACK QUOTE.
    destruct l as [|s l].
    + cbn [map join app]. unfold RBRACK. ground_cmp. reflexivity.
    + rewrite <- app_assoc. cbn [app].
      set (body := join (map json_string (s :: l)) COMMA).
      assert (HB : exists t, body = QUOTE :: t).
      { unfold body. destruct l; cbn [map join]; rewrite json_string_cons; cbn [app]; eauto. }
      destruct HB as [t HB]. rewrite HB. cbn [app]. unfold QUOTE at 1, RBRACK at 1. ground_cmp.
      change (QUOTE :: t ++ RBRACK :: rest) with ((QUOTE :: t) ++ RBRACK :: rest). rewrite <- HB.
      unfold body. rewrite read_elems_spec; [reflexivity | discriminate |].
      rewrite app_length. pose proof (length_join_strings (s :: l)). cbn [length] in *. lia.
Qed.

Lemma read_members_spec : forall ms fuel, ms <> [] -> (length ms <= fuel)%nat ->
  read_members fuel (join (map render_member ms) COMMA ++ [RBRACE]) = Some ms.
Proof.
  induction ms as [|[k v] ms IH]; intros fuel NE Le; [tauto|].
  destruct fuel as [|f]; [cbn in Le; lia|].
  destruct ms as [|m2 ms2].
  - cbn [map join read_members]. unfold render_member. cbn [fst snd].
    rewrite json_string_cons. rewrite <- !app_assoc. cbn [app]. unfold QUOTE at 1. ground_cmp.
    rewrite read_json_string. unfold COLON at 1. ground_cmp.
    rewrite read_value_spec. unfold RBRACE, COMMA. ground_cmp. reflexivity.
  - change (join (map render_member ((k, v) :: m2 :: ms2)) COMMA)
      with (render_member (k, v) ++ COMMA :: join (map render_member (m2 :: ms2)) COMMA).
    cbn [read_members]. unfold render_member at 1. cbn [fst snd].
    rewrite json_string_cons. rewrite <- !app_assoc. cbn [app]. unfold QUOTE at 1. ground_cmp.
    rewrite read_json_string. unfold COLON at 1. ground_cmp.
    rewrite read_value_spec. unfold COMMA at 1. ground_cmp.
    rewrite IH; [reflexivity | discriminate | cbn in *; lia].
Qed.

Lemma length_render_member : forall m, (1 <= length (render_member m))%nat.
Proof. intros m. unfold render_member. rewrite app_length. pose proof (length_json_string (fst m)). lia. Qed.

Lemma length_join_members : forall ms, (length ms <= length (join (map render_member ms) COMMA) + 1)%nat.
Proof.
  induction ms as [|m ms IH]; [cbn; lia|].
  destruct ms as [|m2 ms2].
  - cbn [map join length]. pose proof (length_render_member m). lia.
  - change (join (map render_member (m :: m2 :: ms2)) COMMA) with (render_member m ++ COMMA :: join (map render_member (m2 :: ms2)) COMMA).
    rewrite app_length. cbn [length] in *. pose proof (length_render_member m). lia.
Qed.

(* the reader inverts the writer on every non-empty object *)
Theorem parse_render_object : forall ms, ms <> [] -> parse_object (render_object ms) = Some ms.
Proof.
  intros ms NE. unfold render_object, parse_object. unfold LBRACE at 2. ground_cmp.
  apply read_members_spec; auto. rewrite app_length. pose proof (length_join_members ms). cbn [length]. lia.
Qed.

(* the stored bytes determine the fields: reading what MarshalJSON wrote gives back the fields *)
Theorem parse_marshal_bytes : forall j, parse_bytes (marshal_bytes j) = Some j.
Proof.
  intros [c s v p m]. unfold parse_bytes, marshal_bytes. rewrite parse_render_object.
  - unfold to_jvec, members, str_field, arr_field. cbn [j_cvcas j_src j_ver j_pv j_mv].
    destruct c, p, m; vm_compute jget; reflexivity.
  - unfold members. cbn [j_cvcas j_src j_ver j_pv j_mv]. destruct c; discriminate.
Qed.

Corollary marshal_bytes_injective : forall j1 j2, marshal_bytes j1 = marshal_bytes j2 -> j1 = j2.
Proof.
  intros j1 j2 E. pose proof (parse_marshal_bytes j1) as P1. rewrite E, parse_marshal_bytes in P1. congruence.
Qed.

(* BYTE-LEVEL ROUND TRIP: whatever bytes MarshalJSON produced for a storable vector (whatever order it chose
   among equal values), UnmarshalJSON of those bytes gives the vector back *)
Theorem json_bytes_roundtrip : forall v j out, storable v -> check_marshal_bytes v j out = true ->
  exists v', unmarshal_bytes out = Some v' /\ svec_equiv v' v.
Proof.
  intros v j out St C. unfold check_marshal_bytes in C. apply andb_true_iff in C. destruct C as [R B].
  apply bytes_eqb_eq in B. subst out. unfold unmarshal_bytes. rewrite parse_marshal_bytes.
  now apply json_roundtrip.
Qed.

(* ---------- shape of the hexadecimal fields ---------- *)
Definition lower_hex (c : N) : Prop := (48 <= c <= 57) \/ (97 <= c <= 102).

Lemma hexdigit_lower : forall x, x < 16 -> lower_hex (hexdigit x).
Proof. intros x H. unfold hexdigit, lower_hex. destruct (N.ltb_spec x 10); lia. Qed.

Lemma le_hex16_lower : forall v, Forall lower_hex (le_hex16 v).
Proof.
  intros v. unfold le_hex16. generalize (le_bytes_bound 8 v). generalize (le_bytes 8 v).
  induction l as [|b l IH]; intros F; [constructor|]. inv F. cbn [flat_map byte_hex app].
  constructor; [|constructor; [|now apply IH]].
  - apply hexdigit_lower. apply N.div_lt_upper_bound; lia.
  - apply hexdigit_lower. apply N.mod_lt. lia.
Qed.

(* "ver" / "cvCas": 0x and 16 lower-case hexadecimal digits *)
Theorem cas_string_shape : forall v, exists ds, cas_to_string v = 48 :: 120 :: ds /\ length ds = 16%nat /\ Forall lower_hex ds.
Proof.
  intros v. exists (le_hex16 v). split; [reflexivity|]. split; [apply length_le_hex16 | apply le_hex16_lower].
Qed.

Lemma strip_trailing_last : forall l, strip_trailing l <> [] -> last (strip_trailing l) 0 <> 48.
Proof.
  induction l as [|c r IH]; cbn [strip_trailing]; [tauto|].
  destruct (strip_trailing r) as [|x t] eqn:E.
  - destruct (N.eqb_spec c 48); [tauto|]. intros _. cbn. exact n.
  - intros _. specialize (IH ltac:(discriminate)). cbn [last] in *. exact IH.
Qed.

(* a delta: lower-case hexadecimal digits, at least one, no trailing zero after the first *)
Theorem delta_hex_shape : forall v,
  le_hex_strip v <> [] /\ Forall lower_hex (le_hex_strip v) /\
  (length (le_hex_strip v) = 1%nat \/ last (le_hex_strip v) 0 <> 48).
Proof.
  intros v. pose proof (le_hex16_lower v) as L. pose proof (length_le_hex16 v) as Len.
  unfold le_hex_strip. destruct (le_hex16 v) as [|c r] eqn:E; [discriminate|].
  split; [discriminate|]. inv L. split.
  - constructor; auto. apply Forall_forall. intros x I. apply strip_trailing_incl in I.
    rewrite Forall_forall in H2. auto.
  - destruct (strip_trailing r) as [|x t] eqn:S; [left; reflexivity|]. right.
    change (last (c :: x :: t) 0) with (last (x :: t) 0). rewrite <- S. apply strip_trailing_last. rewrite S. discriminate.
Qed.
