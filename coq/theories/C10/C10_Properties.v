(* C10 -- Version vectors order revisions soundly and survive encoding.
   Nothing but the property theorems; each is closed by [exact] of a lemma proved elsewhere and followed
   by Print Assumptions.  The functions named here are the hand-written model of db.HybridLogicalVector
   (HLV.v), of the replicas exchanging a document (Replica.v) and of the codecs (HLVCodec.v); the harness
   harness/db/verif_c10_test.go runs the same inputs on the real code.

   Ground truth: [seen] is the set of (source, value) versions a replica has really seen; [max_ver] of it
   is the classic version vector; [repr h S] says vector h lists exactly the newest version per source of
   S (nothing invented, nothing lost) and is well-formed ([wf]: no source twice). *)
From SG Require Import Base.Prelude C10.AMap C10.HLV C10.HLVProofs C10.HLVOps C10.Replica C10.ReplicaProofs
                       C10.HLVCodec C10.HLVCodecProofs C10.HLVWire
                       C10.HLVUpdate C10.ReplicaAll C10.HLVCompact C10.HLVJson C10.HLVLegacy.
Open Scope N_scope.

(* ---- the conflict predicate against version vectors, for any two vectors representing seen sets ---- *)
Theorem C10_conflict_iff_concurrent : forall hl hi Sl Si, good Sl -> good Si -> repr hl Sl -> repr hi Si ->
  (is_in_conflict hl hi = Conflict <->
   ~ seenV Sl (cv hi) /\ ~ seenV Si (cv hl) /\ same_merge hl hi = false).
Proof. exact conflict_iff_concurrent. Qed.
Print Assumptions C10_conflict_iff_concurrent.

Theorem C10_known_iff_seen : forall hl hi Sl Si, good Sl -> good Si -> repr hl Sl -> repr hi Si ->
  (seenV Si (cv hl) -> seenV Sl (cv hi) -> cv hl = cv hi) ->
  (is_in_conflict hl hi = AlreadyPresent <-> seenV Sl (cv hi)).
Proof. exact known_iff_seen. Qed.
Print Assumptions C10_known_iff_seen.

Theorem C10_accepted_otherwise : forall hl hi Sl Si, good Sl -> good Si -> repr hl Sl -> repr hi Si ->
  (seenV Si (cv hl) -> seenV Sl (cv hi) -> cv hl = cv hi) ->
  (is_in_conflict hl hi = NoConflict <-> ~ seenV Sl (cv hi) /\ (seenV Si (cv hl) \/ same_merge hl hi = true)).
Proof. exact accepted_iff. Qed.
Print Assumptions C10_accepted_otherwise.

(* ---- the update operations keep the representation: nothing lost, nothing invented, no source twice
        ([repr] contains [wf]), no value lowered ---- *)
Theorem C10_edit_repr : forall h S r v, good S -> repr h S -> r <> 0 -> max_value_for_source h r < v ->
  exists h', add_version h (r, v) = Some h' /\ repr h' ((r, v) :: S) /\
             src h' = r /\ ver h' = v /\ mv h' = [] /\
             (forall s e, get_value h s = Some e -> exists e', get_value h' s = Some e' /\ e <= e').
Proof. exact add_version_repr. Qed.
Print Assumptions C10_edit_repr.

Theorem C10_update_repr : forall hl hi Sl Si, good Sl -> good Si -> repr hl Sl -> repr hi Si -> incl Sl Si ->
  update_with_incoming hl hi = hi /\
  repr (update_with_incoming hl hi) (Sl ++ Si) /\
  (forall s, value hl s <= value (update_with_incoming hl hi) s).
Proof. exact update_repr. Qed.
Print Assumptions C10_update_repr.

Theorem C10_merge_repr : forall hl hi Sl Si r v, good Sl -> good Si -> repr hl Sl -> repr hi Si ->
  dominates hi (cv hl) = false -> dominates hl (cv hi) = false ->
  r <> 0 -> max_value_for_source hl r < v -> max_value_for_source hi r < v ->
  exists h', merge_with_incoming hl (r, v) hi = Some h' /\
             repr h' ((r, v) :: Sl ++ Si) /\ cv h' = (r, v) /\
             (forall s, value hl s <= value h' s) /\ (forall s, value hi s <= value h' s).
Proof. exact merge_repr. Qed.
Print Assumptions C10_merge_repr.

(* a vector representing S reports, for every source, the classic version-vector entry of S *)
Theorem C10_repr_is_version_vector : forall h S, good S -> repr h S -> forall s, s <> 0 -> value h s = max_ver S s.
Proof. exact repr_value. Qed.
Print Assumptions C10_repr_is_version_vector.

(* ---- histories: every reachable vector meets the hypotheses above.  PARTIAL: proved for histories in
        which no pull is accepted on the same-merge rule ([clean]); the statement for all histories,
        [C10_history_repr_full_statement], is refuted by the faithful model of the unchanged code
        (C10_Refuted.v: history_repr_full_statement_refuted, nothing_lost_refuted) ---- *)
Definition C10_history_repr_full_statement : Prop := forall evs, Inv (run evs).

Theorem C10_history_repr_partial : forall evs, clean evs -> Inv (run evs).
Proof. exact history_repr. Qed.
Print Assumptions C10_history_repr_partial.

(* in any such history no locally generated version is rejected *)
Theorem C10_history_no_errors : forall evs, clean evs ->
  ~ In OEditError (outcomes_from init evs) /\ ~ In OMergeError (outcomes_from init evs).
Proof. intros evs C. exact (no_errors_from evs init inv_init C). Qed.
Print Assumptions C10_history_no_errors.

(* the verdict between any two replicas of a reachable state, against the sets of versions really seen *)
Theorem C10_history_verdict : forall evs r q, clean evs ->
  src (rh (run evs r)) <> 0 -> src (rh (run evs q)) <> 0 ->
  let hl := rh (run evs r) in let hi := rh (run evs q) in
  let Sl := rseen (run evs r) in let Si := rseen (run evs q) in
  (is_in_conflict hl hi = AlreadyPresent <-> In (cv hi) Sl) /\
  (is_in_conflict hl hi = Conflict <-> ~ In (cv hi) Sl /\ ~ In (cv hl) Si /\ same_merge hl hi = false) /\
  (is_in_conflict hl hi = NoConflict <-> ~ In (cv hi) Sl /\ (In (cv hl) Si \/ same_merge hl hi = true)).
Proof. intros evs r q C. exact (verdict_correct (run evs) r q (history_repr evs C)). Qed.
Print Assumptions C10_history_verdict.

(* versions generated locally (edit or merge) are above the floor and above every version of the source
   that any replica has seen -- whatever the wall clock says and after clock restarts *)
Theorem C10_local_versions_increase : forall evs e r v, clean evs ->
  generated e (snd (step (run evs) e)) = Some (r, v) ->
  max_value_for_source (rh (run evs r)) r < v /\
  (forall q x, In (r, x) (rseen (run evs q)) -> x < v) /\
  In (r, v) (rseen (fst (step (run evs) e) r)).
Proof. intros evs e r v C. exact (generated_versions_new (run evs) e r v (history_repr evs C)). Qed.
Print Assumptions C10_local_versions_increase.

(* ---- codecs ---- *)
Theorem C10_le_hex_roundtrip : forall v, v < two64 -> le_hex_decode (le_hex_strip v) = Some v.
Proof. exact le_hex_roundtrip. Qed.
Print Assumptions C10_le_hex_roundtrip.

Theorem C10_cas_roundtrip : forall v, v < two64 -> hex_cas_to_uint64 (cas_to_string v) = v.
Proof. exact cas_roundtrip. Qed.
Print Assumptions C10_cas_roundtrip.

(* whatever order VersionsToDeltas chose among equal values ([deltas_rel]), the list decodes to the map *)
Theorem C10_deltas_roundtrip : forall m out, NoDup (map fst m) -> small_values m -> deltas_rel m out = true ->
  exists m', persisted_deltas_to_map out = Some m' /\ forall k, slookup m' k = slookup m k.
Proof. exact deltas_roundtrip. Qed.
Print Assumptions C10_deltas_roundtrip.

Theorem C10_json_roundtrip : forall v j, storable v -> marshal_rel v j = true ->
  exists v', unmarshal j = Some v' /\ svec_equiv v' v.
Proof. exact json_roundtrip. Qed.
Print Assumptions C10_json_roundtrip.

(* the wire string (rev property + history property, glued as the receiver does) parses back to the vector *)
Theorem C10_wire_roundtrip : forall v, sendable v ->
  exists v', extract_hlv (wire_join (cv_string v) (to_history v)) = Some (v', []) /\ svec_equiv v' (wire_view v).
Proof. exact wire_roundtrip. Qed.
Print Assumptions C10_wire_roundtrip.

(* whatever the wire parser accepts is structurally valid: no source twice in mv, none twice in pv, none in
   both, cv not repeated in mv (duplicate sources, cv repeated in mv are rejected) *)
Theorem C10_wire_parse_wellformed : forall str v lg, extract_hlv str = Some (v, lg) -> wire_wf v.
Proof. exact wire_parse_wellformed. Qed.
Print Assumptions C10_wire_parse_wellformed.

(* ==================================================================================================
   Deepening round.
   ================================================================================================== *)

(* ---- UpdateWithIncomingHLV in general (HLVUpdate.v).  [keptb hl hi p]: the local version p is known to the
        incoming vector hi, or its source is not blocked in hi (not the source of hi's cv, not a source of
        hi's merge versions -- unless a newer local MERGE version made UpdateHistory invalidate them). ---- *)

(* for ANY two vectors representing seen sets, whatever the conflict predicate said: the result represents the
   incoming set plus the local versions that are kept; the other local versions are really lost; the cv is
   the incoming one; no value of the incoming vector is lowered *)
Theorem C10_update_general : forall hl hi Sl Si, good Sl -> good Si -> repr hl Sl -> repr hi Si ->
  let h' := update_with_incoming hl hi in
  repr h' (Si ++ filter (keptb hl hi) Sl) /\
  cv h' = cv hi /\
  (forall p, In p Sl -> keptb hl hi p = false -> dominates h' p = false) /\
  (forall s, value hi s <= value h' s).
Proof. exact update_general. Qed.
Print Assumptions C10_update_general.

(* nothing is lost exactly when every local version is kept *)
Theorem C10_update_nothing_lost_iff : forall hl hi Sl Si, good Sl -> good Si -> repr hl Sl -> repr hi Si ->
  (repr (update_with_incoming hl hi) (Sl ++ Si) <-> forall p, In p Sl -> keptb hl hi p = true).
Proof. exact update_nothing_lost_iff. Qed.
Print Assumptions C10_update_nothing_lost_iff.

(* the update lemma of every accepted pull without [incl Sl Si] (C10_update_repr is the special case): it is
   enough that the local versions under the blocked sources of hi are known to hi.  That "hi dominates the
   local cv" alone is NOT enough for arbitrary sets is shown in C10_Refuted.v
   (update_repr_dominating_only_refuted); in every reachable state of a clean history it is
   (C10_history_fast_forward_lossless). *)
Theorem C10_update_repr_noconflict : forall hl hi Sl Si, good Sl -> good Si -> repr hl Sl -> repr hi Si ->
  (forall p, In p Sl -> merge_blocked hi (fst p) = true -> dominates hi p = true) ->
  repr (update_with_incoming hl hi) (Sl ++ Si) /\
  cv (update_with_incoming hl hi) = cv hi /\
  (forall s, value hl s <= value (update_with_incoming hl hi) s) /\
  (forall s, value hi s <= value (update_with_incoming hl hi) s).
Proof. exact update_repr_noconflict. Qed.
Print Assumptions C10_update_repr_noconflict.

(* THE LOSS OF A SAME-MERGE ACCEPTANCE, exactly: the result keeps the incoming cv and merge versions and records
   the incoming set plus the local versions known to the incoming vector or of a source that is neither the
   source of the incoming cv nor one of the common merge versions; every other local version is lost *)
Theorem C10_same_merge_loss : forall hl hi Sl Si, good Sl -> good Si -> repr hl Sl -> repr hi Si ->
  same_merge hl hi = true ->
  let h' := update_with_incoming hl hi in
  let kept := fun p => dominates hi p || negb (merge_blocked hi (fst p)) in
  repr h' (Si ++ filter kept Sl) /\
  cv h' = cv hi /\ mv h' = mv hi /\
  (forall p, In p Sl -> kept p = false -> dominates h' p = false).
Proof. exact same_merge_loss. Qed.
Print Assumptions C10_same_merge_loss.

(* in particular the local current version survives iff its source is not blocked (the known finding
   same-merge-accept-drops-local-version is the case "blocked") *)
Theorem C10_same_merge_local_cv : forall hl hi Sl Si, good Sl -> good Si -> repr hl Sl -> repr hi Si ->
  same_merge hl hi = true -> dominates hi (cv hl) = false ->
  (dominates (update_with_incoming hl hi) (cv hl) = false <-> merge_blocked hi (src hl) = true).
Proof. exact same_merge_local_cv. Qed.
Print Assumptions C10_same_merge_local_cv.

(* ---- ALL histories (ReplicaAll.v): [rec_run evs r] is the set of versions the vector of replica r records,
        maintained event by event with the loss of every accepted pull given by [keptb] ---- *)
Theorem C10_history_repr_all : forall evs r,
  good (rec_run evs r) /\ incl (rec_run evs r) (rseen (run evs r)) /\
  (src (rh (run evs r)) <> 0 -> repr (rh (run evs r)) (rec_run evs r)).
Proof. intros evs r. destruct (history_repr_all evs r) as [A B _ D]. auto. Qed.
Print Assumptions C10_history_repr_all.

Theorem C10_history_no_errors_all : forall evs,
  ~ In OEditError (outcomes_from init evs) /\ ~ In OMergeError (outcomes_from init evs).
Proof. exact history_no_errors_all. Qed.
Print Assumptions C10_history_no_errors_all.

Theorem C10_history_conflict_all : forall evs r q,
  src (rh (run evs r)) <> 0 -> src (rh (run evs q)) <> 0 ->
  let hl := rh (run evs r) in let hi := rh (run evs q) in
  (is_in_conflict hl hi = Conflict <->
   ~ seenV (rec_run evs r) (cv hi) /\ ~ seenV (rec_run evs q) (cv hl) /\ same_merge hl hi = false).
Proof. exact history_conflict_all. Qed.
Print Assumptions C10_history_conflict_all.

(* in every history a generated version is above the floor and above every version of the source that the
   replica's own vector still records (against the versions really seen this needs [clean]:
   C10_local_versions_increase, and is refuted without it: C10_Refuted.v local_versions_increase_full_refuted) *)
Theorem C10_local_versions_increase_all : forall evs e r v,
  generated e (snd (step (run evs) e)) = Some (r, v) ->
  max_value_for_source (rh (run evs r)) r < v /\ (forall x, In (r, x) (rec_run evs r) -> x < v).
Proof. intros evs e r v. exact (generated_versions_new_all (run evs) (rec_run evs) e r v (history_repr_all evs)). Qed.
Print Assumptions C10_local_versions_increase_all.

(* in a clean history recorded = seen: C10_history_repr_all specialises to C10_history_repr_partial *)
Theorem C10_history_clean_records_all : forall evs, clean evs ->
  forall r p, In p (rec_run evs r) <-> In p (rseen (run evs r)).
Proof. exact clean_records_all. Qed.
Print Assumptions C10_history_clean_records_all.

(* every pull of a reachable state of a clean history that the conflict predicate accepts because the
   incoming vector dominates the local cv (i.e. every acceptance other than by the same-merge rule) loses nothing *)
Theorem C10_history_fast_forward_lossless : forall evs r q, clean evs ->
  src (rh (run evs r)) <> 0 -> src (rh (run evs q)) <> 0 ->
  dominates (rh (run evs q)) (cv (rh (run evs r))) = true ->
  let hl := rh (run evs r) in let hi := rh (run evs q) in
  update_with_incoming hl hi = hi /\
  repr (update_with_incoming hl hi) (rseen (run evs r) ++ rseen (run evs q)).
Proof. exact history_fast_forward_lossless. Qed.
Print Assumptions C10_history_fast_forward_lossless.

(* ---- Compact (HLVCompact.v): for every possible result h' of compactWithValue(c) on h ([compact_okb]: the order
        among candidates of equal value is not determined by the code) ---- *)
Theorem C10_compact_keeps_cv_mv : forall h c h', compact_okb h c h' = true ->
  cv h' = cv h /\ mv h' = mv h /\ pruned h h' /\ NoDup (keys (pv h')).
Proof. exact compact_keeps_cv_mv. Qed.
Print Assumptions C10_compact_keeps_cv_mv.

Theorem C10_compact_retains : forall h c h', compact_okb h c h' = true ->
  N.min (len (pv h)) min_retained <= len (pv h') /\
  (compact_noop h c = true -> len (pv h') = len (pv h)) /\
  (NoDup (keys (pv h)) -> forall x v, lookup (pv h) x = Some v -> c <= v -> lookup (pv h') x = Some v).
Proof. exact compact_retains. Qed.
Print Assumptions C10_compact_retains.

Theorem C10_compact_oldest_first : forall h c h', compact_okb h c h' = true -> forall x v y w,
  lookup (pv h) x = Some v -> lookup (pv h') x = None ->
  In (y, w) (pv h) -> w < c -> mem (pv h') y = true -> v <= w.
Proof. exact compact_oldest_first. Qed.
Print Assumptions C10_compact_oldest_first.

(* the deterministic model function is one of the allowed results *)
Theorem C10_compact_function_allowed : forall h c, NoDup (keys (pv h)) -> compact_okb h c (compact_with_value h c) = true.
Proof. exact compact_fun_ok. Qed.
Print Assumptions C10_compact_function_allowed.

(* COMPACTION IS SOUND: pruning previous versions of the local vector, of the incoming one or of both never
   turns a pair in conflict into an accepted (or already known) one ... *)
Theorem C10_compact_sound : forall hl hl' hi hi', pruned hl hl' -> pruned hi hi' ->
  is_in_conflict hl hi = Conflict -> is_in_conflict hl' hi' = Conflict.
Proof. exact compact_sound. Qed.
Print Assumptions C10_compact_sound.

Theorem C10_compact_accept_sound : forall hl hl' hi hi', pruned hl hl' -> pruned hi hi' ->
  is_in_conflict hl' hi' = NoConflict ->
  is_in_conflict hl hi = NoConflict \/ is_in_conflict hl hi = AlreadyPresent.
Proof. exact compact_accept_sound. Qed.
Print Assumptions C10_compact_accept_sound.

(* ... it is not complete, by design: a known or a fast-forward pair may become a conflict, and a known
   revision may even be accepted again through the same-merge rule (C10_Refuted.v, "by design") *)

(* what compaction loses against the seen set: exactly the versions of the pruned sources *)
Theorem C10_compact_repr : forall h h' S, pruned h h' -> NoDup (keys (pv h')) -> good S -> repr h S ->
  let kept := fun p : version => negb (mem (pv h) (fst p)) || mem (pv h') (fst p) in
  repr h' (filter kept S) /\
  (forall p, In p S -> kept p = false -> dominates h' p = false).
Proof. exact compact_repr. Qed.
Print Assumptions C10_compact_repr.

(* ---- the stored BYTES (HLVJson.v): [marshal_bytes] is the text encoding/json writes for the fields ---- *)
Theorem C10_json_bytes_roundtrip : forall v j out, storable v -> check_marshal_bytes v j out = true ->
  exists v', unmarshal_bytes out = Some v' /\ svec_equiv v' v.
Proof. exact json_bytes_roundtrip. Qed.
Print Assumptions C10_json_bytes_roundtrip.

Theorem C10_stored_bytes_determine_fields : forall j, parse_bytes (marshal_bytes j) = Some j.
Proof. exact parse_marshal_bytes. Qed.
Print Assumptions C10_stored_bytes_determine_fields.

Theorem C10_cas_string_shape : forall v,
  exists ds, cas_to_string v = 48 :: 120 :: ds /\ length ds = 16%nat /\ Forall lower_hex ds.
Proof. exact cas_string_shape. Qed.
Print Assumptions C10_cas_string_shape.

Theorem C10_delta_hex_shape : forall v,
  le_hex_strip v <> [] /\ Forall lower_hex (le_hex_strip v) /\
  (length (le_hex_strip v) = 1%nat \/ last (le_hex_strip v) 0 <> 48).
Proof. exact delta_hex_shape. Qed.
Print Assumptions C10_delta_hex_shape.

(* ---- legacy revision ids (HLVLegacy.v) ---- *)
Theorem C10_legacy_generation_roundtrip : forall rev g d gen v,
  cut rev DASH = Some (g, d) -> canonical_gen g = Some gen -> legacy_rev_to_version rev = Some v ->
  gen < two24 -> generation_of v = gen.
Proof. exact legacy_generation_roundtrip. Qed.
Print Assumptions C10_legacy_generation_roundtrip.

Theorem C10_legacy_order_by_generation : forall rev1 g1 d1 gen1 v1 rev2 g2 d2 gen2 v2,
  cut rev1 DASH = Some (g1, d1) -> canonical_gen g1 = Some gen1 -> legacy_rev_to_version rev1 = Some v1 ->
  cut rev2 DASH = Some (g2, d2) -> canonical_gen g2 = Some gen2 -> legacy_rev_to_version rev2 = Some v2 ->
  gen1 < gen2 -> gen2 < two24 -> v1 < v2.
Proof. exact legacy_order_by_generation. Qed.
Print Assumptions C10_legacy_order_by_generation.

(* the rev message built for a peer that holds a legacy revision (buildRevHistory scenario 3 as repaired by commit
   136d16a of /repo: an HLV history ending with ';' takes the first revision id directly after the semicolon):
   FULL, for every sendable vector, the merge-versions-only ones included -- the vector and the legacy ids come
   back.  For the sender before that commit the statement is refuted (C10_Refuted.v wire_legacy_mv_only_refuted /
   wire_legacy_full_statement_refuted about [history_legacy_old]; monitor signature
   wire-legacy-mv-only-history-rejected). *)
Theorem C10_wire_legacy_roundtrip : forall v lg, sendable v -> lg <> [] -> (forall x, In x lg -> legacy_ok x) ->
  exists v', extract_hlv (wire_join (cv_string v) (history_legacy v lg)) = Some (v', lg) /\ svec_equiv v' (wire_view v).
Proof. exact wire_legacy_roundtrip. Qed.
Print Assumptions C10_wire_legacy_roundtrip.

(* ---- non-vacuity: a concrete clean history with a conflict, a merge, a fast-forward and an
        already-known pull; its vectors satisfy the hypotheses of the theorems above ---- *)
Example C10_nonvacuous :
  let evs := [EEdit 1 0; EPull 2 1 0; EEdit 1 0; EEdit 2 0; EPull 1 2 0; EPull 2 1 0; EPull 2 1 0; EEdit 2 0] in
  clean evs /\
  outcomes_from init evs = [OEdited 1; OCopied; OEdited 2; OEdited 1; OMerged 3; OFastForward; OKnown; OEdited 2] /\
  mv (rh (run_from init (firstn 5 evs) 1)) <> [] /\
  is_in_conflict (rh (run evs 1)) (rh (run evs 2)) = NoConflict.
Proof.
  cbn zeta. split; [|split; [|split]].
  - unfold clean. cbn [clean_from]. repeat split; vm_compute; discriminate.
  - vm_compute. reflexivity.
  - vm_compute. discriminate.
  - vm_compute. reflexivity.
Qed.

(* ---- non-vacuity of the deepening round: the history of the known finding (both sides merge the same
        conflict, then replica 1 pulls replica 2's merge): the pull is accepted on the same-merge rule, the
        recorded set of replica 1 is its seen set minus exactly its own version 2@1, and its vector represents
        it; a compaction that removes the three oldest of six previous versions (four are candidates, three must stay); the bytes of a stored vector ---- *)
Example C10_nonvacuous_deep :
  let evs := [EEdit 1 0; EEdit 2 0; EPull 3 1 0; EPull 1 2 0; EPull 2 3 0; EPull 1 2 0] in
  last (outcomes_from init evs) ONone = OSameMerge /\
  In (1, 2) (rseen (run evs 1)) /\ ~ In (1, 2) (rec_run evs 1) /\
  (forall p, In p (rseen (run evs 1)) -> p <> (1, 2) -> In p (rec_run evs 1)) /\
  repr (rh (run evs 1)) (rec_run evs 1) /\
  compact_with_value (mkH 1 9 [] [(2, 5); (3, 1); (4, 7); (5, 2); (6, 3); (7, 9)]) 6 = mkH 1 9 [] [(2, 5); (4, 7); (7, 9)] /\
  marshal_bytes (mkJ None [97] (cas_to_string 1) (Some [le_hex_strip 1 ++ [64; 98]]) None) =
    [123;34;115;114;99;34;58;34;97;34;44;34;118;101;114;34;58;34;48;120;48;49;48;48;48;48;48;48;48;48;48;48;48;48;48;48;34;44;
     34;112;118;34;58;91;34;48;49;64;98;34;93;125].
  (* {"src":"a","ver":"0x0100000000000000","pv":["01@b"]} *)
Proof.
  cbn zeta. split; [vm_compute; reflexivity|]. split; [vm_compute; tauto|]. split.
  { vm_compute. intros H. repeat (destruct H as [H|H]; [discriminate H|]). exact H. }
  split.
  { intros p I N. vm_compute in I. vm_compute.
    repeat (destruct I as [I|I]; [subst p; try tauto; try (exfalso; apply N; reflexivity)|]); try tauto. }
  split; [|split; vm_compute; reflexivity].
  apply C10_history_repr_all. vm_compute. discriminate.
Qed.
