(* C10 -- Version vectors order revisions soundly and survive encoding.
   Nothing but the property theorems; each is closed by [exact] of a lemma proved elsewhere and followed
   by Print Assumptions.  The functions named here are the hand-written model of db.HybridLogicalVector
   (HLV.v), of the replicas exchanging a document (Replica.v) and of the codecs (HLVCodec.v); the harness
   harness/db/verif_c10_test.go runs the same inputs on the real code.

   Ground truth: [seen] is the set of (source, value) versions a replica has really seen; [max_ver] of it
   is the classic version vector; [repr h S] says vector h lists exactly the newest version per source of
   S (nothing invented, nothing lost) and is well-formed ([wf]: no source twice). *)
From SG Require Import Base.Prelude C10.AMap C10.HLV C10.HLVProofs C10.HLVOps C10.Replica C10.ReplicaProofs
                       C10.HLVCodec C10.HLVCodecProofs C10.HLVWire.
Open Scope N_scope.

(* ---- the conflict predicate against version vectors, for any two vectors representing seen sets ---- *)
Theorem C10_conflict_iff_concurrent : forall hl hi Sl Si, good Sl -> good Si -> repr hl Sl -> repr hi Si ->
  (is_in_conflict hl hi = Conflict <->
   ~ seenV Sl (cv hi) /\ ~ seenV Si (cv hl) /\ same_merge hl hi = false).
Proof. exact conflict_iff_concurrent. Qed.
Print Assumptions C10_conflict_iff_concurrent.

Theorem C10_known_iff_seen : forall hl hi Sl Si, good Sl -> good Si -> repr hl Sl -> repr hi Si ->
  (seenV Si (cv hl) -> seenV Sl (cv hi) -> cv hl = cv hi) ->
  (is_in_conflict hl hi = AlreadyPresent <-> seenV Sl (cv hi)).
Proof. exact known_iff_seen. Qed.
Print Assumptions C10_known_iff_seen.

Theorem C10_accepted_otherwise : forall hl hi Sl Si, good Sl -> good Si -> repr hl Sl -> repr hi Si ->
  (seenV Si (cv hl) -> seenV Sl (cv hi) -> cv hl = cv hi) ->
  (is_in_conflict hl hi = NoConflict <-> ~ seenV Sl (cv hi) /\ (seenV Si (cv hl) \/ same_merge hl hi = true)).
Proof. exact accepted_iff. Qed.
Print Assumptions C10_accepted_otherwise.

(* ---- the update operations keep the representation: nothing lost, nothing invented, no source twice
        ([repr] contains [wf]), no value lowered ---- *)
Theorem C10_edit_repr : forall h S r v, good S -> repr h S -> r <> 0 -> max_value_for_source h r < v ->
  exists h', add_version h (r, v) = Some h' /\ repr h' ((r, v) :: S) /\
             src h' = r /\ ver h' = v /\ mv h' = [] /\
             (forall s e, get_value h s = Some e -> exists e', get_value h' s = Some e' /\ e <= e').
Proof. exact add_version_repr. Qed.
Print Assumptions C10_edit_repr.

Theorem C10_update_repr : forall hl hi Sl Si, good Sl -> good Si -> repr hl Sl -> repr hi Si -> incl Sl Si ->
  update_with_incoming hl hi = hi /\
  repr (update_with_incoming hl hi) (Sl ++ Si) /\
  (forall s, value hl s <= value (update_with_incoming hl hi) s).
Proof. exact update_repr. Qed.
Print Assumptions C10_update_repr.

Theorem C10_merge_repr : forall hl hi Sl Si r v, good Sl -> good Si -> repr hl Sl -> repr hi Si ->
  dominates hi (cv hl) = false -> dominates hl (cv hi) = false ->
  r <> 0 -> max_value_for_source hl r < v -> max_value_for_source hi r < v ->
  exists h', merge_with_incoming hl (r, v) hi = Some h' /\
             repr h' ((r, v) :: Sl ++ Si) /\ cv h' = (r, v) /\
             (forall s, value hl s <= value h' s) /\ (forall s, value hi s <= value h' s).
Proof. exact merge_repr. Qed.
Print Assumptions C10_merge_repr.

(* a vector representing S reports, for every source, the classic version-vector entry of S *)
Theorem C10_repr_is_version_vector : forall h S, good S -> repr h S -> forall s, s <> 0 -> value h s = max_ver S s.
Proof. exact repr_value. Qed.
Print Assumptions C10_repr_is_version_vector.

(* ---- histories: every reachable vector meets the hypotheses above.  PARTIAL: proved for histories in
        which no pull is accepted on the same-merge rule ([clean]); the statement for all histories,
        [C10_history_repr_full_statement], is refuted by the faithful model of the unchanged code
        (C10_Refuted.v: history_repr_full_statement_refuted, nothing_lost_refuted) ---- *)
Definition C10_history_repr_full_statement : Prop := forall evs, Inv (run evs).

Theorem C10_history_repr_partial : forall evs, clean evs -> Inv (run evs).
Proof. exact history_repr. Qed.
Print Assumptions C10_history_repr_partial.

(* in any such history no locally generated version is rejected *)
Theorem C10_history_no_errors : forall evs, clean evs ->
  ~ In OEditError (outcomes_from init evs) /\ ~ In OMergeError (outcomes_from init evs).
Proof. intros evs C. exact (no_errors_from evs init inv_init C). Qed.
Print Assumptions C10_history_no_errors.

(* the verdict between any two replicas of a reachable state, against the sets of versions really seen *)
Theorem C10_history_verdict : forall evs r q, clean evs ->
  src (rh (run evs r)) <> 0 -> src (rh (run evs q)) <> 0 ->
  let hl := rh (run evs r) in let hi := rh (run evs q) in
  let Sl := rseen (run evs r) in let Si := rseen (run evs q) in
  (is_in_conflict hl hi = AlreadyPresent <-> In (cv hi) Sl) /\
  (is_in_conflict hl hi = Conflict <-> ~ In (cv hi) Sl /\ ~ In (cv hl) Si /\ same_merge hl hi = false) /\
  (is_in_conflict hl hi = NoConflict <-> ~ In (cv hi) Sl /\ (In (cv hl) Si \/ same_merge hl hi = true)).
Proof. intros evs r q C. exact (verdict_correct (run evs) r q (history_repr evs C)). Qed.
Print Assumptions C10_history_verdict.

(* versions generated locally (edit or merge) are above the floor and above every version of the source
   that any replica has seen -- whatever the wall clock says and after clock restarts *)
Theorem C10_local_versions_increase : forall evs e r v, clean evs ->
  generated e (snd (step (run evs) e)) = Some (r, v) ->
  max_value_for_source (rh (run evs r)) r < v /\
  (forall q x, In (r, x) (rseen (run evs q)) -> x < v) /\
  In (r, v) (rseen (fst (step (run evs) e) r)).
Proof. intros evs e r v C. exact (generated_versions_new (run evs) e r v (history_repr evs C)). Qed.
Print Assumptions C10_local_versions_increase.

(* ---- codecs ---- *)
Theorem C10_le_hex_roundtrip : forall v, v < two64 -> le_hex_decode (le_hex_strip v) = Some v.
Proof. exact le_hex_roundtrip. Qed.
Print Assumptions C10_le_hex_roundtrip.

Theorem C10_cas_roundtrip : forall v, v < two64 -> hex_cas_to_uint64 (cas_to_string v) = v.
Proof. exact cas_roundtrip. Qed.
Print Assumptions C10_cas_roundtrip.

(* whatever order VersionsToDeltas chose among equal values ([deltas_rel]), the list decodes to the map *)
Theorem C10_deltas_roundtrip : forall m out, NoDup (map fst m) -> small_values m -> deltas_rel m out = true ->
  exists m', persisted_deltas_to_map out = Some m' /\ forall k, slookup m' k = slookup m k.
Proof. exact deltas_roundtrip. Qed.
Print Assumptions C10_deltas_roundtrip.

Theorem C10_json_roundtrip : forall v j, storable v -> marshal_rel v j = true ->
  exists v', unmarshal j = Some v' /\ svec_equiv v' v.
Proof. exact json_roundtrip. Qed.
Print Assumptions C10_json_roundtrip.

(* the wire string (rev property + history property, glued as the receiver does) parses back to the vector *)
Theorem C10_wire_roundtrip : forall v, sendable v ->
  exists v', extract_hlv (wire_join (cv_string v) (to_history v)) = Some (v', []) /\ svec_equiv v' (wire_view v).
Proof. exact wire_roundtrip. Qed.
Print Assumptions C10_wire_roundtrip.

(* whatever the wire parser accepts is structurally valid: no source twice in mv, none twice in pv, none in
   both, cv not repeated in mv (duplicate sources, cv repeated in mv are rejected) *)
Theorem C10_wire_parse_wellformed : forall str v lg, extract_hlv str = Some (v, lg) -> wire_wf v.
Proof. exact wire_parse_wellformed. Qed.
Print Assumptions C10_wire_parse_wellformed.

(* ---- non-vacuity: a concrete clean history with a conflict, a merge, a fast-forward and an
        already-known pull; its vectors satisfy the hypotheses of the theorems above ---- *)
Example C10_nonvacuous :
  let evs := [EEdit 1 0; EPull 2 1 0; EEdit 1 0; EEdit 2 0; EPull 1 2 0; EPull 2 1 0; EPull 2 1 0; EEdit 2 0] in
  clean evs /\
  outcomes_from init evs = [OEdited 1; OCopied; OEdited 2; OEdited 1; OMerged 3; OFastForward; OKnown; OEdited 2] /\
  mv (rh (run_from init (firstn 5 evs) 1)) <> [] /\
  is_in_conflict (rh (run evs 1)) (rh (run evs 2)) = NoConflict.
Proof.
  cbn zeta. split; [|split; [|split]].
  - unfold clean. cbn [clean_from]. repeat split; vm_compute; discriminate.
  - vm_compute. reflexivity.
  - vm_compute. discriminate.
  - vm_compute. reflexivity.
Qed.
