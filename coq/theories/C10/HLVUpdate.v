(* C10 proofs, part 2b: UpdateWithIncomingHLV in general -- for ANY two well-formed vectors the exact
   set of versions the result records.  The receiver of UpdateHistory is the incoming vector hi, the
   local vector hl is folded into its pv; a local version gets through ([passes]) unless its source is
   "blocked" in hi: it is the source of hi's cv (AddVersionToPV answers sourceIsCV) or a source of hi's
   merge versions (versionInMVNewer / versionInMVOlder, the latter ignored for the local cv and the
   local pv).  When a LOCAL MERGE VERSION meets an older merge version of hi ([older]) hi's merge
   versions are invalidated and the local mv / pv entries are added after all -- but not the local cv.

   [update_general]: the result represents  Si ++ filter (keptb hl hi) Sl  and the versions filtered out
   are really lost.  Corollaries: nothing is lost iff every local version passes or is known to hi
   ([update_nothing_lost_iff]); the fast-forward lemma without [incl Sl Si] ([update_repr_noconflict]);
   the exact loss of a same-merge acceptance ([same_merge_loss]). *)
From SG Require Import Base.Prelude C10.AMap C10.HLV C10.HLVProofs C10.HLVOps.
Open Scope N_scope.
#[local] Arguments N.max : simpl never.
#[local] Arguments N.eqb : simpl never.
#[local] Arguments N.leb : simpl never.
#[local] Arguments N.ltb : simpl never.
#[local] Arguments N.add : simpl never.

(* AddVersionToPV(e) on h answers versionInMVOlder *)
Definition olderb (h : hlv) (e : N * N) : bool :=
  negb (src h =? fst e) && match lookup (mv h) (fst e) with Some m => m <? snd e | None => false end.

(* UpdateHistory invalidates the receiver's merge versions: some local merge version is newer than the
   receiver's merge version of the same source *)
Definition older (hl hi : hlv) : bool := existsb (olderb hi) (mv hl).

(* the local version p gets through to the pv of the result *)
Definition passes (hl hi : hlv) (p : version) : bool :=
  negb (fst p =? src hi) &&
  (negb (mem (mv hi) (fst p)) ||
   (older hl hi && (snd p <=? N.max (lookup0 (mv hl) (fst p)) (lookup0 (pv hl) (fst p))))).

(* the local version p is still recorded after the update *)
Definition keptb (hl hi : hlv) (p : version) : bool := dominates hi p || passes hl hi p.

(* ---------- the first loop of UpdateHistory ---------- *)
Lemma atp_older : forall h s v, snd (add_version_to_pv h s v) = InMVOlder <-> olderb h (s, v) = true.
Proof.
  intros h s v. unfold add_version_to_pv, olderb. cbn [fst snd].
  destruct (src h =? s); cbn; [split; discriminate|].
  destruct (lookup (mv h) s) as [m|].
  - destruct (N.leb_spec v m), (N.ltb_spec m v); cbn; try lia; split; congruence.
  - destruct (lookup (pv h) s) as [p|]; [destruct (p <? v)|]; cbn; split; discriminate.
Qed.

Lemma atp_older_same : forall h s v, olderb h (s, v) = true -> add_version_to_pv h s v = (h, InMVOlder).
Proof.
  intros h s v. unfold add_version_to_pv, olderb. cbn [fst snd].
  destruct (src h =? s); cbn; [discriminate|].
  destruct (lookup (mv h) s) as [m|]; [|discriminate].
  destruct (N.leb_spec v m), (N.ltb_spec m v); cbn; try lia; congruence.
Qed.

Lemma olderb_ext : forall a b e, src a = src b -> mv a = mv b -> olderb a e = olderb b e.
Proof. intros a b e E1 E2. unfold olderb. now rewrite E1, E2. Qed.

Lemma existsb_ext' : forall (A : Type) (f g : A -> bool) l, (forall x, f x = g x) -> existsb f l = existsb g l.
Proof. intros A f g l H. induction l as [|x r IH]; cbn; [reflexivity|]. now rewrite H, IH. Qed.

Lemma add_all_cons : forall h s v r,
  add_all_to_pv h ((s, v) :: r) = add_all_to_pv (fst (add_version_to_pv h s v)) r.
Proof. reflexivity. Qed.

Lemma amuo_spec : forall l h, exists l', incl l' l /\ (existsb (olderb h) l = false -> l' = l) /\
  add_mv_until_older h l = (add_all_to_pv h l', existsb (olderb h) l).
Proof.
  induction l as [|[s v] r IH]; intros h.
  - exists []. split; [apply incl_refl|]. split; reflexivity.
  - cbn [add_mv_until_older existsb]. destruct (olderb h (s, v)) eqn:O.
    + exists []. split; [intros x []|]. split; [discriminate|].
      rewrite (atp_older_same _ _ _ O). reflexivity.
    + assert (NO : snd (add_version_to_pv h s v) <> InMVOlder).
      { intros E. apply atp_older in E. congruence. }
      destruct (atp_keeps h s v) as [A [_ C]].
      destruct (add_version_to_pv h s v) as [h1 res] eqn:E. cbn [fst snd] in *.
      destruct (IH h1) as [l1 [I1 [F1 R1]]].
      assert (EX : existsb (olderb h1) r = existsb (olderb h) r).
      { apply existsb_ext'. intros x. now apply olderb_ext. }
      exists ((s, v) :: l1). split; [|split].
      * intros x [<-|J]; [left; reflexivity | right; now apply I1].
      * cbn [orb]. intros F. rewrite <- EX in F. now rewrite (F1 F).
      * cbn [orb]. rewrite add_all_cons, E. cbn [fst]. rewrite <- EX.
        destruct res; try exact R1. congruence.
Qed.

(* ---------- get_value on a vector given by its fields ---------- *)
Lemma get_value_mk : forall c cvv m p s,
  get_value (mkH c cvv m p) s =
  if s =? 0 then None else if s =? c then Some cvv else match lookup m s with Some v => Some v | None => lookup p s end.
Proof. reflexivity. Qed.

Lemma guard_true : forall h x, guard h x = true <-> x <> src h /\ lookup (mv h) x = None.
Proof.
  intros h x. unfold guard, mem. destruct (N.eqb_spec (src h) x); cbn.
  - split; [discriminate | intros [A _]; congruence].
  - destruct (lookup (mv h) x); cbn; split; try discriminate; try (intros [_ B]; discriminate); auto.
Qed.

Lemma mem_false : forall m x, mem m x = false <-> lookup m x = None.
Proof. intros m x. unfold mem. destruct (lookup m x); split; congruence. Qed.

Lemma lookup0_some : forall m x v, lookup m x = Some v -> lookup0 m x = v.
Proof. intros m x v E. unfold lookup0. now rewrite E. Qed.

Lemma foldput_ext : forall G G' l p, (forall x, G x = G' x) ->
  fold_left (putG G) l p = fold_left (putG G') l p.
Proof.
  intros G G' l. induction l as [|e r IH]; intros p H; [reflexivity|].
  cbn [fold_left]. unfold putG at 2 4. rewrite H. now apply IH.
Qed.

(* ---------- the general update lemma ---------- *)
Section Update.
  Variables hl hi : hlv.
  Hypothesis Wl : wf hl.
  Hypothesis Wi : wf hi.

  Let h' := update_with_incoming hl hi.
  Let G1 := guard hi.
  Let G2 := fun x : N => negb (src hi =? x).

  (* the fields of the result *)
  Lemma update_fields :
    src h' = src hi /\ ver h' = ver hi /\
    exists l', incl l' (mv hl) /\
      let P2 := fold_left (putG G1) ((src hl, ver hl) :: l') (pv hi) in
      if older hl hi then
        mv h' = [] /\
        pv h' = fold_left (putG G2) (mv hl ++ pv hl) (fold_left (inv_step (src hi)) (mv hi) P2)
      else l' = mv hl /\ mv h' = mv hi /\ pv h' = fold_left (putG G1) (pv hl) P2.
  Proof.
    unfold h', update_with_incoming, update_history.
    pose proof (wf_src _ Wl) as Hsl. destruct (N.eqb_spec (src hl) 0); [tauto|].
    set (h1 := fst (add_version_to_pv hi (src hl) (ver hl))).
    assert (E1 : h1 = add_all_to_pv hi [(src hl, ver hl)]) by reflexivity.
    assert (S1 : src h1 = src hi /\ ver h1 = ver hi /\ mv h1 = mv hi) by apply atp_keeps.
    destruct S1 as [S1 [V1 M1]].
    destruct (amuo_spec (mv hl) h1) as [l' [I' [F' R']]]. rewrite R'.
    assert (EX : existsb (olderb h1) (mv hl) = older hl hi).
    { unfold older. apply existsb_ext'. intros x. now apply olderb_ext. }
    rewrite EX in *.
    assert (E2 : add_all_to_pv h1 l' = mkH (src hi) (ver hi) (mv hi) (fold_left (putG G1) ((src hl, ver hl) :: l') (pv hi))).
    { rewrite E1. rewrite !add_all_spec. cbn [src ver mv pv fold_left]. reflexivity. }
    rewrite E2.
    destruct (older hl hi) eqn:O.
    - rewrite !add_all_spec. cbn [src ver mv pv invalidate_mv]. rewrite <- fold_left_app.
      split; [reflexivity|]. split; [reflexivity|]. exists l'. split; [exact I'|]. cbn zeta.
      split; [reflexivity|]. apply foldput_ext. intros x. unfold guard, G2, mem. cbn.
      now rewrite andb_true_r.
    - rewrite add_all_spec. cbn [src ver mv pv].
      split; [reflexivity|]. split; [reflexivity|]. exists l'. split; [exact I'|]. cbn zeta.
      split; [now apply F'|]. split; reflexivity.
  Qed.

  Lemma G1_true : forall x, G1 x = true <-> x <> src hi /\ lookup (mv hi) x = None.
  Proof. intros x. apply guard_true. Qed.
  Lemma G2_true : forall x, G2 x = true <-> x <> src hi.
  Proof. intros x. unfold G2. destruct (N.eqb_spec (src hi) x); cbn; split; congruence. Qed.

  Lemma pvhi_src : lookup (pv hi) (src hi) = None.
  Proof. apply lookup_None_keys. apply Wi. Qed.

  Lemma mvpv_disj : forall x m, lookup (mv hi) x = Some m -> lookup (pv hi) x = None.
  Proof.
    intros x m E. apply lookup_None_keys. apply (wf_disj _ Wi). eapply lookup_In_keys; eauto.
  Qed.

  (* an entry (x, o) of the local vector, with the way it is added *)
  Definition from_local (x o : N) : Prop :=
    (x = src hl /\ o = ver hl) \/ lookup (mv hl) x = Some o \/ lookup (pv hl) x = Some o.

  Lemma from_local_listed : forall x o, from_local x o -> listed hl (x, o).
  Proof.
    intros x o [[-> ->]|[E|E]]; [left; reflexivity | right; left | right; right]; now apply lookup_In.
  Qed.

  Lemma in_mvl : forall x o, In (x, o) (mv hl) -> lookup (mv hl) x = Some o.
  Proof. intros x o I. apply In_lookup; auto. apply Wl. Qed.
  Lemma in_pvl : forall x o, In (x, o) (pv hl) -> lookup (pv hl) x = Some o.
  Proof. intros x o I. apply In_lookup; auto. apply Wl. Qed.

  Lemma pass_nomv : forall s o, s <> src hi -> lookup (mv hi) s = None -> passes hl hi (s, o) = true.
  Proof.
    intros s o Ns E. unfold passes. cbn [fst snd]. apply mem_false in E. rewrite E.
    destruct (N.eqb_spec s (src hi)); [tauto|]. reflexivity.
  Qed.

  (* where an entry of the pv of the result comes from *)
  Lemma pv_prov : forall s e, lookup (pv h') s = Some e ->
    s <> src hi /\
    ((lookup (pv hi) s = Some e /\ lookup (mv hi) s = None) \/
     (older hl hi = true /\ lookup (mv hi) s = Some e) \/
     (from_local s e /\ passes hl hi (s, e) = true)).
  Proof.
    intros s e. destruct update_fields as [S' [V' [l' [I' F]]]]. cbn zeta in F.
    set (P2 := fold_left (putG G1) ((src hl, ver hl) :: l') (pv hi)) in *.
    assert (P2prov : forall o, lookup P2 s = Some o ->
              lookup (pv hi) s = Some o \/ (from_local s o /\ s <> src hi /\ lookup (mv hi) s = None)).
    { intros o L. unfold P2 in L. apply foldput_prov in L. destruct L as [L|[L1 L2]]; [auto|].
      right. apply G1_true in L2. split; [|tauto].
      destruct L1 as [L1|L1]; [inv L1; left; auto | right; left; apply in_mvl; now apply I']. }
    assert (PvNs : forall o, lookup (pv hi) s = Some o -> s <> src hi).
    { intros o L ->. rewrite pvhi_src in L. discriminate. }
    assert (PvNm : forall o, lookup (pv hi) s = Some o -> lookup (mv hi) s = None).
    { intros o L. destruct (lookup (mv hi) s) as [m|] eqn:Em; [|reflexivity].
      rewrite (mvpv_disj _ _ Em) in L. discriminate. }
    destruct (older hl hi) eqn:O.
    - destruct F as [M' P']. rewrite P'.
      intros L. apply foldput_prov in L. destruct L as [L|[L1 L2]].
      + rewrite fold_inv_lookup in L by apply Wi.
        destruct (lookup (mv hi) s) as [m|] eqn:Em.
        * destruct (N.eqb_spec s (src hi)) as [Es|Es].
          -- exfalso. apply P2prov in L. destruct L as [L|[_ [L _]]]; [|tauto].
             subst s. rewrite pvhi_src in L. discriminate.
          -- split; [exact Es|]. right; left. split; [reflexivity | exact L].
        * apply P2prov in L. destruct L as [L|[L1 [L2 L3]]].
          -- split; [eapply PvNs; eauto|]. left. split; auto.
          -- split; [exact L2|]. right; right. split; [exact L1 | now apply pass_nomv].
      + apply G2_true in L2. split; [exact L2|]. right; right. apply in_app_or in L1.
        assert (FL : lookup (mv hl) s = Some e \/ lookup (pv hl) s = Some e)
          by (destruct L1 as [L1|L1]; [left; now apply in_mvl | right; now apply in_pvl]).
        split; [right; exact FL|].
        unfold passes. cbn [fst snd]. destruct (N.eqb_spec s (src hi)); [tauto|]. cbn [negb andb].
        apply orb_true_iff. right. rewrite O. cbn [andb]. apply N.leb_le.
        destruct FL as [FL|FL]; rewrite (lookup0_some _ _ _ FL); lia.
    - destruct F as [EL [M' P']]. rewrite P'.
      intros L. apply foldput_prov in L. destruct L as [L|[L1 L2]].
      + apply P2prov in L. destruct L as [L|[L1 [L2 L3]]].
        * split; [eapply PvNs; eauto|]. left. split; [exact L | eapply PvNm; eauto].
        * split; [exact L2|]. right; right. split; [exact L1 | now apply pass_nomv].
      + apply G1_true in L2. destruct L2 as [L2 L3]. split; [exact L2|]. right; right.
        split; [right; right; now apply in_pvl | now apply pass_nomv].
  Qed.

  (* where the value the result reports for a source comes from *)
  Lemma result_prov : forall s e, get_value h' s = Some e ->
    get_value hi s = Some e \/ (from_local s e /\ passes hl hi (s, e) = true).
  Proof.
    intros s e. destruct update_fields as [S' [V' [l' [I' F]]]]. cbn zeta in F.
    unfold get_value at 1. rewrite S', V'. unfold get_value.
    destruct (N.eqb_spec s 0); [discriminate|].
    destruct (N.eqb_spec s (src hi)) as [Es|Es]; [auto|].
    assert (FromPv : lookup (pv h') s = Some e ->
              match lookup (mv hi) s with Some v => Some v | None => lookup (pv hi) s end = Some e \/
              (from_local s e /\ passes hl hi (s, e) = true)).
    { intros L. apply pv_prov in L. destruct L as [_ [[L1 L2]|[[_ L]|L]]].
      - left. now rewrite L2.
      - left. now rewrite L.
      - right. exact L. }
    destruct (older hl hi) eqn:O.
    - destruct F as [M' _]. rewrite M'. cbn [lookup]. exact FromPv.
    - destruct F as [_ [M' _]]. rewrite M'.
      destruct (lookup (mv hi) s) as [m|] eqn:Em; [auto|]. exact FromPv.
  Qed.

  (* no value of the incoming vector is lowered *)
  Lemma result_mono : forall s e, get_value hi s = Some e -> exists e', get_value h' s = Some e' /\ e <= e'.
  Proof.
    intros s e. destruct update_fields as [S' [V' [l' [I' F]]]]. cbn zeta in F.
    unfold get_value at 2. rewrite S', V'. unfold get_value.
    destruct (N.eqb_spec s 0); [discriminate|].
    destruct (N.eqb_spec s (src hi)) as [Es|Es]; [intros E; exists e; split; auto; lia|].
    set (P2 := fold_left (putG G1) ((src hl, ver hl) :: l') (pv hi)) in *.
    destruct (older hl hi) eqn:O.
    - destruct F as [M' P']. rewrite M', P'. cbn [lookup]. intros E.
      assert (L : exists o, lookup (fold_left (inv_step (src hi)) (mv hi) P2) s = Some o /\ e <= o).
      { rewrite fold_inv_lookup by apply Wi. destruct (lookup (mv hi) s) as [m|] eqn:Em.
        - destruct (N.eqb_spec s (src hi)); [tauto|]. inv E. exists e. split; auto. lia.
        - unfold P2. eapply foldput_mono; eauto. }
      destruct L as [o [L Lo]]. destruct (foldput_mono G2 (mv hl ++ pv hl) _ _ _ L) as [o' [L' Lo']].
      exists o'. split; auto. lia.
    - destruct F as [EL [M' P']]. rewrite M', P'.
      destruct (lookup (mv hi) s) as [m|] eqn:Em; [intros E; exists e; split; auto; lia|].
      intros E. destruct (foldput_mono G1 ((src hl, ver hl) :: l') _ _ _ E) as [o [L Lo]].
      fold P2 in L. destruct (foldput_mono G1 (pv hl) _ _ _ L) as [o' [L' Lo']].
      exists o'. split; auto. lia.
  Qed.

  (* a local version that passes is recorded by the result *)
  Lemma result_in : forall s v, s <> 0 -> v <> 0 -> dominates hl (s, v) = true -> passes hl hi (s, v) = true ->
    dominates h' (s, v) = true.
  Proof.
    intros s v Hs Hv D Pa. apply dominates_spec in D. destruct D as [e [E Le]].
    apply dominates_spec.
    destruct update_fields as [S' [V' [l' [I' F]]]]. cbn zeta in F.
    unfold passes in Pa. cbn [fst snd] in Pa. apply andb_true_iff in Pa. destruct Pa as [Ns Pa].
    destruct (N.eqb_spec s (src hi)) as [Es|Es]; [discriminate|]. clear Ns.
    unfold get_value. rewrite S', V'. destruct (N.eqb_spec s 0); [tauto|]. destruct (N.eqb_spec s (src hi)); [tauto|].
    set (P2 := fold_left (putG G1) ((src hl, ver hl) :: l') (pv hi)) in *.
    (* the entry of hl that dominates (s, v) *)
    assert (FL : from_local s e).
    { unfold get_value in E. destruct (N.eqb_spec s 0); [tauto|]. destruct (N.eqb_spec s (src hl)).
      - inv E. left. auto.
      - destruct (lookup (mv hl) s) eqn:Em; [inv E; right; left; auto | right; right; auto]. }
    destruct (lookup (mv hi) s) as [m|] eqn:Em.
    - (* blocked by a merge version of hi: only after the invalidation *)
      assert (Me : mem (mv hi) s = true) by (unfold mem; now rewrite Em).
      rewrite Me in Pa. cbn [negb orb] in Pa. apply andb_true_iff in Pa. destruct Pa as [O Lv].
      rewrite O in F. destruct F as [M' P']. rewrite M', P'. cbn [lookup].
      apply N.leb_le in Lv.
      assert (Ex : exists o, In (s, o) (mv hl ++ pv hl) /\ v <= o).
      { unfold lookup0 in Lv. destruct (lookup (mv hl) s) as [a|] eqn:Ea; destruct (lookup (pv hl) s) as [b|] eqn:Eb.
        - destruct (N.max_spec a b) as [[_ Q]|[_ Q]]; rewrite Q in Lv.
          + exists b. split; auto. apply in_or_app. right. now apply lookup_In.
          + exists a. split; auto. apply in_or_app. left. now apply lookup_In.
        - exists a. split; [apply in_or_app; left; now apply lookup_In | lia].
        - exists b. split; [apply in_or_app; right; now apply lookup_In | lia].
        - lia. }
      destruct Ex as [o [Io Lo]].
      assert (Gs : G2 s = true) by (apply G2_true; auto).
      destruct (foldput_in G2 _ (fold_left (inv_step (src hi)) (mv hi) P2) _ _ Io Gs) as [o' [L' Lo']].
      exists o'. split; auto. lia.
    - (* not blocked *)
      assert (Gs : G1 s = true) by (apply G1_true; auto).
      assert (Gs2 : G2 s = true) by (apply G2_true; auto).
      destruct (older hl hi) eqn:O.
      + destruct F as [M' P']. rewrite M', P'. cbn [lookup].
        destruct FL as [[-> ->]|[FL|FL]].
        * assert (L : exists o, lookup P2 (src hl) = Some o /\ ver hl <= o).
          { unfold P2. eapply foldput_in; [left; reflexivity | exact Gs]. }
          destruct L as [o [L Lo]].
          assert (L2 : lookup (fold_left (inv_step (src hi)) (mv hi) P2) (src hl) = Some o).
          { rewrite fold_inv_lookup by apply Wi. now rewrite Em. }
          destruct (foldput_mono G2 (mv hl ++ pv hl) _ _ _ L2) as [o' [L' Lo']].
          exists o'. split; auto. lia.
        * assert (Io : In (s, e) (mv hl ++ pv hl)) by (apply in_or_app; left; now apply lookup_In).
          destruct (foldput_in G2 _ (fold_left (inv_step (src hi)) (mv hi) P2) _ _ Io Gs2) as [o' [L' Lo']].
          exists o'. split; auto. lia.
        * assert (Io : In (s, e) (mv hl ++ pv hl)) by (apply in_or_app; right; now apply lookup_In).
          destruct (foldput_in G2 _ (fold_left (inv_step (src hi)) (mv hi) P2) _ _ Io Gs2) as [o' [L' Lo']].
          exists o'. split; auto. lia.
      + destruct F as [EL [M' P']]. rewrite M', P', Em. subst l'.
        destruct FL as [[-> ->]|[FL|FL]].
        * assert (L : exists o, lookup P2 (src hl) = Some o /\ ver hl <= o).
          { unfold P2. eapply foldput_in; [left; reflexivity | exact Gs]. }
          destruct L as [o [L Lo]].
          destruct (foldput_mono G1 (pv hl) _ _ _ L) as [o' [L' Lo']]. exists o'. split; auto. lia.
        * assert (L : exists o, lookup P2 s = Some o /\ e <= o).
          { unfold P2. eapply foldput_in; [right; apply lookup_In; exact FL | exact Gs]. }
          destruct L as [o [L Lo]].
          destruct (foldput_mono G1 (pv hl) _ _ _ L) as [o' [L' Lo']]. exists o'. split; auto. lia.
        * assert (Io : In (s, e) (pv hl)) by now apply lookup_In.
          destruct (foldput_in G1 _ P2 _ _ Io Gs) as [o' [L' Lo']]. exists o'. split; auto. lia.
  Qed.

  (* [passes] is downward closed in the value *)
  Lemma passes_down : forall s v e, v <= e -> passes hl hi (s, e) = true -> passes hl hi (s, v) = true.
  Proof.
    intros s v e L. unfold passes. cbn [fst snd]. rewrite !andb_true_iff, !orb_true_iff, !andb_true_iff, !N.leb_le.
    intros [A [B|[B C]]]; split; auto. right. split; auto. lia.
  Qed.

  (* the result is well-formed *)
  Lemma result_wf : wf h'.
  Proof.
    destruct update_fields as [S' [V' [l' [I' F]]]]. cbn zeta in F.
    set (P2 := fold_left (putG G1) ((src hl, ver hl) :: l') (pv hi)) in *.
    assert (N2 : NoDup (keys P2)) by (apply foldput_nodup; apply Wi).
    assert (P2src : lookup P2 (src hi) = None).
    { destruct (lookup P2 (src hi)) as [o|] eqn:L; [|reflexivity]. unfold P2 in L. apply foldput_prov in L.
      destruct L as [L|[_ L]]; [rewrite pvhi_src in L; discriminate | apply G1_true in L; tauto]. }
    destruct (older hl hi) eqn:O.
    - destruct F as [M' P'].
      set (PI := fold_left (inv_step (src hi)) (mv hi) P2) in *.
      assert (NI : NoDup (keys PI)) by (apply fold_inv_nodup; exact N2).
      constructor.
      + rewrite S'. apply Wi.
      + rewrite M'. constructor.
      + rewrite P'. apply foldput_nodup. exact NI.
      + rewrite S', P'. apply lookup_None_keys.
        destruct (lookup (fold_left (putG G2) (mv hl ++ pv hl) PI) (src hi)) as [o|] eqn:L; [|reflexivity].
        apply foldput_prov in L. destruct L as [L|[_ L]]; [|apply G2_true in L; tauto].
        unfold PI in L. rewrite fold_inv_lookup in L by apply Wi. rewrite N.eqb_refl in L.
        destruct (lookup (mv hi) (src hi)); congruence.
      + rewrite M'. intros x [].
    - destruct F as [EL [M' P']]. constructor.
      + rewrite S'. apply Wi.
      + rewrite M'. apply Wi.
      + rewrite P'. apply foldput_nodup. exact N2.
      + rewrite S', P'. apply lookup_None_keys.
        destruct (lookup (fold_left (putG G1) (pv hl) P2) (src hi)) as [o|] eqn:L; [|reflexivity].
        apply foldput_prov in L. destruct L as [L|[_ L]]; [congruence | apply G1_true in L; tauto].
      + rewrite M', P'. intros x Ix. apply In_keys_lookup in Ix. destruct Ix as [m Em].
        apply lookup_None_keys.
        destruct (lookup (fold_left (putG G1) (pv hl) P2) x) as [o|] eqn:L; [|reflexivity].
        apply foldput_prov in L. destruct L as [L|[_ L]]; [|apply G1_true in L; destruct L; congruence].
        unfold P2 in L. apply foldput_prov in L. destruct L as [L|[_ L]]; [|apply G1_true in L; destruct L; congruence].
        rewrite (mvpv_disj _ _ Em) in L. discriminate.
  Qed.

  (* every version the result lists is listed by hi, or by hl and passed *)
  Lemma result_listed : forall p, listed h' p -> listed hi p \/ (listed hl p /\ passes hl hi p = true).
  Proof.
    intros [x o] L. pose proof result_wf as W'.
    destruct update_fields as [S' [V' [l' [I' F]]]]. cbn zeta in F.
    destruct L as [L|[L|L]].
    - left. left. rewrite L. unfold cv. now rewrite S', V'.
    - destruct (older hl hi); [destruct F as [M' _]; rewrite M' in L; destruct L|].
      destruct F as [_ [M' _]]. rewrite M' in L. left. right; left. exact L.
    - assert (Lx : lookup (pv h') x = Some o) by (apply In_lookup; auto; apply W').
      apply pv_prov in Lx. destruct Lx as [_ [[Lx _]|[[_ Lx]|[Lx1 Lx2]]]].
      + left. right; right. now apply lookup_In.
      + left. right; left. now apply lookup_In.
      + right. split; [now apply from_local_listed | exact Lx2].
  Qed.
End Update.

(* ---------- consequences at the level of represented sets ---------- *)
Lemma dominates_mono_gv : forall a b p,
  (forall s e, get_value a s = Some e -> exists e', get_value b s = Some e' /\ e <= e') ->
  dominates a p = true -> dominates b p = true.
Proof.
  intros a b [s v] H D. apply dominates_spec in D. destruct D as [e [E L]].
  destruct (H _ _ E) as [e' [E' L']]. apply dominates_spec. exists e'. split; auto. lia.
Qed.

Lemma value_mono_gv : forall a b,
  (forall s e, get_value a s = Some e -> exists e', get_value b s = Some e' /\ e <= e') ->
  forall s, value a s <= value b s.
Proof.
  intros a b H s. unfold value. destruct (get_value a s) as [e|] eqn:E; [|lia].
  destruct (H _ _ E) as [e' [E' L']]. now rewrite E'.
Qed.

(* THE GENERAL UPDATE LEMMA: for any two vectors representing seen sets, whatever the verdict of the
   conflict predicate was, UpdateWithIncomingHLV gives a vector that represents exactly the incoming
   set plus the local versions that are kept; the others are lost (not dominated any more). *)
Theorem update_general : forall hl hi Sl Si, good Sl -> good Si -> repr hl Sl -> repr hi Si ->
  let h' := update_with_incoming hl hi in
  repr h' (Si ++ filter (keptb hl hi) Sl) /\
  cv h' = cv hi /\
  (forall p, In p Sl -> keptb hl hi p = false -> dominates h' p = false) /\
  (forall s, value hi s <= value h' s).
Proof.
  intros hl hi Sl Si Gl Gi [Wl [LIl DOl]] [Wi [LIi DOi]]. cbn zeta.
  pose proof (result_mono hl hi Wl Wi) as Mono.
  split; [|split; [|split]].
  - split; [now apply result_wf|]. split.
    + intros p L. apply in_or_app. destruct (result_listed hl hi Wl Wi p L) as [L1|[L1 L2]].
      * left. now apply LIi.
      * right. apply filter_In. split; [now apply LIl|]. unfold keptb. rewrite L2. apply orb_true_r.
    + intros p I. apply in_app_or in I. destruct I as [I|I].
      * eapply dominates_mono_gv; [exact Mono | now apply DOi].
      * apply filter_In in I. destruct I as [I K]. unfold keptb in K. apply orb_true_iff in K.
        destruct K as [K|K]; [eapply dominates_mono_gv; [exact Mono | exact K]|].
        destruct p as [s v]. destruct (Gl s v I) as [Hs Hv].
        apply result_in; auto.
  - destruct (update_fields hl hi Wl) as [S' [V' _]]. unfold cv. now rewrite S', V'.
  - intros [s v] I K. unfold keptb in K. apply orb_false_iff in K. destruct K as [K1 K2].
    destruct (dominates (update_with_incoming hl hi) (s, v)) eqn:D; [|reflexivity]. exfalso.
    apply dominates_spec in D. destruct D as [e [E L]].
    destruct (result_prov hl hi Wl Wi s e E) as [E1|[_ P]].
    + assert (D1 : dominates hi (s, v) = true) by (apply dominates_spec; eauto). congruence.
    + rewrite (passes_down hl hi s v e L P) in K2. discriminate.
  - now apply value_mono_gv.
Qed.

(* nothing is lost exactly when every local version is known to the incoming vector or passes *)
Theorem update_nothing_lost_iff : forall hl hi Sl Si, good Sl -> good Si -> repr hl Sl -> repr hi Si ->
  (repr (update_with_incoming hl hi) (Sl ++ Si) <-> forall p, In p Sl -> keptb hl hi p = true).
Proof.
  intros hl hi Sl Si Gl Gi Rl Ri.
  destruct (update_general hl hi Sl Si Gl Gi Rl Ri) as [R [_ [Lost _]]]. cbn zeta in *.
  split.
  - intros [_ [_ DO]] p I. destruct (keptb hl hi p) eqn:K; [reflexivity|].
    specialize (DO p (in_or_app _ _ _ (or_introl I))). rewrite (Lost p I K) in DO. discriminate.
  - intros K. eapply repr_incl; [exact R| |].
    + intros p I. apply in_app_or in I. apply in_or_app. destruct I as [I|I]; [|left; exact I].
      right. apply filter_In. auto.
    + intros p I. apply in_app_or in I. apply in_or_app. destruct I as [I|I]; [right; exact I|].
      apply filter_In in I. left. tauto.
Qed.

(* the sources of the incoming vector under which no local version is taken over *)
Definition merge_blocked (hi : hlv) (s : N) : bool := (s =? src hi) || mem (mv hi) s.

Lemma mem_true_keys : forall m x, mem m x = true <-> In x (keys m).
Proof.
  intros m x. unfold mem. destruct (lookup m x) eqn:E.
  - split; auto. intros _. eapply lookup_In_keys; eauto.
  - apply lookup_None_keys in E. split; [discriminate | tauto].
Qed.

(* the update lemma for every accepted pull, WITHOUT assuming that the incoming replica has seen all the
   local replica has: it is enough that the local versions of the blocked sources (source of the incoming
   cv, sources of the incoming merge versions) are known to the incoming vector.  [incl Sl Si] implies
   this; so does, in every reachable state of a clean history, "hi dominates cv hl" (the only way the
   conflict predicate accepts other than by the same-merge rule). *)
Theorem update_repr_noconflict : forall hl hi Sl Si, good Sl -> good Si -> repr hl Sl -> repr hi Si ->
  (forall p, In p Sl -> merge_blocked hi (fst p) = true -> dominates hi p = true) ->
  repr (update_with_incoming hl hi) (Sl ++ Si) /\
  cv (update_with_incoming hl hi) = cv hi /\
  (forall s, value hl s <= value (update_with_incoming hl hi) s) /\
  (forall s, value hi s <= value (update_with_incoming hl hi) s).
Proof.
  intros hl hi Sl Si Gl Gi Rl Ri H.
  assert (R : repr (update_with_incoming hl hi) (Sl ++ Si)).
  { apply update_nothing_lost_iff; auto. intros [s v] I. specialize (H _ I). cbn [fst] in H.
    unfold keptb, passes, merge_blocked in *. cbn [fst snd].
    destruct (s =? src hi); cbn [orb negb andb] in *; [rewrite H; auto|].
    destruct (mem (mv hi) s); cbn [orb negb andb] in *; [rewrite H; auto|]. apply orb_true_r. }
  destruct (update_general hl hi Sl Si Gl Gi Rl Ri) as [_ [C [_ M]]]. cbn zeta in *.
  split; [exact R|]. split; [exact C|]. split; [|exact M].
  intros s. destruct (N.eq_dec s 0) as [->|Hs]; [rewrite !value_zero; lia|].
  rewrite (repr_value hl Sl Gl Rl s Hs), (repr_value _ _ (good_app _ _ Gl Gi) R s Hs), max_ver_app. lia.
Qed.

Corollary update_repr_incl : forall hl hi Sl Si, good Sl -> good Si -> repr hl Sl -> repr hi Si -> incl Sl Si ->
  repr (update_with_incoming hl hi) (Sl ++ Si).
Proof.
  intros hl hi Sl Si Gl Gi Rl Ri Inc. apply update_repr_noconflict; auto.
  intros p I _. destruct Ri as [_ [_ DO]]. apply DO. now apply Inc.
Qed.

(* ---------- the same-merge acceptance ---------- *)
Lemma map_equal_lookup : forall a b, NoDup (keys a) -> NoDup (keys b) -> map_equal a b = true ->
  forall x, lookup a x = lookup b x.
Proof.
  intros a b Na Nb E. unfold map_equal in E. apply andb_true_iff in E. destruct E as [Len Sub].
  apply N.eqb_eq in Len. apply Nat2N.inj in Len.
  assert (Iab : incl a b).
  { intros [k v] I. unfold sub_map in Sub. rewrite forallb_forall in Sub. specialize (Sub _ I). cbn [fst snd] in Sub.
    destruct (lookup b k) as [w|] eqn:L; [|discriminate]. apply N.eqb_eq in Sub. subst. now apply lookup_In. }
  assert (NDa : NoDup a).
  { clear - Na. induction a as [|[k v] r IH]; [constructor|]. cbn in Na. inv Na. constructor; auto.
    intros I. apply H1. change k with (fst (k, v)). now apply in_map. }
  assert (Iba : incl b a) by (apply NoDup_length_incl; auto; lia).
  intros x. destruct (lookup a x) as [v|] eqn:La.
  - symmetry. apply In_lookup; auto. apply Iab. now apply lookup_In.
  - destruct (lookup b x) as [w|] eqn:Lb; [|reflexivity].
    apply lookup_In, Iba in Lb. apply In_lookup in Lb; auto. congruence.
Qed.

Lemma same_merge_not_older : forall hl hi, wf hl -> wf hi -> same_merge hl hi = true -> older hl hi = false.
Proof.
  intros hl hi Wl Wi SM. unfold same_merge in SM. apply andb_true_iff in SM. destruct SM as [_ ME].
  pose proof (map_equal_lookup _ _ (wf_mv _ Wi) (wf_mv _ Wl) ME) as EQ.
  unfold older. destruct (existsb (olderb hi) (mv hl)) eqn:E; [|reflexivity]. exfalso.
  apply existsb_exists in E. destruct E as [[s v] [I O]]. unfold olderb in O. cbn [fst snd] in O.
  apply andb_true_iff in O. destruct O as [_ O]. rewrite EQ in O.
  rewrite (In_lookup _ _ _ (wf_mv _ Wl) I) in O. apply N.ltb_lt in O. lia.
Qed.

(* THE LOSS OF A SAME-MERGE ACCEPTANCE.  When the pull is accepted because both vectors carry the same
   merge versions, the result keeps the incoming cv and merge versions and records, of the local
   versions, exactly those known to the incoming vector and those whose source is neither the source
   of the incoming cv nor a source of the (common) merge versions.  All other local versions -- the
   ones under a blocked source that the incoming replica has not seen -- are lost. *)
Theorem same_merge_loss : forall hl hi Sl Si, good Sl -> good Si -> repr hl Sl -> repr hi Si ->
  same_merge hl hi = true ->
  let h' := update_with_incoming hl hi in
  let kept := fun p => dominates hi p || negb (merge_blocked hi (fst p)) in
  repr h' (Si ++ filter kept Sl) /\
  cv h' = cv hi /\ mv h' = mv hi /\
  (forall p, In p Sl -> kept p = false -> dominates h' p = false).
Proof.
  intros hl hi Sl Si Gl Gi Rl Ri SM. cbn zeta.
  pose proof Rl as [Wl _]. pose proof Ri as [Wi _].
  pose proof (same_merge_not_older hl hi Wl Wi SM) as NO.
  assert (KE : forall p, keptb hl hi p = (dominates hi p || negb (merge_blocked hi (fst p)))).
  { intros [s v]. unfold keptb, passes, merge_blocked. cbn [fst snd]. rewrite NO. cbn [andb]. rewrite orb_false_r.
    now rewrite negb_orb. }
  destruct (update_general hl hi Sl Si Gl Gi Rl Ri) as [R [C [Lost _]]]. cbn zeta in *.
  split; [|split; [exact C|split]].
  - rewrite (filter_ext _ _ KE) in R. exact R.
  - destruct (update_fields hl hi Wl) as [_ [_ [l' [_ F]]]]. cbn zeta in F. rewrite NO in F. tauto.
  - intros p I K. apply Lost; auto. now rewrite KE.
Qed.

(* in particular the local current version: not seen by the incoming replica (that is why the pull was
   not a fast-forward), it survives iff its source is not blocked *)
Corollary same_merge_local_cv : forall hl hi Sl Si, good Sl -> good Si -> repr hl Sl -> repr hi Si ->
  same_merge hl hi = true -> dominates hi (cv hl) = false ->
  (dominates (update_with_incoming hl hi) (cv hl) = false <-> merge_blocked hi (src hl) = true).
Proof.
  intros hl hi Sl Si Gl Gi Rl Ri SM ND.
  destruct (same_merge_loss hl hi Sl Si Gl Gi Rl Ri SM) as [[_ [_ DO]] [_ [_ Lost]]]. cbn zeta in *.
  pose proof (repr_cv_in _ _ Rl) as Cl.
  split.
  - intros D. destruct (merge_blocked hi (src hl)) eqn:B; [reflexivity|]. exfalso.
    assert (I : In (cv hl) (Si ++ filter (fun p => dominates hi p || negb (merge_blocked hi (fst p))) Sl)).
    { apply in_or_app. right. apply filter_In. split; auto. cbn [cv fst]. rewrite B. apply orb_true_r. }
    rewrite (DO _ I) in D. discriminate.
  - intros B. apply Lost; auto. rewrite ND. cbn [cv fst]. now rewrite B.
Qed.
