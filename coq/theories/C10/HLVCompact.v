(* C10 model + proofs: HybridLogicalVector.Compact / compactWithValue (db/hybrid_logical_vector.go) --
   purge-window pruning of the previous versions.

   compactWithValue(c): nothing happens when c = 0 or pv has fewer than 5 entries; otherwise the pv
   entries with a value below c are the candidates, they are sorted by value (sort.Slice: NOT stable,
   and the candidates were collected in Go's random map order) and deleted oldest first while pv has
   more than 3 entries.  Which of several candidates with the SAME value goes first is therefore not
   determined; the model is the executable specification [compact_okb h c h'] ("h' is a possible result
   of compacting h"), every theorem is stated for every h' it allows, and the deterministic function
   [compact_with_value] (stable insertion sort, list order) is one allowed result -- the correspondence
   checks [compact_okb] on every case and equality with the function when the candidate values are
   pairwise distinct.  Compact(purgeInterval) = compactWithValue(now - purgeInterval), purgeInterval 0
   = disabled. *)
From SG Require Import Base.Prelude C10.AMap C10.HLV C10.HLVProofs.
Open Scope N_scope.
#[local] Arguments N.max : simpl never.
#[local] Arguments N.min : simpl never.
#[local] Arguments N.eqb : simpl never.
#[local] Arguments N.leb : simpl never.
#[local] Arguments N.ltb : simpl never.
#[local] Arguments N.add : simpl never.
#[local] Arguments N.sub : simpl never.

Definition min_before : N := 5.      (* minPVEntriesBeforeCompaction *)
Definition min_retained : N := 3.    (* minPVEntriesRetained *)

Definition len (m : amap) : N := N.of_nat (length m).
Definition is_cand (c : N) (e : N * N) : bool := snd e <? c.

(* ---------- the deterministic function ---------- *)
Fixpoint insert_by_value (e : N * N) (l : amap) : amap :=
  match l with
  | [] => [e]
  | x :: r => if snd e <? snd x then e :: l else x :: insert_by_value e r
  end.
Definition sort_by_value (l : amap) : amap := fold_right insert_by_value [] l.

Fixpoint compact_loop (cands : amap) (p : amap) : amap :=
  match cands with
  | [] => p
  | c :: r => if len p <=? min_retained then p else compact_loop r (remove p (fst c))
  end.

Definition compact_noop (h : hlv) (c : N) : bool := (c =? 0) || (len (pv h) <? min_before).

Definition compact_with_value (h : hlv) (c : N) : hlv :=
  if compact_noop h c then h
  else mkH (src h) (ver h) (mv h) (compact_loop (sort_by_value (filter (is_cand c) (pv h))) (pv h)).

(* ---------- the specification: h' is a possible result ---------- *)
Definition removed (p p' : amap) : amap := filter (fun e => negb (mem p' (fst e))) p.

Definition pair_eqb (a b : N * N) : bool := (fst a =? fst b) && (snd a =? snd b).

Definition compact_okb (h : hlv) (c : N) (h' : hlv) : bool :=
  let p := pv h in let p' := pv h' in
  let cands := filter (is_cand c) p in
  let rem := removed p p' in
  let k := if compact_noop h c then 0 else N.min (len cands) (len p - min_retained) in
  (src h' =? src h) && (ver h' =? ver h) && list_eqb pair_eqb (mv h') (mv h) &&
  nodupb (keys p') && sub_map p' p &&
  (len rem =? k) && (len p' + len rem =? len p) &&
  forallb (is_cand c) rem &&
  (* oldest first: no candidate that was kept is older than one that was removed *)
  forallb (fun r => forallb (fun x => negb (mem p' (fst x)) || (snd r <=? snd x)) cands) rem.

Definition distinct_values (l : amap) : bool := nodupb (map snd l).

(* what the correspondence evaluates *)
Definition check_compact (h : hlv) (c : N) (h' : hlv) : bool :=
  compact_okb h c h' &&
  (if distinct_values (filter (is_cand c) (pv h)) then hlv_eqb (compact_with_value h c) h' else true).

(* ---------- consequences of the specification ---------- *)
(* any pruning of pv that leaves cv and mv alone *)
Definition pruned (h h' : hlv) : Prop :=
  src h' = src h /\ ver h' = ver h /\ mv h' = mv h /\
  forall x v, lookup (pv h') x = Some v -> lookup (pv h) x = Some v.

Lemma pruned_refl : forall h, pruned h h.
Proof. intros h. repeat split; auto. Qed.

Lemma pair_eqb_eq : forall a b, pair_eqb a b = true <-> a = b.
Proof.
  intros [a1 a2] [b1 b2]. unfold pair_eqb. cbn. rewrite andb_true_iff, !N.eqb_eq.
  split; [intros [-> ->]; auto | intros E; inv E; auto].
Qed.

Lemma sub_map_lookup : forall a b, NoDup (keys a) -> sub_map a b = true ->
  forall x v, lookup a x = Some v -> lookup b x = Some v.
Proof.
  intros a b ND S x v L. unfold sub_map in S. rewrite forallb_forall in S.
  apply lookup_In in L. specialize (S _ L). cbn [fst snd] in S.
  destruct (lookup b x) as [w|]; [|discriminate]. apply N.eqb_eq in S. now subst.
Qed.

Section Spec.
  Variables (h : hlv) (c : N) (h' : hlv).
  Hypothesis OK : compact_okb h c h' = true.

  Lemma ok_parts :
    src h' = src h /\ ver h' = ver h /\ mv h' = mv h /\ NoDup (keys (pv h')) /\ sub_map (pv h') (pv h) = true /\
    len (removed (pv h) (pv h')) = (if compact_noop h c then 0 else N.min (len (filter (is_cand c) (pv h))) (len (pv h) - min_retained)) /\
    len (pv h') + len (removed (pv h) (pv h')) = len (pv h) /\
    (forall r, In r (removed (pv h) (pv h')) -> is_cand c r = true) /\
    (forall r x, In r (removed (pv h) (pv h')) -> In x (pv h) -> is_cand c x = true -> mem (pv h') (fst x) = true ->
                 snd r <= snd x).
  Proof.
    unfold compact_okb in OK. cbn zeta in OK. rewrite !andb_true_iff in OK.
    destruct OK as [[[[[[[[K1 K2] K3] K4] K5] K6] K7] K8] K9].
    apply N.eqb_eq in K1, K2, K6, K7. apply (list_eqb_eq pair_eqb pair_eqb_eq) in K3.
    apply nodupb_NoDup in K4. rewrite forallb_forall in K8, K9.
    repeat split; auto.
    intros r x Ir Ix Cx Mx. specialize (K9 r Ir). rewrite forallb_forall in K9.
    assert (Ic : In x (filter (is_cand c) (pv h))) by (apply filter_In; auto).
    specialize (K9 x Ic). rewrite Mx in K9. cbn in K9. now apply N.leb_le.
  Qed.

  (* Compact never touches cv and mv, and every pv entry it leaves is an entry of the old pv *)
  Theorem compact_keeps_cv_mv : cv h' = cv h /\ mv h' = mv h /\ pruned h h' /\ NoDup (keys (pv h')).
  Proof.
    destruct ok_parts as [A [B [C [D [E _]]]]]. unfold cv. rewrite A, B. repeat split; auto.
    now apply sub_map_lookup.
  Qed.

  (* at least min(|pv|, 3) entries stay, nothing happens below 5 entries or with threshold 0, and only
     entries older than the threshold go *)
  Theorem compact_retains :
    N.min (len (pv h)) min_retained <= len (pv h') /\
    (compact_noop h c = true -> len (pv h') = len (pv h)) /\
    (NoDup (keys (pv h)) -> forall x v, lookup (pv h) x = Some v -> c <= v -> lookup (pv h') x = Some v).
  Proof.
    destruct ok_parts as [_ [_ [_ [D [E [F [G [Hc _]]]]]]]]. unfold min_retained in *.
    split; [|split].
    - destruct (compact_noop h c); lia.
    - intros N. rewrite N in F. lia.
    - intros ND x v L Le. destruct (lookup (pv h') x) as [w|] eqn:L'.
      + rewrite (sub_map_lookup _ _ D E _ _ L') in L. exact L.
      + exfalso. assert (I : In (x, v) (removed (pv h) (pv h'))).
        { apply filter_In. split; [now apply lookup_In|]. cbn [fst]. unfold mem. now rewrite L'. }
        apply Hc in I. unfold is_cand in I. cbn [snd] in I. apply N.ltb_lt in I. lia.
  Qed.

  (* oldest first *)
  Theorem compact_oldest_first : forall x v y w,
    lookup (pv h) x = Some v -> lookup (pv h') x = None ->      (* (x, v) was removed *)
    In (y, w) (pv h) -> w < c -> mem (pv h') y = true ->         (* (y, w) was a candidate and stayed *)
    v <= w.
  Proof.
    intros x v y w L L' I Lw M. destruct ok_parts as [_ [_ [_ [_ [_ [_ [_ [_ O]]]]]]]].
    apply (O (x, v) (y, w)); auto.
    - apply filter_In. split; [now apply lookup_In|]. cbn [fst]. unfold mem. now rewrite L'.
    - unfold is_cand. cbn [snd]. now apply N.ltb_lt.
  Qed.
End Spec.

(* ---------- soundness of the conflict predicate under pruning ---------- *)
Lemma pruned_get_value : forall h h' s e, pruned h h' -> get_value h' s = Some e -> get_value h s = Some e.
Proof.
  intros h h' s e [A [B [C D]]]. unfold get_value. rewrite A, B, C.
  destruct (s =? 0); [auto|]. destruct (s =? src h); [auto|]. destruct (lookup (mv h) s); [auto|]. apply D.
Qed.

Lemma pruned_dominates : forall h h' p, pruned h h' -> dominates h' p = true -> dominates h p = true.
Proof.
  intros h h' [s v] P D. apply dominates_spec in D. destruct D as [e [E L]].
  apply dominates_spec. exists e. split; auto. eapply pruned_get_value; eauto.
Qed.

(* COMPACTION IS SOUND FOR CONFLICT DETECTION: whatever is pruned from the previous versions of the
   local vector, of the incoming vector or of both, a pair that was in conflict stays in conflict --
   pruning never turns a concurrent revision into an accepted (or "already known") one. *)
Theorem compact_sound : forall hl hl' hi hi', pruned hl hl' -> pruned hi hi' ->
  is_in_conflict hl hi = Conflict -> is_in_conflict hl' hi' = Conflict.
Proof.
  intros hl hl' hi hi' Pl Pi C.
  destruct (status_cases hl hi) as [_ [SC _]]. apply SC in C. destruct C as [E [Di [Dl M]]].
  destruct (status_cases hl' hi') as [_ [SC' _]]. apply SC'.
  pose proof Pl as [Al [Bl [Cl _]]]. pose proof Pi as [Ai [Bi [Ci _]]].
  assert (CVl : cv hl' = cv hl) by (unfold cv; now rewrite Al, Bl).
  assert (CVi : cv hi' = cv hi) by (unfold cv; now rewrite Ai, Bi).
  repeat split.
  - unfold equal_cv in *. now rewrite Al, Bl, Ai, Bi.
  - rewrite CVl. destruct (dominates hi' (cv hl)) eqn:D; auto. apply (pruned_dominates _ _ _ Pi) in D. congruence.
  - rewrite CVi. destruct (dominates hl' (cv hi)) eqn:D; auto. apply (pruned_dominates _ _ _ Pl) in D. congruence.
  - unfold same_merge in *. now rewrite Cl, Ci.
Qed.

(* the same, read from the result: what is accepted after pruning was accepted or already known before *)
Corollary compact_accept_sound : forall hl hl' hi hi', pruned hl hl' -> pruned hi hi' ->
  is_in_conflict hl' hi' = NoConflict ->
  is_in_conflict hl hi = NoConflict \/ is_in_conflict hl hi = AlreadyPresent.
Proof.
  intros hl hl' hi hi' Pl Pi A. destruct (is_in_conflict hl hi) eqn:E; auto.
  rewrite (compact_sound _ _ _ _ Pl Pi E) in A. discriminate.
Qed.

(* a fast-forward verdict survives pruning of the LOCAL vector (the local pv plays no role in it) *)
Theorem compact_local_keeps_fast_forward : forall hl hl' hi, pruned hl hl' ->
  equal_cv hl hi = false -> dominates hi (cv hl) = true ->
  is_in_conflict hl' hi = NoConflict /\ is_in_conflict hl hi = NoConflict.
Proof.
  intros hl hl' hi [A [B _]] E D. unfold is_in_conflict.
  assert (E' : equal_cv hl' hi = false) by (unfold equal_cv in *; now rewrite A, B).
  assert (CV : cv hl' = cv hl) by (unfold cv; now rewrite A, B).
  now rewrite E, E', CV, D.
Qed.

Lemma mem_true_keys' : forall m x, mem m x = true -> In x (keys m).
Proof.
  intros m x. unfold mem. destruct (lookup m x) eqn:E; [|discriminate]. intros _. eapply lookup_In_keys; eauto.
Qed.

(* ---------- what compaction loses, against the seen set ---------- *)
(* the result records exactly the seen versions of the sources that were not pruned *)
Theorem compact_repr : forall h h' S, pruned h h' -> NoDup (keys (pv h')) -> good S -> repr h S ->
  let kept := fun p : version => negb (mem (pv h) (fst p)) || mem (pv h') (fst p) in
  repr h' (filter kept S) /\
  (forall p, In p S -> kept p = false -> dominates h' p = false).
Proof.
  intros h h' S P ND G [W [LI DO]]. cbn zeta. pose proof P as [A [B [C D]]].
  assert (PvSub : forall x, In x (keys (pv h')) -> In x (keys (pv h))).
  { intros x I. apply In_keys_lookup in I. destruct I as [v L]. apply D in L. eapply lookup_In_keys; eauto. }
  assert (W' : wf h').
  { constructor.
    - rewrite A. apply W.
    - rewrite C. apply W.
    - exact ND.
    - rewrite A. intros I. apply (wf_srcpv _ W). now apply PvSub.
    - rewrite C. intros x I J. apply (wf_disj _ W x I). now apply PvSub. }
  split; [split; [exact W'|split]|].
  - intros [x o] L. apply filter_In. destruct L as [L|[L|L]].
    + split; [apply LI; left; unfold cv in *; now rewrite <- A, <- B|].
      inv L. cbn [fst]. assert (M : mem (pv h) (src h') = false).
      { unfold mem. rewrite A. assert (E : lookup (pv h) (src h) = None) by (apply lookup_None_keys; apply W). now rewrite E. }
      now rewrite M.
    + rewrite C in L. split; [apply LI; right; left; exact L|]. cbn [fst].
      assert (M : mem (pv h) x = false).
      { unfold mem. destruct (lookup (pv h) x) eqn:E; [|reflexivity]. exfalso.
        apply lookup_In_keys in E. apply (wf_disj _ W x); auto. change x with (fst (x, o)). now apply in_map. }
      now rewrite M.
    + assert (L' : lookup (pv h') x = Some o) by (apply In_lookup; auto).
      split; [apply LI; right; right; apply lookup_In; now apply D|]. cbn [fst].
      unfold mem at 2. rewrite L'. apply orb_true_r.
  - intros [s v] I. apply filter_In in I. destruct I as [I K]. cbn [fst] in K.
    pose proof (DO _ I) as Dm. apply dominates_spec in Dm. destruct Dm as [e [E L]].
    apply dominates_spec. exists e. split; auto.
    unfold get_value in *. rewrite A, B, C. destruct (s =? 0); [auto|]. destruct (s =? src h); [auto|].
    destruct (lookup (mv h) s); [auto|].
    unfold mem in K. rewrite E in K. cbn in K. destruct (lookup (pv h') s) as [w|] eqn:L'; [|discriminate].
    apply D in L'. congruence.
  - intros [s v] I K. cbn [fst] in K. apply orb_false_iff in K. destruct K as [K1 K2].
    apply negb_false_iff in K1. destruct (G s v I) as [Hs Hv].
    destruct (dominates h' (s, v)) eqn:Dm; [|reflexivity]. exfalso.
    apply dominates_spec in Dm. destruct Dm as [e [E L]]. unfold get_value in E. rewrite A, B, C in E.
    destruct (N.eqb_spec s 0); [discriminate|].
    apply mem_true_keys' in K1.
    destruct (N.eqb_spec s (src h)); [subst; now apply (wf_srcpv _ W)|].
    destruct (lookup (mv h) s) eqn:M; [apply lookup_In_keys in M; now apply (wf_disj _ W s)|].
    unfold mem in K2. rewrite E in K2. discriminate.
Qed.

(* ---------- the deterministic function is an allowed result ---------- *)
From Coq Require Import Permutation Sorted.

Definition le_val (a b : N * N) : Prop := snd a <= snd b.

Lemma filter_all_id : forall (A : Type) (f : A -> bool) l, (forall x, In x l -> f x = true) -> filter f l = l.
Proof.
  intros A f l. induction l as [|x l IH]; intros H; [reflexivity|]. cbn [filter].
  rewrite (H x (or_introl eq_refl)). f_equal. apply IH. intros y I. apply H. right. exact I.
Qed.

Lemma filter_none : forall (A : Type) (f : A -> bool) l, (forall x, In x l -> f x = false) -> filter f l = [].
Proof.
  intros A f l. induction l as [|x l IH]; intros H; [reflexivity|]. cbn [filter].
  rewrite (H x (or_introl eq_refl)). apply IH. intros y I. apply H. right. exact I.
Qed.

Lemma insert_perm : forall e l, Permutation (insert_by_value e l) (e :: l).
Proof.
  induction l as [|x r IH]; cbn [insert_by_value]; [reflexivity|].
  destruct (snd e <? snd x); [reflexivity|].
  rewrite IH. apply perm_swap.
Qed.

Lemma sort_perm : forall l, Permutation (sort_by_value l) l.
Proof.
  induction l as [|e r IH]; cbn [sort_by_value fold_right]; [reflexivity|].
  fold (sort_by_value r). rewrite insert_perm. now constructor.
Qed.

Lemma insert_sorted : forall e l, StronglySorted le_val l -> StronglySorted le_val (insert_by_value e l).
Proof.
  induction l as [|x r IH]; intros S; cbn [insert_by_value].
  - constructor; constructor.
  - inversion S as [|? ? S' F]; subst. destruct (N.ltb_spec (snd e) (snd x)).
    + constructor; [exact S|]. constructor; [unfold le_val; lia|].
      eapply Forall_impl; [|exact F]. unfold le_val. intros y Y. lia.
    + constructor; [now apply IH|].
      apply Forall_forall. intros y I. apply (Permutation_in _ (insert_perm e r)) in I. destruct I as [<-|I].
      * unfold le_val. lia.
      * rewrite Forall_forall in F. now apply F.
Qed.

Lemma sort_sorted : forall l, StronglySorted le_val (sort_by_value l).
Proof.
  induction l as [|e r IH]; cbn [sort_by_value fold_right]; [constructor|]. now apply insert_sorted.
Qed.

Lemma NoDup_of_keys : forall (p : amap), NoDup (keys p) -> NoDup p.
Proof.
  induction p as [|[k v] r IH]; intros ND; [constructor|]. cbn in ND. inv ND. constructor; auto.
  intros I. apply H1. change k with (fst (k, v)). now apply in_map.
Qed.

Lemma same_key_same_entry : forall (p : amap) a b, NoDup (keys p) -> In a p -> In b p -> fst a = fst b -> a = b.
Proof.
  intros p [k v] [k' w] ND Ia Ib E. cbn in E. subst k'.
  apply In_lookup in Ia, Ib; auto. congruence.
Qed.

Lemma length_remove_in : forall (p : amap) k v, NoDup (keys p) -> In (k, v) p -> S (length (remove p k)) = length p.
Proof.
  induction p as [|[k' v'] r IH]; intros k v ND I; [destruct I|].
  cbn in ND. inv ND. rewrite remove_cons. destruct (N.eqb_spec k' k).
  - subst. cbn [length]. f_equal.
    assert (E : remove r k = r).
    { unfold remove. apply filter_all_id. intros [a b] J. cbn [fst].
      destruct (N.eqb_spec a k); [|reflexivity]. subst. exfalso. apply H1. change k with (fst (k, b)). now apply in_map. }
    now rewrite E.
  - destruct I as [I|I]; [congruence|]. cbn [length]. f_equal. eapply IH; eauto.
Qed.

Lemma loop_props : forall cands p, NoDup (keys p) -> NoDup (keys cands) -> incl cands p -> StronglySorted le_val cands ->
  let p' := compact_loop cands p in
  NoDup (keys p') /\ incl p' p /\
  (forall e, In e p -> ~ In e p' -> In e cands) /\
  (length p' + Nat.min (length cands) (length p - 3) = length p)%nat /\
  (forall r x, In r p -> ~ In r p' -> In x cands -> In x p' -> snd r <= snd x).
Proof.
  induction cands as [|c r IH]; intros p NDp NDc Inc Srt; cbn zeta; cbn [compact_loop].
  - repeat split; auto using incl_refl; try tauto; try (cbn; lia).
  - unfold len, min_retained. destruct (N.leb_spec (N.of_nat (length p)) 3) as [Le|Gt].
    + repeat split; auto using incl_refl; try tauto.
      try (replace (length p - 3)%nat with 0%nat by lia; lia).
    + destruct c as [ck cv0]. cbn [fst].
      assert (Ic : In (ck, cv0) p) by (apply Inc; left; reflexivity).
      set (p1 := remove p ck).
      assert (L1 : S (length p1) = length p) by (eapply length_remove_in; eauto).
      cbn in NDc. inv NDc. inversion Srt as [|? ? Srt' Fc]; subst.
      assert (Inc1 : incl r p1).
      { intros e I. apply In_remove. split; [apply Inc; right; exact I|]. intros E. apply H1. rewrite <- E.
        now apply in_map. }
      destruct (IH p1 (NoDup_keys_remove _ _ NDp) H2 Inc1 Srt') as [A [B [C [D E]]]]. cbn zeta in *.
      set (p' := compact_loop r p1) in *.
      assert (P1sub : incl p1 p) by (intros e I; apply In_remove in I; tauto).
      assert (NoC : forall e, In e p1 -> fst e <> ck) by (intros e I; apply In_remove in I; tauto).
      split; [exact A|]. split; [intros e I; apply P1sub, B, I|]. split; [|split].
      * intros e Ie Ne. destruct (N.eq_dec (fst e) ck) as [Ek|Nk].
        -- left. apply (same_key_same_entry p _ _ NDp Ic Ie). cbn [fst]. now rewrite Ek.
        -- right. apply C; auto. apply In_remove. tauto.
      * cbn [length]. lia.
      * intros r0 x Ir Nr Ix Ix'.
        assert (Xr : In x r).
        { destruct Ix as [<-|Ix]; [|exact Ix]. exfalso. apply (NoC _ (B _ Ix')). reflexivity. }
        destruct (N.eq_dec (fst r0) ck) as [Ek|Nk].
        -- assert (r0 = (ck, cv0)) by (apply (same_key_same_entry p _ _ NDp Ir Ic); exact Ek). subst r0.
           rewrite Forall_forall in Fc. apply (Fc x Xr).
        -- apply E; auto. apply In_remove. tauto.
Qed.

Lemma filter_mem_length : forall (p p' : amap), NoDup (keys p) -> NoDup (keys p') -> incl p' p ->
  (length (filter (fun e => negb (mem p' (fst e))) p) + length p' = length p)%nat.
Proof.
  intros p p' ND ND' Inc.
  assert (Part : forall (f : N * N -> bool) (l : amap), (length (filter (fun e => negb (f e)) l) + length (filter f l) = length l)%nat).
  { intros f l. induction l as [|x l IH]; [reflexivity|]. cbn [filter]. destruct (f x); cbn [negb length]; lia. }
  rewrite <- (Part (fun e => mem p' (fst e)) p). f_equal.
  set (q := filter (fun e => mem p' (fst e)) p).
  assert (NDq : NoDup q) by (apply NoDup_filter, NoDup_of_keys, ND).
  assert (Iq : incl q p').
  { intros e I. apply filter_In in I. destruct I as [I M]. apply mem_true_keys' in M.
    apply In_keys_lookup in M. destruct M as [v L]. apply lookup_In in L.
    assert (H : e = (fst e, v)) by (apply (same_key_same_entry p _ _ ND I (Inc _ L)); reflexivity). now rewrite H. }
  assert (Ip : incl p' q).
  { intros e I. apply filter_In. split; [now apply Inc|]. unfold mem.
    destruct e as [k v]. cbn [fst]. rewrite (In_lookup _ _ _ ND' I). reflexivity. }
  apply Nat.le_antisymm; apply NoDup_incl_length; auto. now apply NoDup_of_keys.
Qed.

Lemma list_eqb_refl_pair : forall l, list_eqb pair_eqb l l = true.
Proof. intros l. apply (list_eqb_eq pair_eqb pair_eqb_eq). reflexivity. Qed.

Lemma sub_map_of_incl : forall (a b : amap), NoDup (keys b) -> incl a b -> sub_map a b = true.
Proof.
  intros a b ND Inc. unfold sub_map. apply forallb_forall. intros [k v] I. cbn [fst snd].
  rewrite (In_lookup _ _ _ ND (Inc _ I)). apply N.eqb_refl.
Qed.

Theorem compact_fun_ok : forall h c, NoDup (keys (pv h)) -> compact_okb h c (compact_with_value h c) = true.
Proof.
  intros h c ND. unfold compact_okb, compact_with_value. cbn zeta.
  destruct (compact_noop h c) eqn:Noop.
  - (* nothing happens *)
    assert (R : removed (pv h) (pv h) = []).
    { unfold removed. apply filter_none. intros [a b] I. unfold mem. cbn [fst].
      rewrite (In_lookup _ _ _ ND I). reflexivity. }
    rewrite R, !N.eqb_refl, list_eqb_refl_pair. cbn [andb forallb].
    rewrite (proj2 (nodupb_NoDup _) ND), (sub_map_of_incl _ _ ND (incl_refl _)).
    unfold len. cbn [length]. rewrite N.add_0_r, !N.eqb_refl. reflexivity.
  - cbn [src ver mv pv].
    set (cands := filter (is_cand c) (pv h)).
    set (srt := sort_by_value cands).
    assert (Pm : Permutation srt cands) by apply sort_perm.
    assert (NDc : NoDup (keys cands)).
    { unfold cands. clear - ND. induction (pv h) as [|[k v] r IH]; [constructor|]. cbn in ND. inv ND.
      cbn [filter]. destruct (is_cand c (k, v)); [|auto]. cbn. constructor; auto.
      intros I. apply H1. unfold keys in *. apply in_map_iff in I. destruct I as [e [E I]]. apply filter_In in I.
      rewrite <- E. apply in_map. tauto. }
    assert (NDs : NoDup (keys srt)).
    { unfold keys. eapply Permutation_NoDup; [apply Permutation_map; symmetry; exact Pm | exact NDc]. }
    assert (Incs : incl srt (pv h)).
    { intros e I. apply (Permutation_in _ Pm) in I. apply filter_In in I. tauto. }
    destruct (loop_props srt (pv h) ND NDs Incs (sort_sorted cands)) as [A [B [C [D E]]]]. cbn zeta in *.
    set (p' := compact_loop srt (pv h)) in *.
    assert (RemIff : forall e, In e (removed (pv h) p') <-> In e (pv h) /\ ~ In e p').
    { intros e. unfold removed. rewrite filter_In. split.
      - intros [I M]. split; auto. intros J. destruct e as [k v]. cbn [fst] in M.
        unfold mem in M. rewrite (In_lookup _ _ _ A J) in M. discriminate.
      - intros [I NJ]. split; auto. destruct (mem p' (fst e)) eqn:M; [|reflexivity]. exfalso.
        apply mem_true_keys' in M. apply In_keys_lookup in M. destruct M as [v L]. apply lookup_In in L.
        assert (H : e = (fst e, v)) by (apply (same_key_same_entry (pv h) _ _ ND I (B _ L)); reflexivity). apply NJ. now rewrite H. }
    pose proof (filter_mem_length (pv h) p' ND A B) as FL. fold (removed (pv h) p') in FL.
    assert (Ls : length srt = length cands) by now apply Permutation_length.
    rewrite !N.eqb_refl, list_eqb_refl_pair. cbn [andb].
    rewrite (proj2 (nodupb_NoDup _) A), (sub_map_of_incl _ _ ND B). cbn [andb].
    assert (K1 : (len (removed (pv h) p') =? N.min (len cands) (len (pv h) - min_retained)) = true).
    { apply N.eqb_eq. unfold len, min_retained. rewrite Ls in D. lia. }
    assert (K2 : (len p' + len (removed (pv h) p') =? len (pv h)) = true).
    { apply N.eqb_eq. unfold len. lia. }
    rewrite K1, K2. cbn [andb].
    assert (K3 : forallb (is_cand c) (removed (pv h) p') = true).
    { apply forallb_forall. intros e I. apply RemIff in I. destruct I as [I NJ].
      specialize (C e I NJ). apply (Permutation_in _ Pm) in C. apply filter_In in C. tauto. }
    rewrite K3. cbn [andb].
    apply forallb_forall. intros r0 Ir. apply forallb_forall. intros x Ix.
    apply RemIff in Ir. destruct Ir as [Ir Nr].
    destruct (mem p' (fst x)) eqn:M; [|reflexivity]. cbn [negb orb]. apply N.leb_le.
    assert (Xp : In x p').
    { apply mem_true_keys' in M. apply In_keys_lookup in M. destruct M as [v L]. apply lookup_In in L.
      assert (Ixp : In x (pv h)) by (apply filter_In in Ix; tauto).
      assert (H : x = (fst x, v)) by (apply (same_key_same_entry (pv h) _ _ ND Ixp (B _ L)); reflexivity). now rewrite H. }
    apply (E r0 x); auto. apply (Permutation_in _ (Permutation_sym Pm)). exact Ix.
Qed.
