(* C10 proofs, part 3: every vector reachable by a history of edits, pulls and merges represents the
   set of versions its replica has seen ([Inv]), the verdict of the conflict predicate agrees with the
   ground truth, and locally generated versions are new and strictly above every version of the source. *)
From SG Require Import Base.Prelude C10.AMap C10.HLV C10.HLVProofs C10.HLVOps C10.Replica.
Open Scope N_scope.
#[local] Arguments N.max : simpl never.
#[local] Arguments N.eqb : simpl never.
#[local] Arguments N.leb : simpl never.
#[local] Arguments N.ltb : simpl never.
#[local] Arguments N.add : simpl never.

Record Inv (st : state) : Prop := mkInv {
  (* a replica without the document has seen nothing *)
  inv_emp : forall r, src (rh (st r)) = 0 -> rh (st r) = empty_hlv /\ rseen (st r) = [];
  (* the vector of a replica represents what the replica has seen *)
  inv_repr : forall r, src (rh (st r)) <> 0 -> repr (rh (st r)) (rseen (st r));
  inv_good : forall r, good (rseen (st r));
  (* a version is known to the replica that created it *)
  inv_own : forall r s v, In (s, v) (rseen (st r)) -> In (s, v) (rseen (st s));
  (* seeing a version of a source implies having seen all its earlier versions *)
  inv_closed : forall r q s v v', In (s, v) (rseen (st r)) -> In (s, v') (rseen (st q)) -> v' <= v ->
                                  In (s, v') (rseen (st r));
  (* having seen a replica's current version implies having seen all that replica has; two replicas
     that have seen each other's current version hold the same current version *)
  inv_caus : forall r q, src (rh (st r)) <> 0 -> In (cv (rh (st r))) (rseen (st q)) ->
               incl (rseen (st r)) (rseen (st q)) /\
               (In (cv (rh (st q))) (rseen (st r)) -> cv (rh (st r)) = cv (rh (st q)))
}.

Lemma inv_init : Inv init.
Proof.
  constructor; cbn; intros; try tauto; try (split; reflexivity).
  intros s v I. destruct I.
Qed.

Lemma upd_same : forall st r x, upd st r x r = x.
Proof. intros. unfold upd. now rewrite N.eqb_refl. Qed.
Lemma upd_other : forall st r x q, q <> r -> upd st r x q = st q.
Proof. intros. unfold upd. destruct (N.eqb_spec q r); [tauto|reflexivity]. Qed.

(* changing only the clock *)
Lemma inv_clock : forall st r c, Inv st -> Inv (upd st r (mkR (rh (st r)) (rseen (st r)) c)).
Proof.
  intros st r c I.
  assert (H : forall q, rh (upd st r (mkR (rh (st r)) (rseen (st r)) c) q) = rh (st q) /\
                        rseen (upd st r (mkR (rh (st r)) (rseen (st r)) c) q) = rseen (st q)).
  { intros q. unfold upd. destruct (N.eqb_spec q r); [subst; auto | auto]. }
  constructor.
  - intros q. destruct (H q) as [-> ->]. apply I.
  - intros q. destruct (H q) as [-> ->]. apply I.
  - intros q. destruct (H q) as [_ ->]. apply I.
  - intros q s v. destruct (H q) as [_ ->]. destruct (H s) as [_ ->]. apply I.
  - intros q1 q2 s v v'. destruct (H q1) as [_ ->]. destruct (H q2) as [_ ->]. apply I.
  - intros q1 q2. destruct (H q1) as [-> ->]. destruct (H q2) as [-> ->]. apply I.
Qed.

(* ---------- replica r becomes a copy of replica q0 ---------- *)
Lemma inv_clone : forall st r q0 S' c', Inv st -> src (rh (st q0)) <> 0 ->
  (forall p, In p S' <-> In p (rseen (st q0))) -> incl (rseen (st r)) (rseen (st q0)) ->
  Inv (upd st r (mkR (rh (st q0)) S' c')).
Proof.
  intros st r q0 S' c' I Hq SE Inc.
  set (st' := upd st r (mkR (rh (st q0)) S' c')).
  assert (Hr : st' r = mkR (rh (st q0)) S' c') by apply upd_same.
  assert (Ho : forall q, q <> r -> st' q = st q) by (intros; now apply upd_other).
  (* seen sets of the new state, up to equivalence, in terms of the old one *)
  assert (SN : forall q p, In p (rseen (st' q)) <-> In p (rseen (st (if q =? r then q0 else q)))).
  { intros q p. destruct (N.eqb_spec q r); [subst; rewrite Hr; apply SE | rewrite Ho by auto; tauto]. }
  assert (HN : forall q, rh (st' q) = rh (st (if q =? r then q0 else q))).
  { intros q. destruct (N.eqb_spec q r); [subst; now rewrite Hr | now rewrite Ho]. }
  constructor.
  - intros q E. rewrite HN in E. destruct (N.eqb_spec q r); [tauto|]. rewrite Ho by auto. now apply I.
  - intros q E. rewrite HN in *. eapply repr_incl; [apply (inv_repr _ I _ E)| |]; intros p; apply SN.
  - intros q s v J. apply SN in J. eapply inv_good; eauto.
  - intros q s v J. apply SN in J. apply (inv_own _ I) in J. apply SN.
    destruct (N.eqb_spec s r); [subst; now apply Inc | exact J].
  - intros q1 q2 s v v' J1 J2 L. apply SN in J1, J2. apply SN. eapply inv_closed; eauto.
  - intros q1 q2 E J. rewrite HN in *. apply SN in J.
    destruct (inv_caus _ I _ _ E J) as [A B]. split.
    + intros p K. apply SN. apply A. now apply SN.
    + intros K. apply SN in K. rewrite HN. auto.
Qed.

(* ---------- replica r creates a new version (edit or merge) ---------- *)
Lemma inv_fresh : forall st r v h' S' c' B, Inv st -> r <> 0 -> v <> 0 ->
  (B = [] \/ exists q0, B = rseen (st q0)) ->
  (forall p, In p S' <-> p = (r, v) \/ In p (rseen (st r)) \/ In p B) ->
  (forall q x, In (r, x) (rseen (st q)) -> x < v) ->
  repr h' S' -> cv h' = (r, v) ->
  Inv (upd st r (mkR h' S' c')).
Proof.
  intros st r v h' S' c' B I Hr Hv HB SE Fresh R CV.
  set (st' := upd st r (mkR h' S' c')).
  assert (Er : st' r = mkR h' S' c') by apply upd_same.
  assert (Eo : forall q, q <> r -> st' q = st q) by (intros; now apply upd_other).
  assert (Old : forall p, In p B -> exists q0, In p (rseen (st q0))).
  { intros p J. destruct HB as [->|[q0 ->]]; [destruct J | eauto]. }
  (* every element of a new seen set is the new version or an old element somewhere *)
  assert (Src : forall q p, In p (rseen (st' q)) -> (p = (r, v) /\ q = r) \/
                 (p <> (r, v) /\ ((q <> r /\ In p (rseen (st q))) \/ (q = r /\ (In p (rseen (st r)) \/ In p B))))).
  { intros q p J.
    assert (NF : forall q0, In p (rseen (st q0)) -> p <> (r, v)).
    { intros q0 K E. subst p. apply Fresh in K. lia. }
    destruct (N.eq_dec q r) as [->|N].
    - rewrite Er in J. cbn in J. apply SE in J. destruct J as [J|[J|J]].
      + left. auto.
      + right. split; [eapply NF; eauto|]. right. auto.
      + right. destruct (Old _ J) as [q0 K]. split; [eapply NF; eauto|]. right. auto.
    - rewrite Eo in J by auto. right. split; [eapply NF; eauto|]. left. auto. }
  assert (Sub : forall q p, In p (rseen (st q)) -> In p (rseen (st' q))).
  { intros q p J. destruct (N.eq_dec q r) as [->|N]; [rewrite Er; apply SE; auto | now rewrite Eo]. }
  assert (SubB : forall p, In p B -> In p (rseen (st' r))) by (intros p J; rewrite Er; apply SE; auto).
  assert (New : In (r, v) (rseen (st' r))) by (rewrite Er; apply SE; auto).
  constructor.
  - intros q E. destruct (N.eq_dec q r) as [->|N].
    + rewrite Er in E. cbn in E. assert (src h' = r) by (now inversion CV). congruence.
    + rewrite Eo in * by auto. now apply I.
  - intros q E. destruct (N.eq_dec q r) as [->|N]; [rewrite Er; exact R|]. rewrite Eo in * by auto. now apply I.
  - intros q s x J. apply Src in J. destruct J as [[E _]|[_ [[_ J]|[_ [J|J]]]]].
    + inv E. auto.
    + eapply inv_good; eauto.
    + eapply inv_good; eauto.
    + destruct (Old _ J) as [q0 K]. eapply inv_good; eauto.
  - intros q s x J. apply Src in J. destruct J as [[E _]|[_ [[_ J]|[_ [J|J]]]]].
    + inv E. exact New.
    + apply Sub. eapply inv_own; eauto.
    + apply Sub. eapply inv_own; eauto.
    + destruct (Old _ J) as [q0 K]. apply Sub. eapply inv_own; eauto.
  - intros q1 q2 s x x' J1 J2 L.
    pose proof (Src _ _ J2) as S2. destruct S2 as [[E2 _]|[N2 S2]].
    + (* the smaller one is the new version *)
      inv E2. pose proof (Src _ _ J1) as S1. destruct S1 as [[E1 ->]|[N1 S1]]; [exact New|].
      exfalso. assert (x < v); [|lia].
      destruct S1 as [[_ K]|[_ [K|K]]]; [eapply Fresh; eauto | eapply Fresh; eauto |].
      destruct (Old _ K) as [q0 K']. eapply Fresh; eauto.
    + assert (O2 : exists q0, In (s, x') (rseen (st q0))).
      { destruct S2 as [[_ K]|[_ [K|K]]]; eauto. }
      destruct O2 as [q0 K2].
      pose proof (Src _ _ J1) as S1. destruct S1 as [[E1 ->]|[N1 S1]].
      * inv E1. apply Sub. eapply inv_own; eauto.
      * destruct S1 as [[N K]|[-> [K|K]]].
        -- rewrite Eo by auto. eapply inv_closed; eauto.
        -- apply Sub. eapply inv_closed; eauto.
        -- apply SubB. destruct HB as [->|[q3 ->]]; [destruct K|]. eapply inv_closed; eauto.
  - intros q1 q2 E J.
    destruct (N.eq_dec q1 r) as [->|N1].
    + (* the current version of r is new: only r itself has seen it *)
      rewrite Er in J. cbn [rh] in J. rewrite CV in J.
      destruct (N.eq_dec q2 r) as [->|N2]; [split; [apply incl_refl | reflexivity]|].
      exfalso. rewrite Eo in J by auto. apply Fresh in J. lia.
    + rewrite (Eo q1) in * by auto.
      assert (CVo : In (cv (rh (st q1))) (rseen (st q1))) by (apply repr_cv_in; now apply I).
      destruct (N.eq_dec q2 r) as [->|N2].
      * split.
        -- apply Src in J. destruct J as [[EE _]|[_ [[NN _]|[_ [J|J]]]]]; [|tauto| |].
           ++ exfalso. rewrite EE in CVo. apply Fresh in CVo. lia.
           ++ intros p K. apply Sub. now apply (proj1 (inv_caus _ I _ _ E J)).
           ++ intros p K. apply SubB. destruct HB as [->|[q3 ->]]; [destruct J|].
              now apply (proj1 (inv_caus _ I _ _ E J)).
        -- intros K. exfalso. rewrite Er in K. cbn [rh] in K. rewrite CV in K. apply Fresh in K. lia.
      * rewrite (Eo q2) in * by auto. now apply I.
Qed.

(* ---------- facts available in a state satisfying the invariant ---------- *)
Lemma seen_iff_seenV : forall st r q s x, Inv st -> In (s, x) (rseen (st q)) ->
  (In (s, x) (rseen (st r)) <-> seenV (rseen (st r)) (s, x)).
Proof.
  intros st r q s x I J. unfold seenV. cbn [fst snd]. split.
  - apply max_ver_ge.
  - intros L. destruct (inv_good _ I _ _ _ J) as [_ Hx].
    assert (Z : max_ver (rseen (st r)) s <> 0) by lia.
    apply max_ver_attained in Z. eapply inv_closed; eauto.
Qed.

Lemma dominates_in : forall st r q, Inv st -> src (rh (st r)) <> 0 -> src (rh (st q)) <> 0 ->
  (dominates (rh (st q)) (cv (rh (st r))) = true <-> In (cv (rh (st r))) (rseen (st q))).
Proof.
  intros st r q I Hr Hq.
  pose proof (inv_repr _ I _ Hr) as Rr. pose proof (inv_repr _ I _ Hq) as Rq.
  pose proof (repr_cv_in _ _ Rr) as Cr.
  rewrite (seen_iff_seenV st q r _ _ I Cr).
  destruct (inv_good _ I _ _ _ Cr) as [A B].
  apply repr_dominates_seenV; auto. apply I.
Qed.

(* the verdict of the real predicate against the ground truth, for any two replicas holding the document *)
Theorem verdict_correct : forall st r q, Inv st -> src (rh (st r)) <> 0 -> src (rh (st q)) <> 0 ->
  let hl := rh (st r) in let hi := rh (st q) in
  let Sl := rseen (st r) in let Si := rseen (st q) in
  (is_in_conflict hl hi = AlreadyPresent <-> In (cv hi) Sl) /\
  (is_in_conflict hl hi = Conflict <-> ~ In (cv hi) Sl /\ ~ In (cv hl) Si /\ same_merge hl hi = false) /\
  (is_in_conflict hl hi = NoConflict <-> ~ In (cv hi) Sl /\ (In (cv hl) Si \/ same_merge hl hi = true)).
Proof.
  intros st r q I Hr Hq. cbn zeta.
  pose proof (inv_repr _ I _ Hr) as Rl. pose proof (inv_repr _ I _ Hq) as Ri.
  pose proof (inv_good _ I r) as Gl. pose proof (inv_good _ I q) as Gi.
  pose proof (repr_cv_in _ _ Rl) as Cl. pose proof (repr_cv_in _ _ Ri) as Ci.
  assert (A1 : In (cv (rh (st q))) (rseen (st r)) <-> seenV (rseen (st r)) (cv (rh (st q))))
    by (apply (seen_iff_seenV st r q _ _ I Ci)).
  assert (A2 : In (cv (rh (st r))) (rseen (st q)) <-> seenV (rseen (st q)) (cv (rh (st r))))
    by (apply (seen_iff_seenV st q r _ _ I Cl)).
  assert (Anti : seenV (rseen (st q)) (cv (rh (st r))) -> seenV (rseen (st r)) (cv (rh (st q))) ->
                 cv (rh (st r)) = cv (rh (st q))).
  { intros X Y. apply A2 in X. apply A1 in Y. now apply (proj2 (inv_caus _ I _ _ Hr X)). }
  rewrite A1, A2. split; [|split].
  - exact (known_iff_seen _ _ _ _ Gl Gi Rl Ri Anti).
  - exact (conflict_iff_concurrent _ _ _ _ Gl Gi Rl Ri).
  - exact (accepted_iff _ _ _ _ Gl Gi Rl Ri Anti).
Qed.

Lemma hlc_now_gt : forall phys hi floor, floor < hlc_now phys hi floor.
Proof. intros. unfold hlc_now. lia. Qed.

(* versions of source r are all below what maxValueForSource reports on r's own vector *)
Lemma own_versions_below_floor : forall st r q x, Inv st -> In (r, x) (rseen (st q)) ->
  x <= max_value_for_source (rh (st r)) r.
Proof.
  intros st r q x I J. apply (inv_own _ I) in J.
  destruct (N.eq_dec (src (rh (st r))) 0) as [E|E].
  - destruct (inv_emp _ I _ E) as [_ S]. rewrite S in J. destruct J.
  - pose proof (inv_repr _ I _ E) as R. destruct (inv_good _ I _ _ _ J) as [_ Hx].
    destruct R as [W [_ DO]]. apply DO in J. apply dominates_value in J; auto.
    pose proof (mvfs_ge_value (rh (st r)) r W). lia.
Qed.

(* ---------- one step ---------- *)
Theorem step_inv : forall st e, Inv st -> snd (step st e) <> OSameMerge ->
  Inv (fst (step st e)) /\ snd (step st e) <> OEditError /\ snd (step st e) <> OMergeError.
Proof.
  intros st e I NS. destruct e as [r phys | r q phys | r].
  - (* edit *)
    cbn [step] in *. destruct (N.eqb_spec r 0); [cbn [fst snd]; split; [exact I | split; discriminate]|].
    set (x := st r) in *. set (fl := max_value_for_source (rh x) r) in *.
    set (v := hlc_now phys (rclk x) fl) in *.
    assert (Hv : fl < v) by apply hlc_now_gt.
    assert (Fresh : forall q x0, In (r, x0) (rseen (st q)) -> x0 < v).
    { intros q x0 J. pose proof (own_versions_below_floor st r q x0 I J). fold x in H. fold fl in H. lia. }
    destruct (N.eq_dec (src (rh x)) 0) as [E|E].
    + destruct (inv_emp _ I _ E) as [Eh Es]. fold x in Eh, Es.
      destruct (add_version_empty r v) as [A R]; [auto|lia|].
      rewrite Eh in *. rewrite A. cbn [fst snd]. split; [|split; discriminate].
      apply (inv_fresh st r v _ _ v []); auto; try lia.
      * intros p. fold x. rewrite Es. cbn. intuition congruence.
      * rewrite Es. exact R.
    + destruct (add_version_repr (rh x) (rseen x) r v) as [h' [A [R [S1 [V1 _]]]]]; auto.
      * apply I.
      * apply I. exact E.
      * rewrite A. cbn [fst snd]. split; [|split; discriminate].
        apply (inv_fresh st r v _ _ v []); auto; try lia.
        -- intros p. fold x. cbn. intuition congruence.
        -- unfold cv. now rewrite S1, V1.
  - (* pull *)
    cbn [step] in *.
    destruct ((r =? 0) || (q =? 0) || (r =? q)) eqn:Guard; [cbn [fst snd]; split; [exact I | split; discriminate]|].
    apply orb_false_elim in Guard. destruct Guard as [Guard Nrq]. apply orb_false_elim in Guard.
    destruct Guard as [Nr Nq]. apply N.eqb_neq in Nr, Nq, Nrq.
    set (l := st r) in *. set (i := st q) in *.
    destruct (N.eqb_spec (src (rh i)) 0) as [Ei|Ei]; [cbn [fst snd]; split; [exact I | split; discriminate]|].
    pose proof (inv_repr _ I _ Ei) as Ri. fold i in Ri.
    destruct (N.eqb_spec (src (rh l)) 0) as [El|El].
    + (* first copy *)
      destruct (inv_emp _ I _ El) as [Eh Es]. fold l in Eh, Es.
      cbn [fst snd]. split; [|split; discriminate].
      rewrite Eh, update_empty, Es. cbn [app].
      apply inv_clone; auto. { tauto. } fold l. rewrite Es. intros p [].
    + pose proof (inv_repr _ I _ El) as Rl. fold l in Rl.
      destruct (verdict_correct st r q I El Ei) as [VK [VC VN]]. cbn zeta in *. fold l i in VK, VC, VN.
      destruct (is_in_conflict (rh l) (rh i)) eqn:V.
      * (* accepted *)
        cbn [fst snd] in *.
        destruct (dominates (rh i) (cv (rh l))) eqn:D; [|congruence].
        split; [|split; discriminate].
        apply (dominates_in st r q I El Ei) in D. fold l i in D.
        destruct (inv_caus _ I _ _ El D) as [Inc _]. fold l i in Inc.
        destruct (update_repr (rh l) (rh i) (rseen l) (rseen i)) as [E _]; auto; try apply I.
        rewrite E. apply inv_clone; auto.
        intros p. rewrite in_app_iff. split; [intros [J|J]; auto | auto].
      * (* conflict: merge *)
        set (fl := N.max (max_value_for_source (rh l) r) (max_value_for_source (rh i) r)) in *.
        set (v := hlc_now phys (rclk l) fl) in *.
        assert (Hv : fl < v) by apply hlc_now_gt.
        destruct (status_cases (rh l) (rh i)) as [_ [C _]]. destruct C as [C _]. specialize (C V).
        destruct C as [_ [Di [Dl _]]].
        destruct (merge_repr (rh l) (rh i) (rseen l) (rseen i) r v) as [h' [A [R [CV _]]]]; auto; try apply I; try lia.
        rewrite A. cbn [fst snd]. split; [|split; discriminate].
        assert (Fresh : forall q0 x0, In (r, x0) (rseen (st q0)) -> x0 < v).
        { intros q0 x0 J. pose proof (own_versions_below_floor st r q0 x0 I J). fold l in H. lia. }
        apply (inv_fresh st r v _ _ v (rseen i)); auto; try lia.
        -- right. exists q. reflexivity.
        -- intros p. fold l. cbn [In]. rewrite in_app_iff. intuition congruence.
      * cbn [fst snd]. split; [exact I | split; discriminate].
  - (* clock restart *)
    cbn [step fst snd]. split; [|split; discriminate]. now apply inv_clock.
Qed.

Lemma run_from_inv : forall evs st, Inv st -> clean_from st evs -> Inv (run_from st evs).
Proof.
  induction evs as [|e r IH]; intros st I C; [exact I|].
  cbn in *. destruct C as [C1 C2]. apply IH; auto. now apply step_inv.
Qed.

(* every vector reachable by a history of edits, pulls and merges (not using the same-merge rule)
   represents what its replica has seen *)
Theorem history_repr : forall evs, clean evs -> Inv (run evs).
Proof. intros evs C. apply run_from_inv; [apply inv_init | exact C]. Qed.

Lemma no_errors_from : forall evs st, Inv st -> clean_from st evs ->
  ~ In OEditError (outcomes_from st evs) /\ ~ In OMergeError (outcomes_from st evs).
Proof.
  induction evs as [|e r IH]; intros st I C; [cbn; tauto|].
  cbn in *. destruct C as [C1 C2]. destruct (step_inv st e I C1) as [I' [N1 N2]].
  destruct (IH _ I' C2) as [A B]. split; intros [H|H]; auto.
Qed.

(* ---------- locally generated versions ---------- *)
Definition generated (e : ev) (o : outcome) : option version :=
  match e, o with
  | EEdit r _, OEdited v => Some (r, v)
  | EPull r _ _, OMerged v => Some (r, v)
  | _, _ => None
  end.

Theorem generated_versions_new : forall st e r v, Inv st -> generated e (snd (step st e)) = Some (r, v) ->
  max_value_for_source (rh (st r)) r < v /\
  (forall q x, In (r, x) (rseen (st q)) -> x < v) /\
  In (r, v) (rseen (fst (step st e) r)).
Proof.
  intros st e r v I G. destruct e as [r0 phys | r0 q phys | r0]; cbn [step] in G.
  - destruct (N.eqb_spec r0 0); [discriminate|].
    destruct (add_version (rh (st r0)) (r0, _)) eqn:A; cbn in G; [|discriminate]. inv G.
    cbn [step]. destruct (N.eqb_spec r 0); [tauto|]. rewrite A. cbn [fst].
    assert (F : max_value_for_source (rh (st r)) r < hlc_now phys (rclk (st r)) (max_value_for_source (rh (st r)) r))
      by apply hlc_now_gt.
    split; [exact F|]. split.
    + intros q x J. pose proof (own_versions_below_floor st r q x I J). lia.
    + rewrite upd_same. cbn. auto.
  - cbn [step].
    destruct ((r0 =? 0) || (q =? 0) || (r0 =? q)); [discriminate|].
    destruct (src (rh (st q)) =? 0); [discriminate|].
    destruct (src (rh (st r0)) =? 0); [discriminate|].
    destruct (is_in_conflict (rh (st r0)) (rh (st q))); cbn in G; try discriminate.
    + destruct (dominates (rh (st q)) (cv (rh (st r0)))); discriminate.
    + destruct (merge_with_incoming (rh (st r0)) (r0, _) (rh (st q))) eqn:A; cbn in G; [|discriminate]. inv G.
      cbn [fst].
      set (fl := N.max (max_value_for_source (rh (st r)) r) (max_value_for_source (rh (st q)) r)).
      assert (F : fl < hlc_now phys (rclk (st r)) fl) by apply hlc_now_gt.
      split; [lia|]. split.
      * intros q0 x J. pose proof (own_versions_below_floor st r q0 x I J). lia.
      * rewrite upd_same. cbn. auto.
  - discriminate.
Qed.
