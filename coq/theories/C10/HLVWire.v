(* C10 proofs, part 5: the BLIP wire string form.  The rev property (GetCurrentVersionString) and the
   history property (toHistoryForHLV), glued as the receiver does (GetHLVFromRevMessage), parse back with
   extractHLVFromBlipString to the same current version, merge versions and previous versions. *)
From SG Require Import Base.Prelude C10.HLVCodec C10.HLVCodecProofs.
Open Scope N_scope.
#[local] Arguments N.mul : simpl never.
#[local] Arguments N.add : simpl never.
#[local] Arguments N.div : simpl never.
#[local] Arguments N.modulo : simpl never.
#[local] Arguments N.eqb : simpl never.
#[local] Arguments N.leb : simpl never.
#[local] Arguments N.ltb : simpl never.
#[local] Arguments N.sub : simpl never.
#[local] Arguments N.pow : simpl never.

(* ---------- hexadecimal text ---------- *)
Definition hexc (c : N) : Prop := (48 <= c <= 57) \/ (97 <= c <= 102).

Lemma hexdigit_hexc : forall x, x < 16 -> hexc (hexdigit x).
Proof. intros x H. unfold hexc, hexdigit. destruct (N.ltb_spec x 10); lia. Qed.

Lemma hex_digits_spec : forall fuel v acc, exists ds,
  hex_digits fuel v acc = ds ++ acc /\ (fuel <> 0%nat -> ds <> []) /\ Forall hexc ds.
Proof.
  induction fuel as [|k IH]; intros v acc.
  - exists []. cbn. repeat split; auto; try (intros H; congruence).
  - cbn [hex_digits].
    assert (D : hexc (hexdigit (v mod 16))) by (apply hexdigit_hexc, N.mod_lt; lia).
    destruct (v / 16 =? 0).
    + exists [hexdigit (v mod 16)]. repeat split; auto. intros _; discriminate.
    + destruct (IH (v / 16) (hexdigit (v mod 16) :: acc)) as [ds [E [_ F]]].
      exists (ds ++ [hexdigit (v mod 16)]). split; [|split].
      * rewrite E. rewrite <- app_assoc. reflexivity.
      * intros _ C. apply app_eq_nil in C. destruct C as [_ C]. discriminate.
      * apply Forall_app. split; auto.
Qed.

Lemma parse_hex_digits : forall fuel v acc, v < 16 ^ N.of_nat fuel ->
  parse_hex_acc (hex_digits fuel v acc) 0 = parse_hex_acc acc v.
Proof.
  induction fuel as [|k IH]; intros v acc H.
  - cbn [hex_digits]. replace v with 0; [reflexivity|]. cbn in H. lia.
  - cbn [hex_digits].
    assert (M : v mod 16 < 16) by (apply N.mod_lt; lia).
    pose proof (N.div_mod v 16) as DM.
    destruct (N.eqb_spec (v / 16) 0) as [Z|Z].
    + cbn [parse_hex_acc]. rewrite (unhex_hexdigit _ M). f_equal. lia.
    + rewrite IH.
      * cbn [parse_hex_acc]. rewrite (unhex_hexdigit _ M). f_equal. lia.
      * rewrite Nat2N.inj_succ, N.pow_succ_r' in H. apply N.div_lt_upper_bound; lia.
Qed.

Lemma to_hex_spec : forall v, v < two64 ->
  to_hex v <> [] /\ Forall hexc (to_hex v) /\ parse_uint_hex (to_hex v) = Some v.
Proof.
  intros v H. unfold to_hex. destruct (hex_digits_spec 16 v []) as [ds [E [NE F]]].
  rewrite app_nil_r in E. split; [|split].
  - rewrite E. apply NE. discriminate.
  - now rewrite E.
  - assert (P : parse_hex_acc (hex_digits 16 v []) 0 = Some v).
    { rewrite parse_hex_digits; [reflexivity|].
      replace (16 ^ N.of_nat 16) with two64 by (vm_compute; reflexivity). exact H. }
    unfold parse_uint_hex. destruct (hex_digits 16 v []) as [|c r] eqn:D.
    + exfalso. apply NE; [discriminate|]. now rewrite <- E.
    + rewrite P. apply N.ltb_lt in H. now rewrite H.
Qed.

(* ---------- split / join ---------- *)
Lemma split_nosep : forall a sep, Forall (fun c => c <> sep) a -> split a sep = [a].
Proof.
  induction a as [|c r IH]; intros sep F; [reflexivity|].
  inv F. cbn [split]. destruct (N.eqb_spec c sep); [tauto|]. now rewrite IH.
Qed.

Lemma split_app : forall a b sep, Forall (fun c => c <> sep) a -> split (a ++ sep :: b) sep = a :: split b sep.
Proof.
  induction a as [|c r IH]; intros b sep F.
  - cbn. now rewrite N.eqb_refl.
  - inv F. cbn [app split]. destruct (N.eqb_spec c sep); [tauto|]. now rewrite IH.
Qed.

Lemma split_join : forall l sep, l <> [] -> (forall x, In x l -> Forall (fun c => c <> sep) x) ->
  split (join l sep) sep = l.
Proof.
  induction l as [|x r IH]; intros sep NE F; [congruence|].
  destruct r as [|y r'].
  - cbn [join]. apply split_nosep. apply F. left. reflexivity.
  - change (join (x :: y :: r') sep) with (x ++ sep :: join (y :: r') sep).
    rewrite split_app by (apply F; left; reflexivity). f_equal.
    apply IH; [discriminate|]. intros z I. apply F. right. exact I.
Qed.

Lemma join_nosep : forall l sep c, c <> sep -> (forall x, In x l -> Forall (fun d => d <> c) x) ->
  Forall (fun d => d <> c) (join l sep).
Proof.
  induction l as [|x r IH]; intros sep c N F; [constructor|].
  destruct r as [|y r'].
  - cbn [join]. apply F. left. reflexivity.
  - change (join (x :: y :: r') sep) with (x ++ sep :: join (y :: r') sep).
    apply Forall_app. split; [apply F; left; reflexivity|]. constructor; [congruence|].
    apply IH; auto. intros z I. apply F. right. exact I.
Qed.

Lemma existsb_semi_false : forall l, Forall (fun c => c <> SEMI) l -> existsb (N.eqb SEMI) l = false.
Proof.
  induction l as [|c r IH]; intros F; [reflexivity|]. inv F. cbn [existsb].
  destruct (N.eqb_spec SEMI c); [congruence|]. now apply IH.
Qed.

Lemma existsb_semi_true : forall a b, existsb (N.eqb SEMI) (a ++ SEMI :: b) = true.
Proof.
  intros a b. apply existsb_exists. exists SEMI. split; [apply in_or_app; right; left; reflexivity | reflexivity].
Qed.

(* ---------- entries ---------- *)
Definition good_name (s : bytes) : Prop := s <> [] /\ Forall (fun c => c <> COMMA /\ c <> SEMI) s.
Definition good_entry (e : bytes * N) : Prop := good_name (fst e) /\ snd e < two64.

Lemma hexc_facts : forall c, hexc c -> c <> AT /\ c <> COMMA /\ c <> SEMI /\ c <> SPACE.
Proof. intros c H. unfold hexc, AT, COMMA, SEMI, SPACE in *. lia. Qed.

Lemma version_string_good : forall e, good_entry e ->
  version_string e = to_hex (snd e) ++ AT :: fst e /\
  version_string e <> [] /\
  Forall (fun c => c <> COMMA) (version_string e) /\ Forall (fun c => c <> SEMI) (version_string e) /\
  strip_space (version_string e) = version_string e /\
  parse_version (version_string e) = Some e.
Proof.
  intros [k x] [[NE F] Hx]. cbn [fst snd] in *.
  destruct (to_hex_spec x Hx) as [TN [TF TP]].
  assert (E : version_string (k, x) = to_hex x ++ AT :: k).
  { unfold version_string. cbn [fst snd]. destruct k; [congruence|reflexivity]. }
  rewrite E. split; [reflexivity|]. split; [|split; [|split; [|split]]].
  - destruct (to_hex x); [congruence|discriminate].
  - apply Forall_app. split.
    + eapply Forall_impl; [|exact TF]. intros c H. apply hexc_facts in H. tauto.
    + constructor; [unfold AT, COMMA; lia|]. eapply Forall_impl; [|exact F]. cbn. tauto.
  - apply Forall_app. split.
    + eapply Forall_impl; [|exact TF]. intros c H. apply hexc_facts in H. tauto.
    + constructor; [unfold AT, SEMI; lia|]. eapply Forall_impl; [|exact F]. cbn. tauto.
  - destruct (to_hex x) as [|c r] eqn:T; [congruence|]. inv TF. cbn [app strip_space].
    destruct (N.eqb_spec c SPACE); [|reflexivity]. apply hexc_facts in H1. tauto.
  - unfold parse_version. rewrite cut_no_sep.
    + assert (S : strip_space (to_hex x) = to_hex x).
      { destruct (to_hex x) as [|c r] eqn:T; [reflexivity|]. inv TF. cbn [strip_space].
        destruct (N.eqb_spec c SPACE); [|reflexivity]. apply hexc_facts in H1. tauto. }
      rewrite S, TP. reflexivity.
    + eapply Forall_impl; [|exact TF]. intros c H. apply hexc_facts in H. tauto.
Qed.

Lemma parse_values_good : forall L, (forall e, In e L -> good_entry e) ->
  parse_values (map version_string L) = Some (L, []).
Proof.
  induction L as [|e r IH]; intros G; [reflexivity|].
  cbn [map parse_values].
  destruct (version_string_good e (G e (or_introl eq_refl))) as [_ [_ [_ [_ [S P]]]]].
  rewrite S, P. rewrite IH by (intros x I; apply G; right; exact I). reflexivity.
Qed.

(* ---------- building the maps ---------- *)
Lemma smem_false : forall m k, smem m k = false <-> ~ In k (map fst m).
Proof.
  intros m k. unfold smem. rewrite <- slookup_None. destruct (slookup m k); split; congruence.
Qed.

Lemma keys_sset : forall m k v x, In x (map fst (sset m k v)) <-> x = k \/ In x (map fst m).
Proof.
  intros m k v x. split.
  - intros I. destruct (list_eq_dec N.eq_dec x k) as [E|NE]; [left; exact E|]. right.
    destruct (slookup (sset m k v) x) eqn:L.
    + rewrite slookup_sset in L. destruct (bytes_eqb_spec k x); [congruence|].
      apply slookup_In in L. change x with (fst (x, n)). now apply in_map.
    + apply slookup_None in L. tauto.
  - intros [E|I].
    + subst. cbn. left. reflexivity.
    + destruct (list_eq_dec N.eq_dec x k) as [E|NE]; [subst; cbn; left; reflexivity|].
      destruct (slookup (sset m k v) x) eqn:L.
      * apply slookup_In in L. change x with (fst (x, n)). now apply in_map.
      * exfalso. rewrite slookup_sset in L. destruct (bytes_eqb_spec k x); [congruence|].
        apply slookup_None in L. tauto.
Qed.

Lemma add_mvs_ok : forall l s v acc, NoDup (map fst l) ->
  (forall k, In k (map fst l) -> ~ In k (map fst acc)) -> ~ In (s, v) l ->
  add_mvs s v l acc = Some (rebuild l acc).
Proof.
  induction l as [|[k x] r IH]; intros s v acc ND Dj NI; [reflexivity|].
  cbn in ND. inv ND. cbn [add_mvs].
  assert (M : smem acc k = false) by (apply smem_false, Dj; left; reflexivity). rewrite M.
  assert (C : bytes_eqb k s && (x =? v) = false).
  { destruct (bytes_eqb_spec k s); [|reflexivity]. destruct (N.eqb_spec x v); [|reflexivity].
    subst. exfalso. apply NI. left. reflexivity. }
  rewrite C. unfold rebuild. cbn [fold_left fst snd]. apply IH; auto.
  - intros k' I J. apply keys_sset in J. destruct J as [J|J].
    + subst. tauto.
    + apply (Dj k'); [right; exact I | exact J].
  - intros I. apply NI. right. exact I.
Qed.

Lemma add_pvs_ok : forall l mvm acc, NoDup (map fst l) ->
  (forall k, In k (map fst l) -> ~ In k (map fst acc)) ->
  (forall k, In k (map fst l) -> ~ In k (map fst mvm)) ->
  add_pvs mvm l acc = Some (rebuild l acc).
Proof.
  induction l as [|[k x] r IH]; intros mvm acc ND Dj Dm; [reflexivity|].
  cbn in ND. inv ND. cbn [add_pvs].
  assert (M : smem acc k = false) by (apply smem_false, Dj; left; reflexivity). rewrite M.
  assert (M2 : smem mvm k = false) by (apply smem_false, Dm; left; reflexivity). rewrite M2.
  unfold rebuild. cbn [fold_left fst snd]. apply IH; auto.
  - intros k' I J. apply keys_sset in J. destruct J as [J|J].
    + subst. tauto.
    + apply (Dj k'); [right; exact I | exact J].
  - intros k' I. apply Dm. right. exact I.
Qed.

Lemma slookup_rebuild_nil : forall l k, NoDup (map fst l) -> slookup (rebuild l []) k = slookup l k.
Proof.
  intros l k ND. destruct (in_dec (list_eq_dec N.eq_dec) k (map fst l)) as [I|NI].
  - apply in_map_iff in I. destruct I as [[k' v] [E I]]. cbn in E. subst k'.
    rewrite (slookup_rebuild_in l [] k v ND I). symmetry. now apply In_slookup.
  - rewrite slookup_rebuild_notin by assumption. cbn. symmetry. now apply slookup_None.
Qed.

Lemma keys_rebuild_nil : forall l k, NoDup (map fst l) -> (In k (map fst (rebuild l [])) <-> In k (map fst l)).
Proof.
  intros l k ND. split; intros I.
  - destruct (slookup l k) eqn:L; [apply slookup_In in L; change k with (fst (k, n)); now apply in_map|].
    rewrite <- slookup_rebuild_nil in L by assumption. apply slookup_None in L. tauto.
  - destruct (slookup (rebuild l []) k) eqn:L; [apply slookup_In in L; change k with (fst (k, n)); now apply in_map|].
    rewrite slookup_rebuild_nil in L by assumption. apply slookup_None in L. tauto.
Qed.

(* ---------- the round trip ---------- *)
Definition sendable (v : svec) : Prop :=
  good_entry (s_src v, s_ver v) /\
  (forall e, In e (s_mv v) -> good_entry e) /\ (forall e, In e (s_pv v) -> good_entry e) /\
  NoDup (map fst (s_mv v)) /\ NoDup (map fst (s_pv v)) /\
  (forall k, In k (map fst (s_pv v)) -> ~ In k (map fst (s_mv v))) /\
  ~ In (s_src v, s_ver v) (s_mv v).

(* the wire form does not carry cvCAS *)
Definition wire_view (v : svec) : svec := mkS 0 (s_src v) (s_ver v) (s_mv v) (s_pv v).

Lemma entries_nosep : forall L sep, (sep = COMMA \/ sep = SEMI) -> (forall e, In e L -> good_entry e) ->
  forall x, In x (map version_string L) -> Forall (fun c => c <> sep) x.
Proof.
  intros L sep S G x I. apply in_map_iff in I. destruct I as [e [E I]]. subst x.
  destruct (version_string_good e (G e I)) as [_ [_ [A [B _]]]]. destruct S; subst; assumption.
Qed.

Theorem wire_roundtrip : forall v, sendable v ->
  exists v', extract_hlv (wire_join (cv_string v) (to_history v)) = Some (v', []) /\ svec_equiv v' (wire_view v).
Proof.
  intros v [Gc [Gm [Gp [NDm [NDp [Dj NI]]]]]].
  set (cvs := version_string (s_src v, s_ver v)).
  destruct (version_string_good _ Gc) as [_ [CN [CC [CS [_ _]]]]]. fold cvs in CN, CC, CS.
  assert (Ecv : cv_string v = cvs).
  { unfold cv_string, cvs. destruct Gc as [[NE _] _]. cbn [fst] in NE. destruct (s_src v); [congruence|reflexivity]. }
  set (mvs := map version_string (s_mv v)). set (pvs := map version_string (s_pv v)).
  assert (PVsemi : Forall (fun c => c <> SEMI) (join pvs COMMA)).
  { apply join_nosep; [unfold COMMA, SEMI; lia|]. apply entries_nosep; auto. }
  assert (MVsemi : Forall (fun c => c <> SEMI) (join mvs COMMA)).
  { apply join_nosep; [unfold COMMA, SEMI; lia|]. apply entries_nosep; auto. }
  (* parsing the cv/mv field and the pv field *)
  assert (F0 : parse_vector_values (join (cvs :: mvs) COMMA) = Some ((s_src v, s_ver v) :: s_mv v, [])).
  { unfold parse_vector_values. rewrite split_join.
    - change (cvs :: mvs) with (map version_string ((s_src v, s_ver v) :: s_mv v)).
      apply parse_values_good. intros e [E|I]; [subst; exact Gc | now apply Gm].
    - discriminate.
    - intros x [E|I]; [subst; exact CC|]. apply (entries_nosep (s_mv v) COMMA); auto. }
  assert (F1 : s_pv v <> [] -> parse_vector_values (join pvs COMMA) = Some (s_pv v, [])).
  { intros NE. unfold parse_vector_values. rewrite split_join.
    - now apply parse_values_good.
    - unfold pvs. destruct (s_pv v); [congruence|discriminate].
    - apply entries_nosep; auto. }
  assert (AM : add_mvs (s_src v) (s_ver v) (s_mv v) [] = Some (rebuild (s_mv v) [])).
  { apply add_mvs_ok; [exact NDm | intros k _ [] | exact NI]. }
  assert (AP : add_pvs (rebuild (s_mv v) []) (s_pv v) [] = Some (rebuild (s_pv v) [])).
  { apply add_pvs_ok; [exact NDp | intros k _ [] | intros k I J; apply (proj1 (keys_rebuild_nil (s_mv v) k NDm)) in J; now apply (Dj k)]. }
  assert (PVne : s_pv v <> [] -> join pvs COMMA <> []).
  { intros NE. unfold pvs. destruct (s_pv v) as [|e r] eqn:E; [congruence|].
    destruct (version_string_good e (Gp e (or_introl eq_refl))) as [_ [N0 _]].
    cbn [map]. destruct (map version_string r); cbn [join]; [exact N0|].
    destruct (version_string e); [congruence|discriminate]. }
  exists (mkS 0 (s_src v) (s_ver v) (rebuild (s_mv v) []) (rebuild (s_pv v) [])). split.
  2:{ unfold svec_equiv, wire_view. cbn [s_cvcas s_src s_ver s_mv s_pv]. repeat split; auto;
      intros k; now apply slookup_rebuild_nil. }
  assert (F0semi : Forall (fun c => c <> SEMI) (join (cvs :: mvs) COMMA)).
  { apply join_nosep; [unfold COMMA, SEMI; lia|]. intros x [E|I]; [subst; exact CS|]. apply (entries_nosep (s_mv v) SEMI); auto. }
  assert (Hm : (s_mv v = [] /\ mvs = [] /\ (match s_mv v with [] => [] | _ => [SEMI] end) = []) \/
               (mvs <> [] /\ (match s_mv v with [] => [] | _ => [SEMI] end) = [SEMI])).
  { unfold mvs. destruct (s_mv v); [left; auto | right; split; [discriminate|reflexivity]]. }
  assert (Hp : (s_pv v = [] /\ pvs = []) \/ (s_pv v <> [] /\ exists c0 r0, join pvs COMMA = c0 :: r0)).
  { destruct (s_pv v) as [|p0 pr] eqn:Ep; [left; split; [reflexivity | unfold pvs; try rewrite Ep; reflexivity]|].
    right. split; [discriminate|]. rewrite <- Ep in *.
    assert (NEp : s_pv v <> []) by (rewrite Ep; discriminate).
    destruct (join pvs COMMA) as [|c0 r0] eqn:Ej; [exfalso; now apply (PVne NEp) | eauto]. }
  rewrite Ecv. unfold to_history. fold mvs pvs. unfold extract_hlv.
  destruct Hm as [[Em [Emvs Esemi]]|[NEm Esemi]]; rewrite Esemi.
  - (* no merge versions *)
    rewrite Emvs in *. cbn [join app]. change (join [cvs] COMMA) with cvs in F0.
    rewrite Em in AM, AP, F0. cbn [rebuild fold_left] in AM, AP. cbn [add_mvs] in AM.
    rewrite Em. cbn [rebuild fold_left].
    destruct Hp as [[Ep Epvs]|[NEp [c0 [r0 Ej]]]].
    + (* cv only *)
      rewrite Epvs, Ep. cbn [join wire_join rebuild fold_left].
      rewrite split_nosep by exact CS. destruct cvs eqn:Ecvs; [congruence|]. rewrite <- Ecvs in *.
      rewrite F0. cbn [add_mvs]. reflexivity.
    + (* cv ; pv *)
      unfold wire_join. rewrite Ej. rewrite <- Ej. rewrite existsb_semi_false by exact PVsemi.
      rewrite split_app by exact CS. rewrite split_nosep by exact PVsemi.
      rewrite F0. cbn [add_mvs]. rewrite Ej. rewrite <- Ej. rewrite (F1 NEp). rewrite AP. reflexivity.
  - (* merge versions present: cv,mv;pv *)
    assert (Ehist : join mvs COMMA ++ [SEMI] ++ join pvs COMMA = join mvs COMMA ++ SEMI :: join pvs COMMA) by reflexivity.
    rewrite Ehist. unfold wire_join.
    destruct (join mvs COMMA ++ SEMI :: join pvs COMMA) as [|c0 r0] eqn:Eh.
    { apply app_eq_nil in Eh. destruct Eh as [_ Eh]. discriminate. }
    rewrite <- Eh. rewrite existsb_semi_true.
    assert (Ef0 : cvs ++ COMMA :: join mvs COMMA ++ SEMI :: join pvs COMMA =
                  join (cvs :: mvs) COMMA ++ SEMI :: join pvs COMMA).
    { destruct mvs as [|y r']; [congruence|]. change (join (cvs :: y :: r') COMMA) with (cvs ++ COMMA :: join (y :: r') COMMA).
      rewrite <- app_assoc. reflexivity. }
    rewrite Ef0.
    rewrite split_app by exact F0semi. rewrite split_nosep by exact PVsemi.
    rewrite F0, AM.
    destruct Hp as [[Ep Epvs]|[NEp [c1 [r1 Ej]]]].
    + rewrite Epvs, Ep. cbn [join rebuild fold_left]. reflexivity.
    + rewrite Ej. rewrite <- Ej. rewrite (F1 NEp), AP. reflexivity.
Qed.

(* ---------- whatever the parser accepts is structurally valid ---------- *)
Lemma NoDup_keys_filter : forall (m : smap) f, NoDup (map fst m) -> NoDup (map fst (filter f m)).
Proof.
  induction m as [|[k x] r IH]; intros f ND; [constructor|].
  cbn in ND. inv ND. cbn [filter]. destruct (f (k, x)); [|now apply IH].
  cbn. constructor; [|now apply IH].
  intros I. apply H1. apply in_map_iff in I. destruct I as [p [E I]]. apply filter_In in I.
  apply in_map_iff. exists p. tauto.
Qed.

Lemma NoDup_keys_sset : forall m k x, NoDup (map fst m) -> NoDup (map fst (sset m k x)).
Proof.
  intros m k x ND. unfold sset. cbn. constructor; [|now apply NoDup_keys_filter].
  intros I. apply in_map_iff in I. destruct I as [p [E I]]. unfold sremove in I. apply filter_In in I.
  destruct I as [_ I]. rewrite E in I. rewrite bytes_eqb_refl in I. discriminate.
Qed.

Lemma In_sset : forall m k x p, In p (sset m k x) -> p = (k, x) \/ In p m.
Proof.
  intros m k x p [I|I]; [left; now symmetry|]. right. unfold sremove in I. apply filter_In in I. tauto.
Qed.

Lemma add_mvs_wf : forall l s v acc m, add_mvs s v l acc = Some m ->
  NoDup (map fst acc) -> ~ In (s, v) acc -> NoDup (map fst m) /\ ~ In (s, v) m.
Proof.
  induction l as [|[k x] r IH]; intros s v acc m H ND NI.
  - inv H. auto.
  - cbn [add_mvs] in H. destruct (smem acc k); [discriminate|].
    destruct (bytes_eqb k s && (x =? v)) eqn:C; [discriminate|].
    apply IH in H; auto.
    + now apply NoDup_keys_sset.
    + intros I. apply In_sset in I. destruct I as [I|I]; [|tauto]. inv I.
      rewrite bytes_eqb_refl, N.eqb_refl in C. discriminate.
Qed.

Lemma add_pvs_wf : forall l mvm acc p, add_pvs mvm l acc = Some p ->
  NoDup (map fst acc) -> (forall k, In k (map fst acc) -> ~ In k (map fst mvm)) ->
  NoDup (map fst p) /\ (forall k, In k (map fst p) -> ~ In k (map fst mvm)).
Proof.
  induction l as [|[k x] r IH]; intros mvm acc p H ND Dj.
  - inv H. auto.
  - cbn [add_pvs] in H. destruct (smem acc k); [discriminate|].
    destruct (smem mvm k) eqn:M; [discriminate|]. apply smem_false in M.
    apply IH in H; auto.
    + now apply NoDup_keys_sset.
    + intros k' I. apply keys_sset in I. destruct I as [->|I]; auto.
Qed.

Definition wire_wf (v : svec) : Prop :=
  NoDup (map fst (s_mv v)) /\ NoDup (map fst (s_pv v)) /\
  (forall k, In k (map fst (s_pv v)) -> ~ In k (map fst (s_mv v))) /\
  ~ In (s_src v, s_ver v) (s_mv v).

Theorem wire_parse_wellformed : forall str v lg, extract_hlv str = Some (v, lg) -> wire_wf v.
Proof.
  intros str v lg H. unfold extract_hlv in H.
  repeat match type of H with
         | match ?x with _ => _ end = Some _ => destruct x eqn:?; try discriminate
         end;
  inv H; unfold wire_wf; cbn [s_mv s_pv s_src s_ver];
  match goal with
  | A : add_mvs _ _ _ [] = Some _ |- _ =>
      apply add_mvs_wf in A; [destruct A as [A1 A2] | constructor | intros []]
  end;
  try match goal with
  | A : add_pvs _ _ [] = Some _ |- _ =>
      apply add_pvs_wf in A; [destruct A as [B1 B2] | constructor | intros ? []]
  end;
  repeat split; auto; try constructor; try (intros ? []).
Qed.
