(* C11: auxiliary documents are part of the state a failed request must leave alone.
   A [Cleanup] operation deletes an auxiliary document (out-of-line revision body, obsolete attachment) that the
   state BEFORE the request references.  The rule [cleanup_after_commit]: no clean-up before the commit.  Under it
   a request that does not commit -- rejected, or failed by any set of storage faults -- deletes nothing. *)
From SG Require Import Base.Prelude C11.Atomicity C11.AtomicityProofs C11.MultiProofs.

Definition cleanup_after_commit (tr : list opclass) : Prop :=
  forall j, nth_error tr j = Some Cleanup -> exists n, commit_index tr = Some n /\ n < j.

Lemma commit_index_from_shift tr : forall i n, commit_index_from tr (S i) = Some (S n) <-> commit_index_from tr i = Some n.
Proof.
  induction tr as [|op rest IH]; intros i n; cbn [commit_index_from]; [split; discriminate|].
  destruct op; try apply IH. split; intros H; inv H; reflexivity.
Qed.

Lemma commit_index_from_S_ge tr i m : commit_index_from tr (S i) = Some m -> exists n, m = S n.
Proof. intros H. apply commit_index_from_ge in H. destruct m; [lia|]. eauto. Qed.

(* the boolean test evaluated on every observed trace is the rule *)
Lemma cleanup_after_commitb_spec tr : cleanup_after_commitb tr = true <-> cleanup_after_commit tr.
Proof.
  unfold cleanup_after_commit, commit_index. induction tr as [|op rest IH].
  - split; [intros _ j Hj; destruct j; discriminate | reflexivity].
  - assert (Hstep : op <> Commit -> op <> Cleanup ->
             ((forall j, nth_error (op :: rest) j = Some Cleanup -> exists n, commit_index_from (op :: rest) 0 = Some n /\ n < j) <->
              (forall j, nth_error rest j = Some Cleanup -> exists n, commit_index_from rest 0 = Some n /\ n < j))).
    { intros Hc Hl. split; intros H j Hj.
      - destruct (H (S j) Hj) as (n & Hn & Hlt). cbn [commit_index_from] in Hn.
        assert (Hn' : commit_index_from rest 1 = Some n) by (destruct op; congruence).
        destruct (commit_index_from_S_ge _ _ _ Hn') as (n' & ->). apply (proj1 (commit_index_from_shift rest 0 n')) in Hn'.
        exists n'. split; [exact Hn' | lia].
      - destruct j as [|j]; [cbn in Hj; congruence|]. cbn [nth_error] in Hj.
        destruct (H j Hj) as (n & Hn & Hlt). exists (S n). split; [|lia].
        cbn [commit_index_from]. apply (proj2 (commit_index_from_shift rest 0 n)) in Hn. destruct op; congruence. }
    destruct op; cbn [cleanup_after_commitb]; try (rewrite IH; symmetry; apply Hstep; discriminate).
    + (* Commit first: everything after it is allowed *)
      split; [|reflexivity]. intros _ j Hj. destruct j as [|j]; [cbn in Hj; discriminate|].
      exists 0. split; [reflexivity | lia].
    + (* Cleanup first: the rule is broken *)
      split; [discriminate|]. intros H. destruct (H 0 eq_refl) as (n & _ & Hlt). lia.
Qed.

(* ---------- a request that does not commit deletes nothing ---------- *)
Lemma exec_uncommitted_cleaned tr : forall i k s,
  cleanup_after_commitb tr = true -> committed s = false ->
  committed (fst (exec tr i k s)) = false -> cleaned (fst (exec tr i k s)) = cleaned s.
Proof.
  induction tr as [|op rest IH]; intros i k s Hw Hc Hfin; cbn [exec] in *; [reflexivity|].
  rewrite Hc in *.
  destruct (existsb (Nat.eqb i) k).
  - destruct op; cbn [cleanup_after_commitb] in Hw; try reflexivity; try discriminate;
      rewrite IH; auto.
  - destruct op; cbn [cleanup_after_commitb] in Hw; try discriminate;
      try (rewrite IH; auto; fail).
    (* Commit performed: the final state is committed *)
    rewrite committed_stays in Hfin by reflexivity. discriminate.
Qed.

Lemma uncommitted_deletes_nothing tr k :
  cleanup_after_commit tr -> committed (fst (run_request tr k)) = false -> cleaned (fst (run_request tr k)) = [].
Proof.
  intros Hw Hc. apply cleanup_after_commitb_spec in Hw.
  unfold run_request in *. rewrite exec_uncommitted_cleaned; auto.
Qed.

(* "a failed request changes no document, auxiliary documents included" *)
Lemma failed_request_deletes_nothing tr k :
  cleanup_after_commit tr -> no_posterr tr -> snd (run_request tr k) = RErr ->
  committed (fst (run_request tr k)) = false /\ cleaned (fst (run_request tr k)) = [].
Proof.
  intros Hw Hn Hr.
  assert (Hc : committed (fst (run_request tr k)) = false).
  { destruct (committed (fst (run_request tr k))) eqn:E; [|reflexivity].
    apply (success_iff_committed tr 0 k sys0 Hn) in E. unfold run_request in Hr. congruence. }
  split; [exact Hc | apply uncommitted_deletes_nothing; assumption].
Qed.

(* a rejected request (no commit operation at all) deletes nothing, whatever fails *)
Lemma rejected_deletes_nothing tr k :
  cleanup_after_commit tr -> commit_index tr = None -> cleaned (fst (run_request tr k)) = [].
Proof.
  intros Hw Hc. apply uncommitted_deletes_nothing; [exact Hw|].
  apply (no_commit_never_success tr 0 k sys0 eq_refl Hc).
Qed.

(* only a clean-up operation that was actually performed deletes: a faulted clean-up deletes nothing, and no
   other class of operation deletes (no hypothesis on the trace) *)
Lemma cleaned_only_performed tr : forall i k s j,
  In j (cleaned (fst (exec tr i k s))) ->
  In j (cleaned s) \/ (i <= j /\ nth_error tr (j - i) = Some Cleanup /\ existsb (Nat.eqb j) k = false).
Proof.
  induction tr as [|op rest IH]; intros i k s j Hj; cbn [exec] in Hj; [left; exact Hj|].
  assert (Hnext : forall s', In j (cleaned (fst (exec rest (S i) k s'))) -> cleaned s' = cleaned s ->
            In j (cleaned s) \/ (i <= j /\ nth_error (op :: rest) (j - i) = Some Cleanup /\ existsb (Nat.eqb j) k = false)).
  { intros s' H E. destruct (IH (S i) k s' j H) as [Hin | (Hle & Hn & Hk)]; [left; rewrite <- E; exact Hin|].
    right. split; [lia|]. split; [|exact Hk]. replace (j - i) with (S (j - S i)) by lia. exact Hn. }
  assert (Hhere : forall s', In j (cleaned (fst (exec rest (S i) k s'))) -> cleaned s' = i :: cleaned s ->
            op = Cleanup -> existsb (Nat.eqb i) k = false ->
            In j (cleaned s) \/ (i <= j /\ nth_error (op :: rest) (j - i) = Some Cleanup /\ existsb (Nat.eqb j) k = false)).
  { intros s' H E Hop Hk. destruct (IH (S i) k s' j H) as [Hin | (Hle & Hn & Hk')].
    - rewrite E in Hin. destruct Hin as [<- | Hin]; [|left; exact Hin].
      right. split; [lia|]. rewrite Nat.sub_diag. cbn. subst op. auto.
    - right. split; [lia|]. split; [|exact Hk']. replace (j - i) with (S (j - S i)) by lia. exact Hn. }
  destruct (committed s); destruct (existsb (Nat.eqb i) k) eqn:Ef; destruct op;
    try (left; exact Hj);
    try (apply (Hnext _ Hj); reflexivity);
    apply (Hhere _ Hj); auto.
Qed.

(* ---------- requests with several commits: every sub-request that does not commit deletes nothing ---------- *)
Definition deletes_nothing_unless_committed (m : sys * result) : Prop := committed (fst m) = false -> cleaned (fst m) = [].

Lemma multi_uncommitted_deletes_nothing cont trs : forall i k dead,
  Forall cleanup_after_commit trs -> Forall deletes_nothing_unless_committed (exec_multi cont trs i k dead).
Proof.
  induction trs as [|tr rest IH]; intros i k dead Hw; cbn [exec_multi]; [constructor|].
  inversion Hw as [|? ? Htr Hrest]; subst.
  destruct dead; (constructor; [|apply IH; auto]).
  - intros _. reflexivity.
  - intros Hc. apply cleanup_after_commitb_spec in Htr. rewrite exec_uncommitted_cleaned; auto.
Qed.

(* why the rule is needed: a clean-up that is not bound to the commit -- run before it, or on the way out of a
   rejected request -- deletes an auxiliary document although the request fails and the primary state is unchanged *)
Lemma cleanup_before_commit_deletes_on_failure :
  exists tr k, commit_index tr = None /\ snd (run_request tr k) = RErr /\
               committed (fst (run_request tr k)) = false /\ aux_deleted (fst (run_request tr k)) = true.
Proof. exists [Aux; Read; Cleanup], []. vm_compute. auto. Qed.
