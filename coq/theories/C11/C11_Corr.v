(* C11 correspondence: every (request kind, faulted operations, fault mode) run by harness/db/verif_c11_test.go,
   with the operation classes observed on the real trace, compared with the model's prediction. *)
From SG Require Export Base.Prelude C11.Atomicity.

(* SLost: the commit is visible but a follow-up that is part of the request's effect is not (stale access) *)
Inductive pstate := SUnchanged | SCommitted | SOther | SLost.

Inductive case :=
(* trace, indexes of the faulted operations ([]: the un-faulted run), CAS-mismatch mode (the caller retries),
   whether the un-faulted request succeeds, the observed result, the observed primary state, and [a]: an auxiliary
   document (out-of-line revision body, attachment) that the stored state BEFORE the request referenced is gone or
   altered afterwards *)
| CFault (tr : list opclass) (k : list nat) (casmode : bool) (expect_success : bool) (r : result) (s : pstate) (a : bool)
(* a request with several commits: cont (bulk: every sub-request runs and reports) or aborting; one trace per
   sub-request; GLOBAL indexes of the faulted operations; the observed results (cont: one per sub-request;
   aborting: the single result of the request), the observed state of every sub-request's keys and, per
   sub-request, whether an auxiliary document its keys referenced is gone *)
| CMulti (cont : bool) (trs : list (list opclass)) (k : list nat) (rs : list result) (ss : list pstate) (aa : list bool).

Definition result_eqb (a b : result) : bool := match a, b with ROk, ROk | RErr, RErr => true | _, _ => false end.
Definition pstate_eqb (a b : pstate) : bool :=
  match a, b with SUnchanged, SUnchanged | SCommitted, SCommitted | SOther, SOther | SLost, SLost => true | _, _ => false end.

(* the two consistent observations: failure with the primary state untouched, success with the effect visible *)
Definition consistent (r : result) (s : pstate) : bool :=
  match r, s with RErr, SUnchanged | ROk, SCommitted => true | _, _ => false end.

Definition is_read_at (tr : list opclass) (f : nat) : bool := match nth_error tr f with Some Read => true | _ => false end.
Definition is_read (tr : list opclass) (k : list nat) : bool := existsb (is_read_at tr) k.
(* the faults that do not hit a read *)
Definition drop_reads (tr : list opclass) (k : list nat) : list nat := filter (fun f => negb (is_read_at tr f)) k.

(* the state the model predicts *)
Definition model_state (m : sys) : pstate :=
  if committed m then (match lost m with [] => SCommitted | _ => SLost end) else SUnchanged.

Definition matches (m : sys * result) (r : result) (s : pstate) (a : bool) : bool :=
  result_eqb r (snd m) && pstate_eqb s (model_state (fst m)) && Bool.eqb a (aux_deleted (fst m)).
(* after a TOLERATED failed read the code may skip the clean-up the read was for (the body of the ancestor to back
   up could not be loaded: it stays where it is); it never deletes more than predicted *)
Definition matches_tol (m : sys * result) (r : result) (s : pstate) (a : bool) : bool :=
  result_eqb r (snd m) && pstate_eqb s (model_state (fst m)) && implb a (aux_deleted (fst m)).

Fixpoint matches_states (out : list (sys * result)) (ss : list pstate) : bool :=
  match out, ss with
  | [], [] => true
  | m :: out', s :: ss' => pstate_eqb s (model_state (fst m)) && matches_states out' ss'
  | _, _ => false
  end.
Fixpoint matches_results (out : list (sys * result)) (rs : list result) : bool :=
  match out, rs with
  | [], [] => true
  | m :: out', r :: rs' => result_eqb r (snd m) && matches_results out' rs'
  | _, _ => false
  end.

Fixpoint matches_aux (tol : bool) (out : list (sys * result)) (aa : list bool) : bool :=
  match out, aa with
  | [], [] => true
  | m :: out', a :: aa' => (if tol then implb a (aux_deleted (fst m)) else Bool.eqb a (aux_deleted (fst m))) && matches_aux tol out' aa'
  | _, _ => false
  end.

Definition multi_matches (tol : bool) (cont : bool) (trs : list (list opclass)) (k : list nat) (rs : list result) (ss : list pstate) (aa : list bool) : bool :=
  let out := run_multi cont trs k in
  matches_states out ss && matches_aux tol out aa &&
  (if cont then matches_results out rs
   else match rs with [r] => result_eqb r (overall out) | _ => false end).

(* the hypothesis of the clean-up theorems, tested on every observed trace: no clean-up before the commit *)
Definition wf_trace (tr : list opclass) : bool := cleanup_after_commitb tr.

Definition check (c : case) : bool :=
  match c with
  | CFault tr k casmode expect r s a =>
      wf_trace tr &&
      (if negb expect then result_eqb r RErr && consistent r s && negb a   (* rejected: nothing changes, nothing is deleted *)
       else if casmode then consistent r s && (result_ok r || negb a)   (* a CAS mismatch may be retried *)
       else
        (* a failed read is either fatal or tolerated (the code then continues as if the read had found nothing
           that matters): the observation must be what the model predicts for one of the two *)
        matches (run_request tr k) r s a || (is_read tr k && matches_tol (run_request tr (drop_reads tr k)) r s a))
  | CMulti cont trs k rs ss aa =>
      let tr := concat trs in
      forallb wf_trace trs &&
      (multi_matches false cont trs k rs ss aa || (is_read tr k && multi_matches true cont trs (drop_reads tr k) rs ss aa))
  end.

Definition mismatches (cs : list case) : list N := failing check cs.
