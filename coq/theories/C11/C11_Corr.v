(* C11 correspondence: every (request kind, faulted operation, fault mode) run by harness/db/verif_c11_test.go,
   with the operation classes observed on the real trace, compared with the model's prediction. *)
From SG Require Export Base.Prelude C11.Atomicity.

Inductive pstate := SUnchanged | SCommitted | SOther.

(* trace, index of the faulted operation, CAS-mismatch mode (the caller retries), whether the un-faulted
   request succeeds, the observed result, the observed primary state *)
Inductive case := CFault (tr : list opclass) (k : list nat) (casmode : bool) (expect_success : bool) (r : result) (s : pstate).

Definition result_eqb (a b : result) : bool := match a, b with ROk, ROk | RErr, RErr => true | _, _ => false end.

(* the two consistent observations: failure with the primary state untouched, success with the effect visible *)
Definition consistent (r : result) (s : pstate) : bool :=
  match r, s with RErr, SUnchanged | ROk, SCommitted => true | _, _ => false end.

Definition is_read (tr : list opclass) (k : list nat) : bool :=
  existsb (fun f => match nth_error tr f with Some Read => true | _ => false end) k.

Definition state_matches (committed_in_model : bool) (s : pstate) : bool :=
  match committed_in_model, s with true, SCommitted | false, SUnchanged => true | _, _ => false end.

Definition check (c : case) : bool :=
  match c with
  | CFault tr k casmode expect r s =>
      if negb expect then result_eqb r RErr && consistent r s
      else if casmode || is_read tr k then consistent r s   (* a CAS mismatch may be retried; a failed read may be tolerated *)
      else let m := run_request tr k in
           result_eqb r (snd m) && state_matches (committed (fst m)) s
  end.

Definition mismatches (cs : list case) : list N := failing check cs.
