(* C11 correspondence: every (request kind, faulted operations, fault mode) run by harness/db/verif_c11_test.go,
   with the operation classes observed on the real trace, compared with the model's prediction. *)
From SG Require Export Base.Prelude C11.Atomicity.

(* SLost: the commit is visible but a follow-up that is part of the request's effect is not (stale access) *)
Inductive pstate := SUnchanged | SCommitted | SOther | SLost.

Inductive case :=
(* trace, indexes of the faulted operations, CAS-mismatch mode (the caller retries), whether the un-faulted
   request succeeds, the observed result, the observed primary state *)
| CFault (tr : list opclass) (k : list nat) (casmode : bool) (expect_success : bool) (r : result) (s : pstate)
(* a request with several commits: cont (bulk: every sub-request runs and reports) or aborting; one trace per
   sub-request; GLOBAL indexes of the faulted operations; the observed results (cont: one per sub-request;
   aborting: the single result of the request) and the observed state of every sub-request's keys *)
| CMulti (cont : bool) (trs : list (list opclass)) (k : list nat) (rs : list result) (ss : list pstate).

Definition result_eqb (a b : result) : bool := match a, b with ROk, ROk | RErr, RErr => true | _, _ => false end.
Definition pstate_eqb (a b : pstate) : bool :=
  match a, b with SUnchanged, SUnchanged | SCommitted, SCommitted | SOther, SOther | SLost, SLost => true | _, _ => false end.

(* the two consistent observations: failure with the primary state untouched, success with the effect visible *)
Definition consistent (r : result) (s : pstate) : bool :=
  match r, s with RErr, SUnchanged | ROk, SCommitted => true | _, _ => false end.

Definition is_read_at (tr : list opclass) (f : nat) : bool := match nth_error tr f with Some Read => true | _ => false end.
Definition is_read (tr : list opclass) (k : list nat) : bool := existsb (is_read_at tr) k.
(* the faults that do not hit a read *)
Definition drop_reads (tr : list opclass) (k : list nat) : list nat := filter (fun f => negb (is_read_at tr f)) k.

(* the state the model predicts *)
Definition model_state (m : sys) : pstate :=
  if committed m then (match lost m with [] => SCommitted | _ => SLost end) else SUnchanged.

Definition matches (m : sys * result) (r : result) (s : pstate) : bool :=
  result_eqb r (snd m) && pstate_eqb s (model_state (fst m)).

Fixpoint matches_states (out : list (sys * result)) (ss : list pstate) : bool :=
  match out, ss with
  | [], [] => true
  | m :: out', s :: ss' => pstate_eqb s (model_state (fst m)) && matches_states out' ss'
  | _, _ => false
  end.
Fixpoint matches_results (out : list (sys * result)) (rs : list result) : bool :=
  match out, rs with
  | [], [] => true
  | m :: out', r :: rs' => result_eqb r (snd m) && matches_results out' rs'
  | _, _ => false
  end.

Definition multi_matches (cont : bool) (trs : list (list opclass)) (k : list nat) (rs : list result) (ss : list pstate) : bool :=
  let out := run_multi cont trs k in
  matches_states out ss &&
  (if cont then matches_results out rs
   else match rs with [r] => result_eqb r (overall out) | _ => false end).

Definition check (c : case) : bool :=
  match c with
  | CFault tr k casmode expect r s =>
      if negb expect then result_eqb r RErr && consistent r s
      else if casmode then consistent r s   (* a CAS mismatch may be retried *)
      else
        (* a failed read is either fatal or tolerated (the code then continues as if the read had found nothing
           that matters): the observation must be what the model predicts for one of the two *)
        matches (run_request tr k) r s || (is_read tr k && matches (run_request tr (drop_reads tr k)) r s)
  | CMulti cont trs k rs ss =>
      let tr := concat trs in
      multi_matches cont trs k rs ss || (is_read tr k && multi_matches cont trs (drop_reads tr k) rs ss)
  end.

Definition mismatches (cs : list case) : list N := failing check cs.
