From SG Require Import Base.Prelude C11.Atomicity.

(* traces in which no follow-up failure is reported as a request failure *)
Definition no_posterr (tr : list opclass) : Prop := Forall (fun o => o <> PostErr) tr.

Lemma exec_committed_ok tr i k s : no_posterr tr -> committed s = true ->
  snd (exec tr i k s) = ROk /\ committed (fst (exec tr i k s)) = true.
Proof.
  revert i s; induction tr as [|op rest IH]; intros i s Hn Hc; cbn [exec]; rewrite ?Hc.
  - cbn. rewrite Hc. auto.
  - inversion Hn as [|? ? Hop Hrest]; subst.
    destruct (match k with Some n => Nat.eqb n i | None => false end).
    + destruct op; try congruence; apply IH; auto.
    + destruct op; apply IH; auto.
Qed.

(* success is reported exactly when the commit operation was performed *)
Lemma success_iff_committed tr i k s : no_posterr tr ->
  snd (exec tr i k s) = ROk <-> committed (fst (exec tr i k s)) = true.
Proof.
  revert i s; induction tr as [|op rest IH]; intros i s Hn; cbn [exec].
  - cbn. destruct (committed s); split; congruence.
  - inversion Hn as [|? ? Hop Hrest]; subst. destruct (committed s) eqn:Hc.
    + destruct (match k with Some n => Nat.eqb n i | None => false end);
        destruct op; try congruence;
        match goal with |- snd (exec ?t ?j ?kk ?ss) = _ <-> _ =>
          destruct (exec_committed_ok t j kk ss Hrest) as (A & B); [try reflexivity; assumption|]; rewrite A, B; tauto end.
    + destruct (match k with Some n => Nat.eqb n i | None => false end).
      * destruct op; try (cbn; rewrite Hc; split; congruence). apply IH, Hrest.
      * destruct op; apply IH, Hrest.
Qed.

Lemma commit_index_from_ge t j m : commit_index_from t j = Some m -> j <= m.
Proof.
  revert j; induction t as [|o r IH]; cbn; intros j Hm; [discriminate|].
  destruct o; try (apply IH in Hm; lia). inv Hm. lia.
Qed.

(* a fault strictly before, or at, the commit operation -- on an operation that is not best-effort -- leaves
   the primary state as it was and reports an error *)
Lemma fault_upto_commit_unchanged tr i k s n :
  committed s = false -> commit_index_from tr i = Some n -> i <= k -> k <= n ->
  nth_error tr (k - i) <> Some Opt ->
  snd (exec tr i (Some k) s) = RErr /\ committed (fst (exec tr i (Some k) s)) = false.
Proof.
  revert i s; induction tr as [|op rest IH]; intros i s Hc Hci Hik Hkn Hopt; cbn [commit_index_from] in Hci; [discriminate|].
  cbn [exec]. rewrite Hc. destruct (Nat.eqb_spec k i) as [->|Hne].
  - rewrite Nat.sub_diag in Hopt. cbn in Hopt. destruct op; try (cbn; auto; fail). congruence.
  - assert (Hs : S i <= k) by lia.
    assert (Hn' : nth_error rest (k - S i) <> Some Opt).
    { replace (k - i) with (S (k - S i)) in Hopt by lia. exact Hopt. }
    destruct op; try (apply IH; auto; fail). inv Hci. lia.
Qed.

(* a fault after the commit does not undo it and the request still reports success *)
Lemma fault_after_commit_success tr i k s n : no_posterr tr ->
  committed s = false -> commit_index_from tr i = Some n -> n < k ->
  snd (exec tr i (Some k) s) = ROk /\ committed (fst (exec tr i (Some k) s)) = true.
Proof.
  revert i s; induction tr as [|op rest IH]; intros i s Hn Hc Hci Hnk; cbn [commit_index_from] in Hci; [discriminate|].
  inversion Hn as [|? ? Hop Hrest]; subst.
  cbn [exec]. rewrite Hc.
  destruct op; try (pose proof (commit_index_from_ge _ _ _ Hci); destruct (Nat.eqb_spec k i); [lia|]; apply IH; auto; fail).
  inv Hci. destruct (Nat.eqb_spec k n); [lia|]. apply exec_committed_ok; auto.
Qed.

(* the commit is never undone: whatever fails afterwards (even when an error is returned), the primary state is
   the new one *)
Lemma committed_stays tr i k s : committed s = true -> committed (fst (exec tr i k s)) = true.
Proof.
  revert i s; induction tr as [|op rest IH]; intros i s Hc; cbn [exec]; rewrite ?Hc; [cbn; auto|].
  destruct (match k with Some n => Nat.eqb n i | None => false end); destruct op; try (apply IH; auto); cbn; auto.
Qed.

(* without a commit operation (a request rejected by validation / sync function / conflict rules) nothing is
   ever committed, whatever fails *)
Lemma no_commit_never_success tr i k s :
  committed s = false -> commit_index_from tr i = None ->
  snd (exec tr i k s) = RErr /\ committed (fst (exec tr i k s)) = false.
Proof.
  revert i s; induction tr as [|op rest IH]; intros i s Hc Hci; cbn [exec]; rewrite Hc.
  - cbn. rewrite Hc. auto.
  - cbn [commit_index_from] in Hci.
    destruct (match k with Some n => Nat.eqb n i | None => false end);
      destruct op; try discriminate; try (cbn; auto; fail); apply IH; auto.
Qed.

(* the defect: with a PostErr follow-up the request can fail although its commit is durable *)
Lemma posterr_reports_failure_after_commit :
  exists tr k, snd (run_request tr (Some k)) = RErr /\ committed (fst (run_request tr (Some k))) = true.
Proof. exists [Read; Commit; PostErr], 2. vm_compute. auto. Qed.
