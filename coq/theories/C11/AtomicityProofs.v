From SG Require Import Base.Prelude C11.Atomicity.

(* traces in which no follow-up failure is reported as a request failure *)
Definition no_posterr (tr : list opclass) : Prop := Forall (fun o => o <> PostErr) tr.

Lemma exec_committed_ok tr i k s : no_posterr tr -> committed s = true ->
  snd (exec tr i k s) = ROk /\ committed (fst (exec tr i k s)) = true.
Proof.
  revert i s; induction tr as [|op rest IH]; intros i s Hn Hc; cbn [exec]; rewrite ?Hc.
  - cbn. rewrite Hc. auto.
  - inversion Hn as [|? ? Hop Hrest]; subst.
    destruct (existsb (Nat.eqb i) k).
    + destruct op; try congruence; apply IH; auto.
    + destruct op; apply IH; auto.
Qed.

(* success is reported exactly when the commit operation was performed, whatever set of operations fails *)
Lemma success_iff_committed tr i k s : no_posterr tr ->
  snd (exec tr i k s) = ROk <-> committed (fst (exec tr i k s)) = true.
Proof.
  revert i s; induction tr as [|op rest IH]; intros i s Hn; cbn [exec].
  - cbn. destruct (committed s); split; congruence.
  - inversion Hn as [|? ? Hop Hrest]; subst. destruct (committed s) eqn:Hc.
    + destruct (existsb (Nat.eqb i) k);
        destruct op; try congruence;
        match goal with |- snd (exec ?t ?j ?kk ?ss) = _ <-> _ =>
          destruct (exec_committed_ok t j kk ss Hrest) as (A & B); [try reflexivity; assumption|]; rewrite A, B; tauto end.
    + destruct (existsb (Nat.eqb i) k).
      * destruct op; try (cbn; rewrite Hc; split; congruence); apply IH, Hrest.
      * destruct op; apply IH, Hrest.
Qed.

Lemma commit_index_from_ge t j m : commit_index_from t j = Some m -> j <= m.
Proof.
  revert j; induction t as [|o r IH]; cbn; intros j Hm; [discriminate|].
  destruct o; try (apply IH in Hm; lia). inv Hm. lia.
Qed.

(* some faulted position at or before the commit is on an operation that is not best-effort (a best-effort write,
   a clean-up, the read of a body to promote: their failure is swallowed) *)
Definition best_effort (o : option opclass) : Prop := o = Some Opt \/ o = Some Cleanup \/ o = Some ReadBody.
Definition hard_fault_upto (tr : list opclass) (i : nat) (k : list nat) (n : nat) : Prop :=
  exists f, In f k /\ i <= f /\ f <= n /\ ~ best_effort (nth_error tr (f - i)).

(* a fault (one of possibly several) at or before the commit operation, on an operation that is not best-effort,
   leaves the primary state as it was and reports an error *)
Lemma fault_upto_commit_unchanged tr i k s n :
  committed s = false -> commit_index_from tr i = Some n -> hard_fault_upto tr i k n ->
  snd (exec tr i k s) = RErr /\ committed (fst (exec tr i k s)) = false.
Proof.
  revert i s; induction tr as [|op rest IH]; intros i s Hc Hci Hf; cbn [commit_index_from] in Hci; [discriminate|].
  cbn [exec]. rewrite Hc. destruct Hf as (f & Hin & Hif & Hfn & Hopt).
  assert (Hrest : i < f -> hard_fault_upto rest (S i) k n).
  { intros Hlt. exists f. split; [exact Hin|]. split; [lia|]. split; [exact Hfn|].
    replace (f - i) with (S (f - S i)) in Hopt by lia. exact Hopt. }
  destruct (existsb (Nat.eqb i) k) eqn:Ef.
  - destruct op; try (cbn; auto; fail).
    (* this position is best-effort: the hard fault is later *)
    all: destruct (Nat.eq_dec f i) as [->|Hne];
      [rewrite Nat.sub_diag in Hopt; cbn in Hopt; exfalso; apply Hopt; unfold best_effort; auto|];
      apply IH; auto; apply Hrest; lia.
  - assert (Hne : f <> i).
    { intros ->. assert (existsb (Nat.eqb i) k = true) by (apply existsb_exists; exists i; split; [exact Hin | apply Nat.eqb_refl]). congruence. }
    destruct op; try (apply IH; auto; apply Hrest; lia). inv Hci. lia.
Qed.

(* if every fault lies after the commit, the commit is performed and the request still reports success *)
Lemma fault_after_commit_success tr i k s n : no_posterr tr ->
  committed s = false -> commit_index_from tr i = Some n -> (forall f, In f k -> n < f) ->
  snd (exec tr i k s) = ROk /\ committed (fst (exec tr i k s)) = true.
Proof.
  revert i s; induction tr as [|op rest IH]; intros i s Hn Hc Hci Hk; cbn [commit_index_from] in Hci; [discriminate|].
  inversion Hn as [|? ? Hop Hrest]; subst.
  cbn [exec]. rewrite Hc.
  assert (Hnf : forall m, commit_index_from (op :: rest) i = Some m -> i <= m) by (intros m; apply commit_index_from_ge).
  assert (Ef : i <= n -> existsb (Nat.eqb i) k = false).
  { intros Hle. destruct (existsb (Nat.eqb i) k) eqn:E; [|reflexivity]. apply existsb_exists in E as (x & Hx & Hxe).
    apply Nat.eqb_eq in Hxe; subst x. apply Hk in Hx. lia. }
  destruct op; try (pose proof (commit_index_from_ge _ _ _ Hci); rewrite Ef by lia; apply IH; auto; fail).
  inv Hci. rewrite Ef by lia. apply exec_committed_ok; auto.
Qed.

(* the commit is never undone: whatever fails afterwards (even when an error is returned), the primary state is
   the new one *)
Lemma committed_stays tr i k s : committed s = true -> committed (fst (exec tr i k s)) = true.
Proof.
  revert i s; induction tr as [|op rest IH]; intros i s Hc; cbn [exec]; rewrite ?Hc; [cbn; auto|].
  destruct (existsb (Nat.eqb i) k); destruct op; try (apply IH; auto); cbn; auto.
Qed.

(* without a commit operation (a request rejected by validation / sync function / conflict rules) nothing is
   ever committed, whatever fails *)
Lemma no_commit_never_success tr i k s :
  committed s = false -> commit_index_from tr i = None ->
  snd (exec tr i k s) = RErr /\ committed (fst (exec tr i k s)) = false.
Proof.
  revert i s; induction tr as [|op rest IH]; intros i s Hc Hci; cbn [exec]; rewrite Hc.
  - cbn. rewrite Hc. auto.
  - cbn [commit_index_from] in Hci.
    destruct (existsb (Nat.eqb i) k);
      destruct op; try discriminate; try (cbn; auto; fail); apply IH; auto.
Qed.

(* the defect: with a PostErr follow-up the request can fail although its commit is durable *)
Lemma posterr_reports_failure_after_commit :
  exists tr k, snd (run_request tr [k]) = RErr /\ committed (fst (run_request tr [k])) = true.
Proof. exists [Read; Commit; PostErr], 2. vm_compute. auto. Qed.
