(* C11, not a property obligation: the known finding recorded in known_findings.json
   (signature partial-effect:user_create_with_email:Set:useremail).  auth.Authenticator.Save writes the
   principal document and THEN the e-mail index document; if the second write fails the caller gets an error
   although the principal is stored (and carries the sequence allocated for it).  In the model this is a
   [PostErr] operation; with one in the trace "error => primary state unchanged" is false. *)
From SG Require Import Base.Prelude C11.Atomicity C11.AtomicityProofs.

Lemma C11_error_implies_unchanged_refuted :
  exists tr k, snd (run_request tr [k]) = RErr /\ committed (fst (run_request tr [k])) = true.
Proof. exact posterr_reports_failure_after_commit. Qed.
