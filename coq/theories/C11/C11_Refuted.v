(* C11, not property obligations: the findings about the unchanged code, modelled faithfully.

   (1) known finding recorded in known_findings.json (signature
   partial-effect:user_create_with_email:Set:useremail).  auth.Authenticator.Save writes the principal document
   and THEN the e-mail index document; if the second write fails the caller gets an error although the principal
   is stored (and carries the sequence allocated for it).  In the model this is a [PostErr] operation; with one
   in the trace "error => primary state unchanged" is false.

   (2) finding of the deepening round (signature swallowed-failure:principal-invalidation-after-commit).
   db/crud.go updateAndReturnDoc calls MarkPrincipalsChanged after the document commit; the invalidation of each
   principal whose access the new revision changed (invalUserChannels / invalRoleChannels / invalUserRoles in
   db/database.go) only LOGS a storage error.  The write is acknowledged, the document is stored, but the
   principal keeps its cached channel / role set: a revocation (or grant) made by the acknowledged write is not
   visible to subsequent reads of the principal until an unrelated invalidation.  In the model this is an
   [Inval] operation; with a fault on it "success => the whole effect is visible" is false.

   (3) finding of the round that brought the auxiliary documents in (signature
   swallowed-failure:promoted-revision-body-unreadable).  db/crud.go storeOldBodyInRevTreeAndUpdateCurrent ->
   db/document.go promoteNonWinningRevisionBody: when an update makes a non-winning revision the current one (the
   winner is tombstoned) and that revision's body is stored out of line (_sync:rb:<digest>), the body is loaded with
   getNonWinningRevisionBody, which turns a storage error of the load into "no body".  The write goes on, commits the
   promoted revision without its body (the bucket document keeps the bytes of the tombstoned winner), reports
   success, and deleteRemovedRevisionBodies then deletes the body document: the body of the promoted revision is
   lost for good.  In the model this is a [ReadBody] operation; with a fault on it "success => the whole effect is
   visible" is false. *)
From SG Require Import Base.Prelude C11.Atomicity C11.AtomicityProofs C11.MultiProofs.

Lemma C11_error_implies_unchanged_refuted :
  exists tr k, snd (run_request tr [k]) = RErr /\ committed (fst (run_request tr [k])) = true.
Proof. exact posterr_reports_failure_after_commit. Qed.

Lemma C11_success_implies_whole_effect_visible_refuted :
  exists tr k, no_posterr tr /\ snd (run_request tr [k]) = ROk /\ committed (fst (run_request tr [k])) = true /\
               effect_visible (fst (run_request tr [k])) = false.
Proof. exact inval_failure_swallowed. Qed.

Lemma C11_success_implies_whole_effect_visible_refuted_by_body_read :
  exists tr k, no_posterr tr /\ nth_error tr k = Some ReadBody /\
               snd (run_request tr [k]) = ROk /\ committed (fst (run_request tr [k])) = true /\
               effect_visible (fst (run_request tr [k])) = false /\ aux_deleted (fst (run_request tr [k])) = true.
Proof. exact body_read_failure_swallowed. Qed.
