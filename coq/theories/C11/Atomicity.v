(* C11 model: a request is a trace of storage operations.  [Read] operations do not modify anything; [Aux]
   operations write auxiliary documents (attachment data, out-of-line revision bodies, published unused
   sequences, the sequence counter, e-mail index documents: content-addressed or write-once, never read as
   primary state); the first [Commit] operation is the single write that makes the request's effect visible
   (the document mutate-in, the principal CAS write, the session set/delete); everything after it is
   best-effort clean-up or follow-up ([Post] position).  A fault makes one operation return an error without
   being performed. *)
From SG Require Import Base.Prelude.

(* Opt: a best-effort auxiliary write whose failure is ignored.
   PostErr: a follow-up write whose failure IS returned to the caller although the commit already happened
   (auth.Save writes the e-mail index document after the principal: known finding, see C11_Refuted.v) *)
Inductive opclass := Read | Aux | Opt | Commit | PostErr.
Inductive result := ROk | RErr.

Record sys := { committed : bool;        (* the primary state is the request's new state *)
                aux : list nat;           (* indexes of auxiliary operations performed *)
                follow_ups_failed : nat }.

Definition sys0 : sys := {| committed := false; aux := []; follow_ups_failed := 0 |}.

(* executing the trace from position i with the faults at the positions in k ([]: no fault).
   Before the commit an error aborts the request; after it errors are logged and the request still
   reports success. *)
(* [k]: the positions whose operation fails (a single fault, a pair, any set) *)
Fixpoint exec (tr : list opclass) (i : nat) (k : list nat) (s : sys) : sys * result :=
  match tr with
  | [] => (s, if committed s then ROk else RErr)
  | op :: rest =>
      let faulty := existsb (Nat.eqb i) k in
      if committed s then
        (* post-commit position *)
        if faulty then
          match op with
          | PostErr => (s, RErr)
          | _ => exec rest (S i) k {| committed := true; aux := aux s; follow_ups_failed := S (follow_ups_failed s) |}
          end
        else exec rest (S i) k match op with
                               | Aux | PostErr => {| committed := true; aux := i :: aux s; follow_ups_failed := follow_ups_failed s |}
                               | _ => s
                               end
      else if faulty then match op with Opt => exec rest (S i) k s | _ => (s, RErr) end
      else match op with
           | Read | Opt => exec rest (S i) k s
           | Aux | PostErr => exec rest (S i) k {| committed := false; aux := i :: aux s; follow_ups_failed := follow_ups_failed s |}
           | Commit => exec rest (S i) k {| committed := true; aux := aux s; follow_ups_failed := follow_ups_failed s |}
           end
  end.

Definition run_request (tr : list opclass) (k : list nat) : sys * result := exec tr 0 k sys0.

Fixpoint commit_index_from (tr : list opclass) (i : nat) : option nat :=
  match tr with
  | [] => None
  | Commit :: _ => Some i
  | _ :: rest => commit_index_from rest (S i)
  end.
Definition commit_index (tr : list opclass) : option nat := commit_index_from tr 0.

(* what the model predicts for a fault at operation k of the trace *)
Definition predicted (tr : list opclass) (k : nat) : result := snd (run_request tr [k]).
