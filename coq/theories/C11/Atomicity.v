(* C11 model: a request is a trace of storage operations.  [Read] operations do not modify anything; [Aux]
   operations write auxiliary documents (attachment data, out-of-line revision bodies, published unused
   sequences, the sequence counter, e-mail index documents: content-addressed or write-once, never read as
   primary state; also: entering a document write, and a compare-and-swap write that loses its race and is
   retried); the first [Commit] operation is the single write that makes the request's effect visible
   (the document mutate-in, the principal CAS write, the session set/delete); everything after it is
   best-effort clean-up or follow-up ([Post] position).  A fault makes one operation return an error without
   being performed.

   A request with SEVERAL commits (a bulk write: one commit per document; a write to a document that must be
   imported first: the import's commit, then the write's) is a sequence of sub-requests, each a trace of its
   own with one commit: [exec_multi] below. *)
From SG Require Import Base.Prelude.

(* Opt: a best-effort auxiliary write whose failure is ignored.
   PostErr: a follow-up write whose failure IS returned to the caller although the commit already happened
   (auth.Save writes the e-mail index document after the principal: known finding, see C11_Refuted.v).
   Inval: a follow-up write that is part of the request's visible effect (MarkPrincipalsChanged: invalidation of
   the principals whose access the committed revision changed) and whose failure is logged and swallowed
   (finding of the deepening round, see C11_Refuted.v).
   Cleanup: the DELETE of an auxiliary document that the stored primary state references until the commit
   replaces it (deleteRemovedRevisionBodies: the out-of-line body document _sync:rb:<digest> of a non-winning
   revision that the commit promoted, backed up or pruned; the obsolete-attachment sweep).  Best effort: its own
   failure is logged and swallowed.  It may only run AFTER the commit ([cleanup_after_commit], checked on every
   observed trace); the model executes it wherever the trace has it, so that a trace violating that rule really
   loses the auxiliary document ([cleaned]) although the request fails.
   ReadBody: the read of an out-of-line revision body (_sync:rb:<digest>) whose content the commit copies into the
   document (a non-winning revision is PROMOTED to current revision), in the attempt that commits.  Its failure is
   SWALLOWED: the write goes on, commits the promoted revision WITHOUT its body and then deletes the body document
   (finding of the round that brought the auxiliary documents in, see C11_Refuted.v). *)
Inductive opclass := Read | Aux | Opt | Commit | PostErr | Inval | Cleanup | ReadBody.
Inductive result := ROk | RErr.

Record sys := { committed : bool;        (* the primary state is the request's new state *)
                aux : list nat;           (* indexes of auxiliary operations performed *)
                follow_ups_failed : nat;
                lost : list nat;          (* indexes of required follow-ups (Inval) and required reads (ReadBody) whose failure was swallowed *)
                cleaned : list nat }.     (* indexes of the Cleanup operations performed: auxiliary documents, referenced
                                             by the state before the request, that no longer exist *)

Definition sys0 : sys := {| committed := false; aux := []; follow_ups_failed := 0; lost := []; cleaned := [] |}.

Definition set_committed (s : sys) : sys :=
  {| committed := true; aux := aux s; follow_ups_failed := follow_ups_failed s; lost := lost s; cleaned := cleaned s |}.
Definition add_aux (i : nat) (s : sys) : sys :=
  {| committed := committed s; aux := i :: aux s; follow_ups_failed := follow_ups_failed s; lost := lost s; cleaned := cleaned s |}.
Definition follow_up_failed (s : sys) : sys :=
  {| committed := committed s; aux := aux s; follow_ups_failed := S (follow_ups_failed s); lost := lost s; cleaned := cleaned s |}.
Definition add_lost (i : nat) (s : sys) : sys :=
  {| committed := committed s; aux := aux s; follow_ups_failed := S (follow_ups_failed s); lost := i :: lost s; cleaned := cleaned s |}.
Definition add_cleaned (i : nat) (s : sys) : sys :=
  {| committed := committed s; aux := aux s; follow_ups_failed := follow_ups_failed s; lost := lost s; cleaned := i :: cleaned s |}.

(* executing the trace from position i with the faults at the positions in k ([]: no fault).
   Before the commit an error aborts the request; after it errors are logged and the request still
   reports success. *)
(* [k]: the positions whose operation fails (a single fault, a pair, any set) *)
Fixpoint exec (tr : list opclass) (i : nat) (k : list nat) (s : sys) : sys * result :=
  match tr with
  | [] => (s, if committed s then ROk else RErr)
  | op :: rest =>
      let faulty := existsb (Nat.eqb i) k in
      if committed s then
        (* post-commit position *)
        if faulty then
          match op with
          | PostErr => (s, RErr)
          | Inval => exec rest (S i) k (add_lost i s)
          | _ => exec rest (S i) k (follow_up_failed s)
          end
        else exec rest (S i) k match op with
                               | Aux | PostErr => add_aux i s
                               | Cleanup => add_cleaned i s
                               | _ => s
                               end
      else if faulty then match op with
                          | Opt | Cleanup => exec rest (S i) k s
                          | ReadBody => exec rest (S i) k (add_lost i s)
                          | _ => (s, RErr)
                          end
      else match op with
           | Read | Opt | Inval | ReadBody => exec rest (S i) k s
           | Aux | PostErr => exec rest (S i) k (add_aux i s)
           | Cleanup => exec rest (S i) k (add_cleaned i s)
           | Commit => exec rest (S i) k (set_committed s)
           end
  end.

Definition run_request (tr : list opclass) (k : list nat) : sys * result := exec tr 0 k sys0.

Fixpoint commit_index_from (tr : list opclass) (i : nat) : option nat :=
  match tr with
  | [] => None
  | Commit :: _ => Some i
  | _ :: rest => commit_index_from rest (S i)
  end.
Definition commit_index (tr : list opclass) : option nat := commit_index_from tr 0.

(* what the model predicts for a fault at operation k of the trace *)
Definition predicted (tr : list opclass) (k : nat) : result := snd (run_request tr [k]).

(* the rule for clean-up operations: none before the commit (a request without commit has none at all) *)
Fixpoint cleanup_after_commitb (tr : list opclass) : bool :=
  match tr with
  | [] => true
  | Commit :: _ => true
  | Cleanup :: _ => false
  | _ :: rest => cleanup_after_commitb rest
  end.

(* an auxiliary document that the state before the request references has been deleted *)
Definition aux_deleted (s : sys) : bool := match cleaned s with [] => false | _ => true end.

(* the whole effect of the request is visible: committed, and no required follow-up was lost *)
Definition effect_visible (s : sys) : bool := committed s && match lost s with [] => true | _ => false end.

(* ---- requests with several commits ---- *)
Definition result_ok (r : result) : bool := match r with ROk => true | RErr => false end.

(* The sub-requests [trs] are executed one after the other; fault positions are global (positions in the
   concatenated trace, the first sub-request starting at [i]).  [cont = true]: every sub-request is executed and
   reports its own result (bulk write).  [cont = false]: a failed sub-request aborts the following ones, which
   then report the failure without having done anything ([dead]). *)
Fixpoint exec_multi (cont : bool) (trs : list (list opclass)) (i : nat) (k : list nat) (dead : bool) : list (sys * result) :=
  match trs with
  | [] => []
  | tr :: rest =>
      if dead then (sys0, RErr) :: exec_multi cont rest (i + length tr) k true
      else let m := exec tr i k sys0 in
           m :: exec_multi cont rest (i + length tr) k (negb cont && negb (result_ok (snd m)))
  end.

Definition run_multi (cont : bool) (trs : list (list opclass)) (k : list nat) : list (sys * result) :=
  exec_multi cont trs 0 k false.

(* the single result of a request whose sub-requests abort each other: success iff every sub-request succeeded *)
Definition overall (out : list (sys * result)) : result :=
  if forallb (fun m => result_ok (snd m)) out then ROk else RErr.
