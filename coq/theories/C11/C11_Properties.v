(* C11 -- Writes are all-or-nothing, and success is only reported when durable.
   Two layers: (1) the generic storage-trace model (C11/Atomicity.v), whose classification hypotheses are
   checked on the real traces by the fault-enumeration harness; (2) for document writes, the write-loop model
   of C05 (all interleavings, CAS retries, reserved sequences). *)
From Coq Require Import Permutation.
From SG Require Import Base.Prelude C11.Atomicity C11.AtomicityProofs.
From SG Require Import C05.WriteLoop C05.WriteLoopProofs C05.WriteLoopTheorems.
Open Scope N_scope.

(* success is reported exactly when the commit operation was performed *)
Theorem C11_success_iff_committed : forall tr k, no_posterr tr ->
  (snd (run_request tr k) = ROk <-> committed (fst (run_request tr k)) = true).
Proof. intros tr k H. exact (success_iff_committed tr 0 k sys0 H). Qed.
Print Assumptions C11_success_iff_committed.

(* failure of any storage operation -- a single one, a pair, any set -- of which at least one lies at or before
   the commit on an operation that is not best-effort: error reported, primary state unchanged *)
Theorem C11_fault_upto_commit_unchanged : forall tr k n,
  commit_index tr = Some n ->
  (exists f, In f k /\ (f <= n)%nat /\ nth_error tr f <> Some Opt) ->
  snd (run_request tr k) = RErr /\ committed (fst (run_request tr k)) = false.
Proof.
  intros tr k n Hc (f & Hin & Hle & Ho). apply (fault_upto_commit_unchanged tr 0 k sys0 n eq_refl Hc).
  exists f. repeat split; auto; try lia. rewrite Nat.sub_0_r. exact Ho.
Qed.
Print Assumptions C11_fault_upto_commit_unchanged.

(* failures of follow-up operations only (any number) do not turn a durable write into a failure or undo it *)
Theorem C11_fault_after_commit_success : forall tr k n, no_posterr tr ->
  commit_index tr = Some n -> (forall f, In f k -> (n < f)%nat) ->
  snd (run_request tr k) = ROk /\ committed (fst (run_request tr k)) = true.
Proof. intros tr k n H Hc Hk. exact (fault_after_commit_success tr 0 k sys0 n H eq_refl Hc Hk). Qed.
Print Assumptions C11_fault_after_commit_success.

(* a request without a commit operation (rejected by validation, the sync function, conflict rules or
   authorisation) never changes the primary state and never reports success *)
Theorem C11_rejected_never_commits : forall tr k,
  commit_index tr = None ->
  snd (run_request tr k) = RErr /\ committed (fst (run_request tr k)) = false.
Proof. intros tr k Hc. exact (no_commit_never_success tr 0 k sys0 eq_refl Hc). Qed.
Print Assumptions C11_rejected_never_commits.

(* document writes, every interleaving: the stored document changes only at an acknowledged write, so a write
   that is rejected, loses, or hits a storage error leaves the document (hence its channels, the access it
   grants and its attachment metadata, which all live in it) exactly as it was *)
Theorem C11_document_changes_only_by_ack : forall fixed ac tab s e,
  st (step fixed false ac tab s e) <> st s ->
  exists i w p, e = Write i /\ nth_error (ws s) i = Some w /\ w_prep w = Some p /\ w_out w = None /\
    st (step fixed false ac tab s e) = p_doc p /\ p_cas p = d_cas (st s) /\
    nth_error (ws (step fixed false ac tab s e)) i =
      Some {| w_op := w_op w; w_attempt := w_attempt w; w_matchrev := w_matchrev w; w_docseq := 0; w_unusedseqs := []; w_prep := None;
              w_out := Some (OAck (p_rev p) (d_seq (p_doc p))) |}.
Proof. exact store_changes_only_by_ack. Qed.
Print Assumptions C11_document_changes_only_by_ack.

(* ... and gives back every sequence it had reserved: once all writers have finished, each reserved number is
   on a committed revision or published as unused, exactly once *)
Theorem C11_failed_writes_return_sequences : forall ac tab ops sched,
  all_finished (run true false ac tab ops sched) ->
  NoDup (committed_seqs (run true false ac tab ops sched) ++ released (run true false ac tab ops sched)) /\
  forall x, 1 <= x <= last (run true false ac tab ops sched) <->
            (In x (committed_seqs (run true false ac tab ops sched)) \/ In x (released (run true false ac tab ops sched))).
Proof. exact accounted_when_finished. Qed.
Print Assumptions C11_failed_writes_return_sequences.

Example C11_nonvacuous :
  no_posterr [Read; Aux; Aux; Commit; Aux] /\
  commit_index [Read; Aux; Aux; Commit; Aux] = Some 3%nat /\
  predicted [Read; Aux; Aux; Commit; Aux] 2 = RErr /\ predicted [Read; Aux; Aux; Commit; Aux] 4 = ROk.
Proof. split; [repeat constructor; discriminate | vm_compute; auto]. Qed.
