(* C11 -- Writes are all-or-nothing, and success is only reported when durable.
   Two layers: (1) the generic storage-trace model (C11/Atomicity.v), whose classification hypotheses are
   checked on the real traces by the fault-enumeration harness; (2) for document writes, the write-loop model
   of C05 (all interleavings, CAS retries, reserved sequences).
   Requests with several commits (bulk writes; import before write) are sequences of sub-requests
   (exec_multi): theorems C11_per_commit_all_or_nothing .. C11_bulk_documents_independent. *)
From Coq Require Import Permutation.
From SG Require Import Base.Prelude C11.Atomicity C11.AtomicityProofs C11.MultiProofs C11.CleanupProofs.
From SG Require Import C05.WriteLoop C05.WriteLoopProofs C05.WriteLoopTheorems.
Open Scope N_scope.

(* success is reported exactly when the commit operation was performed *)
Theorem C11_success_iff_committed : forall tr k, no_posterr tr ->
  (snd (run_request tr k) = ROk <-> committed (fst (run_request tr k)) = true).
Proof. intros tr k H. exact (success_iff_committed tr 0 k sys0 H). Qed.
Print Assumptions C11_success_iff_committed.

(* failure of any storage operation -- a single one, a pair, any set -- of which at least one lies at or before
   the commit on an operation that is not best-effort (a best-effort write, or a clean-up delete: their failure is
   swallowed; the read of a body to promote: its failure is swallowed too -- the finding in C11_Refuted.v): error
   reported, primary state unchanged *)
Theorem C11_fault_upto_commit_unchanged : forall tr k n,
  commit_index tr = Some n ->
  (exists f, In f k /\ (f <= n)%nat /\
             nth_error tr f <> Some Opt /\ nth_error tr f <> Some Cleanup /\ nth_error tr f <> Some ReadBody) ->
  snd (run_request tr k) = RErr /\ committed (fst (run_request tr k)) = false.
Proof.
  intros tr k n Hc (f & Hin & Hle & Ho & Hcl & Hrb). apply (fault_upto_commit_unchanged tr 0 k sys0 n eq_refl Hc).
  exists f. split; [exact Hin|]. split; [lia|]. split; [exact Hle|]. rewrite Nat.sub_0_r. intros [H|[H|H]]; congruence.
Qed.
Print Assumptions C11_fault_upto_commit_unchanged.

(* failures of follow-up operations only (any number) do not turn a durable write into a failure or undo it *)
Theorem C11_fault_after_commit_success : forall tr k n, no_posterr tr ->
  commit_index tr = Some n -> (forall f, In f k -> (n < f)%nat) ->
  snd (run_request tr k) = ROk /\ committed (fst (run_request tr k)) = true.
Proof. intros tr k n H Hc Hk. exact (fault_after_commit_success tr 0 k sys0 n H eq_refl Hc Hk). Qed.
Print Assumptions C11_fault_after_commit_success.

(* a request without a commit operation (rejected by validation, the sync function, conflict rules or
   authorisation) never changes the primary state and never reports success *)
Theorem C11_rejected_never_commits : forall tr k,
  commit_index tr = None ->
  snd (run_request tr k) = RErr /\ committed (fst (run_request tr k)) = false.
Proof. intros tr k Hc. exact (no_commit_never_success tr 0 k sys0 eq_refl Hc). Qed.
Print Assumptions C11_rejected_never_commits.

(* document writes, every interleaving: the stored document changes only at an acknowledged write, so a write
   that is rejected, loses, or hits a storage error leaves the document (hence its channels, the access it
   grants and its attachment metadata, which all live in it) exactly as it was *)
Theorem C11_document_changes_only_by_ack : forall fixed ac tab s e,
  st (step fixed false ac tab s e) <> st s ->
  exists i w p, e = Write i /\ nth_error (ws s) i = Some w /\ w_prep w = Some p /\ w_out w = None /\
    st (step fixed false ac tab s e) = p_doc p /\ p_cas p = d_cas (st s) /\
    nth_error (ws (step fixed false ac tab s e)) i =
      Some {| w_op := w_op w; w_attempt := w_attempt w; w_matchrev := w_matchrev w; w_docseq := 0; w_unusedseqs := []; w_prep := None;
              w_out := Some (OAck (p_rev p) (d_seq (p_doc p))) |}.
Proof. exact store_changes_only_by_ack. Qed.
Print Assumptions C11_document_changes_only_by_ack.

(* ... and gives back every sequence it had reserved: once all writers have finished, each reserved number is
   on a committed revision or published as unused, exactly once *)
Theorem C11_failed_writes_return_sequences : forall ac tab ops sched,
  all_finished (run true false ac tab ops sched) ->
  NoDup (committed_seqs (run true false ac tab ops sched) ++ released (run true false ac tab ops sched)) /\
  forall x, 1 <= x <= last (run true false ac tab ops sched) <->
            (In x (committed_seqs (run true false ac tab ops sched)) \/ In x (released (run true false ac tab ops sched))).
Proof. exact accounted_when_finished. Qed.
Print Assumptions C11_failed_writes_return_sequences.

(* ---- requests with several commits: a trace with k commits is a sequence of k sub-requests ---- *)

(* each sub-request is all-or-nothing: it reports success exactly when its own commit was performed -- bulk
   writes and aborting requests alike, any number of sub-requests, any set of faults *)
Theorem C11_per_commit_all_or_nothing : forall cont trs k,
  Forall no_posterr trs ->
  Forall (fun m => snd m = ROk <-> committed (fst m) = true) (run_multi cont trs k).
Proof. intros cont trs k H. exact (per_commit_all_or_nothing cont trs 0 k false H). Qed.
Print Assumptions C11_per_commit_all_or_nothing.

(* a request whose sub-requests abort each other (import, then write): if the faults spare the sub-requests
   [pre] (each fault in their range lies after their commit) and sub-request [tr] fails (no commit: rejected; or a
   fault at or before its commit on an operation that is not best-effort), then the commits of [pre] are durable
   and reported as such, and [tr] and everything after it report the failure and have changed nothing *)
Theorem C11_fault_after_commit_i_keeps_1_to_i : forall pre tr post k,
  segs_survive pre 0 k -> seg_fails tr (length (concat pre)) k ->
  exists outs_pre outs_rest,
    run_multi false (pre ++ tr :: post) k = outs_pre ++ outs_rest /\
    length outs_pre = length pre /\
    Forall (fun m => snd m = ROk /\ committed (fst m) = true) outs_pre /\
    length outs_rest = S (length post) /\
    Forall (fun m => snd m = RErr /\ committed (fst m) = false) outs_rest.
Proof. intros pre tr post k Hs Hf. exact (abort_prefix_durable pre tr post 0 k Hs Hf). Qed.
Print Assumptions C11_fault_after_commit_i_keeps_1_to_i.

(* ... and its single result is success exactly when every commit is durable *)
Theorem C11_multi_overall_success_iff_all_durable : forall trs k,
  Forall no_posterr trs ->
  (overall (run_multi false trs k) = ROk <-> Forall (fun m => committed (fst m) = true) (run_multi false trs k)).
Proof. intros trs k H. apply overall_ok_iff. exact (per_commit_all_or_nothing false trs 0 k false H). Qed.
Print Assumptions C11_multi_overall_success_iff_all_durable.

(* bulk write: the outcome of document j is the outcome of its own request executed alone at its position, it
   depends only on the faults that hit its own operations, and it is all-or-nothing per document *)
Theorem C11_bulk_documents_independent : forall trs k j tr,
  nth_error trs j = Some tr ->
  nth_error (run_multi true trs k) j = Some (exec tr (offset trs j) k sys0) /\
  (forall k', (forall p, (offset trs j <= p < offset trs j + length tr)%nat -> existsb (Nat.eqb p) k = existsb (Nat.eqb p) k') ->
              nth_error (run_multi true trs k') j = nth_error (run_multi true trs k) j) /\
  (seg_survives tr (offset trs j) k ->
     snd (exec tr (offset trs j) k sys0) = ROk /\ committed (fst (exec tr (offset trs j) k sys0)) = true) /\
  (seg_fails tr (offset trs j) k ->
     snd (exec tr (offset trs j) k sys0) = RErr /\ committed (fst (exec tr (offset trs j) k sys0)) = false).
Proof.
  intros trs k j tr Hj. repeat split.
  - exact (cont_nth trs 0 k j tr Hj).
  - intros k' Hk. symmetry. exact (cont_independent trs 0 k k' j tr Hj Hk).
  - apply seg_survives_ok; assumption.
  - apply seg_survives_ok; assumption.
  - apply seg_fails_err; assumption.
  - apply seg_fails_err; assumption.
Qed.
Print Assumptions C11_bulk_documents_independent.

(* a sub-request sees only the faults inside its own range of positions *)
Theorem C11_faults_are_local : forall tr i k k' s,
  (forall p, (i <= p < i + length tr)%nat -> existsb (Nat.eqb p) k = existsb (Nat.eqb p) k') ->
  exec tr i k s = exec tr i k' s.
Proof. exact exec_faults_local. Qed.
Print Assumptions C11_faults_are_local.

(* ---- follow-ups that are part of the visible effect (principal invalidation) ---- *)
(* success means the WHOLE effect is visible, provided no fault hits a required follow-up or the read of a body to
   promote; with such a fault the statement is false for the unchanged code (C11_Refuted.v) *)
Theorem C11_success_whole_effect_visible : forall tr k, no_posterr tr ->
  (forall f, In f k -> nth_error tr f <> Some Inval /\ nth_error tr f <> Some ReadBody) ->
  snd (run_request tr k) = ROk -> effect_visible (fst (run_request tr k)) = true.
Proof. exact success_effect_visible. Qed.
Print Assumptions C11_success_whole_effect_visible.

(* ---- auxiliary documents (out-of-line revision bodies, attachments) are part of the state ---- *)
(* "a failed request changes no document, auxiliary documents included": with the clean-up deletes bound to the
   commit (no [Cleanup] operation before it -- tested on every observed trace), a request that reports a failure,
   whatever set of storage operations failed, has neither committed nor deleted any auxiliary document that the
   stored state references *)
Theorem C11_failed_request_deletes_nothing : forall tr k,
  cleanup_after_commit tr -> no_posterr tr -> snd (run_request tr k) = RErr ->
  committed (fst (run_request tr k)) = false /\ cleaned (fst (run_request tr k)) = [].
Proof. exact failed_request_deletes_nothing. Qed.
Print Assumptions C11_failed_request_deletes_nothing.

(* ... also when a follow-up failure is reported as a request failure: as long as the commit was not performed,
   nothing was deleted; in particular a rejected request (no commit operation) deletes nothing *)
Theorem C11_uncommitted_request_deletes_nothing : forall tr k,
  cleanup_after_commit tr ->
  (committed (fst (run_request tr k)) = false -> cleaned (fst (run_request tr k)) = []) /\
  (commit_index tr = None -> cleaned (fst (run_request tr k)) = []).
Proof.
  intros tr k Hw. split; [apply uncommitted_deletes_nothing; exact Hw | apply rejected_deletes_nothing; exact Hw].
Qed.
Print Assumptions C11_uncommitted_request_deletes_nothing.

(* only a clean-up operation that was actually performed deletes anything: a faulted clean-up deletes nothing and
   no other operation class does (any trace, any faults) *)
Theorem C11_only_performed_cleanups_delete : forall tr k j,
  In j (cleaned (fst (run_request tr k))) -> nth_error tr j = Some Cleanup /\ existsb (Nat.eqb j) k = false.
Proof.
  intros tr k j Hj. destruct (cleaned_only_performed tr 0 k sys0 j Hj) as [[] | (_ & Hn & Hk)].
  rewrite Nat.sub_0_r in Hn. auto.
Qed.
Print Assumptions C11_only_performed_cleanups_delete.

(* requests with several commits (bulk write, import before write): every sub-request that did not commit --
   failed, rejected, or never started because an earlier one failed -- deleted nothing *)
Theorem C11_multi_failed_deletes_nothing : forall cont trs k,
  Forall cleanup_after_commit trs ->
  Forall (fun m => committed (fst m) = false -> cleaned (fst m) = []) (run_multi cont trs k).
Proof. intros cont trs k H. exact (multi_uncommitted_deletes_nothing cont trs 0 k false H). Qed.
Print Assumptions C11_multi_failed_deletes_nothing.

(* the rule the run-time test [cleanup_after_commitb] decides *)
Theorem C11_cleanup_rule_decided : forall tr, cleanup_after_commitb tr = true <-> cleanup_after_commit tr.
Proof. exact cleanup_after_commitb_spec. Qed.
Print Assumptions C11_cleanup_rule_decided.

Example C11_cleanup_nonvacuous :
  cleanup_after_commit [Aux; Read; Opt; Aux; Aux; Commit; Cleanup; Inval] /\
  no_posterr [Aux; Read; Opt; Aux; Aux; Commit; Cleanup; Inval] /\
  (* the final write fails: error, nothing committed, nothing deleted *)
  run_request [Aux; Read; Opt; Aux; Aux; Commit; Cleanup; Inval] [5%nat] = (add_aux 4 (add_aux 3 (add_aux 0 sys0)), RErr) /\
  (* no fault: the clean-up is performed after the commit *)
  cleaned (fst (run_request [Aux; Read; Opt; Aux; Aux; Commit; Cleanup; Inval] [])) = [6%nat] /\
  (* a clean-up NOT bound to the commit deletes although the request fails *)
  (exists tr k, commit_index tr = None /\ snd (run_request tr k) = RErr /\
                committed (fst (run_request tr k)) = false /\ aux_deleted (fst (run_request tr k)) = true).
Proof.
  split; [apply cleanup_after_commitb_spec; reflexivity|].
  split; [repeat constructor; discriminate|].
  split; [vm_compute; reflexivity|]. split; [vm_compute; reflexivity|].
  exact cleanup_before_commit_deletes_on_failure.
Qed.

Example C11_multi_nonvacuous :
  segs_survive [[Aux; Read; Aux; Commit]] 0 [6%nat] /\ seg_fails [Opt; Opt; Aux; Commit] 4 [6%nat] /\
  run_multi false [[Aux; Read; Aux; Commit]; [Opt; Opt; Aux; Commit]] [6%nat] =
    [(set_committed (add_aux 2 (add_aux 0 sys0)), ROk); (sys0, RErr)].
Proof.
  split; [|split].
  - cbn. split; [|exact I]. split; [repeat constructor; discriminate|]. exists 3%nat. split; [reflexivity|]. intros f [<-|[]]. lia.
  - right. exists 7%nat. split; [reflexivity|]. exists 6%nat. cbn. repeat split; auto; try lia.
    intros [H|[H|H]]; discriminate.
  - vm_compute. reflexivity.
Qed.

Example C11_nonvacuous :
  no_posterr [Read; Aux; Aux; Commit; Aux] /\
  commit_index [Read; Aux; Aux; Commit; Aux] = Some 3%nat /\
  predicted [Read; Aux; Aux; Commit; Aux] 2 = RErr /\ predicted [Read; Aux; Aux; Commit; Aux] 4 = ROk.
Proof. split; [repeat constructor; discriminate | vm_compute; auto]. Qed.
