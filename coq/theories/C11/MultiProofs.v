(* C11: requests with several commits (bulk writes, import before write) and required follow-ups (Inval). *)
From SG Require Import Base.Prelude C11.Atomicity C11.AtomicityProofs.

(* ---------- faults are local: a sub-request only sees the faults inside its own range ---------- *)
Lemma exec_faults_local tr : forall i k k' s,
  (forall p, i <= p < i + length tr -> existsb (Nat.eqb p) k = existsb (Nat.eqb p) k') ->
  exec tr i k s = exec tr i k' s.
Proof.
  induction tr as [|op rest IH]; intros i k k' s H; cbn [exec]; [reflexivity|].
  cbn [length] in H.
  rewrite <- (H i) by lia.
  assert (Hr : forall s', exec rest (S i) k s' = exec rest (S i) k' s').
  { intros s'. apply IH. intros p Hp. apply H. lia. }
  destruct (committed s); destruct (existsb (Nat.eqb i) k); destruct op; rewrite ?Hr; reflexivity.
Qed.

(* the faults of [k] that lie in [lo, hi) *)
Definition in_range (lo hi : nat) (k : list nat) : list nat := filter (fun f => (lo <=? f) && (f <? hi)) k.

Lemma in_range_In lo hi k f : In f (in_range lo hi k) <-> In f k /\ lo <= f < hi.
Proof.
  unfold in_range. rewrite filter_In, andb_true_iff, Nat.leb_le, Nat.ltb_lt. tauto.
Qed.

Lemma existsb_in_range lo hi k p : lo <= p < hi -> existsb (Nat.eqb p) k = existsb (Nat.eqb p) (in_range lo hi k).
Proof.
  intros Hp. destruct (existsb (Nat.eqb p) k) eqn:E; symmetry.
  - apply existsb_exists in E as (x & Hx & Hxe). apply Nat.eqb_eq in Hxe; subst x.
    apply existsb_exists. exists p. split; [apply in_range_In; auto | apply Nat.eqb_refl].
  - destruct (existsb (Nat.eqb p) (in_range lo hi k)) eqn:E2; [|reflexivity].
    apply existsb_exists in E2 as (x & Hx & Hxe). apply Nat.eqb_eq in Hxe; subst x.
    apply in_range_In in Hx as (Hx & _).
    assert (existsb (Nat.eqb p) k = true) by (apply existsb_exists; exists p; split; [exact Hx | apply Nat.eqb_refl]).
    congruence.
Qed.

Lemma exec_restrict tr i k s : exec tr i k s = exec tr i (in_range i (i + length tr) k) s.
Proof. apply exec_faults_local. intros p Hp. apply existsb_in_range. exact Hp. Qed.

(* ---------- what happens to one sub-request ---------- *)
(* it survives: every fault inside its range lies after its commit *)
Definition seg_survives (tr : list opclass) (i : nat) (k : list nat) : Prop :=
  no_posterr tr /\ exists n, commit_index_from tr i = Some n /\ forall f, In f k -> i <= f < i + length tr -> n < f.
(* it fails: it has no commit at all (a rejected write), or a fault at or before its commit hits an operation that
   is not best-effort *)
Definition seg_fails (tr : list opclass) (i : nat) (k : list nat) : Prop :=
  commit_index_from tr i = None \/ exists n, commit_index_from tr i = Some n /\ hard_fault_upto tr i k n.

Lemma seg_survives_ok tr i k : seg_survives tr i k ->
  snd (exec tr i k sys0) = ROk /\ committed (fst (exec tr i k sys0)) = true.
Proof.
  intros (Hn & n & Hc & Hk). rewrite exec_restrict.
  apply (fault_after_commit_success tr i _ sys0 n Hn eq_refl Hc).
  intros f Hf. apply in_range_In in Hf as (Hf & Hr). apply Hk; auto.
Qed.

Lemma seg_fails_err tr i k : seg_fails tr i k ->
  snd (exec tr i k sys0) = RErr /\ committed (fst (exec tr i k sys0)) = false.
Proof.
  intros [Hc | (n & Hc & Hf)].
  - apply no_commit_never_success; auto.
  - apply (fault_upto_commit_unchanged tr i k sys0 n eq_refl Hc Hf).
Qed.

(* ---------- every sub-request is all-or-nothing ---------- *)
Definition all_or_nothing (m : sys * result) : Prop := snd m = ROk <-> committed (fst m) = true.

Lemma per_commit_all_or_nothing cont trs : forall i k dead,
  Forall no_posterr trs -> Forall all_or_nothing (exec_multi cont trs i k dead).
Proof.
  induction trs as [|tr rest IH]; intros i k dead Hn; cbn [exec_multi]; [constructor|].
  inversion Hn as [|? ? Htr Hrest]; subst.
  destruct dead.
  - constructor; [|apply IH; auto]. unfold all_or_nothing; cbn. split; congruence.
  - constructor; [|apply IH; auto]. unfold all_or_nothing. apply success_iff_committed. exact Htr.
Qed.

(* a commit, once made, is never undone by what happens in later sub-requests: the outcome of a sub-request that
   was started is exactly its own execution *)
Definition offset (trs : list (list opclass)) (j : nat) : nat := length (concat (firstn j trs)).

Lemma offset_S tr rest j : offset (tr :: rest) (S j) = length tr + offset rest j.
Proof. unfold offset. cbn [firstn concat]. rewrite app_length. reflexivity. Qed.

(* ---------- bulk (cont = true): the documents are independent ---------- *)
Lemma cont_nth trs : forall i k j tr,
  nth_error trs j = Some tr ->
  nth_error (exec_multi true trs i k false) j = Some (exec tr (i + offset trs j) k sys0).
Proof.
  induction trs as [|t rest IH]; intros i k j tr Hj; [destruct j; discriminate|].
  destruct j as [|j]; cbn [exec_multi nth_error] in *.
  - inv Hj. unfold offset; cbn. rewrite Nat.add_0_r. reflexivity.
  - cbn [negb andb]. rewrite (IH (i + length t) k j tr Hj). rewrite offset_S. f_equal. f_equal. lia.
Qed.

Lemma cont_length cont trs : forall i k dead, length (exec_multi cont trs i k dead) = length trs.
Proof.
  induction trs as [|t rest IH]; intros i k dead; cbn [exec_multi]; [reflexivity|].
  destruct dead; cbn [length]; rewrite IH; reflexivity.
Qed.

(* the outcome of one document of a bulk write depends only on the faults that hit its own operations *)
Lemma cont_independent trs i k k' j tr :
  nth_error trs j = Some tr ->
  (forall p, i + offset trs j <= p < i + offset trs j + length tr -> existsb (Nat.eqb p) k = existsb (Nat.eqb p) k') ->
  nth_error (exec_multi true trs i k false) j = nth_error (exec_multi true trs i k' false) j.
Proof.
  intros Hj Hk. rewrite (cont_nth trs i k j tr Hj), (cont_nth trs i k' j tr Hj).
  f_equal. apply exec_faults_local. exact Hk.
Qed.

Lemma cont_per_document trs i k j tr m :
  nth_error trs j = Some tr -> nth_error (exec_multi true trs i k false) j = Some m ->
  (seg_survives tr (i + offset trs j) k -> snd m = ROk /\ committed (fst m) = true) /\
  (seg_fails tr (i + offset trs j) k -> snd m = RErr /\ committed (fst m) = false).
Proof.
  intros Hj Hm. rewrite (cont_nth trs i k j tr Hj) in Hm. inv Hm.
  split; [apply seg_survives_ok | apply seg_fails_err].
Qed.

(* ---------- abort (cont = false): a failure after commit i leaves commits 1..i durable and reports the failure
   for the rest ---------- *)
Fixpoint segs_survive (trs : list (list opclass)) (i : nat) (k : list nat) : Prop :=
  match trs with
  | [] => True
  | tr :: rest => seg_survives tr i k /\ segs_survive rest (i + length tr) k
  end.

Definition durable_ok (m : sys * result) : Prop := snd m = ROk /\ committed (fst m) = true.
Definition failed_clean (m : sys * result) : Prop := snd m = RErr /\ committed (fst m) = false.

Lemma dead_all_failed cont trs : forall i k, Forall failed_clean (exec_multi cont trs i k true).
Proof.
  induction trs as [|t rest IH]; intros i k; cbn [exec_multi]; constructor; [|apply IH].
  split; reflexivity.
Qed.

Lemma abort_prefix_durable pre : forall tr post i k,
  segs_survive pre i k -> seg_fails tr (i + length (concat pre)) k ->
  exists outs_pre outs_rest,
    exec_multi false (pre ++ tr :: post) i k false = outs_pre ++ outs_rest /\
    length outs_pre = length pre /\ Forall durable_ok outs_pre /\
    length outs_rest = S (length post) /\ Forall failed_clean outs_rest.
Proof.
  induction pre as [|p pre IH]; intros tr post i k Hs Hf.
  - cbn [app exec_multi concat length] in *. rewrite Nat.add_0_r in Hf.
    destruct (seg_fails_err tr i k Hf) as (Hr & Hc).
    exists [], (exec tr i k sys0 :: exec_multi false post (i + length tr) k true).
    cbn [negb andb]. rewrite Hr. cbn [result_ok negb].
    repeat split; auto.
    + cbn [length]. rewrite cont_length. reflexivity.
    + constructor; [split; auto | apply dead_all_failed].
  - cbn [segs_survive] in Hs. destruct Hs as (Hp & Hs).
    destruct (seg_survives_ok p i k Hp) as (Hr & Hc).
    cbn [app exec_multi]. rewrite Hr. cbn [result_ok negb andb].
    cbn [concat] in Hf. rewrite app_length in Hf.
    destruct (IH tr post (i + length p) k Hs) as (o1 & o2 & E & L1 & F1 & L2 & F2).
    { replace (i + length p + length (concat pre)) with (i + (length p + length (concat pre))) by lia. exact Hf. }
    exists (exec p i k sys0 :: o1), o2. rewrite E. repeat split; auto.
    + cbn [length]. rewrite L1. reflexivity.
    + constructor; [split; auto | exact F1].
Qed.

(* with no failing sub-request every commit is durable and every sub-request reports success *)
Lemma abort_all_survive trs : forall i k, segs_survive trs i k ->
  Forall durable_ok (exec_multi false trs i k false).
Proof.
  induction trs as [|p rest IH]; intros i k Hs; cbn [exec_multi]; [constructor|].
  destruct Hs as (Hp & Hs). destruct (seg_survives_ok p i k Hp) as (Hr & Hc).
  rewrite Hr. cbn [result_ok negb andb]. constructor; [split; auto | apply IH; auto].
Qed.

(* the single result of such a request: success iff every commit is durable *)
Lemma overall_ok_iff out : Forall all_or_nothing out ->
  (overall out = ROk <-> Forall (fun m => committed (fst m) = true) out).
Proof.
  unfold overall. induction out as [|m r IH]; intros Ha; cbn [forallb].
  - split; auto.
  - inversion Ha as [|? ? Hm Hr]; subst. specialize (IH Hr). unfold all_or_nothing in Hm.
    destruct (snd m) eqn:Em; cbn [result_ok andb].
    + split.
      * intros H. constructor; [apply Hm; reflexivity | apply IH; exact H].
      * intros H. inversion H; subst. apply IH. assumption.
    + split; [discriminate|]. intros H. inversion H as [|? ? Hc ?]; subst. apply Hm in Hc. discriminate.
Qed.

(* one sub-request: the multi-commit execution is the single-commit one *)
Lemma multi_single cont tr k : run_multi cont [tr] k = [run_request tr k].
Proof. reflexivity. Qed.

(* a request whose sub-requests have one commit each has as many commits as sub-requests *)
Definition count_commits (tr : list opclass) : nat := length (filter (fun o => match o with Commit => true | _ => false end) tr).
Lemma commits_of_concat trs : Forall (fun tr => count_commits tr = 1) trs -> count_commits (concat trs) = length trs.
Proof.
  induction trs as [|t r IH]; intros H; [reflexivity|]. inversion H; subst.
  unfold count_commits in *. cbn [concat length]. rewrite filter_app, app_length, IH by assumption. lia.
Qed.

(* ---------- required follow-ups (Inval) and required reads (ReadBody) ---------- *)
(* the operations whose swallowed failure loses part of the effect *)
Definition required (o : option opclass) : Prop := o = Some Inval \/ o = Some ReadBody.

Lemma exec_lost_only_faulted_inval tr : forall i k s,
  (forall f, In f k -> i <= f -> ~ required (nth_error tr (f - i))) -> lost s = [] ->
  lost (fst (exec tr i k s)) = [].
Proof.
  induction tr as [|op rest IH]; intros i k s Hk Hl; cbn [exec]; [cbn; exact Hl|].
  assert (Hrest : forall f, In f k -> S i <= f -> ~ required (nth_error rest (f - S i))).
  { intros f Hf Hle. specialize (Hk f Hf). replace (f - i) with (S (f - S i)) in Hk by lia. apply Hk. lia. }
  assert (Hhere : existsb (Nat.eqb i) k = true -> ~ required (Some op)).
  { intros Ef. apply existsb_exists in Ef as (x & Hx & Hxe). apply Nat.eqb_eq in Hxe; subst x.
    specialize (Hk i Hx (le_n i)). rewrite Nat.sub_diag in Hk. exact Hk. }
  destruct (committed s) eqn:Hc; destruct (existsb (Nat.eqb i) k) eqn:Ef.
  - destruct op; try (apply IH; auto; fail); try (cbn; exact Hl).
    exfalso. apply (Hhere eq_refl). left. reflexivity.
  - destruct op; apply IH; auto.
  - destruct op; try (cbn; exact Hl); try (apply IH; auto; fail).
    exfalso. apply (Hhere eq_refl). right. reflexivity.
  - destruct op; apply IH; auto.
Qed.

(* success means the WHOLE effect is visible -- provided no fault hits a required follow-up *)
Lemma success_effect_visible tr k : no_posterr tr ->
  (forall f, In f k -> nth_error tr f <> Some Inval /\ nth_error tr f <> Some ReadBody) ->
  snd (run_request tr k) = ROk -> effect_visible (fst (run_request tr k)) = true.
Proof.
  intros Hn Hk Hr. unfold effect_visible, run_request in *.
  apply (success_iff_committed tr 0 k sys0 Hn) in Hr. rewrite Hr.
  rewrite (exec_lost_only_faulted_inval tr 0 k sys0); auto.
  intros f Hf _. rewrite Nat.sub_0_r. destruct (Hk f Hf) as (H1 & H2). intros [H|H]; congruence.
Qed.

(* the second defect of this kind: a swallowed failure of the read of the body to promote -- success is reported, the
   commit is durable, but the promoted revision has lost its body (and the body document is then deleted) *)
Lemma body_read_failure_swallowed :
  exists tr k, no_posterr tr /\ nth_error tr k = Some ReadBody /\
               snd (run_request tr [k]) = ROk /\ committed (fst (run_request tr [k])) = true /\
               effect_visible (fst (run_request tr [k])) = false /\ aux_deleted (fst (run_request tr [k])) = true.
Proof.
  exists [Aux; ReadBody; Opt; Opt; Commit; Cleanup], 1. split; [repeat constructor; discriminate | vm_compute; auto 6].
Qed.

(* the defect: a swallowed failure of a required follow-up -- success is reported, the commit is durable, but part
   of the effect (the access change) is not visible *)
Lemma inval_failure_swallowed :
  exists tr k, no_posterr tr /\ snd (run_request tr [k]) = ROk /\ committed (fst (run_request tr [k])) = true /\
               effect_visible (fst (run_request tr [k])) = false.
Proof.
  exists [Read; Aux; Commit; Inval], 3. split; [repeat constructor; discriminate | vm_compute; auto].
Qed.
