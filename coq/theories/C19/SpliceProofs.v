(* C19 -- proofs about the byte-level splice (JsonSplice.v) against the JSON grammar (Json.v). *)
From SG Require Import Base.Prelude C19.Json C19.JsonSplice.
Open Scope N_scope.

(* ================= the buffer code equals the list expression ================= *)

Lemma skipn_repeat {A} (x : A) : forall n m, skipn n (repeat x m) = repeat x (m - n).
Proof.
  induction n as [|n IH]; intros m; cbn [skipn].
  - now rewrite Nat.sub_0_r.
  - destruct m as [|m]; cbn [repeat Nat.sub]; [reflexivity|apply IH].
Qed.

Lemma copy_into_fits : forall done rest src, (length src <= rest)%nat ->
  copy_into (done ++ repeat 0 rest, length done) src =
  ((done ++ src) ++ repeat 0 (rest - length src), length (done ++ src)).
Proof.
  intros done rest src Hle. unfold copy_into.
  rewrite app_length, repeat_length.
  replace (length done + rest - length done)%nat with rest by lia.
  rewrite Nat.min_l by exact Hle.
  rewrite firstn_app, firstn_all, Nat.sub_diag, firstn_O, app_nil_r.
  rewrite firstn_all.
  rewrite skipn_app, skipn_all2 by lia.
  replace (length done + length src - length done)%nat with (length src) by lia.
  rewrite skipn_repeat. cbn [app]. rewrite <- app_assoc. rewrite app_length. reflexivity.
Qed.

Lemma copy_all_fits : forall cs done rest, (length (concat cs) <= rest)%nat ->
  fold_left copy_into cs (done ++ repeat 0 rest, length done) =
  ((done ++ concat cs) ++ repeat 0 (rest - length (concat cs)), length (done ++ concat cs)).
Proof.
  induction cs as [|c cs IH]; intros done rest Hle; cbn [fold_left concat].
  - cbn [length] in *. now rewrite Nat.sub_0_r, app_nil_r.
  - cbn [concat] in Hle. rewrite app_length in Hle.
    rewrite copy_into_fits by lia. rewrite IH by lia.
    rewrite <- !app_assoc. rewrite !app_length.
    replace (rest - length c - length (concat cs))%nat with (rest - (length c + length (concat cs)))%nat by lia.
    f_equal; lia.
Qed.

Fixpoint kv_cost (kvs : list kvpair) : nat :=
  match kvs with
  | [] => 0%nat
  | kv :: r => (length (fst kv) + length (snd kv) + 4 + kv_cost r)%nat
  end.

Lemma fold_cost : forall kvs n,
  fold_left (fun n kv => n + (length (fst kv) + length (snd kv) + 4))%nat kvs n = (n + kv_cost kvs)%nat.
Proof.
  induction kvs as [|kv r IH]; intros n; cbn [fold_left].
  - cbn [kv_cost]. lia.
  - rewrite IH. cbn [kv_cost]. lia.
Qed.

Lemma key_chunk_length : forall k, length (key_chunk k) = (length k + 3)%nat.
Proof. intros k. unfold key_chunk. cbn [length]. rewrite app_length. cbn [length]. lia. Qed.

Lemma kv_chunks_false_text : forall e kvs, concat (kv_chunks false e kvs) = members_text false kvs.
Proof.
  induction kvs as [|[k v] r IH]; cbn [kv_chunks members_text concat negb orb app]; [reflexivity|].
  rewrite IH. unfold member_text. cbn [fst snd app]. now rewrite <- !app_assoc.
Qed.

Lemma kv_chunks_true_text : forall e kvs, concat (kv_chunks true e kvs) = members_text e kvs.
Proof.
  intros e [|[k v] r]; cbn [kv_chunks members_text concat negb orb app]; [reflexivity|].
  rewrite concat_app. cbn [concat]. rewrite kv_chunks_false_text. unfold member_text. cbn [fst snd].
  destruct e; cbn [negb concat app]; now rewrite <- ?app_assoc.
Qed.

Lemma members_text_false_length : forall kvs, length (members_text false kvs) = kv_cost kvs.
Proof.
  induction kvs as [|[k v] r IH]; cbn [members_text kv_cost]; [reflexivity|].
  rewrite !app_length. unfold member_text. rewrite app_length, key_chunk_length. cbn [fst snd length].
  rewrite IH. lia.
Qed.

Lemma members_text_length : forall e kvs, kvs <> [] ->
  length (members_text e kvs) = (kv_cost kvs - (if e then 1 else 0))%nat.
Proof.
  intros e [|[k v] r] Hne; [congruence|]. cbn [members_text kv_cost].
  rewrite !app_length. unfold member_text. rewrite app_length, key_chunk_length. cbn [fst snd].
  rewrite members_text_false_length. destruct e; cbn [length]; lia.
Qed.

Lemma chunks_text : forall b e kvs, concat (chunks b e kvs) = inject_spec b e kvs.
Proof.
  intros. unfold chunks, inject_spec. rewrite !concat_app. cbn [concat]. rewrite kv_chunks_true_text.
  now rewrite !app_nil_r.
Qed.

Lemma removelast_length {A} : forall (l : list A), l <> [] -> length (removelast l) = (length l - 1)%nat.
Proof.
  intros l Hne. destruct (exists_last Hne) as [l' [a ->]]. rewrite removelast_last, app_length. cbn [length]. lia.
Qed.

(* the pre-computed length is exactly the number of bytes written: nothing is truncated, nothing is left zero *)
Lemma new_length_exact : forall b e kvs, b <> [] -> kvs <> [] ->
  new_length b e kvs = length (inject_spec b e kvs).
Proof.
  intros b e kvs Hb Hk. unfold new_length, inject_spec. rewrite fold_cost.
  rewrite !app_length, removelast_length by exact Hb. rewrite members_text_length by exact Hk.
  cbn [length]. assert (1 <= length b)%nat by (destruct b; [congruence|cbn [length]; lia]).
  assert (4 <= kv_cost kvs)%nat.
  { destruct kvs as [|kv r]; [congruence|]. cbn [kv_cost]. lia. }
  destruct e; lia.
Qed.

Theorem inject_buf_spec : forall b e kvs, b <> [] -> kvs <> [] -> inject_buf b e kvs = inject_spec b e kvs.
Proof.
  intros b e kvs Hb Hk. unfold inject_buf.
  pose proof (copy_all_fits (chunks b e kvs) [] (new_length b e kvs)) as H.
  cbn [app length] in H. rewrite H.
  - cbn [fst]. rewrite chunks_text, new_length_exact by assumption. now rewrite Nat.sub_diag, app_nil_r.
  - rewrite chunks_text, new_length_exact by assumption. lia.
Qed.

(* ================= TrimSpace on a text with JSON whitespace around a braced core ================= *)

Lemma is_ws_ascii_space : forall c, is_ws c = true -> is_ascii_space c = true.
Proof.
  intros c H. unfold is_ws in H. unfold is_ascii_space.
  repeat rewrite orb_true_iff in H. destruct H as [[[H|H]|H]|H]; apply N.eqb_eq in H; subst c; reflexivity.
Qed.

Lemma space_prefix_ws : forall c r, is_ws c = true -> space_prefix (c :: r) = 1%nat.
Proof. intros c r H. cbn [space_prefix]. now rewrite (is_ws_ascii_space c H). Qed.

Lemma space_suffix_rev_ws : forall c r, is_ws c = true -> space_suffix_rev (c :: r) = 1%nat.
Proof. intros c r H. cbn [space_suffix_rev]. now rewrite (is_ws_ascii_space c H). Qed.

Lemma space_prefix_lbrace : forall r, space_prefix (c_lbrace :: r) = 0%nat.
Proof. intros [|d [|e r]]; reflexivity. Qed.

Lemma space_suffix_rev_rbrace : forall r, space_suffix_rev (c_rbrace :: r) = 0%nat.
Proof.
  intros [|d [|c r]]; cbn; rewrite ?andb_false_r; reflexivity.
Qed.

Lemma trim_with_ws : forall pre, (forall c r, is_ws c = true -> pre (c :: r) = 1%nat) ->
  forall w rest fuel, all_ws w = true -> pre rest = 0%nat -> (length w <= fuel)%nat ->
  trim_with pre fuel (w ++ rest) = rest.
Proof.
  intros pre Hpre. induction w as [|c w IH]; intros rest fuel Hw H0 Hf.
  - cbn [app]. destruct fuel; cbn [trim_with]; [reflexivity|]. now rewrite H0.
  - cbn [all_ws forallb] in Hw. apply andb_true_iff in Hw as [Hc Hw].
    destruct fuel as [|f]; [cbn [length] in Hf; lia|].
    cbn [trim_with app]. rewrite (Hpre c _ Hc). cbn [skipn].
    apply IH; [exact Hw|exact H0|cbn [length] in Hf; lia].
Qed.

Lemma all_ws_rev : forall w, all_ws (rev w) = all_ws w.
Proof.
  intros w. unfold all_ws. induction w as [|c w IH]; [reflexivity|].
  cbn [rev forallb]. rewrite forallb_app. cbn [forallb]. rewrite IH. destruct (is_ws c), (forallb is_ws w); reflexivity.
Qed.

Lemma trim_space_braced : forall w1 mid w2, all_ws w1 = true -> all_ws w2 = true ->
  trim_space (w1 ++ (c_lbrace :: mid ++ [c_rbrace]) ++ w2) = c_lbrace :: mid ++ [c_rbrace].
Proof.
  intros w1 mid w2 H1 H2. unfold trim_space.
  assert (HL : trim_left (w1 ++ (c_lbrace :: mid ++ [c_rbrace]) ++ w2) = (c_lbrace :: mid ++ [c_rbrace]) ++ w2).
  { unfold trim_left. apply (trim_with_ws space_prefix space_prefix_ws); [exact H1| |rewrite app_length; lia].
    cbn [app]. apply space_prefix_lbrace. }
  rewrite HL. unfold trim_right.
  replace (rev ((c_lbrace :: mid ++ [c_rbrace]) ++ w2)) with (rev w2 ++ (c_rbrace :: rev mid ++ [c_lbrace])).
  2:{ rewrite rev_app_distr. f_equal. cbn [rev]. rewrite rev_app_distr. cbn [rev app]. reflexivity. }
  rewrite (trim_with_ws space_suffix_rev space_suffix_rev_ws).
  - cbn [rev]. rewrite rev_app_distr, rev_involutive. cbn [rev app]. reflexivity.
  - now rewrite all_ws_rev.
  - apply space_suffix_rev_rbrace.
  - rewrite rev_length, app_length. lia.
Qed.

(* ================= isJSONObject on a braced text ================= *)

Lemma middle_braced : forall mid, middle (c_lbrace :: mid ++ [c_rbrace]) = mid.
Proof. intros. unfold middle. cbn [tl]. apply removelast_last. Qed.

Lemma is_json_object_braced : forall fixed mid,
  is_json_object fixed (c_lbrace :: mid ++ [c_rbrace]) =
  (true, if fixed then all_ws mid else (length mid =? 0)%nat).
Proof.
  intros fixed mid. unfold is_json_object.
  assert (HL : (length (c_lbrace :: mid ++ [c_rbrace]) <? 2)%nat = false).
  { cbn [length]. rewrite app_length. cbn [length]. apply Nat.ltb_ge. lia. }
  rewrite HL. cbn [hd]. rewrite N.eqb_refl.
  replace (last (c_lbrace :: mid ++ [c_rbrace]) 0) with c_rbrace.
  2:{ rewrite app_comm_cons. now rewrite last_last. }
  rewrite N.eqb_refl. cbn [negb orb]. rewrite middle_braced.
  destruct fixed; [reflexivity|]. f_equal. cbn [length]. rewrite app_length. cbn [length].
  destruct (length mid); cbn; [reflexivity|]. apply Nat.eqb_neq. lia.
Qed.

Lemma removelast_braced : forall mid, removelast (c_lbrace :: mid ++ [c_rbrace]) = c_lbrace :: mid.
Proof. intros. rewrite app_comm_cons. apply removelast_last. Qed.

(* ================= grammar facts ================= *)
Section G.
  Variable str_ok num_ok : bytes -> bool.
  Notation RV := (RV str_ok num_ok).
  Notation RW := (RW str_ok num_ok).
  Notation RMember := (RMember str_ok num_ok).
  Notation RMembers := (RMembers str_ok num_ok).
  Notation Render := (Render str_ok num_ok).

  Lemma all_ws_app : forall a b, all_ws (a ++ b) = all_ws a && all_ws b.
  Proof. intros. apply forallb_app. Qed.

  Lemma RMember_not_ws : forall m t, RMember m t -> all_ws t = false.
  Proof.
    intros m t H. inversion H; subst. rewrite all_ws_app. cbn [all_ws forallb].
    replace (is_ws c_quote) with false by reflexivity. cbn [andb]. apply andb_false_r.
  Qed.

  Lemma RMembers_not_ws : forall ms t, RMembers ms t -> all_ws t = false.
  Proof.
    intros ms t H. destruct H as [m t Hm | m t ms ts Hm _].
    - eapply RMember_not_ws; eauto.
    - rewrite all_ws_app, (RMember_not_ws _ _ Hm). reflexivity.
  Qed.

  Lemma RMember_ws_prefix : forall m t w, all_ws w = true -> RMember m t -> RMember m (w ++ t).
  Proof.
    intros m t w Hw H. inversion H as [k v w1 w2 tv H1 Hk H2 Hv]; subst.
    rewrite app_assoc. constructor; try assumption. rewrite all_ws_app, Hw, H1. reflexivity.
  Qed.

  Lemma RMembers_ws_prefix : forall ms t w, all_ws w = true -> RMembers ms t -> RMembers ms (w ++ t).
  Proof.
    intros ms t w Hw H. destruct H as [m t Hm | m t ms ts Hm Hms].
    - constructor. now apply RMember_ws_prefix.
    - rewrite app_assoc. constructor; [now apply RMember_ws_prefix|exact Hms].
  Qed.

  Lemma RMembers_app : forall a ta, RMembers a ta -> forall b tb, RMembers b tb ->
    RMembers (a ++ b) (ta ++ c_comma :: tb).
  Proof.
    induction 1 as [m t Hm | m t ms ts Hm Hms IH]; intros b tb Hb.
    - cbn [app]. now constructor.
    - cbn [app]. rewrite <- app_assoc. cbn [app]. constructor; [exact Hm|]. now apply IH.
  Qed.

  (* the members the splice adds *)
  Definition kv_ok (kv : kvpair) (v : json) : Prop := str_ok (fst kv) = true /\ Render v (snd kv).
  Definition new_members (kvs : list kvpair) (vs : list json) : list (bytes * json) := combine (map fst kvs) vs.

  Lemma member_text_renders : forall kv v, kv_ok kv v -> RMember (fst kv, v) (member_text kv).
  Proof.
    intros [k val] v [Hk Hv]. cbn [fst snd] in *. unfold member_text, key_chunk. cbn [fst snd].
    change (c_quote :: k ++ [c_quote; c_colon]) with ([] ++ c_quote :: k ++ [c_quote; c_colon]).
    replace (([] ++ c_quote :: k ++ [c_quote; c_colon]) ++ val)
      with ([] ++ c_quote :: k ++ c_quote :: [] ++ c_colon :: val).
    2:{ cbn [app]. f_equal. rewrite <- app_assoc. reflexivity. }
    constructor; try reflexivity; assumption.
  Qed.

  Lemma members_text_renders : forall kvs vs, Forall2 kv_ok kvs vs -> kvs <> [] ->
    RMembers (new_members kvs vs) (members_text true kvs).
  Proof.
    intros kvs vs H. induction H as [|kv v kvs vs Hkv Hrest IH]; intros Hne; [congruence|].
    unfold new_members. cbn [map combine members_text app].
    destruct kvs as [|kv2 kvs2].
    - inversion Hrest; subst. cbn [map combine members_text]. rewrite app_nil_r.
      constructor. now apply member_text_renders.
    - assert (Hne2 : kv2 :: kvs2 <> []) by congruence. specialize (IH Hne2).
      change (members_text false (kv2 :: kvs2)) with (c_comma :: members_text true (kv2 :: kvs2)).
      constructor; [now apply member_text_renders|exact IH].
  Qed.

  Lemma new_members_nonempty : forall kvs vs, Forall2 kv_ok kvs vs -> kvs <> [] -> new_members kvs vs <> [].
  Proof. intros kvs vs H Hne. destruct H; [congruence|]. unfold new_members. cbn. congruence. Qed.

  (* shape of an object text *)
  Lemma RV_obj_inv : forall ms t, RV (JObj ms) t ->
    exists mid, t = c_lbrace :: mid ++ [c_rbrace] /\
      ((ms = [] /\ all_ws mid = true) \/ (ms <> [] /\ RMembers ms mid)).
  Proof.
    intros ms t H. inversion H; subst.
    - eexists. split; [reflexivity|]. left. split; [reflexivity|assumption].
    - eexists. split; [reflexivity|]. right. split; [congruence|assumption].
  Qed.

  Lemma RMembers_nonempty_text : forall ms t, RMembers ms t -> t <> [].
  Proof. intros ms t H Heq. subst. apply RMembers_not_ws in H. discriminate. Qed.

  (* ================= the main theorem, for both versions of isJSONObject ================= *)
  Theorem inject_gen_correct : forall fixed ms b kvs vs,
    Render (JObj ms) b -> Forall2 kv_ok kvs vs ->
    (fixed = true \/ ms <> [] \/ trim_space b = [c_lbrace; c_rbrace]) ->
    exists b', inject_gen fixed b kvs = Some b' /\ Render (JObj (ms ++ new_members kvs vs)) b'.
  Proof.
    intros fixed ms b kvs vs Hb Hkvs Hside.
    destruct kvs as [|kv kvs'].
    { inversion Hkvs; subst. exists b. split; [reflexivity|]. unfold new_members. cbn. now rewrite app_nil_r. }
    assert (Hne : kv :: kvs' <> []) by congruence.
    set (kvs := kv :: kvs') in *.
    inversion Hb as [v w1 t w2 Hw1 Ht Hw2]; subst.
    destruct (RV_obj_inv _ _ Ht) as [mid [-> Hshape]].
    unfold inject_gen. fold kvs. unfold kvs at 1.
    rewrite trim_space_braced by assumption. rewrite is_json_object_braced.
    rewrite inject_buf_spec by (assumption || discriminate).
    eexists. split; [reflexivity|]. unfold inject_spec. rewrite removelast_braced.
    pose proof (members_text_renders kvs vs Hkvs Hne) as Hnew.
    destruct Hshape as [[-> Hmid] | [Hms Hmems]].
    - (* no members: the new ones become the whole member list *)
      assert (He : (if fixed then all_ws mid else (length mid =? 0)%nat) = true).
      { destruct fixed; [exact Hmid|]. destruct Hside as [Hf | [Hm | Htrim]]; try congruence.
        rewrite trim_space_braced in Htrim by assumption. destruct mid; [reflexivity|].
        cbn in Htrim. inversion Htrim as [Hx]. destruct mid; discriminate. }
      rewrite He. cbn [app].
      replace (c_lbrace :: mid ++ members_text true kvs ++ [c_rbrace])
        with ([] ++ (c_lbrace :: (mid ++ members_text true kvs) ++ [c_rbrace]) ++ []).
      2:{ cbn [app]. rewrite app_nil_r, <- app_assoc. reflexivity. }
      constructor; try reflexivity.
      pose proof (RMembers_ws_prefix _ _ mid Hmid Hnew) as Hall.
      remember (new_members kvs vs) as nm eqn:Enm. destruct nm as [|m nm].
      { exfalso. symmetry in Enm. revert Enm. now apply new_members_nonempty. }
      now constructor.
    - (* members present: the text between the braces is not blank, so a comma is written *)
      assert (He : (if fixed then all_ws mid else (length mid =? 0)%nat) = false).
      { destruct fixed; [eapply RMembers_not_ws; eauto|].
        pose proof (RMembers_nonempty_text _ _ Hmems). destruct mid; [congruence|reflexivity]. }
      rewrite He.
      change (members_text false kvs) with (c_comma :: members_text true kvs).
      replace ((c_lbrace :: mid) ++ (c_comma :: members_text true kvs) ++ [c_rbrace])
        with ([] ++ (c_lbrace :: (mid ++ c_comma :: members_text true kvs) ++ [c_rbrace]) ++ []).
      2:{ cbn [app]. rewrite app_nil_r, <- app_assoc. reflexivity. }
      constructor; try reflexivity.
      pose proof (RMembers_app _ _ Hmems _ _ Hnew) as Hall.
      destruct ms as [|m ms']; [congruence|]. cbn [app] in *. now constructor.
  Qed.

End G.

(* the bytes of the existing text are copied unchanged: only the closing brace moves *)
Theorem inject_gen_untouched : forall fixed b kvs b', kvs <> [] -> inject_gen fixed b kvs = Some b' ->
  exists pre e, trim_space b = pre ++ [c_rbrace] /\ b' = pre ++ members_text e kvs ++ [c_rbrace].
Proof.
  intros fixed b kvs b' Hne H. unfold inject_gen in H. destruct kvs as [|kv kvs']; [congruence|].
  set (kvs := kv :: kvs') in *. set (t := trim_space b) in *.
  unfold is_json_object in H.
  destruct ((length t <? 2)%nat || negb (hd 0 t =? c_lbrace) || negb (last t 0 =? c_rbrace)) eqn:Hc; [discriminate|].
  apply orb_false_iff in Hc as [Hc Hlast]. apply orb_false_iff in Hc as [Hlen _].
  apply Nat.ltb_ge in Hlen. apply negb_false_iff, N.eqb_eq in Hlast.
  assert (Ht : t <> []) by (destruct t; [cbn in Hlen; lia|congruence]).
  inversion H as [H']. rewrite inject_buf_spec by assumption.
  exists (removelast t). eexists. split; [|reflexivity].
  rewrite <- Hlast. now apply app_removelast_last.
Qed.


(* ================= a necessary condition on object texts, used to refute the unrepaired code ================= *)
Fixpoint skip_ws (l : bytes) : bytes :=
  match l with
  | c :: r => if is_ws c then skip_ws r else l
  | [] => []
  end.

(* first significant byte after the opening brace *)
Definition after_brace (b : bytes) : N := hd 0 (skip_ws (tl (skip_ws b))).

Lemma skip_ws_app : forall w r, all_ws w = true -> skip_ws (w ++ r) = skip_ws r.
Proof.
  induction w as [|c w IH]; intros r H; [reflexivity|].
  cbn [all_ws forallb] in H. apply andb_true_iff in H as [Hc Hw]. cbn [app skip_ws]. rewrite Hc. now apply IH.
Qed.

Lemma object_text_after_brace : forall str_ok num_ok ms b, Render str_ok num_ok (JObj ms) b ->
  after_brace b = c_quote \/ after_brace b = c_rbrace.
Proof.
  intros str_ok num_ok ms b H. inversion H as [v w1 t w2 Hw1 Ht Hw2]; subst.
  destruct (RV_obj_inv _ _ _ _ Ht) as [mid [-> Hshape]].
  unfold after_brace. rewrite skip_ws_app by assumption. cbn [app skip_ws].
  replace (is_ws c_lbrace) with false by reflexivity. cbn [tl].
  destruct Hshape as [[-> Hmid] | [Hms Hmems]].
  - right. rewrite <- app_assoc. rewrite skip_ws_app by assumption. reflexivity.
  - left. assert (Hm : exists w1' rest, mid = w1' ++ c_quote :: rest /\ all_ws w1' = true).
    { destruct Hmems as [m t Hm | m t ms' ts Hm _];
        inversion Hm as [k v w1' w2' tv Hw1' Hk Hw2' Hv]; subst;
        exists w1'; eexists; (split; [|exact Hw1']).
      - reflexivity.
      - rewrite <- app_assoc. cbn [app]. reflexivity. }
    destruct Hm as [w1' [rest [-> Hw]]].
    rewrite <- !app_assoc. rewrite skip_ws_app by assumption. reflexivity.
Qed.
