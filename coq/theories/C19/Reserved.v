(* C19 -- reserved document properties: which keys are stripped, which are consumed by a write path and
   which make a write fail.  Transcribed from
     db/revision.go    stripSpecialProperties (StripInternalProperties / stripAllSpecialProperties)
     db/validation.go  validateNewBody, validateAPIDocUpdate, validateImportBody, validateBlipBody
     db/crud.go        Put (deletes _id _rev _cv _attachments _revisions _deleted, extracts _exp), Post
     rest/doc_api.go   handlePutDoc (_id must match the path), getOCCValue (_cv / _rev from the body)
     db/blip_handler.go handleRev (expiry and attachment extraction guarded by bytes.Contains on the raw body)
   A body is the decoded top-level object: an association list with distinct keys.  Values are abstract
   except for their kind, which is all the code inspects. *)
From Coq Require Import String.
From SG Require Import Base.Prelude Base.Bytes C19.Json.
Open Scope N_scope.

Definition bytes_eqb (a b : bytes) : bool := list_eqb N.eqb a b.

Lemma bytes_eqb_eq : forall a b, bytes_eqb a b = true <-> a = b.
Proof. apply list_eqb_eq. intros x y. apply N.eqb_eq. Qed.

Fixpoint has_prefix (p k : bytes) : bool :=
  match p, k with
  | [], _ => true
  | c :: p', d :: k' => (c =? d) && has_prefix p' k'
  | _ :: _, [] => false
  end.

Definition mem (k : bytes) (l : list bytes) : bool := existsb (bytes_eqb k) l.

(* the key names of db/revision.go and base/constants.go *)
Definition k_id : bytes := Eval vm_compute in unB "_id".
Definition k_rev : bytes := Eval vm_compute in unB "_rev".
Definition k_cv : bytes := Eval vm_compute in unB "_cv".
Definition k_exp : bytes := Eval vm_compute in unB "_exp".
Definition k_revisions : bytes := Eval vm_compute in unB "_revisions".
Definition k_attachments : bytes := Eval vm_compute in unB "_attachments".
Definition k_deleted : bytes := Eval vm_compute in unB "_deleted".
Definition k_removed : bytes := Eval vm_compute in unB "_removed".
Definition k_purged : bytes := Eval vm_compute in unB "_purged".
Definition k_sync : bytes := Eval vm_compute in unB "_sync".           (* base.SyncPropertyName *)
Definition k_sync_ : bytes := Eval vm_compute in unB "_sync_".         (* BodyInternalPrefix *)
Definition c_underscore : N := 95.

(* ---------- stripSpecialProperties ---------- *)
Definition internal_keys : list bytes := [k_sync; k_id; k_rev; k_cv; k_revisions; k_exp; k_purged; k_removed].

(* the condition under which the loop copies the member: "property is allowed" *)
Definition strip_keeps (internal_only : bool) (k : bytes) : bool :=
  match k with
  | [] => true                                              (* k == "" *)
  | c :: _ => negb (c =? c_underscore)                      (* k[0] != '_' *)
              || (internal_only && (negb (has_prefix k_sync_ k) && negb (mem k internal_keys)))
  end.

Definition strip {V} (internal_only : bool) (b : list (bytes * V)) : list (bytes * V) :=
  filter (fun m => strip_keeps internal_only (fst m)) b.

(* second result of the Go function: were any properties removed? *)
Definition strip_found {V} (internal_only : bool) (b : list (bytes * V)) : bool :=
  existsb (fun m => negb (strip_keeps internal_only (fst m))) b.

(* ---------- value kinds, write paths, outcomes ---------- *)
Inductive vk := KNull | KTrue | KFalse | KNum | KStr | KObj.
(* In the correspondence cases KNum is a small integer, KStr the string "s" (neither a document id in use,
   nor a revision id, nor a version, nor a date), KObj the empty object. *)

Definition vk_eqb (a b : vk) : bool :=
  match a, b with
  | KNull, KNull | KTrue, KTrue | KFalse, KFalse | KNum, KNum | KStr, KStr | KObj, KObj => true
  | _, _ => false
  end.

Inductive wpath := PPut | PBulk | PBlip | PImport.
(* PPut: PUT /db/doc creating a document; PBulk: POST /db/_bulk_docs (new_edits) with the id as _id member;
   PBlip: BLIP rev message; PImport: raw bucket write followed by on-demand import. *)

(* a member as written: decoded key, kind of the value, and whether the key text used a \u escape (only the
   BLIP path looks at the raw text) *)
Definition member := (bytes * vk * bool)%type.
Definition mkey (m : member) : bytes := fst (fst m).
Definition mkind (m : member) : vk := snd (fst m).
Definition mesc (m : member) : bool := snd m.

Inductive outcome :=
| ORej (status : N)                      (* refused; nothing stored *)
| OStored (ms : list (bytes * vk))       (* accepted; the stored body *)
| ODeleted.                              (* accepted as a tombstone; no body kept *)

Definition find_key (k : bytes) (b : list member) : option member := find (fun m => bytes_eqb (mkey m) k) b.
Definition has_key (k : bytes) (b : list member) : bool := match find_key k b with Some _ => true | None => false end.
Definition kind_of (k : bytes) (b : list member) : option vk := option_map mkind (find_key k b).

(* validateNewBody: every path *)
Definition validate_new_body (b : list member) : option N :=
  match kind_of k_removed b with
  | Some KNull | None =>                                   (* body[BodyRemoved] != nil *)
      if has_key k_purged b then Some 400
      else if existsb (fun m => has_prefix k_sync_ (mkey m)) b then Some 400
      else None
  | Some _ => Some 404
  end.

(* base.ReflectExpiry on the kinds: nil -> no expiry and the member stays; number -> extracted;
   bool / object -> "Unrecognized expiry format"; "s" -> neither numeric nor a date *)
Inductive exp_result := ExpAbsent | ExpStays | ExpTaken | ExpBad.
Definition extract_expiry (b : list member) : exp_result :=
  match kind_of k_exp b with
  | None => ExpAbsent
  | Some KNull => ExpStays
  | Some KNum => ExpTaken
  | Some _ => ExpBad
  end.

Definition remove_keys (ks : list bytes) (b : list member) : list member :=
  filter (fun m => negb (mem (mkey m) ks)) b.

Definition stored (b : list member) : list (bytes * vk) := map fst b.

(* db.Put on a document that does not exist yet (what follows the REST layer) *)
Definition db_put (b : list member) : outcome :=
  (* matchRev: a string that is not a revision id gives generation -1 *)
  if match kind_of k_rev b with Some KStr => true | _ => false end then ORej 400
  else match extract_expiry b with
  | ExpBad => ORej 400
  | e =>
    let b1 := remove_keys ([k_id; k_rev; k_cv; k_attachments; k_revisions] ++
                           (match e with ExpTaken => [k_exp] | _ => [] end)) b in
    if has_key k_sync b1 then ORej 400                                    (* validateAPIDocUpdate *)
    else if match kind_of k_cv b with Some KStr => true | _ => false end then ORej 409   (* OCC on a missing document *)
    else
      let deleted := match kind_of k_deleted b with Some KTrue => true | _ => false end in
      let b2 := remove_keys [k_deleted] b1 in
      match validate_new_body b2 with
      | Some s => ORej s
      | None => if deleted then ODeleted else OStored (stored b2)
      end
  end.

(* handlePutDoc + getOCCValue in front of db.Put *)
Definition rest_put (b : list member) : outcome :=
  if match kind_of k_id b with Some KStr => true | _ => false end then ORej 400    (* _id differs from the path *)
  else if match kind_of k_cv b with
          | Some KStr => false
          | Some _ => true                                 (* present, not a string: no OCC type *)
          | None => match kind_of k_rev b with Some KStr | None => false | Some _ => true end
          end then ORej 400
  else db_put b.

(* validateBlipBody.  Unrepaired: the decoded body is consulted only for names that occur, quoted and
   unescaped, in the raw text.  Repaired: a raw text containing a backslash is always decoded. *)
Definition blip_check_fixed : bool := true.

(* _cv joined both lists with the repair d51088e; the lists as found are blip_disallowed_of false / import_disallowed_of false in Accept.v *)
Definition blip_disallowed : list bytes := [k_sync; k_id; k_rev; k_cv; k_deleted; k_revisions].

Definition visible (fixed : bool) (m : member) : bool := fixed || negb (mesc m).

Definition blip_rev_gen (fixed : bool) (b : list member) : outcome :=
  if existsb (fun m => mem (mkey m) blip_disallowed && visible fixed m) b then ORej 404
  else
    (* expiry: only when the raw text mentions _exp *)
    let e := match find_key k_exp b with
             | Some m => if visible fixed m then extract_expiry b else ExpAbsent
             | None => ExpAbsent
             end in
    match e with
    | ExpBad => ORej 400
    | _ =>
      let b1 := remove_keys (match e with ExpTaken => [k_exp] | _ => [] end) b in
      (* attachments: taken out of the body only when the raw text mentions them and the member is not null *)
      let b2 := match find_key k_attachments b1 with
                | Some m => if visible fixed m && negb (vk_eqb (mkind m) KNull)
                            then remove_keys [k_attachments] b1 else b1
                | None => b1
                end in
      match validate_new_body b2 with
      | Some s => ORej s
      | None => OStored (stored b2)
      end
    end.

(* import: the raw document is first unmarshalled with _sync as the (legacy, in-body) sync metadata -- a _sync
   member that is neither null nor an object makes that fail (500 on the read that triggered the import);
   then validateImportBody, then validateNewBody; a body carrying _sync is not an importable document.
   Refusals other than the first show as 404 on the triggering read. *)
Definition import_disallowed : list bytes := [k_id; k_rev; k_cv; k_exp; k_revisions].

Definition import_doc (b : list member) : outcome :=
  if match kind_of k_sync b with Some KNull | Some KObj | None => false | Some _ => true end then ORej 500
  else if existsb (fun m => mem (mkey m) import_disallowed) b then ORej 404
  else if has_key k_sync b then ORej 404
  else match validate_new_body b with
       | Some _ => ORej 404
       | None => OStored (stored b)
       end.

Definition write_gen (fixed : bool) (p : wpath) (b : list member) : outcome :=
  match p with
  | PPut => rest_put b
  | PBulk => db_put b
  | PBlip => blip_rev_gen fixed b
  | PImport => import_doc b
  end.

Definition write : wpath -> list member -> outcome := write_gen blip_check_fixed.
Definition write_unrepaired : wpath -> list member -> outcome := write_gen false.

(* ---------- the specification: what a client must not set, and what a path consumes ---------- *)
(* rejected on every path *)
Definition never_allowed (m : member) : bool :=
  (bytes_eqb (mkey m) k_removed && negb (vk_eqb (mkind m) KNull))
  || bytes_eqb (mkey m) k_purged
  || has_prefix k_sync_ (mkey m).

Definition must_not_set (p : wpath) (m : member) : bool :=
  never_allowed m ||
  match p with
  | PPut | PBulk => bytes_eqb (mkey m) k_sync
  | PBlip => mem (mkey m) blip_disallowed
  | PImport => mem (mkey m) import_disallowed || bytes_eqb (mkey m) k_sync
  end.

(* properties with a documented meaning on the path: taken out of the body and acted upon *)
Definition consumed (p : wpath) (m : member) : bool :=
  match p with
  | PPut | PBulk => mem (mkey m) [k_id; k_rev; k_cv; k_attachments; k_revisions; k_deleted]
                    || (bytes_eqb (mkey m) k_exp && vk_eqb (mkind m) KNum)
  | PBlip => (bytes_eqb (mkey m) k_exp && vk_eqb (mkind m) KNum)
             || (bytes_eqb (mkey m) k_attachments && negb (vk_eqb (mkind m) KNull))
  | PImport => false
  end.
