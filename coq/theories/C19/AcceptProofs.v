(* C19 -- proofs about Accept.v: what every entry point stores, for every request text *)
From SG Require Import Base.Prelude Base.Bytes C19.Json C19.Reserved C19.ReservedProofs C19.Accept.
Open Scope N_scope.

(* ================= the decoder's view of duplicates ================= *)
Section Dedupe.
  Context {A : Type} (key : A -> bytes).

  Lemma dedupe_k_In : forall l a, In a (dedupe_k key l) -> In a l.
  Proof.
    induction l as [|x l IH]; intros a H; [contradiction|]. cbn [dedupe_k] in H.
    destruct (mem (key x) (map key l)); [right; now apply IH|].
    destruct H as [->|H]; [now left|right; now apply IH].
  Qed.

  Lemma dedupe_k_keys : forall l k, In k (map key (dedupe_k key l)) <-> In k (map key l).
  Proof.
    induction l as [|x l IH]; intros k; [reflexivity|]. cbn [dedupe_k map].
    destruct (mem (key x) (map key l)) eqn:E.
    - rewrite IH. split; [now right|]. intros [<-|H]; [now apply mem_In|exact H].
    - cbn [map In]. now rewrite IH.
  Qed.

  Lemma dedupe_k_NoDup : forall l, NoDup (map key (dedupe_k key l)).
  Proof.
    induction l as [|x l IH]; [constructor|]. cbn [dedupe_k].
    destruct (mem (key x) (map key l)) eqn:E; [exact IH|]. cbn [map]. constructor; [|exact IH].
    rewrite dedupe_k_keys. intros H. apply mem_In in H. congruence.
  Qed.

  Lemma dedupe_k_id : forall l, NoDup (map key l) -> dedupe_k key l = l.
  Proof.
    induction l as [|x l IH]; intros H; [reflexivity|]. cbn [map] in H. inversion H as [|y ys Hn Hd]; subst.
    cbn [dedupe_k]. destruct (mem (key x) (map key l)) eqn:E; [apply mem_In in E; contradiction|]. now rewrite IH.
  Qed.

  (* the member of a name that survives is the last one: whatever follows it has another name *)
  Lemma dedupe_k_last : forall l1 a l2, ~ In (key a) (map key l2) -> In a (dedupe_k key (l1 ++ a :: l2)).
  Proof.
    induction l1 as [|x l1 IH]; intros a l2 H; cbn [app dedupe_k].
    - destruct (mem (key a) (map key l2)) eqn:E; [apply mem_In in E; contradiction|now left].
    - destruct (mem (key x) (map key (l1 ++ a :: l2))); [now apply IH|right; now apply IH].
  Qed.

  Lemma dedupe_k_app : forall l1 l2 a,
    In a (dedupe_k key (l1 ++ l2)) <->
    In a (dedupe_k key l2) \/ (In a (dedupe_k key l1) /\ ~ In (key a) (map key l2)).
  Proof.
    induction l1 as [|x l1 IH]; intros l2 a; cbn [app dedupe_k].
    - split; [now left|]. intros [H|[[] _]]. exact H.
    - rewrite map_app. destruct (mem (key x) (map key l1 ++ map key l2)) eqn:E.
      + apply mem_In in E. apply in_app_iff in E. rewrite IH.
        destruct (mem (key x) (map key l1)) eqn:E1; [reflexivity|].
        destruct E as [E|E]; [apply mem_In in E; congruence|].
        cbn [In]. split; [tauto|]. intros [H|[[<-|H] Hn]]; [now left|contradiction|right; now split].
      + assert (E1 : mem (key x) (map key l1) = false).
        { destruct (mem (key x) (map key l1)) eqn:E1; [|reflexivity]. apply mem_In in E1.
          assert (In (key x) (map key l1 ++ map key l2)) by (apply in_app_iff; now left). apply mem_In in H. congruence. }
        rewrite E1. cbn [In]. rewrite IH. split.
        * intros [<-|[H|H]]; [right; split; [now left|]|now left|right; split; [right|]; tauto].
          intros H. assert (In (key x) (map key l1 ++ map key l2)) by (apply in_app_iff; now right).
          apply mem_In in H0. congruence.
        * intros [H|[[<-|H] Hn]]; [right; now left|now left|right; right; now split].
  Qed.
End Dedupe.

Lemma dedupe_k_map {A B} (key : B -> bytes) (f : A -> B) : forall l,
  dedupe_k key (map f l) = map f (dedupe_k (fun a => key (f a)) l).
Proof.
  induction l as [|x l IH]; [reflexivity|]. cbn [map dedupe_k]. rewrite map_map.
  destruct (mem (key (f x)) (map (fun a => key (f a)) l)); [exact IH|]. cbn [map]. now rewrite IH.
Qed.

Lemma dedupe_NoDup : forall raw, NoDup (map mkey (dedupe raw)).
Proof. intros. apply dedupe_k_NoDup. Qed.

(* ================= new_edits=false ================= *)
Lemma remove_nil : forall b, remove_keys [] b = b.
Proof.
  intros b. unfold remove_keys. cbn [mem existsb negb]. induction b as [|x b IH]; [reflexivity|]. cbn [filter]. now rewrite IH.
Qed.

Lemma never_allowed_not_ne : forall m ks, never_allowed m = true ->
  (forall x, In x ks -> In x (k_exp :: ne_removed)) -> mem (mkey m) ks = false.
Proof.
  intros m ks Hna Hsub. eapply mem_sub; [|apply (never_allowed_key m Hna)].
  intros x Hx. apply Hsub in Hx. unfold ne_removed in Hx. cbn [In] in *. tauto.
Qed.

Lemma put_existing_rejects : forall b m, NoDup (map mkey b) -> In m b ->
  (never_allowed m || bytes_eqb (mkey m) k_sync) = true -> exists s, put_existing b = ORej s.
Proof.
  intros b m Hnd Hin Hm. unfold put_existing. apply orb_true_iff in Hm as [Hna|Hs].
  2:{ apply bytes_eqb_eq in Hs. rewrite <- Hs, (has_key_In b m Hin). eexists; reflexivity. }
  destruct (has_key k_sync b); [eexists; reflexivity|].
  assert (Hgo : forall l, (forall x, In x l -> x = k_exp) ->
            exists s, match validate_new_body (remove_keys (l ++ ne_removed) b) with
                      | Some s => ORej s
                      | None => if match kind_of k_deleted b with Some KTrue => true | _ => false end
                                then ODeleted else OStored (stored (remove_keys (l ++ ne_removed) b))
                      end = ORej s).
  { intros l Hl.
    assert (H1 : In m (remove_keys (l ++ ne_removed) b)).
    { apply remove_keys_In. split; [exact Hin|]. apply never_allowed_not_ne; [exact Hna|].
      intros x Hx. apply in_app_iff in Hx as [Hx|Hx]; [left; symmetry; now apply Hl|now right]. }
    destruct (validate_new_body_rejects _ m (remove_keys_NoDup _ b Hnd) H1 Hna) as [s ->]. eexists; reflexivity. }
  destruct (extract_expiry b); [apply Hgo; intros x []|apply Hgo; intros x []| |eexists; reflexivity].
  apply Hgo. intros x [<-|[]]. reflexivity.
Qed.

Lemma put_existing_stored : forall b st, NoDup (map mkey b) -> put_existing b = OStored st ->
  forall k v, In (k, v) st <-> exists e, In (k, v, e) b /\ consumed_ne (k, v, e) = false.
Proof.
  intros b st Hnd H k v. unfold put_existing in H.
  destruct (has_key k_sync b); [discriminate|].
  assert (Hbad : extract_expiry b <> ExpBad) by (intros Hx; rewrite Hx in H; discriminate).
  set (ks := (match extract_expiry b with ExpTaken => [k_exp] | _ => [] end) ++ ne_removed).
  assert (H' : match validate_new_body (remove_keys ks b) with
               | Some s => ORej s
               | None => if match kind_of k_deleted b with Some KTrue => true | _ => false end
                         then ODeleted else OStored (stored (remove_keys ks b))
               end = OStored st).
  { subst ks. destruct (extract_expiry b); try exact H. now contradiction Hbad. }
  clear H. rename H' into H.
  destruct (validate_new_body (remove_keys ks b)); [discriminate|].
  destruct (match kind_of k_deleted b with Some KTrue => true | _ => false end); [discriminate|].
  inversion H; subst st. clear H. rewrite stored_In.
  assert (Hiff : forall e, In (k, v, e) b -> (mem k ks = false <-> consumed_ne (k, v, e) = false)).
  { intros e Hin. unfold consumed_ne. cbn [mkey mkind fst snd].
    pose proof (kind_of_In b (k, v, e) Hnd Hin) as Hk. cbn [mkey mkind fst snd] in Hk.
    subst ks. unfold extract_expiry.
    destruct (bytes_eqb k k_exp) eqn:Ek.
    - apply bytes_eqb_eq in Ek. subst k. unfold extract_expiry in Hbad. rewrite Hk in *.
      destruct v; try (now contradiction Hbad); cbn [vk_eqb andb orb app]; vm_compute; split; congruence.
    - cbn [andb]. rewrite orb_false_r.
      assert (Hm : forall l, mem k (l ++ ne_removed) = mem k l || mem k ne_removed).
      { intros l. unfold mem. now rewrite existsb_app. }
      rewrite Hm. destruct (kind_of k_exp b) as [[]|]; cbn [mem existsb]; rewrite ?Ek; cbn [orb]; reflexivity. }
  split.
  - intros [e He]. apply remove_keys_In in He as [Hin Hmem]. cbn [mkey fst] in Hmem.
    exists e. split; [exact Hin|]. now apply (Hiff e Hin).
  - intros [e [Hin Hc]]. exists e. apply remove_keys_In. split; [exact Hin|]. cbn [mkey fst]. now apply (Hiff e Hin).
Qed.

(* ================= what accept stores ================= *)
Lemma lift_stored : forall vb o ms vb', lift vb o = RStored ms vb' -> o = OStored ms /\ vb' = vb.
Proof. intros vb [s|st|] ms vb' H; cbn in H; try discriminate. inversion H. now split. Qed.

Lemma accept_stored_obj : forall e t ms vb, accept e t = RStored ms vb -> exists raw tr, t = TObj raw tr.
Proof. intros e [| | |raw tr] ms vb H; [destruct e; discriminate..|]. now exists raw, tr. Qed.

(* the outcome of the write path underneath an entry point *)
Definition under (e : entry) (b : list member) : outcome :=
  match e with
  | EPut => rest_put b
  | EPost => post b
  | EBulk => db_put b
  | EPutNE => rest_put_ne b
  | EBulkNE => put_existing b
  | EBlip => blip_rev_gen true b
  | EImport | EImportFeed => import_doc b
  | EBlipDelta => ORej 400
  end.

Lemma accept_under : forall e raw tr ms vb, accept e (TObj raw tr) = RStored ms vb -> under e (dedupe raw) = OStored ms.
Proof.
  intros e raw tr ms vb H. destruct e; cbn [accept under] in *; try discriminate;
    try (destruct tr; [discriminate|]); try (destruct (import_guard raw); [discriminate|]);
    apply lift_stored in H as [H _]; exact H.
Qed.

Lemma under_rejects : forall e b m, NoDup (map mkey b) -> In m b ->
  (never_allowed m || match e with
                      | EBlip => mem (mkey m) blip_disallowed
                      | EImport | EImportFeed => mem (mkey m) import_disallowed || bytes_eqb (mkey m) k_sync
                      | _ => bytes_eqb (mkey m) k_sync
                      end) = true ->
  exists s, under e b = ORej s.
Proof.
  intros e b m Hnd Hin Hm. destruct e; cbn [under].
  - now apply (rest_put_rejects b m).
  - unfold post. destruct (nonnull k_rev b || nonnull k_cv b); [eexists; reflexivity|]. now apply (db_put_rejects b m).
  - now apply (db_put_rejects b m).
  - unfold rest_put_ne. destruct (match kind_of k_id b with Some KStr => true | _ => false end); [eexists; reflexivity|].
    now apply (put_existing_rejects b m).
  - now apply (put_existing_rejects b m).
  - now apply (blip_rejects b m).
  - eexists; reflexivity.
  - now apply (import_rejects b m).
  - now apply (import_rejects b m).
Qed.

Lemma under_stored : forall e b st, NoDup (map mkey b) -> under e b = OStored st ->
  forall k v, In (k, v) st <-> exists esc, In (k, v, esc) b /\ consumed_e e (k, v, esc) = false.
Proof.
  intros e b st Hnd H k v. destruct e; cbn [under] in H; unfold consumed_e; cbn [wpath_of].
  - now apply (write_stores_exactly PPut b st).
  - unfold post in H. destruct (nonnull k_rev b || nonnull k_cv b); [discriminate|].
    now apply (write_stores_exactly PBulk b st).
  - now apply (write_stores_exactly PBulk b st).
  - unfold rest_put_ne in H. destruct (match kind_of k_id b with Some KStr => true | _ => false end); [discriminate|].
    now apply put_existing_stored.
  - now apply put_existing_stored.
  - now apply (write_stores_exactly PBlip b st).
  - discriminate.
  - now apply (write_stores_exactly PImport b st).
  - now apply (write_stores_exactly PImport b st).
Qed.

Theorem accept_stored_exact : forall e raw tr ms vb, accept e (TObj raw tr) = RStored ms vb ->
  forall k v, In (k, v) ms <-> exists esc, In (k, v, esc) (dedupe raw) /\ consumed_e e (k, v, esc) = false.
Proof.
  intros e raw tr ms vb H. apply accept_under in H. apply under_stored; [apply dedupe_NoDup|exact H].
Qed.

(* which entry points keep the bytes *)
Lemma accept_verbatim : forall e raw tr ms, accept e (TObj raw tr) = RStored ms true ->
  e = EBlip \/ e = EImport \/ e = EImportFeed.
Proof.
  intros e raw tr ms H. destruct e; cbn [accept] in H; try discriminate; try (destruct tr; [discriminate|]);
    try (destruct (import_guard raw); [discriminate|]);
    try (apply lift_stored in H as [_ H]; discriminate); tauto.
Qed.

(* ================= no reserved member is ever stored ================= *)
Lemma reserved_everywhere_cases : forall k, reserved_everywhere k = true ->
  k = k_id \/ k = k_rev \/ k = k_revisions \/ k = k_cv \/ k = k_sync \/ k = k_purged \/ has_prefix k_sync_ k = true.
Proof.
  intros k H. unfold reserved_everywhere in H. apply orb_true_iff in H as [H|H]; [|tauto].
  apply mem_In in H. cbn [In] in H. intuition.
Qed.

Lemma never_allowed_purged : forall v e, never_allowed (k_purged, v, e) = true.
Proof. intros. unfold never_allowed. cbn [mkey mkind fst snd]. rewrite bytes_eqb_refl. now rewrite orb_true_r. Qed.

Lemma never_allowed_prefix : forall k v e, has_prefix k_sync_ k = true -> never_allowed (k, v, e) = true.
Proof. intros. unfold never_allowed. cbn [mkey mkind fst snd]. rewrite H. now rewrite orb_true_r. Qed.

(* a member with a name of the common reserved set is either refused or consumed, at every entry point *)
Lemma reserved_refused_or_consumed : forall e b m, NoDup (map mkey b) -> In m b -> reserved_everywhere (mkey m) = true ->
  (exists s, under e b = ORej s) \/ consumed_e e m = true.
Proof.
  intros e b [[k v] esc] Hnd Hin Hr. cbn [mkey fst] in Hr.
  destruct (reserved_everywhere_cases k Hr) as [->|[->|[->|[->|[->|[->|Hp]]]]]].
  - (* _id *) destruct e; try (right; reflexivity); left.
    + apply (under_rejects EBlip b _ Hnd Hin). cbn [mkey fst]. now rewrite orb_true_r.
    + apply (under_rejects EImport b _ Hnd Hin). cbn [mkey fst]. now rewrite orb_true_r.
    + apply (under_rejects EImportFeed b _ Hnd Hin). cbn [mkey fst]. now rewrite orb_true_r.
  - (* _rev *) destruct e; try (right; reflexivity); left.
    + apply (under_rejects EBlip b _ Hnd Hin). cbn [mkey fst]. now rewrite orb_true_r.
    + apply (under_rejects EImport b _ Hnd Hin). cbn [mkey fst]. now rewrite orb_true_r.
    + apply (under_rejects EImportFeed b _ Hnd Hin). cbn [mkey fst]. now rewrite orb_true_r.
  - (* _revisions *) destruct e; try (right; reflexivity); left.
    + apply (under_rejects EBlip b _ Hnd Hin). cbn [mkey fst]. now rewrite orb_true_r.
    + apply (under_rejects EImport b _ Hnd Hin). cbn [mkey fst]. now rewrite orb_true_r.
    + apply (under_rejects EImportFeed b _ Hnd Hin). cbn [mkey fst]. now rewrite orb_true_r.
  - (* _cv *) destruct e; try (right; reflexivity); left.
    + apply (under_rejects EBlip b _ Hnd Hin). cbn [mkey fst]. now rewrite orb_true_r.
    + apply (under_rejects EImport b _ Hnd Hin). cbn [mkey fst]. now rewrite orb_true_r.
    + apply (under_rejects EImportFeed b _ Hnd Hin). cbn [mkey fst]. now rewrite orb_true_r.
  - (* _sync *) left. apply (under_rejects e b _ Hnd Hin). cbn [mkey fst].
    destruct e; now rewrite ?bytes_eqb_refl, ?orb_true_r.
  - (* _purged *) left. apply (under_rejects e b _ Hnd Hin). now rewrite never_allowed_purged.
  - left. apply (under_rejects e b _ Hnd Hin). now rewrite (never_allowed_prefix k v esc Hp).
Qed.

Lemma stored_keys : forall (raw : list member) k, In k (map fst (stored raw)) <-> In k (map mkey raw).
Proof. intros. unfold stored. rewrite map_map. reflexivity. Qed.

Theorem stored_no_reserved : forall e t r tms tr, accept e t = r -> stored_text t r = Some (tms, tr) ->
  forall k, In k (map fst tms) -> reserved_everywhere k = false.
Proof.
  intros e t r tms tr Hr Hst k Hk. destruct (reserved_everywhere k) eqn:Hres; [exfalso|reflexivity].
  destruct r as [s| |ms vb|]; try discriminate.
  destruct (accept_stored_obj e t ms vb Hr) as [raw [tr0 ->]].
  pose proof (accept_under e raw tr0 ms vb Hr) as Hu.
  assert (Hkey : In k (map mkey (dedupe raw))).
  { destruct vb; cbn [stored_text] in Hst; inversion Hst; subst tms tr.
    - apply dedupe_k_keys. now apply stored_keys.
    - apply in_map_iff in Hk as [[k' v] [Hk' Hin]]. cbn [fst] in Hk'. subst k'.
      apply (accept_stored_exact e raw tr0 ms false Hr) in Hin as [esc [Hin _]].
      apply in_map_iff. now exists (k, v, esc). }
  apply in_map_iff in Hkey as [m [Hm Hin]]. subst k.
  destruct (reserved_refused_or_consumed e (dedupe raw) m (dedupe_NoDup raw) Hin Hres) as [[s Hs]|Hc]; [congruence|].
  (* consumed: then it is not among the stored members; and no entry point that keeps the bytes consumes it *)
  destruct m as [[k v] esc]. destruct vb.
  - destruct (accept_verbatim e raw tr0 ms Hr) as [-> | [-> | ->]]; cbn [mkey fst] in Hres;
      destruct (reserved_everywhere_cases k Hres) as [->|[->|[->|[->|[->|[->|Hp]]]]]];
      try (vm_compute in Hc; discriminate);
      unfold consumed_e in Hc; cbn [wpath_of consumed mkey mkind fst snd] in Hc.
    apply orb_true_iff in Hc as [Hc|Hc]; apply andb_true_iff in Hc as [Hc _]; apply bytes_eqb_eq in Hc; subst k; vm_compute in Hp; discriminate.
  - cbn [stored_text] in Hst. inversion Hst; subst tms tr. cbn [mkey fst] in Hk.
    apply in_map_iff in Hk as [[k' v'] [Hk' Hin']]. cbn [fst] in Hk'. subst k'.
    apply (accept_stored_exact e raw tr0 ms false Hr) in Hin' as [esc' [Hin' Hc']].
    assert (Heq : (k, v', esc') = (k, v, esc)).
    { pose proof (find_key_In (dedupe raw) (k, v', esc') (dedupe_NoDup raw) Hin') as F1.
      pose proof (find_key_In (dedupe raw) (k, v, esc) (dedupe_NoDup raw) Hin) as F2.
      cbn [mkey fst] in F1, F2. congruence. }
    rewrite Heq in Hc'. congruence.
Qed.

(* _removed survives only as null *)
Theorem stored_removed_null : forall e raw tr ms vb, accept e (TObj raw tr) = RStored ms vb ->
  forall v, In (k_removed, v) ms -> v = KNull.
Proof.
  intros e raw tr ms vb H v Hin. pose proof (accept_under e raw tr ms vb H) as Hu.
  apply (accept_stored_exact e raw tr ms vb H) in Hin as [esc [Hin _]].
  destruct v; try reflexivity;
    (destruct (under_rejects e (dedupe raw) _ (dedupe_NoDup raw) Hin) as [s Hs]; [reflexivity|congruence]).
Qed.

(* ================= user data always passes ================= *)
Lemma consumed_e_underscore : forall e m, consumed_e e m = true -> exists r, mkey m = c_underscore :: r.
Proof.
  intros e m H. unfold consumed_e in H. destruct (wpath_of e) as [p|].
  - apply (consumed_is_underscore p m). now rewrite H.
  - unfold consumed_ne in H. apply orb_true_iff in H as [H|H].
    + apply mem_In in H. unfold ne_removed in H. cbn [In] in H.
      repeat (destruct H as [H|H]; [rewrite <- H; eexists; reflexivity|]). contradiction.
    + apply andb_true_iff in H as [H _]. apply bytes_eqb_eq in H. rewrite H. eexists; reflexivity.
Qed.

Theorem user_keys_stored : forall e raw tr ms vb, accept e (TObj raw tr) = RStored ms vb ->
  forall k v esc, In (k, v, esc) (dedupe raw) -> (forall r, k <> c_underscore :: r) -> In (k, v) ms.
Proof.
  intros e raw tr ms vb H k v esc Hin Hu. apply (accept_stored_exact e raw tr ms vb H). exists esc. split; [exact Hin|].
  destruct (consumed_e e (k, v, esc)) eqn:E; [|reflexivity].
  destruct (consumed_e_underscore e _ E) as [r Hr]. cbn [mkey fst] in Hr. now apply Hu in Hr.
Qed.

(* and nothing is invented: every stored member was written *)
Theorem stored_was_written : forall e raw tr ms vb, accept e (TObj raw tr) = RStored ms vb ->
  forall k v, In (k, v) ms -> exists esc, In (k, v, esc) raw.
Proof.
  intros e raw tr ms vb H k v Hin. apply (accept_stored_exact e raw tr ms vb H) in Hin as [esc [Hin _]].
  exists esc. now apply (dedupe_k_In mkey raw).
Qed.

(* ================= the read-injected names that do get stored: the exact table ================= *)
Lemma db_put_exp : forall b st, db_put b = OStored st -> extract_expiry b <> ExpBad.
Proof.
  intros b st H. unfold db_put in H.
  destruct (match kind_of k_rev b with Some KStr => true | _ => false end); [discriminate|].
  destruct (extract_expiry b); congruence.
Qed.

Lemma put_existing_exp : forall b st, put_existing b = OStored st -> extract_expiry b <> ExpBad.
Proof.
  intros b st H Hx. unfold put_existing in H. destruct (has_key k_sync b); [discriminate|]. rewrite Hx in H. discriminate.
Qed.

Lemma blip_exp : forall b st, blip_rev_gen true b = OStored st -> extract_expiry b <> ExpBad.
Proof.
  intros b st H. unfold blip_rev_gen in H. destruct (existsb _ b); [discriminate|].
  unfold extract_expiry in *. unfold kind_of in *. destruct (find_key k_exp b) as [me|]; [|cbn; congruence].
  cbn [visible orb option_map] in *. destruct (mkind me); congruence.
Qed.

Lemma exp_kind : forall b v esc, NoDup (map mkey b) -> In (k_exp, v, esc) b -> extract_expiry b <> ExpBad ->
  v = KNull \/ v = KNum.
Proof.
  intros b v esc Hnd Hin H. unfold extract_expiry in H.
  pose proof (kind_of_In b _ Hnd Hin) as Hk. cbn [mkey mkind fst snd] in Hk. rewrite Hk in H.
  destruct v; try tauto; now contradiction H.
Qed.

Theorem stored_read_key_is_leak : forall e raw tr ms vb, accept e (TObj raw tr) = RStored ms vb ->
  forall k v, In (k, v) ms -> In k read_keys -> leak e k v = true.
Proof.
  intros e raw tr ms vb H k v Hin Hk.
  pose proof (accept_under e raw tr ms vb H) as Hu.
  pose proof (dedupe_NoDup raw) as Hnd.
  apply (accept_stored_exact e raw tr ms vb H) in Hin as [esc [Hin Hc]].
  assert (Hrej : forall c : bool, c = true ->
            (never_allowed (k, v, esc) || match e with
                      | EBlip => mem k blip_disallowed
                      | EImport | EImportFeed => mem k import_disallowed || bytes_eqb k k_sync
                      | _ => bytes_eqb k k_sync
                      end) = c -> False).
  { intros c -> Hm. destruct (under_rejects e (dedupe raw) _ Hnd Hin Hm) as [s Hs]. congruence. }
  unfold read_keys in Hk. cbn [In] in Hk.
  destruct Hk as [<-|[<-|[<-|[<-|[<-|[<-|[<-|[]]]]]]]].
  - (* _id *) destruct e; try (vm_compute in Hc; discriminate); try discriminate;
      exfalso; (eapply Hrej; [reflexivity|]); cbn [mem existsb]; now rewrite ?bytes_eqb_refl, ?orb_true_r.
  - (* _rev *) destruct e; try (vm_compute in Hc; discriminate); try discriminate;
      exfalso; (eapply Hrej; [reflexivity|]); vm_compute; now rewrite ?orb_true_r.
  - (* _revisions *) destruct e; try (vm_compute in Hc; discriminate); try discriminate;
      exfalso; (eapply Hrej; [reflexivity|]); vm_compute; now rewrite ?orb_true_r.
  - (* _exp *)
    destruct e; cbn [under] in Hu; try discriminate.
    + unfold rest_put in Hu. destruct (match kind_of k_id (dedupe raw) with Some KStr => true | _ => false end); [discriminate|].
      match type of Hu with (if ?c then _ else _) = _ => destruct c end; [discriminate|].
      destruct (exp_kind _ v esc Hnd Hin (db_put_exp _ _ Hu)) as [-> | ->]; [reflexivity|vm_compute in Hc; discriminate].
    + unfold post in Hu. destruct (nonnull k_rev (dedupe raw) || nonnull k_cv (dedupe raw)); [discriminate|].
      destruct (exp_kind _ v esc Hnd Hin (db_put_exp _ _ Hu)) as [-> | ->]; [reflexivity|vm_compute in Hc; discriminate].
    + destruct (exp_kind _ v esc Hnd Hin (db_put_exp _ _ Hu)) as [-> | ->]; [reflexivity|vm_compute in Hc; discriminate].
    + unfold rest_put_ne in Hu. destruct (match kind_of k_id (dedupe raw) with Some KStr => true | _ => false end); [discriminate|].
      destruct (exp_kind _ v esc Hnd Hin (put_existing_exp _ _ Hu)) as [->| ->]; [reflexivity|vm_compute in Hc; discriminate].
    + destruct (exp_kind _ v esc Hnd Hin (put_existing_exp _ _ Hu)) as [->| ->]; [reflexivity|vm_compute in Hc; discriminate].
    + destruct (exp_kind _ v esc Hnd Hin (blip_exp _ _ Hu)) as [-> | ->]; [reflexivity|vm_compute in Hc; discriminate].
    + exfalso. eapply Hrej; [reflexivity|]. vm_compute. now rewrite ?orb_true_r.
    + exfalso. eapply Hrej; [reflexivity|]. vm_compute. now rewrite ?orb_true_r.
  - (* _cv *) destruct e; try (vm_compute in Hc; discriminate); try discriminate;
      exfalso; (eapply Hrej; [reflexivity|]); vm_compute; now rewrite ?orb_true_r.
  - (* _deleted *) destruct e; try (vm_compute in Hc; discriminate); try discriminate;
      try (exfalso; (eapply Hrej; [reflexivity|]); vm_compute; now rewrite ?orb_true_r);
      unfold leak; cbn [mem existsb]; rewrite ?bytes_eqb_refl; now rewrite ?orb_true_r.
  - (* _attachments *) destruct e; try (vm_compute in Hc; discriminate); try discriminate.
    + destruct v; try (vm_compute in Hc; discriminate). reflexivity.
    + unfold leak; cbn [mem existsb]; rewrite ?bytes_eqb_refl; now rewrite ?orb_true_r.
    + unfold leak; cbn [mem existsb]; rewrite ?bytes_eqb_refl; now rewrite ?orb_true_r.
Qed.

(* a body without any of the read-injected names stores none of them (sufficient condition used by the round trip) *)
Corollary no_read_key_in_no_read_key_out : forall e raw tr ms vb, accept e (TObj raw tr) = RStored ms vb ->
  (forall k, In k (map mkey raw) -> ~ In k read_keys) ->
  forall k, In k (map fst ms) -> ~ In k read_keys.
Proof.
  intros e raw tr ms vb H Hclean k Hk. apply in_map_iff in Hk as [[k' v] [Hk' Hin]]. cbn [fst] in Hk'. subst k'.
  destruct (stored_was_written e raw tr ms vb H k v Hin) as [esc Hraw]. apply Hclean.
  apply in_map_iff. now exists (k, v, esc).
Qed.

(* ================= non-objects ================= *)
Theorem nonobject_never_stored : forall e t, (t = TInvalid \/ t = TNonObj \/ t = TNull) -> exists s, accept e t = RRej s.
Proof.
  intros e t [->|[->| ->]]; destruct e; cbn [accept]; eexists; reflexivity.
Qed.

(* no request text makes a handler panic *)
Theorem never_panics : forall e t, accept e t <> RPanic.
Proof.
  intros e t H. destruct t as [| | |raw tr].
  - destruct e; discriminate.
  - destruct e; discriminate.
  - destruct e; discriminate.
  - destruct e; cbn [accept] in H; try discriminate; try (destruct tr; [discriminate|]);
      try (destruct (import_guard raw); [discriminate|]);
      match type of H with lift _ ?o = _ => destruct o; discriminate end.
Qed.

(* ================= bytes after the object ================= *)
(* no gateway entry point stores bytes after the object; the only stored text that has them is one an SDK wrote and
   the on-demand import adopted without rewriting it *)
Theorem trailing_stored_only_import : forall e t r tms, accept e t = r -> stored_text t r = Some (tms, true) -> e = EImport.
Proof.
  intros e t r tms Hr Hst. destruct r as [s| |ms vb|]; try discriminate. destruct vb.
  - destruct (accept_stored_obj e t ms true Hr) as [raw [tr ->]]. cbn [stored_text] in Hst. inversion Hst; subst.
    destruct (accept_verbatim e raw true ms Hr) as [-> | [-> | ->]]; [|reflexivity|]; cbn [accept] in Hr; discriminate.
  - destruct t; cbn in Hst; inversion Hst.
Qed.

(* ================= the BLIP delta branch (EE) ================= *)
Lemma blip_rev_chk_visible : forall fixed b, blip_rev_gen fixed b = blip_rev_chk blip_disallowed (visible fixed) b.
Proof. reflexivity. Qed.

Lemma blip_rev_chk_stored : forall dis chk b st, blip_rev_chk dis chk b = OStored st ->
  forall k v, In (k, v) st -> exists esc, In (k, v, esc) b /\ (mem k dis = true -> chk (k, v, esc) = false).
Proof.
  intros dis chk b st H k v Hin. unfold blip_rev_chk in H.
  destruct (existsb (fun m => mem (mkey m) dis && chk m) b) eqn:Hex; [discriminate|].
  assert (Hsub : exists esc, In (k, v, esc) b).
  { revert H.
    destruct (match find_key k_exp b with Some m => if chk m then extract_expiry b else ExpAbsent | None => ExpAbsent end);
      try discriminate;
    match goal with |- context[validate_new_body ?b2] => destruct (validate_new_body b2); [discriminate|] end;
    intros H; inversion H; subst st; apply stored_In in Hin as [esc Hin]; exists esc;
    repeat match type of Hin with
           | In _ (match ?x with Some _ => _ | None => _ end) => destruct x
           | In _ (if ?c then _ else _) => destruct c
           | In _ (remove_keys _ _) => apply remove_keys_In in Hin as [Hin _]
           end; exact Hin. }
  destruct Hsub as [esc Hb]. exists esc. split; [exact Hb|]. intros Hdis.
  destruct (chk (k, v, esc)) eqn:E; [|reflexivity]. exfalso.
  assert (existsb (fun m => mem (mkey m) dis && chk m) b = true).
  { apply existsb_exists. exists (k, v, esc). split; [exact Hb|]. cbn [mkey fst]. now rewrite Hdis, E. }
  congruence.
Qed.

(* a delta cannot introduce a property validateBlipBody refuses: whatever such member is stored was already in the
   source body, untouched, and is not mentioned by the delta *)
Theorem delta_introduces_no_disallowed : forall src delta st,
  blip_delta_ee src delta = OStored st ->
  forall k v, In (k, v) st -> mem k blip_disallowed = true -> In (k, v) src /\ ~ In k (map mkey delta).
Proof.
  intros src delta st H k v Hin Hdis. unfold blip_delta_ee in H.
  destruct (blip_rev_chk_stored _ _ _ _ H k v Hin) as [esc [Hb Hn]]. specialize (Hn Hdis). cbn [mkey fst] in Hn.
  apply orb_false_iff in Hn as [_ Hnm].
  assert (Hnk : ~ In k (map mkey (dedupe delta))) by (intros Hk; apply mem_In in Hk; congruence).
  split.
  - unfold patched in Hb. apply in_app_iff in Hb as [Hb|Hb].
    + apply in_map_iff in Hb as [[k' v'] [He Hf]]. cbn [fst snd] in He. inversion He; subst.
      now apply filter_In in Hf as [Hf _].
    + exfalso. apply Hnk. apply in_map_iff. now exists (k, v, esc).
  - intros Hk. apply Hnk. now apply dedupe_k_keys.
Qed.

(* ================= the switches ================= *)
Theorem accept_gen_repaired : forall e t, accept_gen repaired e t = accept e t.
Proof. intros e t. destruct e, t as [| | |raw tr]; try reflexivity; destruct tr; try reflexivity; destruct (import_guard raw); reflexivity. Qed.
