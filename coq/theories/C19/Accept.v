(* C19 -- every write entry point as ONE function  accept : entry -> top -> result.

   What reaches an entry point is a request text.  The JSON decoder (encoding/json, Decoder.Decode with
   UseNumber into db.Body = map[string]any) turns it into one of four shapes, and that is all the code
   below it can see:
     TInvalid       a syntax error inside the first JSON value
     TNonObj        array, string, number, true, false        (cannot be decoded into a map)
     TNull          the literal null                           (decodes into a nil map WITHOUT error)
     TObj raw tr    an object; [raw] are its members in text order -- duplicate keys are possible, each
                    with its decoded key, the kind of its value and whether the key text used a \u escape --
                    and [tr] says that non-whitespace bytes FOLLOW the object (Decoder.Decode reads one
                    value and never looks at the rest).
   A duplicate key is resolved by the decoder: the LAST member wins ([dedupe]); the code never sees the
   shadowed members, but an entry point that keeps the bytes as received (BLIP rev, import) stores them.

   Entry points (transcribed from rest/doc_api.go, rest/bulk_api.go, db/crud.go, db/blip_handler.go,
   db/import.go; the four paths of Reserved.v are reused unchanged):
     EPut        PUT /ks/doc                       handlePutDoc -> getOCCValue -> db.Put
     EPost       POST /ks/                         handlePostDoc -> db.Post -> db.Put
     EBulk       POST /ks/_bulk_docs               handleBulkDocs (new_edits absent/true) -> db.Put, _id = addressing member
     EPutNE      PUT /ks/doc?new_edits=false       handlePutDoc -> PutExistingRevWithBody (addressed by _revisions)
     EBulkNE     _bulk_docs {"new_edits":false}    handleBulkDocs -> PutExistingRevWithBody
     EBlip       BLIP rev, full body               processRev
     EBlipDelta  BLIP rev with deltaSrc            processRev; in this (CE) build sgCanUseDeltas = false: 400 before
                                                   the body is looked at.  The EE branch is [blip_delta_ee] below.
     EImport     SDK write + on-demand import      OnDemandImportForGet -> ImportDocRaw -> importDoc (body never rewritten)
     EImportFeed SDK write + import feed           importListener -> ImportDocRaw (same checks; no status to observe)
   In the cases of an addressed entry point (EBulk: _id; EPutNE, EBulkNE: _revisions and, for EBulkNE, _id) the
   addressing members are NOT part of [raw]. *)
From Coq Require Import String.
From SG Require Import Base.Prelude Base.Bytes C19.Json C19.Reserved.
Open Scope N_scope.

Inductive entry := EPut | EPost | EBulk | EPutNE | EBulkNE | EBlip | EBlipDelta | EImport | EImportFeed.

Inductive top :=
| TInvalid
| TNonObj
| TNull
| TObj (raw : list member) (trailing : bool).

Inductive result :=
| RRej (status : N)                              (* refused with this status; nothing stored *)
| RPanic                                         (* the handler panics (nil map assignment) *)
| RStored (ms : list (bytes * vk)) (verbatim : bool)
    (* accepted.  ms: the stored body as a decoder sees it (distinct keys).  verbatim = true: the stored bytes
       are the request text as received -- shadowed duplicates, whitespace, escapes and trailing bytes included;
       false: the bytes are json.Marshal of the decoded map (sorted distinct keys, no whitespace, nothing after
       the closing brace) *)
| RTombstone.                                    (* accepted as a deletion; no body kept *)

(* ---------- the decoder's view of duplicate keys: the last member wins ---------- *)
Fixpoint dedupe_k {A} (key : A -> bytes) (l : list A) : list A :=
  match l with
  | [] => []
  | a :: r => if mem (key a) (map key r) then dedupe_k key r else a :: dedupe_k key r
  end.

Definition dedupe : list member -> list member := dedupe_k mkey.

(* bytes.Contains on a key *)
Fixpoint contains_sub (p l : bytes) : bool :=
  has_prefix p l || match l with [] => false | _ :: r => contains_sub p r end.

(* ---------- db.Post in front of db.Put ---------- *)
Definition nonnull (k : bytes) (b : list member) : bool :=
  match kind_of k b with Some KNull | None => false | Some _ => true end.

Definition post (b : list member) : outcome :=
  if nonnull k_rev b || nonnull k_cv b then ORej 404          (* "No previous revision to replace" *)
  else db_put b.

(* ---------- PutExistingRevWithBody (new_edits=false) ----------
   validateAPIDocUpdate first; [expiry, _ := body.ExtractExpiry()] -- the error is dropped, so an _exp that is
   not a valid expiry stays in the body; ExtractDeleted / ExtractRev delete the member whatever its value;
   _id, _revisions, _attachments are deleted; _cv is not looked at.  validateNewBody runs in prepareSyncFn. *)
Definition ne_removed : list bytes := [k_deleted; k_rev; k_id; k_revisions; k_attachments].

Definition put_existing (b : list member) : outcome :=
  if has_key k_sync b then ORej 400
  else
    let b1 := remove_keys ((match extract_expiry b with ExpTaken => [k_exp] | _ => [] end) ++ ne_removed) b in
    match validate_new_body b1 with
    | Some s => ORej s
    | None => if match kind_of k_deleted b with Some KTrue => true | _ => false end
              then ODeleted else OStored (stored b1)
    end.

(* handlePutDoc in front of it: the _id member must be the path's document id *)
Definition rest_put_ne (b : list member) : outcome :=
  if match kind_of k_id b with Some KStr => true | _ => false end then ORej 400
  else put_existing b.

(* ---------- BLIP rev: are the stored bytes the received ones? ----------
   processRev keeps newDoc._rawBody = bodyBytes unless one of its raw-text shortcuts fires and it calls
   newDoc.UpdateBody(body): a backslash anywhere, the substring _exp anywhere (then always), the substring
   _attachments together with a non-nil decoded _attachments member. *)
Definition blip_remarshals (raw : list member) : bool :=
  existsb mesc raw
  || existsb (fun m => contains_sub k_exp (mkey m)) raw
  || (existsb (fun m => contains_sub k_attachments (mkey m)) raw && nonnull k_attachments (dedupe raw)).

Definition lift (verbatim : bool) (o : outcome) : result :=
  match o with
  | ORej s => RRej s
  | OStored st => RStored st verbatim
  | ODeleted => RTombstone
  end.

Definition is_bulk (e : entry) : bool := match e with EBulk | EBulkNE => true | _ => false end.

Definition accept (e : entry) (t : top) : result :=
  match e, t with
  | EBlipDelta, _ => RRej 400                                   (* "Deltas are disabled for this peer" *)
  (* a text that is not a JSON value *)
  | (EBlip), TInvalid => RRej 500                               (* GetDeepMutableBody: "Unable to unmarshal" *)
  | _, TInvalid => RRej 400                                     (* REST: "Bad JSON"; import: "Invalid JSON" *)
  (* array, string, number, boolean *)
  | (EBlip | EImport | EImportFeed), TNonObj => RRej 500
  | _, TNonObj => RRej 400
  (* null decodes into a nil map without error *)
  | (EPost | EBlip), TNull => RPanic                            (* prepareSyncFn: mutableBody[BodyId] = ... on a nil map *)
  | (EImport | EImportFeed), TNull => RRej 404                  (* ErrEmptyDocument, shown as not found *)
  | _, TNull => RRej 400                                        (* handlePutDoc: ErrEmptyDocument; _bulk_docs: "must be JSON" *)
  | _, TObj raw tr =>
      let b := dedupe raw in
      match e with
      | EPut => lift false (rest_put b)                         (* bytes after the object are never read *)
      | EPost => lift false (post b)
      | EBulk => if tr then RRej 400 else lift false (db_put b) (* the element sits inside the docs array *)
      | EPutNE => lift false (rest_put_ne b)
      | EBulkNE => if tr then RRej 400 else lift false (put_existing b)
      | EBlip => lift (negb (blip_remarshals raw)) (blip_rev_gen blip_check_fixed b)
      | EImport => lift true (import_doc b)
      | EImportFeed => if tr then RRej 404 else lift true (import_doc b)   (* the feed skips a value that is not JSON *)
      | EBlipDelta => RRej 400
      end
  end.

(* the members of the stored text, in text order, and whether bytes follow the object *)
Definition stored_text (t : top) (r : result) : option (list (bytes * vk) * bool) :=
  match r, t with
  | RStored _ true, TObj raw tr => Some (stored raw, tr)
  | RStored ms false, _ => Some (ms, false)
  | _, _ => None
  end.

(* ---------- what each entry point takes out of the body ---------- *)
Definition wpath_of (e : entry) : option wpath :=
  match e with
  | EPut | EPost => Some PPut
  | EBulk => Some PBulk
  | EBlip => Some PBlip
  | EImport | EImportFeed => Some PImport
  | EPutNE | EBulkNE | EBlipDelta => None
  end.

Definition consumed_ne (m : member) : bool :=
  mem (mkey m) ne_removed || (bytes_eqb (mkey m) k_exp && vk_eqb (mkind m) KNum).

Definition consumed_e (e : entry) (m : member) : bool :=
  match wpath_of e with
  | Some p => consumed p m
  | None => consumed_ne m
  end.

(* the keys no entry point ever stores -- the exact common set *)
Definition reserved_everywhere (k : bytes) : bool :=
  mem k [k_id; k_rev; k_revisions; k_sync; k_purged] || has_prefix k_sync_ k.

(* the properties the read paths add; a stored member with one of these names can be shadowed or duplicated *)
Definition read_keys : list bytes := [k_id; k_rev; k_revisions; k_exp; k_cv; k_deleted; k_attachments].

(* which of them an entry point lets into the stored body (decoded view), and with which value kinds *)
Definition leak (e : entry) (k : bytes) (v : vk) : bool :=
  (bytes_eqb k k_exp && vk_eqb v KNull && negb (match e with EImport | EImportFeed | EBlipDelta => true | _ => false end))
  || match e with
     | EPutNE | EBulkNE => (bytes_eqb k k_exp && negb (vk_eqb v KNum)) || bytes_eqb k k_cv
     | EBlip => bytes_eqb k k_cv || (bytes_eqb k k_attachments && vk_eqb v KNull)
     | EImport | EImportFeed => mem k [k_cv; k_deleted; k_attachments]
     | _ => false
     end.

(* ---------- BLIP rev with deltaSrc, EE build (not compiled here; model only) ----------
   The delta is a JSON object; base.Patch sets its top-level members on the source body (a deletion can only take
   members away and is left out).  validateBlipBody and the _exp/_attachments shortcuts look at the raw DELTA text:
   a member that comes from the source body is inspected only if the delta text contains a backslash or mentions
   the name. *)
Definition blip_rev_chk (chk : member -> bool) (b : list member) : outcome :=
  if existsb (fun m => mem (mkey m) blip_disallowed && chk m) b then ORej 404
  else
    let e := match find_key k_exp b with
             | Some m => if chk m then extract_expiry b else ExpAbsent
             | None => ExpAbsent
             end in
    match e with
    | ExpBad => ORej 400
    | _ =>
      let b1 := remove_keys (match e with ExpTaken => [k_exp] | _ => [] end) b in
      let b2 := match find_key k_attachments b1 with
                | Some m => if chk m && negb (vk_eqb (mkind m) KNull)
                            then remove_keys [k_attachments] b1 else b1
                | None => b1
                end in
      match validate_new_body b2 with
      | Some s => ORej s
      | None => OStored (stored b2)
      end
    end.

Definition patched (src : list (bytes * vk)) (delta : list member) : list member :=
  map (fun kv => (fst kv, snd kv, false)) (filter (fun kv => negb (mem (fst kv) (map mkey delta))) src) ++ delta.

Definition blip_delta_ee (src : list (bytes * vk)) (delta_raw : list member) : outcome :=
  let delta := dedupe delta_raw in
  blip_rev_chk (fun m => existsb mesc delta_raw || mem (mkey m) (map mkey delta)) (patched src delta).
