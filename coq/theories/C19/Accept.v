(* C19 -- every write entry point as ONE function  accept : entry -> top -> result.

   What reaches an entry point is a request text.  The JSON decoder (encoding/json, Decoder.Decode with
   UseNumber into db.Body = map[string]any) turns it into one of four shapes, and that is all the code
   below it can see:
     TInvalid       a syntax error inside the first JSON value
     TNonObj        array, string, number, true, false        (cannot be decoded into a map)
     TNull          the literal null                           (decodes into a nil map WITHOUT error)
     TObj raw tr    an object; [raw] are its members in text order -- duplicate keys are possible, each
                    with its decoded key, the kind of its value and whether the key text used a \u escape --
                    and [tr] says that non-whitespace bytes FOLLOW the object (Decoder.Decode reads one
                    value and never looks at the rest).
   A duplicate key is resolved by the decoder: the LAST member wins ([dedupe]); the code never sees the
   shadowed members, but an entry point that keeps the bytes as received (BLIP rev, import) stores them.

   Entry points (transcribed from rest/doc_api.go, rest/bulk_api.go, db/crud.go, db/blip_handler.go,
   db/import.go; the four paths of Reserved.v are reused unchanged):
     EPut        PUT /ks/doc                       handlePutDoc -> getOCCValue -> db.Put
     EPost       POST /ks/                         handlePostDoc -> db.Post -> db.Put
     EBulk       POST /ks/_bulk_docs               handleBulkDocs (new_edits absent/true) -> db.Put, _id = addressing member
     EPutNE      PUT /ks/doc?new_edits=false       handlePutDoc -> PutExistingRevWithBody (addressed by _revisions)
     EBulkNE     _bulk_docs {"new_edits":false}    handleBulkDocs -> PutExistingRevWithBody
     EBlip       BLIP rev, full body               processRev
     EBlipDelta  BLIP rev with deltaSrc            processRev; in this (CE) build sgCanUseDeltas = false: 400 before
                                                   the body is looked at.  The EE branch is [blip_delta_ee] below.
     EImport     SDK write + on-demand import      OnDemandImportForGet -> ImportDocRaw -> importDoc (body never rewritten)
     EImportFeed SDK write + import feed           importListener -> ImportDocRaw (same checks; no status to observe)
   In the cases of an addressed entry point (EBulk: _id; EPutNE, EBulkNE: _revisions and, for EBulkNE, _id) the
   addressing members are NOT part of [raw]. *)
From Coq Require Import String.
From SG Require Import Base.Prelude Base.Bytes C19.Json C19.Reserved.
Open Scope N_scope.

Inductive entry := EPut | EPost | EBulk | EPutNE | EBulkNE | EBlip | EBlipDelta | EImport | EImportFeed.

Inductive top :=
| TInvalid
| TNonObj
| TNull
| TObj (raw : list member) (trailing : bool).

Inductive result :=
| RRej (status : N)                              (* refused with this status; nothing stored *)
| RPanic                                         (* the handler panics (nil map assignment): only the tree as found, see accept_gen *)
| RStored (ms : list (bytes * vk)) (verbatim : bool)
    (* accepted.  ms: the stored body as a decoder sees it (distinct keys).  verbatim = true: the stored bytes
       are the request text as received -- shadowed duplicates, whitespace, escapes and trailing bytes included;
       false: the bytes are json.Marshal of the decoded map (sorted distinct keys, no whitespace, nothing after
       the closing brace) *)
| RTombstone.                                    (* accepted as a deletion; no body kept *)

(* ---------- the decoder's view of duplicate keys: the last member wins ---------- *)
Fixpoint dedupe_k {A} (key : A -> bytes) (l : list A) : list A :=
  match l with
  | [] => []
  | a :: r => if mem (key a) (map key r) then dedupe_k key r else a :: dedupe_k key r
  end.

Definition dedupe : list member -> list member := dedupe_k mkey.

(* bytes.Contains on a key *)
Fixpoint contains_sub (p l : bytes) : bool :=
  has_prefix p l || match l with [] => false | _ :: r => contains_sub p r end.

(* ---------- db.Post in front of db.Put ---------- *)
Definition nonnull (k : bytes) (b : list member) : bool :=
  match kind_of k b with Some KNull | None => false | Some _ => true end.

Definition post (b : list member) : outcome :=
  if nonnull k_rev b || nonnull k_cv b then ORej 404          (* "No previous revision to replace" *)
  else db_put b.

(* ---------- PutExistingRevWithBody (new_edits=false) ----------
   validateAPIDocUpdate first; ExtractExpiry -- an _exp that is not an expiry is refused with 400 (repair d54ae5f; as
   found the error was dropped and the member stayed in the body); ExtractDeleted / ExtractRev delete the member
   whatever its value; _cv (repair d51088e), _id, _revisions, _attachments are deleted.  validateNewBody runs in
   prepareSyncFn. *)
Definition ne_removed : list bytes := [k_deleted; k_rev; k_cv; k_id; k_revisions; k_attachments].

Definition put_existing (b : list member) : outcome :=
  if has_key k_sync b then ORej 400
  else match extract_expiry b with
  | ExpBad => ORej 400
  | e =>
    let b1 := remove_keys ((match e with ExpTaken => [k_exp] | _ => [] end) ++ ne_removed) b in
    match validate_new_body b1 with
    | Some s => ORej s
    | None => if match kind_of k_deleted b with Some KTrue => true | _ => false end
              then ODeleted else OStored (stored b1)
    end
  end.

(* handlePutDoc in front of it: the _id member must be the path's document id *)
Definition rest_put_ne (b : list member) : outcome :=
  if match kind_of k_id b with Some KStr => true | _ => false end then ORej 400
  else put_existing b.

(* ---------- BLIP rev: are the stored bytes the received ones? ----------
   processRev keeps newDoc._rawBody = bodyBytes unless one of its raw-text shortcuts fires and it calls
   newDoc.UpdateBody(body): a backslash anywhere, the substring _exp anywhere (then always), the substring
   _attachments together with a non-nil decoded _attachments member. *)
Definition blip_remarshals (raw : list member) : bool :=
  existsb mesc raw
  || existsb (fun m => contains_sub k_exp (mkey m)) raw
  || (existsb (fun m => contains_sub k_attachments (mkey m)) raw && nonnull k_attachments (dedupe raw)).

Definition lift (verbatim : bool) (o : outcome) : result :=
  match o with
  | ORej s => RRej s
  | OStored st => RStored st verbatim
  | ODeleted => RTombstone
  end.

(* import: the raw document is decoded into a struct whose _sync field is the sync metadata; encoding/json visits EVERY
   member of that name, so a shadowed _sync that is neither null nor an object fails the decoding as well (500) *)
Definition import_guard (raw : list member) : bool :=
  existsb (fun m => bytes_eqb (mkey m) k_sync && match mkind m with KNull | KObj => false | _ => true end) raw.

Definition is_bulk (e : entry) : bool := match e with EBulk | EBulkNE => true | _ => false end.

Definition accept (e : entry) (t : top) : result :=
  match e, t with
  | EBlipDelta, _ => RRej 400                                   (* "Deltas are disabled for this peer" (a body that is not
                                                                   JSON is refused just before, with 400 as well) *)
  (* a text that is not a JSON value: REST "Bad JSON"; BLIP json.Valid (repair b5cfb32); import "Invalid JSON" *)
  | _, TInvalid => RRej 400
  (* array, string, number, boolean *)
  | (EBlip | EImport | EImportFeed), TNonObj => RRej 500
  | _, TNonObj => RRej 400
  (* null decodes into a nil map without error: ErrEmptyDocument (POST and BLIP since the repair 0a738b1) *)
  | (EImport | EImportFeed), TNull => RRej 404                  (* shown as not found *)
  | _, TNull => RRej 400
  | _, TObj raw tr =>
      let b := dedupe raw in
      match e with
      | EPut => lift false (rest_put b)                         (* bytes after the object are never read *)
      | EPost => lift false (post b)
      | EBulk => if tr then RRej 400 else lift false (db_put b) (* the element sits inside the docs array *)
      | EPutNE => lift false (rest_put_ne b)
      | EBulkNE => if tr then RRej 400 else lift false (put_existing b)
      | EBlip => if tr then RRej 400                            (* json.Valid: exactly one JSON value (repair b5cfb32) *)
                 else lift (negb (blip_remarshals raw)) (blip_rev_gen blip_check_fixed b)
      | EImport => if import_guard raw then RRej 500 else lift true (import_doc b)
      | EImportFeed => if tr then RRej 404                      (* the feed skips a value that is not JSON *)
                       else if import_guard raw then RRej 500 else lift true (import_doc b)
      | EBlipDelta => RRej 400
      end
  end.

(* the members of the stored text, in text order, and whether bytes follow the object *)
Definition stored_text (t : top) (r : result) : option (list (bytes * vk) * bool) :=
  match r, t with
  | RStored _ true, TObj raw tr => Some (stored raw, tr)
  | RStored ms false, _ => Some (ms, false)
  | _, _ => None
  end.

(* ---------- what each entry point takes out of the body ---------- *)
Definition wpath_of (e : entry) : option wpath :=
  match e with
  | EPut | EPost => Some PPut
  | EBulk => Some PBulk
  | EBlip => Some PBlip
  | EImport | EImportFeed => Some PImport
  | EPutNE | EBulkNE | EBlipDelta => None
  end.

Definition consumed_ne (m : member) : bool :=
  mem (mkey m) ne_removed || (bytes_eqb (mkey m) k_exp && vk_eqb (mkind m) KNum).

Definition consumed_e (e : entry) (m : member) : bool :=
  match wpath_of e with
  | Some p => consumed p m
  | None => consumed_ne m
  end.

(* the keys no entry point ever stores -- the exact common set (_cv since the repair d51088e) *)
Definition reserved_everywhere (k : bytes) : bool :=
  mem k [k_id; k_rev; k_revisions; k_cv; k_sync; k_purged] || has_prefix k_sync_ k.

(* the properties the read paths add; a stored member with one of these names can be shadowed or duplicated *)
Definition read_keys : list bytes := [k_id; k_rev; k_revisions; k_exp; k_cv; k_deleted; k_attachments].

(* which of them an entry point lets into the stored body (decoded view), and with which value kinds *)
Definition leak (e : entry) (k : bytes) (v : vk) : bool :=
  (bytes_eqb k k_exp && vk_eqb v KNull && negb (match e with EImport | EImportFeed | EBlipDelta => true | _ => false end))
  || match e with
     | EBlip => bytes_eqb k k_attachments && vk_eqb v KNull
     | EImport | EImportFeed => mem k [k_deleted; k_attachments]
     | _ => false
     end.

(* ---------- BLIP rev with deltaSrc, EE build (not compiled here; model only) ----------
   The delta is a JSON object; base.Patch sets its top-level members on the source body (a deletion can only take
   members away and is left out).  validateBlipBody and the _exp/_attachments shortcuts look at the raw DELTA text:
   a member that comes from the source body is inspected only if the delta text contains a backslash or mentions
   the name. *)
Definition blip_rev_chk (dis : list bytes) (chk : member -> bool) (b : list member) : outcome :=
  if existsb (fun m => mem (mkey m) dis && chk m) b then ORej 404
  else
    let e := match find_key k_exp b with
             | Some m => if chk m then extract_expiry b else ExpAbsent
             | None => ExpAbsent
             end in
    match e with
    | ExpBad => ORej 400
    | _ =>
      let b1 := remove_keys (match e with ExpTaken => [k_exp] | _ => [] end) b in
      let b2 := match find_key k_attachments b1 with
                | Some m => if chk m && negb (vk_eqb (mkind m) KNull)
                            then remove_keys [k_attachments] b1 else b1
                | None => b1
                end in
      match validate_new_body b2 with
      | Some s => ORej s
      | None => OStored (stored b2)
      end
    end.

Definition patched (src : list (bytes * vk)) (delta : list member) : list member :=
  map (fun kv => (fst kv, snd kv, false)) (filter (fun kv => negb (mem (fst kv) (map mkey delta))) src) ++ delta.

Definition blip_delta_ee (src : list (bytes * vk)) (delta_raw : list member) : outcome :=
  let delta := dedupe delta_raw in
  blip_rev_chk blip_disallowed (fun m => existsb mesc delta_raw || mem (mkey m) (map mkey delta)) (patched src delta).

(* ================= the tree as found, defect by defect =================
   [accept] above describes the repaired tree.  [accept_gen fx] has one switch per repair; with all switches on it is
   [accept] (accept_gen_repaired, AcceptProofs.v); with one off it is the behaviour that repair removed, which
   C19_Refuted.v refutes and the monitors replay on a tree with that commit reverted. *)
Record fixes := { fx_null : bool;       (* 0a738b1  prepareSyncFn: a nil body is ErrEmptyDocument *)
                  fx_trailing : bool;   (* b5cfb32  processRev: json.Valid(bodyBytes) *)
                  fx_exp : bool;        (* d54ae5f  PutExistingRevWithBody: ExtractExpiry error -> 400 *)
                  fx_cv : bool }.       (* d51088e  _cv deleted by PutExistingRevWithBody, refused by BLIP and import *)

Definition repaired : fixes := {| fx_null := true; fx_trailing := true; fx_exp := true; fx_cv := true |}.

Definition blip_disallowed_of (cvf : bool) : list bytes :=
  if cvf then [k_sync; k_id; k_rev; k_cv; k_deleted; k_revisions] else [k_sync; k_id; k_rev; k_deleted; k_revisions].
Definition import_disallowed_of (cvf : bool) : list bytes :=
  if cvf then [k_id; k_rev; k_cv; k_exp; k_revisions] else [k_id; k_rev; k_exp; k_revisions].
Definition ne_removed_of (cvf : bool) : list bytes :=
  if cvf then [k_deleted; k_rev; k_cv; k_id; k_revisions; k_attachments] else [k_deleted; k_rev; k_id; k_revisions; k_attachments].

Definition put_existing_gen (fx : fixes) (b : list member) : outcome :=
  if has_key k_sync b then ORej 400
  else match extract_expiry b with
  | ExpBad =>
    if fx_exp fx then ORej 400
    else let b1 := remove_keys (ne_removed_of (fx_cv fx)) b in
         match validate_new_body b1 with
         | Some s => ORej s
         | None => if match kind_of k_deleted b with Some KTrue => true | _ => false end
                   then ODeleted else OStored (stored b1)
         end
  | e =>
    let b1 := remove_keys ((match e with ExpTaken => [k_exp] | _ => [] end) ++ ne_removed_of (fx_cv fx)) b in
    match validate_new_body b1 with
    | Some s => ORej s
    | None => if match kind_of k_deleted b with Some KTrue => true | _ => false end
              then ODeleted else OStored (stored b1)
    end
  end.

Definition import_doc_dis (dis : list bytes) (b : list member) : outcome :=
  if match kind_of k_sync b with Some KNull | Some KObj | None => false | Some _ => true end then ORej 500
  else if existsb (fun m => mem (mkey m) dis) b then ORej 404
  else if has_key k_sync b then ORej 404
  else match validate_new_body b with
       | Some _ => ORej 404
       | None => OStored (stored b)
       end.

Definition accept_gen (fx : fixes) (e : entry) (t : top) : result :=
  match e, t with
  | EBlipDelta, _ => RRej 400
  | EBlip, TInvalid => if fx_trailing fx then RRej 400 else RRej 500
  | _, TInvalid => RRej 400
  | (EBlip | EImport | EImportFeed), TNonObj => RRej 500
  | _, TNonObj => RRej 400
  | (EPost | EBlip), TNull => if fx_null fx then RRej 400 else RPanic
  | (EImport | EImportFeed), TNull => RRej 404
  | _, TNull => RRej 400
  | _, TObj raw tr =>
      let b := dedupe raw in
      match e with
      | EPut => lift false (rest_put b)
      | EPost => lift false (post b)
      | EBulk => if tr then RRej 400 else lift false (db_put b)
      | EPutNE => lift false (if match kind_of k_id b with Some KStr => true | _ => false end then ORej 400
                              else put_existing_gen fx b)
      | EBulkNE => if tr then RRej 400 else lift false (put_existing_gen fx b)
      | EBlip => if tr && fx_trailing fx then RRej 400
                 else lift (negb (blip_remarshals raw))
                           (blip_rev_chk (blip_disallowed_of (fx_cv fx)) (visible blip_check_fixed) b)
      | EImport => if import_guard raw then RRej 500 else lift true (import_doc_dis (import_disallowed_of (fx_cv fx)) b)
      | EImportFeed => if tr then RRej 404
                       else if import_guard raw then RRej 500
                       else lift true (import_doc_dis (import_disallowed_of (fx_cv fx)) b)
      | EBlipDelta => RRej 400
      end
  end.
