(* C19 -- entry x exit: what comes back is what was written.

   Values: [V] are value texts, [kd] their kind (all the write paths look at), [canon] what a decode / encode pair of
   encoding/json does to a text, [sem] the JSON value a text denotes (numbers as exact decimals).  The one hypothesis
   about the libraries is [sem_canon]: re-encoding does not change the value.  It is the statement the differential
   monitor of the harness tests (number / Unicode fidelity); everything else is proved. *)
From SG Require Import Base.Prelude Base.Bytes C19.Json C19.Reserved C19.ReservedProofs
  C19.Accept C19.AcceptProofs C19.ReadPath C19.ReadProofs C19.AcceptV.
Open Scope N_scope.

Section Values.
  Variable V : Type.
  Variable kd : V -> vk.
  Variable canon : V -> V.
  Variable S : Type.
  Variable sem : V -> S.
  Hypothesis sem_canon : forall v, sem (canon v) = sem v.

  Notation vmember := (vmember V).
  Notation kmember := (kmember V kd).
  Notation accept_v := (accept_v V kd canon).

  Lemma kinds_dedupe : forall raw : list vmember, dedupe (map kmember raw) = map kmember (dedupe_k vkey raw).
  Proof.
    intros raw. unfold dedupe. rewrite (dedupe_k_map mkey kmember raw). reflexivity.
  Qed.

  Lemma vdedupe_NoDup : forall raw : list vmember, NoDup (map vkey (dedupe_k vkey raw)).
  Proof. intros. apply dedupe_k_NoDup. Qed.

  Lemma vkey_unique : forall (l : list vmember) m1 m2, NoDup (map vkey l) -> In m1 l -> In m2 l -> vkey m1 = vkey m2 -> m1 = m2.
  Proof.
    induction l as [|x l IH]; intros m1 m2 Hnd H1 H2 He; [contradiction|].
    cbn [map] in Hnd. inversion Hnd as [|y ys Hn Hd]; subst.
    destruct H1 as [->|H1], H2 as [->|H2]; [reflexivity| | |now apply IH].
    - exfalso. apply Hn. rewrite He. now apply in_map.
    - exfalso. apply Hn. rewrite <- He. now apply in_map.
  Qed.

  (* a BLIP body whose bytes are kept has nothing taken out of it *)
  Lemma blip_verbatim_nothing_consumed : forall (raw : list member) m, blip_remarshals raw = false ->
    In m (dedupe raw) -> consumed PBlip m = false.
  Proof.
    intros raw m Hr Hin. unfold blip_remarshals in Hr.
    apply orb_false_iff in Hr as [Hr Hatt]. apply orb_false_iff in Hr as [_ Hexp].
    assert (Hraw : In m raw) by (now apply (dedupe_k_In mkey raw)).
    unfold consumed. apply orb_false_iff. split.
    - destruct (bytes_eqb (mkey m) k_exp) eqn:E; [|reflexivity]. exfalso. apply bytes_eqb_eq in E.
      assert (existsb (fun m0 => contains_sub k_exp (mkey m0)) raw = true).
      { apply existsb_exists. exists m. split; [exact Hraw|]. rewrite E. reflexivity. }
      congruence.
    - destruct (bytes_eqb (mkey m) k_attachments) eqn:E; [|reflexivity]. cbn [andb]. apply bytes_eqb_eq in E.
      apply andb_false_iff in Hatt as [Hatt|Hatt].
      + exfalso. assert (existsb (fun m0 => contains_sub k_attachments (mkey m0)) raw = true).
        { apply existsb_exists. exists m. split; [exact Hraw|]. rewrite E. reflexivity. }
        congruence.
      + unfold nonnull in Hatt. rewrite <- E, (kind_of_In _ m (dedupe_NoDup raw) Hin) in Hatt.
        destruct (mkind m); try discriminate. reflexivity.
  Qed.

  Lemma verbatim_nothing_consumed : forall e (raw : list member) tr ms, accept e (TObj raw tr) = RStored ms true ->
    forall m, In m (dedupe raw) -> consumed_e e m = false.
  Proof.
    intros e raw tr ms H m Hin. destruct (accept_verbatim e raw tr ms H) as [-> | [-> | ->]].
    - cbn [accept] in H. destruct tr; [discriminate|]. apply lift_stored in H as [_ Hv]. symmetry in Hv. apply negb_true_iff in Hv.
      now apply (blip_verbatim_nothing_consumed raw).
    - reflexivity.
    - reflexivity.
  Qed.

  (* ---------- what accept_v stores, with the values ---------- *)
  Theorem accept_v_members : forall e t d vb, accept_v e t = VStored d vb ->
    exists raw tr, t = VObj raw tr /\
      forall k v', In (k, v') (dedupe_k fst (sd_ms d)) <->
        exists v esc, In (k, v, esc) (dedupe_k vkey raw) /\ consumed_e e (k, kd v, esc) = false /\
                      v' = (if vb then v else canon v).
  Proof.
    intros e t d vb H. unfold AcceptV.accept_v in H.
    destruct (accept e (ktop V kd t)) as [s| |ks vb0|] eqn:Ha; try discriminate.
    destruct t as [| | |raw tr]; try (destruct vb0; discriminate).
    exists raw, tr. split; [reflexivity|]. cbn [ktop] in Ha. intros k v'.
    destruct vb0; inversion H; subst d vb; clear H; cbn [sd_ms].
    - (* the bytes as received *)
      rewrite (dedupe_k_map (@fst bytes V) (fun m : vmember => (vkey m, vval m)) raw).
      change (fun a : vmember => fst (vkey a, vval a)) with (@vkey V).
      rewrite in_map_iff. split.
      + intros [[[k0 v0] esc] [He Hin]]. cbn [vkey vval fst snd] in He. inversion He; subst.
        exists v', esc. split; [exact Hin|split; [|reflexivity]].
        apply (verbatim_nothing_consumed e _ tr ks Ha). rewrite kinds_dedupe.
        apply in_map_iff. now exists (k, v', esc).
      + intros [v [esc [Hin [_ ->]]]]. now exists (k, v, esc).
    - (* marshalled again from the decoded map *)
      set (kept := filter (fun m : vmember => mem (vkey m) (map fst ks)) (dedupe_k vkey raw)).
      assert (Hnd : NoDup (map fst (map (fun m : vmember => (vkey m, canon (vval m))) kept))).
      { rewrite map_map. cbn [fst]. apply NoDup_map_filter, vdedupe_NoDup. }
      rewrite (dedupe_k_id fst _ Hnd). rewrite in_map_iff.
      pose proof (accept_stored_exact e _ tr ks false Ha) as Hex. rewrite kinds_dedupe in Hex.
      split.
      + intros [[[k0 v0] esc] [He Hin]]. cbn [vkey vval fst snd] in He. inversion He; subst.
        apply filter_In in Hin as [Hin Hm]. cbn [vkey fst] in Hm. apply mem_In in Hm.
        apply in_map_iff in Hm as [[k1 kind] [Hk1 Hks]]. cbn [fst] in Hk1. subst k1.
        apply Hex in Hks as [esc' [Hin' Hc]]. apply in_map_iff in Hin' as [m' [Hm' Hin']].
        assert (m' = (k, v0, esc)).
        { apply (vkey_unique _ m' (k, v0, esc) (vdedupe_NoDup raw) Hin' Hin).
          destruct m' as [[k2 v2] e2]. cbn in Hm'. inversion Hm'. reflexivity. }
        subst m'. cbn in Hm'. injection Hm' as Hkind Hesc. rewrite <- Hkind, <- Hesc in Hc.
        exists v0, esc. split; [exact Hin|split; [exact Hc|reflexivity]].
      + intros [v [esc [Hin [Hc ->]]]]. exists (k, v, esc). split; [reflexivity|].
        apply filter_In. split; [exact Hin|]. cbn [vkey fst]. apply mem_In. apply in_map_iff. exists (k, kd v). split; [reflexivity|].
        apply Hex. exists esc. split; [|exact Hc]. apply in_map_iff. now exists (k, v, esc).
  Qed.

  (* every member whose name does not start with an underscore is stored, with its value: as received when the bytes
     are kept, re-encoded once otherwise; and every stored member was written *)
  Theorem user_keys_preserved_v : forall e t d vb, accept_v e t = VStored d vb ->
    exists raw tr, t = VObj raw tr /\
      (forall k v esc, In (k, v, esc) (dedupe_k vkey raw) -> (forall r, k <> c_underscore :: r) ->
         In (k, if vb then v else canon v) (dedupe_k fst (sd_ms d))) /\
      (forall k v', In (k, v') (dedupe_k fst (sd_ms d)) ->
         exists v esc, In (k, v, esc) raw /\ v' = (if vb then v else canon v)).
  Proof.
    intros e t d vb H. destruct (accept_v_members e t d vb H) as [raw [tr [-> Hms]]].
    exists raw, tr. split; [reflexivity|split].
    - intros k v esc Hin Hu. apply Hms. exists v, esc. split; [exact Hin|split; [|reflexivity]].
      destruct (consumed_e e (k, kd v, esc)) eqn:E; [|reflexivity].
      destruct (consumed_e_underscore e _ E) as [r Hr]. cbn [mkey fst] in Hr. now apply Hu in Hr.
    - intros k v' Hin. apply Hms in Hin as [v [esc [Hin [_ ->]]]]. exists v, esc. split; [|reflexivity].
      now apply (dedupe_k_In vkey raw).
  Qed.

  Lemma accept_v_keys_written : forall e t d vb, accept_v e t = VStored d vb ->
    exists raw tr, t = VObj raw tr /\ forall k, In k (map fst (sd_ms d)) -> In k (map vkey raw).
  Proof.
    intros e t d vb H. unfold AcceptV.accept_v in H.
    destruct (accept e (ktop V kd t)) as [s| |ks vb0|] eqn:Ha; try discriminate.
    destruct t as [| | |raw tr]; try (destruct vb0; discriminate).
    exists raw, tr. split; [reflexivity|]. intros k Hk.
    destruct vb0; inversion H; subst d vb; clear H; cbn [sd_ms] in Hk; rewrite map_map in Hk; cbn [fst] in Hk.
    - exact Hk.
    - apply in_map_iff in Hk as [m [<- Hm]]. apply filter_In in Hm as [Hm _]. apply in_map. now apply (dedupe_k_In vkey raw).
  Qed.

  Lemma accept_v_canonical_clean : forall e t d, accept_v e t = VStored d false -> sd_trailing d = false /\ NoDup (map fst (sd_ms d)).
  Proof.
    intros e t d H. unfold AcceptV.accept_v in H.
    destruct (accept e (ktop V kd t)) as [s| |ks vb0|] eqn:Ha; try discriminate.
    destruct t as [| | |raw tr]; try (destruct vb0; discriminate).
    destruct vb0; inversion H; subst d; clear H. cbn [sd_ms sd_trailing]. split; [reflexivity|].
    rewrite map_map. cbn [fst]. apply NoDup_map_filter, vdedupe_NoDup.
  Qed.

  (* ---------- the round trip, every entry point x every exit ----------
     hypotheses: the stored text has nothing after the object (false only for the BLIP / import defect, see
     C19_Refuted), and none of its names is one the read paths inject (false only for the leaks listed by
     stored_read_key_is_leak).  Conclusion: the response, as a client's decoder sees it, consists of exactly
       - the properties the exit injects, and
       - for every written member (the last of its name) that the entry point does not consume, a member of the
         same name whose value denotes the same JSON value. *)
  (* the value that comes back is the written text, re-encoded once per marshalling step *)
  Definition rendered (x : exit) (vb : bool) (v : V) : V := cn canon x (if vb then v else canon v).

  Lemma rendered_sem : forall x vb v, sem (rendered x vb v) = sem v.
  Proof. intros x vb v. unfold rendered, cn. destruct (splices x), vb; now rewrite ?sem_canon. Qed.

  Theorem roundtrip_all_pairs : forall e x mt t d vb, accept_v e t = VStored d vb ->
    sd_trailing d = false ->
    (forall k, In k (map fst (sd_ms d)) -> ~ In k read_keys) ->
    exists raw tr out, t = VObj raw tr /\ read canon x mt d = Some out /\
      forall k o, In (k, o) (parsed out) <->
        (In k (injected x mt) /\ o = OG) \/
        (exists v esc, In (k, v, esc) (dedupe_k vkey raw) /\ consumed_e e (k, kd v, esc) = false /\
                       o = OU (rendered x vb v)).
  Proof.
    intros e x mt t d vb Ha Htr Hclean.
    destruct (accept_v_members e t d vb Ha) as [raw [tr [-> Hms]]].
    assert (Hsome : exists out, read canon x mt d = Some out).
    { unfold read. rewrite Htr. destruct (splices x); eexists; reflexivity. }
    destruct Hsome as [out Hout]. exists raw, tr, out. split; [reflexivity|split; [exact Hout|]].
    intros k o. rewrite (read_parsed V canon x mt d out Hout k o). unfold rendered. split.
    - intros [Hg|[Hn [v' [Hin ->]]]]; [now left|right].
      apply Hms in Hin as [v [esc [Hin [Hc ->]]]]. exists v, esc. split; [exact Hin|split; [exact Hc|reflexivity]].
    - intros [Hg|[v [esc [Hin [Hc ->]]]]]; [now left|].
      assert (Hst : In (k, if vb then v else canon v) (dedupe_k fst (sd_ms d))).
      { apply Hms. exists v, esc. split; [exact Hin|split; [exact Hc|reflexivity]]. }
      right. split; [|exists (if vb then v else canon v); split; [exact Hst|reflexivity]].
      intros Hi. apply (Hclean k); [|now apply (injected_read_keys x mt)].
      apply (dedupe_k_In fst) in Hst. apply in_map_iff. now exists (k, if vb then v else canon v).
  Qed.

  (* since the repair b5cfb32 nothing a gateway entry point stores has bytes after the object *)
  Lemma gateway_no_trailing : forall e t d vb, accept_v e t = VStored d vb -> e <> EImport -> sd_trailing d = false.
  Proof.
    intros e t d vb H Hne. unfold AcceptV.accept_v in H.
    destruct (accept e (ktop V kd t)) as [s| |ks vb0|] eqn:Ha; try discriminate.
    destruct t as [| | |raw tr]; try (destruct vb0; discriminate).
    destruct vb0; inversion H; subst d; cbn [sd_trailing]; [|reflexivity].
    destruct tr; [|reflexivity]. exfalso. cbn [ktop] in Ha.
    destruct (accept_verbatim e _ true ks Ha) as [-> | [-> | ->]]; [|now apply Hne|]; cbn [accept] in Ha; discriminate.
  Qed.

  Corollary roundtrip_gateway_writes : forall e x mt t d vb, accept_v e t = VStored d vb -> e <> EImport ->
    (forall k, In k (map fst (sd_ms d)) -> ~ In k read_keys) ->
    exists raw tr out, t = VObj raw tr /\ read canon x mt d = Some out /\
      forall k o, In (k, o) (parsed out) <->
        (In k (injected x mt) /\ o = OG) \/
        (exists v esc, In (k, v, esc) (dedupe_k vkey raw) /\ consumed_e e (k, kd v, esc) = false /\
                       o = OU (rendered x vb v)).
  Proof.
    intros e x mt t d vb Ha Hne Hclean. apply (roundtrip_all_pairs e x mt t d vb Ha); [|exact Hclean].
    now apply (gateway_no_trailing e t d vb).
  Qed.

  (* ---------- the headline: a document without reserved-looking names ----------
     no hypothesis about what was stored is left: if every written name is not one of the seven read-injected names
     and the bytes after the object are blank, then for EVERY entry point that accepts it and EVERY exit
       - the read succeeds,
       - the response has no duplicate name,
       - its members are the injected properties plus exactly the written members the entry point does not consume,
         each denoting the JSON value that was written. *)
  Theorem roundtrip_clean_documents : forall e x mt raw d vb,
    accept_v e (VObj raw false) = VStored d vb ->
    NoDup (map vkey raw) ->
    (forall k, In k (map vkey raw) -> ~ In k read_keys) ->
    exists out, read canon x mt d = Some out /\ NoDup (map fst out) /\
      forall k o, In (k, o) out <->
        (In k (injected x mt) /\ o = OG) \/
        (exists v esc, In (k, v, esc) raw /\ consumed_e e (k, kd v, esc) = false /\
                       o = OU (rendered x vb v) /\ sem (rendered x vb v) = sem v).
  Proof.
    intros e x mt raw d vb Ha Hnd Hclean.
    destruct (accept_v_keys_written e _ d vb Ha) as [raw' [tr' [Heq Hkeys]]]. inversion Heq; subst raw' tr'. clear Heq.
    assert (Htr : sd_trailing d = false).
    { unfold AcceptV.accept_v in Ha. destruct (accept e (ktop V kd (VObj raw false))) as [s| |ks vb0|]; try discriminate.
      destruct vb0; inversion Ha; reflexivity. }
    assert (Hsk : forall k, In k (map fst (sd_ms d)) -> ~ In k read_keys) by (intros k Hk; apply Hclean; now apply Hkeys).
    assert (Hsnd : NoDup (map fst (sd_ms d))).
    { unfold AcceptV.accept_v in Ha. destruct (accept e (ktop V kd (VObj raw false))) as [s| |ks vb0|]; try discriminate.
      destruct vb0; inversion Ha; subst d; cbn [sd_ms]; rewrite map_map; cbn [fst].
      - exact Hnd.
      - apply NoDup_map_filter, vdedupe_NoDup. }
    destruct (roundtrip_all_pairs e x mt _ d vb Ha Htr Hsk) as [raw' [tr' [out [Heq [Hout Hp]]]]].
    inversion Heq; subst raw' tr'. clear Heq.
    exists out. split; [exact Hout|].
    destruct (read_clean V canon x mt d Hsnd Htr) as [out' [Hout' [Hnd_out _]]].
    { intros k Hk Hi. apply (Hsk k Hk). now apply (injected_read_keys x mt). }
    rewrite Hout in Hout'. inversion Hout'; subst out'. split; [exact Hnd_out|].
    intros k o. specialize (Hp k o). unfold parsed in Hp. rewrite (dedupe_k_id fst out Hnd_out) in Hp.
    rewrite (dedupe_k_id vkey raw Hnd) in Hp. rewrite Hp. split.
    - intros [Hg|[v [esc [Hin [Hc ->]]]]]; [now left|right]. exists v, esc. repeat split; try assumption. apply rendered_sem.
    - intros [Hg|[v [esc [Hin [Hc [-> _]]]]]]; [now left|right]. now exists v, esc.
  Qed.
End Values.
