(* C19, not property obligations: statements that the faithful model of the tree AS FOUND violates.
   (1) isJSONObject treated only the two-byte text "{}" as an empty object; on an object with whitespace
       between the braces the splice wrote a comma after the opening brace.
   (2) validateBlipBody consulted the decoded body only for reserved names that occur unescaped in the raw
       text, so "_id" passed. *)
From SG Require Import Base.Prelude C19.Json C19.JsonSplice C19.Reserved C19.SpliceProofs C19.ReservedProofs.
Open Scope N_scope.

(* the unrepaired splice is correct unless the object is blank *)
Theorem inject_unrepaired_correct_unless_blank : forall (str_ok num_ok : list N -> bool) ms b kvs vs,
  Render str_ok num_ok (JObj ms) b -> Forall2 (kv_ok str_ok num_ok) kvs vs ->
  (ms <> [] \/ trim_space b = [c_lbrace; c_rbrace]) ->
  exists b', inject_unrepaired b kvs = Some b' /\ Render str_ok num_ok (JObj (ms ++ new_members kvs vs)) b'.
Proof. intros. apply inject_gen_correct; auto. Qed.

(* ... and wrong on "{ }": the result `{ ,"_id":1}` is not a rendering of any object *)
Theorem inject_blank_refuted :
  ~ (forall (str_ok num_ok : list N -> bool) ms b kvs vs,
       Render str_ok num_ok (JObj ms) b -> Forall2 (kv_ok str_ok num_ok) kvs vs ->
       exists b', inject_unrepaired b kvs = Some b' /\ Render str_ok num_ok (JObj (ms ++ new_members kvs vs)) b').
Proof.
  intros H.
  set (ok := fun _ : list N => true).
  destruct (H ok ok [] [c_lbrace; 32; c_rbrace] [(k_id, [49])] [JNum [49]]) as [b' [Hb' Hr]].
  - change [c_lbrace; 32; c_rbrace] with ([] ++ (c_lbrace :: [32] ++ [c_rbrace]) ++ []).
    constructor; try reflexivity. now constructor.
  - constructor; [|constructor]. split; [reflexivity|].
    change [49] with ([] ++ [49] ++ []). constructor; try reflexivity. now constructor.
  - vm_compute in Hb'. inversion Hb'; subst b'. clear Hb'.
    apply object_text_after_brace in Hr. vm_compute in Hr. destruct Hr as [Hr|Hr]; discriminate.
Qed.

(* the unrepaired BLIP check lets an escaped reserved name through and stores it *)
Theorem blip_escaped_key_refuted :
  exists b m, NoDup (map mkey b) /\ In m b /\ must_not_set PBlip m = true /\
              write_unrepaired PBlip b = OStored [(k_id, KStr); ([97], KNum)].
Proof.
  exists [(k_id, KStr, true); ([97], KNum, false)], (k_id, KStr, true).
  split; [|split; [left; reflexivity|split; vm_compute; reflexivity]].
  constructor; [|constructor; [intros []|constructor]]. intros [H|[]]. discriminate.
Qed.
