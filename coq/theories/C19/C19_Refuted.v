(* C19, not property obligations: statements that the faithful model of the tree AS FOUND violates.
   (1) isJSONObject treated only the two-byte text "{}" as an empty object; on an object with whitespace
       between the braces the splice wrote a comma after the opening brace.
   (2) validateBlipBody consulted the decoded body only for reserved names that occur unescaped in the raw
       text, so "_id" passed. *)
From SG Require Import Base.Prelude C19.Json C19.JsonSplice C19.Reserved C19.SpliceProofs C19.ReservedProofs
  C19.Accept C19.AcceptProofs C19.ReadPath C19.ReadProofs C19.AcceptV.
Open Scope N_scope.

(* the unrepaired splice is correct unless the object is blank *)
Theorem inject_unrepaired_correct_unless_blank : forall (str_ok num_ok : list N -> bool) ms b kvs vs,
  Render str_ok num_ok (JObj ms) b -> Forall2 (kv_ok str_ok num_ok) kvs vs ->
  (ms <> [] \/ trim_space b = [c_lbrace; c_rbrace]) ->
  exists b', inject_unrepaired b kvs = Some b' /\ Render str_ok num_ok (JObj (ms ++ new_members kvs vs)) b'.
Proof. intros. apply inject_gen_correct; auto. Qed.

(* ... and wrong on "{ }": the result `{ ,"_id":1}` is not a rendering of any object *)
Theorem inject_blank_refuted :
  ~ (forall (str_ok num_ok : list N -> bool) ms b kvs vs,
       Render str_ok num_ok (JObj ms) b -> Forall2 (kv_ok str_ok num_ok) kvs vs ->
       exists b', inject_unrepaired b kvs = Some b' /\ Render str_ok num_ok (JObj (ms ++ new_members kvs vs)) b').
Proof.
  intros H.
  set (ok := fun _ : list N => true).
  destruct (H ok ok [] [c_lbrace; 32; c_rbrace] [(k_id, [49])] [JNum [49]]) as [b' [Hb' Hr]].
  - change [c_lbrace; 32; c_rbrace] with ([] ++ (c_lbrace :: [32] ++ [c_rbrace]) ++ []).
    constructor; try reflexivity. now constructor.
  - constructor; [|constructor]. split; [reflexivity|].
    change [49] with ([] ++ [49] ++ []). constructor; try reflexivity. now constructor.
  - vm_compute in Hb'. inversion Hb'; subst b'. clear Hb'.
    apply object_text_after_brace in Hr. vm_compute in Hr. destruct Hr as [Hr|Hr]; discriminate.
Qed.

(* the unrepaired BLIP check lets an escaped reserved name through and stores it *)
Theorem blip_escaped_key_refuted :
  exists b m, NoDup (map mkey b) /\ In m b /\ must_not_set PBlip m = true /\
              write_unrepaired PBlip b = OStored [(k_id, KStr); ([97], KNum)].
Proof.
  exists [(k_id, KStr, true); ([97], KNum, false)], (k_id, KStr, true).
  split; [|split; [left; reflexivity|split; vm_compute; reflexivity]].
  constructor; [|constructor; [intros []|constructor]]. intros [H|[]]. discriminate.
Qed.

(* ============ statements the faithful model of the tree AS IT IS violates (found by the deepened model) ============
   (3) the literal null as a request text: POST /ks/ and a BLIP rev decode it into a nil map without error and panic in
       prepareSyncFn (mutableBody[BodyId] = ...) instead of answering 400.
   (4) a BLIP rev whose body has bytes after the JSON object is accepted and the bytes are stored as received
       (Body.Unmarshal decodes one value and never looks at the rest); the byte-splicing exits then have no document to
       return (_changes?include_docs drops the document or the whole row, _all_docs?include_docs answers 500).
   (5) PUT ?new_edits=false / _bulk_docs new_edits=false drop the error of ExtractExpiry: an _exp that is not an expiry
       is stored (the same body gets 400 from PUT, POST, _bulk_docs and BLIP).
   (6) _cv is let into the stored body by new_edits=false, BLIP rev and import; the exits that inject _cv then replace the
       stored value (map exits) or emit the name twice (_changes?include_docs). *)

Definition nonobject_refused_with_status : Prop :=
  forall e t, (t = TInvalid \/ t = TNonObj \/ t = TNull) -> exists s, accept e t = RRej s.

Theorem null_body_panics_refuted : ~ nonobject_refused_with_status.
Proof.
  intros H. destruct (H EPost TNull) as [s Hs]; [tauto|]. discriminate.
Qed.

Definition gateway_stores_only_json_objects : Prop :=
  forall e t r tms tr, accept e t = r -> stored_text t r = Some (tms, tr) -> e <> EImport -> tr = false.

Theorem blip_trailing_bytes_refuted : ~ gateway_stores_only_json_objects.
Proof.
  intros H. specialize (H EBlip (TObj [([97], KNum, false)] true) _ _ true eq_refl eq_refl). assert (true = false) by (apply H; discriminate). discriminate.
Qed.

(* ... and such a document cannot be read through a splice exit *)
Theorem blip_trailing_bytes_unreadable :
  exists t d, accept_v vk (fun v => v) (fun v => v) EBlip t = VStored d true /\
    forall mt, read (fun v => v) XChanges mt d = None /\ read (fun v => v) (XAllDocs false) mt d = None.
Proof.
  exists (VObj [([97], KNum, false)] true). eexists. split; [vm_compute; reflexivity|]. intros mt. split; reflexivity.
Qed.

Definition invalid_expiry_never_stored : Prop :=
  forall e raw tr ms vb v, accept e (TObj raw tr) = RStored ms vb -> e <> EImport -> e <> EImportFeed ->
    In (k_exp, v) ms -> v = KNull.

Theorem new_edits_false_invalid_exp_refuted : ~ invalid_expiry_never_stored.
Proof.
  intros H.
  specialize (H EPutNE [(k_exp, KTrue, false); ([97], KNum, false)] false _ _ KTrue eq_refl).
  assert (KTrue = KNull); [|discriminate]. apply H; try discriminate. now left.
Qed.

(* the same body is refused by the other gateway entry points *)
Theorem invalid_exp_refused_elsewhere :
  let t := TObj [(k_exp, KTrue, false); ([97], KNum, false)] false in
  accept EPut t = RRej 400 /\ accept EPost t = RRej 400 /\ accept EBulk t = RRej 400 /\ accept EBlip t = RRej 400 /\
  accept EPutNE t = RStored [(k_exp, KTrue); ([97], KNum)] false /\ accept EBulkNE t = RStored [(k_exp, KTrue); ([97], KNum)] false.
Proof. repeat split; vm_compute; reflexivity. Qed.

Definition response_members_are_distinct : Prop :=
  forall e x mt raw d vb, accept_v vk (fun v => v) (fun v => v) e (VObj raw false) = VStored d vb -> NoDup (map vkey raw) ->
    exists out, read (fun v => v) x mt d = Some out /\ NoDup (map fst out).

Theorem stored_cv_doubled_refuted : ~ response_members_are_distinct.
Proof.
  intros H.
  destruct (H EBlip XChanges {| m_cv := true; m_deleted := false; m_exp := false; m_atts := ANil |}
              [(k_cv, KStr, false); ([97], KNum, false)] _ _ eq_refl) as [out [Hout Hnd]].
  - cbn [map vkey fst]. constructor; [|constructor; [intros []|constructor]]. intros [E|[]]. discriminate.
  - vm_compute in Hout. inversion Hout; subst out. clear Hout. cbn [map fst] in Hnd.
    inversion Hnd as [|x l Hn _]; subst. apply Hn. cbn [In]. tauto.
Qed.

Definition stored_members_come_back : Prop :=
  forall e x mt raw d vb, accept_v vk (fun v => v) (fun v => v) e (VObj raw false) = VStored d vb -> NoDup (map vkey raw) ->
    exists out, read (fun v => v) x mt d = Some out /\
      forall k v, In (k, v) (sd_ms d) -> In (k, OU v) (parsed out).

Theorem stored_cv_shadowed_refuted : ~ stored_members_come_back.
Proof.
  intros H.
  destruct (H EPutNE (XGet false false) {| m_cv := true; m_deleted := false; m_exp := false; m_atts := ANil |}
              [(k_cv, KStr, false); ([97], KNum, false)] _ _ eq_refl) as [out [Hout Hall]].
  - cbn [map vkey fst]. constructor; [|constructor; [intros []|constructor]]. intros [E|[]]. discriminate.
  - vm_compute in Hout. inversion Hout; subst out. clear Hout.
    specialize (Hall k_cv KStr). cbn [sd_ms] in Hall. assert (Hin : In (k_cv, KStr) [(k_cv, KStr); ([97], KNum)]) by now left.
    apply Hall in Hin. vm_compute in Hin. repeat (destruct Hin as [Hin|Hin]; [discriminate|]). contradiction.
Qed.
