(* C19, not property obligations: statements that the faithful model of the tree AS FOUND violates.
   (1) isJSONObject treated only the two-byte text "{}" as an empty object; on an object with whitespace
       between the braces the splice wrote a comma after the opening brace.
   (2) validateBlipBody consulted the decoded body only for reserved names that occur unescaped in the raw
       text, so "_id" passed. *)
From SG Require Import Base.Prelude C19.Json C19.JsonSplice C19.Reserved C19.SpliceProofs C19.ReservedProofs
  C19.Accept C19.AcceptProofs C19.ReadPath C19.ReadProofs C19.AcceptV.
Open Scope N_scope.

(* the unrepaired splice is correct unless the object is blank *)
Theorem inject_unrepaired_correct_unless_blank : forall (str_ok num_ok : list N -> bool) ms b kvs vs,
  Render str_ok num_ok (JObj ms) b -> Forall2 (kv_ok str_ok num_ok) kvs vs ->
  (ms <> [] \/ trim_space b = [c_lbrace; c_rbrace]) ->
  exists b', inject_unrepaired b kvs = Some b' /\ Render str_ok num_ok (JObj (ms ++ new_members kvs vs)) b'.
Proof. intros. apply inject_gen_correct; auto. Qed.

(* ... and wrong on "{ }": the result `{ ,"_id":1}` is not a rendering of any object *)
Theorem inject_blank_refuted :
  ~ (forall (str_ok num_ok : list N -> bool) ms b kvs vs,
       Render str_ok num_ok (JObj ms) b -> Forall2 (kv_ok str_ok num_ok) kvs vs ->
       exists b', inject_unrepaired b kvs = Some b' /\ Render str_ok num_ok (JObj (ms ++ new_members kvs vs)) b').
Proof.
  intros H.
  set (ok := fun _ : list N => true).
  destruct (H ok ok [] [c_lbrace; 32; c_rbrace] [(k_id, [49])] [JNum [49]]) as [b' [Hb' Hr]].
  - change [c_lbrace; 32; c_rbrace] with ([] ++ (c_lbrace :: [32] ++ [c_rbrace]) ++ []).
    constructor; try reflexivity. now constructor.
  - constructor; [|constructor]. split; [reflexivity|].
    change [49] with ([] ++ [49] ++ []). constructor; try reflexivity. now constructor.
  - vm_compute in Hb'. inversion Hb'; subst b'. clear Hb'.
    apply object_text_after_brace in Hr. vm_compute in Hr. destruct Hr as [Hr|Hr]; discriminate.
Qed.

(* the unrepaired BLIP check lets an escaped reserved name through and stores it *)
Theorem blip_escaped_key_refuted :
  exists b m, NoDup (map mkey b) /\ In m b /\ must_not_set PBlip m = true /\
              write_unrepaired PBlip b = OStored [(k_id, KStr); ([97], KNum)].
Proof.
  exists [(k_id, KStr, true); ([97], KNum, false)], (k_id, KStr, true).
  split; [|split; [left; reflexivity|split; vm_compute; reflexivity]].
  constructor; [|constructor; [intros []|constructor]]. intros [H|[]]. discriminate.
Qed.

(* ============ the four defects found by the deepened model, all repaired in /repo ============
   [accept] describes the repaired tree.  Each statement below HOLDS for it (first theorem of each group) and FAILS for the
   tree with that one repair switched off, [accept_gen] with the other switches on (second theorem) -- the behaviour a
   worktree with the commit reverted shows, which the monitor of the same name reports.
   (3) 0a738b1 null-body-panic: the literal null as a request text made POST /ks/ and a BLIP rev panic in prepareSyncFn.
   (4) b5cfb32 blip-trailing-bytes-stored: a BLIP rev body with bytes after the JSON object was stored as received; the
       byte-splicing exits then have no document to return.
   (5) d54ae5f new-edits-false-invalid-exp-stored: PutExistingRevWithBody dropped the error of ExtractExpiry.
   (6) d51088e stored-cv-clashes-with-injected-cv: _cv was let into the stored body by new_edits=false, BLIP rev and import;
       the exits that inject _cv then replace the stored value (map exits) or emit the name twice (splice exits). *)
Definition off_null : fixes := {| fx_null := false; fx_trailing := true; fx_exp := true; fx_cv := true |}.
Definition off_trailing : fixes := {| fx_null := true; fx_trailing := false; fx_exp := true; fx_cv := true |}.
Definition off_exp : fixes := {| fx_null := true; fx_trailing := true; fx_exp := false; fx_cv := true |}.
Definition off_cv : fixes := {| fx_null := true; fx_trailing := true; fx_exp := true; fx_cv := false |}.

(* (3) *)
Definition nonobject_refused_with_status (acc : entry -> top -> result) : Prop :=
  forall e t, (t = TInvalid \/ t = TNonObj \/ t = TNull) -> exists s, acc e t = RRej s.

Theorem null_body_refused : nonobject_refused_with_status accept.
Proof. exact nonobject_never_stored. Qed.

Theorem null_body_panics_refuted : ~ nonobject_refused_with_status (accept_gen off_null).
Proof. intros H. destruct (H EPost TNull) as [s Hs]; [tauto|]. discriminate. Qed.

Theorem null_body_panics_blip_too : accept_gen off_null EBlip TNull = RPanic.
Proof. reflexivity. Qed.

(* (4) *)
Definition gateway_stores_only_json_objects (acc : entry -> top -> result) : Prop :=
  forall e t r tms tr, acc e t = r -> stored_text t r = Some (tms, tr) -> e <> EImport -> tr = false.

Theorem trailing_bytes_never_stored : gateway_stores_only_json_objects accept.
Proof.
  intros e t r tms tr Hr Hst Hne. destruct tr; [|reflexivity]. exfalso. apply Hne.
  now apply (trailing_stored_only_import e t r tms).
Qed.

Theorem blip_trailing_bytes_refuted : ~ gateway_stores_only_json_objects (accept_gen off_trailing).
Proof.
  intros H. specialize (H EBlip (TObj [([97], KNum, false)] true) _ _ true eq_refl eq_refl).
  assert (true = false) by (apply H; discriminate). discriminate.
Qed.

(* ... and such a stored text cannot be read through a splice exit *)
Theorem blip_trailing_bytes_unreadable : forall mt ms,
  read (fun v : vk => v) XChanges mt {| sd_ms := ms; sd_trailing := true |} = None /\
  read (fun v : vk => v) (XAllDocs false) mt {| sd_ms := ms; sd_trailing := true |} = None.
Proof. intros mt ms. split; reflexivity. Qed.

(* (5) *)
Definition invalid_expiry_never_stored (acc : entry -> top -> result) : Prop :=
  forall e raw tr ms vb v, acc e (TObj raw tr) = RStored ms vb -> e <> EImport -> e <> EImportFeed ->
    In (k_exp, v) ms -> v = KNull.

Theorem invalid_exp_never_stored : invalid_expiry_never_stored accept.
Proof.
  intros e raw tr ms vb v H H1 H2 Hin.
  assert (Hl : leak e k_exp v = true).
  { apply (stored_read_key_is_leak e raw tr ms vb H k_exp v Hin). unfold read_keys. cbn [In]. tauto. }
  destruct e, v; try reflexivity; try (vm_compute in Hl; discriminate); congruence.
Qed.

Theorem new_edits_false_invalid_exp_refuted : ~ invalid_expiry_never_stored (accept_gen off_exp).
Proof.
  intros H.
  specialize (H EPutNE [(k_exp, KTrue, false); ([97], KNum, false)] false _ _ KTrue eq_refl).
  assert (KTrue = KNull); [|discriminate]. apply H; try discriminate. now left.
Qed.

(* (6) *)
Definition cv_never_stored (acc : entry -> top -> result) : Prop :=
  forall e raw tr ms vb v, acc e (TObj raw tr) = RStored ms vb -> ~ In (k_cv, v) ms.

Theorem cv_is_never_stored : cv_never_stored accept.
Proof.
  intros e raw tr ms vb v H Hin.
  assert (Hr : reserved_everywhere k_cv = false).
  { apply (stored_no_reserved e (TObj raw tr) _ ms false H).
    - destruct vb; [|reflexivity]. exfalso.
      (* a byte-preserving entry point: the member is in the decoded view, hence in the text *)
      assert (Hl : leak e k_cv v = true).
      { apply (stored_read_key_is_leak e raw tr ms true H k_cv v Hin). unfold read_keys. cbn [In]. tauto. }
      destruct e, v; vm_compute in Hl; discriminate.
    - apply in_map_iff. now exists (k_cv, v). }
  vm_compute in Hr. discriminate.
Qed.

Theorem cv_stored_refuted : ~ cv_never_stored (accept_gen off_cv).
Proof.
  intros H. apply (H EBlip [(k_cv, KStr, false); ([97], KNum, false)] false _ _ KStr eq_refl). now left.
Qed.

(* through all three entry points that let it in *)
Theorem cv_stored_by_three_entry_points :
  let t := TObj [(k_cv, KStr, false); ([97], KNum, false)] false in
  accept_gen off_cv EPutNE t = RStored [(k_cv, KStr); ([97], KNum)] false /\
  accept_gen off_cv EBlip t = RStored [(k_cv, KStr); ([97], KNum)] true /\
  accept_gen off_cv EImport t = RStored [(k_cv, KStr); ([97], KNum)] true /\
  accept EPutNE t = RStored [([97], KNum)] false /\ accept EBlip t = RRej 404 /\ accept EImport t = RRej 404.
Proof. repeat split; vm_compute; reflexivity. Qed.

(* what the read exits make of such a stored body: the name twice (splice), the stored value replaced (map) *)
Theorem stored_cv_doubled_and_shadowed :
  let mt := {| m_cv := true; m_deleted := false; m_exp := false; m_atts := ANil |} in
  let d := {| sd_ms := [(k_cv, KStr); ([97], KNum)]; sd_trailing := false |} in
  read (fun v : vk => v) XChanges mt d = Some [(k_cv, OU KStr); ([97], OU KNum); (k_id, OG); (k_rev, OG); (k_cv, OG)] /\
  read (fun v : vk => v) (XGet false false) mt d = Some [([97], OU KNum); (k_id, OG); (k_rev, OG); (k_cv, OG)].
Proof. split; vm_compute; reflexivity. Qed.
