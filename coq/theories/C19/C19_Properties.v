(* C19 -- Document bodies come back exactly as written on every path.
   This file contains nothing but the property theorems; each is closed by [exact] of a lemma proved
   elsewhere and followed by Print Assumptions.

   What is proved (PARTIAL with respect to the property text, see C19_full_statement at the end):
     - the byte-level splice used by the read paths (base.InjectJSONProperties and InjectJSONPropertiesFromBytes) is correct for EVERY
       object text and EVERY key/value list, whatever the lexical rules for string and number literals are;
     - the reserved-property logic: what is stripped, what each write path refuses, what it stores.
   The fidelity of the JSON encoder/decoder libraries (numbers, Unicode) is NOT a theorem; it is checked by
   the differential monitor of the harness. *)
From SG Require Import Base.Prelude C19.Json C19.JsonSplice C19.Reserved C19.SpliceProofs C19.ReservedProofs C19.Witness.
Open Scope N_scope.

(* ---- the splice ---- *)

(* inject_correct: for every JSON object text b (any whitespace, any members, any nesting, any literals) and every
   list of properties whose keys are well-formed string contents and whose values are JSON texts, the result is
   a JSON text of the object with the same members in the same order followed by the new ones *)
Theorem C19_inject_correct : forall (str_ok num_ok : list N -> bool) ms b kvs vs,
  Render str_ok num_ok (JObj ms) b ->
  Forall2 (kv_ok str_ok num_ok) kvs vs ->
  exists b', inject b kvs = Some b' /\ Render str_ok num_ok (JObj (ms ++ new_members kvs vs)) b'.
Proof. intros. apply inject_gen_correct; auto. Qed.
Print Assumptions C19_inject_correct.

(* existing members are untouched at the byte level: the trimmed input minus its closing brace is a prefix
   of the output, and what follows is the text of the new members and a closing brace *)
Theorem C19_inject_untouched : forall b kvs b', kvs <> [] -> inject b kvs = Some b' ->
  exists pre e, trim_space b = pre ++ [c_rbrace] /\ b' = pre ++ members_text e kvs ++ [c_rbrace].
Proof. exact (inject_gen_untouched code_fixed). Qed.
Print Assumptions C19_inject_untouched.

(* the pre-sized buffer and the sequence of copy() calls write exactly the intended bytes: nothing is
   truncated and no zero byte is left over *)
Theorem C19_inject_buffer_exact : forall b is_empty kvs, b <> [] -> kvs <> [] ->
  inject_buf b is_empty kvs = removelast b ++ members_text is_empty kvs ++ [c_rbrace].
Proof. exact inject_buf_spec. Qed.
Print Assumptions C19_inject_buffer_exact.

(* ---- stripping ---- *)

(* strip_only_reserved: a member survives iff its key is kept; values and order are untouched (filter) *)
Theorem C19_strip_only_reserved : forall (V : Type) internal_only (b : list (list N * V)) m,
  In m (strip internal_only b) <-> In m b /\ strip_keeps internal_only (fst m) = true.
Proof. intros V. exact strip_spec. Qed.
Print Assumptions C19_strip_only_reserved.

(* StripInternalProperties removes exactly _sync _id _rev _cv _revisions _exp _purged _removed and _sync_* *)
Theorem C19_strip_internal_exact : forall k,
  strip_keeps true k = false <-> (In k internal_keys \/ has_prefix k_sync_ k = true).
Proof. exact strip_internal_exact. Qed.
Print Assumptions C19_strip_internal_exact.

Theorem C19_strip_all_exact : forall k, strip_keeps false k = false <-> exists r, k = c_underscore :: r.
Proof. exact strip_all_exact. Qed.
Print Assumptions C19_strip_all_exact.

(* no user property (name not starting with an underscore) is ever removed *)
Theorem C19_strip_user_key : forall internal_only k, (forall r, k <> c_underscore :: r) -> strip_keeps internal_only k = true.
Proof. exact strip_user_key. Qed.
Print Assumptions C19_strip_user_key.

Theorem C19_strip_idempotent : forall (V : Type) internal_only (b : list (list N * V)),
  strip internal_only (strip internal_only b) = strip internal_only b.
Proof. intros V. exact strip_idempotent. Qed.
Print Assumptions C19_strip_idempotent.

(* injecting internal properties into a stripped body cannot create a duplicate member *)
Theorem C19_strip_then_inject_nodup : forall (V : Type) (b kvs : list (list N * V)),
  NoDup (map fst b) -> NoDup (map fst kvs) -> (forall kv, In kv kvs -> strip_keeps true (fst kv) = false) ->
  NoDup (map fst (strip true b ++ kvs)).
Proof. intros V. exact strip_then_inject_nodup. Qed.
Print Assumptions C19_strip_then_inject_nodup.

(* ---- write paths ---- *)

(* validate_rejects_reserved: on every write path, a body containing a property the client must not set
   (must_not_set: per path, Reserved.v) is refused; nothing is stored *)
Theorem C19_validate_rejects_reserved : forall p b m, NoDup (map mkey b) -> In m b -> must_not_set p m = true ->
  exists status, write p b = ORej status.
Proof. exact write_rejects_reserved. Qed.
Print Assumptions C19_validate_rejects_reserved.

(* an accepted write stores the members as written minus exactly those the path consumes *)
Theorem C19_write_stores_exactly : forall p b st, NoDup (map mkey b) -> write p b = OStored st ->
  forall k v, In (k, v) st <-> exists e, In (k, v, e) b /\ consumed p (k, v, e) = false.
Proof. exact write_stores_exactly. Qed.
Print Assumptions C19_write_stores_exactly.

(* only underscore-prefixed properties are consumed or refused: user data always passes *)
Theorem C19_reserved_are_underscore : forall p m, (consumed p m || must_not_set p m) = true ->
  exists r, mkey m = c_underscore :: r.
Proof. exact consumed_is_underscore. Qed.
Print Assumptions C19_reserved_are_underscore.

(* ---- non-vacuity ---- *)
Example C19_nonvacuous :
  let ok := fun _ : list N => true in
  Render ok ok (JObj [([97], JNum [49])]) [32; 123; 34; 97; 34; 58; 49; 125; 10] /\
  Render ok ok (JObj []) [123; 32; 10; 125] /\
  kv_ok ok ok (k_id, [34; 120; 34]) (JStr [120]) /\
  inject [123; 32; 10; 125] [(k_id, [34; 120; 34])] = Some [123; 32; 10; 34; 95; 105; 100; 34; 58; 34; 120; 34; 125] /\
  must_not_set PBlip (k_id, KStr, true) = true /\
  write PPut [([97], KNum, false); (k_exp, KNum, false); (k_removed, KNull, false)] = OStored [([97], KNum); (k_removed, KNull)].
Proof. exact nonvacuous_witness. Qed.

(* ---- the full property, of which the above is a part ----
   A system is given by its write paths (text -> stored state or refusal), its read paths (state -> text) and the
   meaning of a JSON text (its value, numbers as exact decimals).  The property text asks that every accepted
   object comes back with the same value on every read path, up to the reserved members added on read and
   consumed on write.  The theorems above establish the splice step of the read paths and the member
   bookkeeping of the write paths; what is missing is a model of the JSON decoder/encoder used in between
   (encoding/json, jsoniter: number literals, escapes, UTF-8), which is covered by differential testing only. *)
Definition C19_full_statement
  (State Value : Type) (wp rp : Type)
  (sys_write : wp -> list N -> option State) (sys_read : rp -> State -> list N)
  (value : list N -> option Value)                       (* None: not valid JSON *)
  (minus_reserved : Value -> Value) : Prop :=
  forall w r text st v, value text = Some v -> sys_write w text = Some st ->
    exists v', value (sys_read r st) = Some v' /\ minus_reserved v' = minus_reserved v.
