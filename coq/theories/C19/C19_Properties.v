(* C19 -- Document bodies come back exactly as written on every path.
   This file contains nothing but the property theorems; each is closed by [exact] of a lemma proved
   elsewhere and followed by Print Assumptions.

   What is proved (PARTIAL with respect to the property text, see C19_full_statement at the end):
     - the byte-level splice used by the read paths (base.InjectJSONProperties and InjectJSONPropertiesFromBytes) is correct for EVERY
       object text and EVERY key/value list, whatever the lexical rules for string and number literals are;
     - the reserved-property logic: what is stripped, what each write path refuses, what it stores.
     - every write entry point as one function accept : entry -> request text -> result, every read exit as one
       function read : exit -> metadata -> stored text -> response, and the round trip over all entry x exit pairs.
   The fidelity of the JSON encoder/decoder libraries (numbers, Unicode) is NOT a theorem; it is checked by
   the differential monitor of the harness and enters the round-trip theorem as its one hypothesis (sem_canon). *)
From SG Require Import Base.Prelude C19.Json C19.JsonSplice C19.Reserved C19.SpliceProofs C19.ReservedProofs
  C19.Accept C19.AcceptProofs C19.ReadPath C19.ReadProofs C19.AcceptV C19.RoundTrip C19.Witness.
Open Scope N_scope.

(* ---- the splice ---- *)

(* inject_correct: for every JSON object text b (any whitespace, any members, any nesting, any literals) and every
   list of properties whose keys are well-formed string contents and whose values are JSON texts, the result is
   a JSON text of the object with the same members in the same order followed by the new ones *)
Theorem C19_inject_correct : forall (str_ok num_ok : list N -> bool) ms b kvs vs,
  Render str_ok num_ok (JObj ms) b ->
  Forall2 (kv_ok str_ok num_ok) kvs vs ->
  exists b', inject b kvs = Some b' /\ Render str_ok num_ok (JObj (ms ++ new_members kvs vs)) b'.
Proof. intros. apply inject_gen_correct; auto. Qed.
Print Assumptions C19_inject_correct.

(* existing members are untouched at the byte level: the trimmed input minus its closing brace is a prefix
   of the output, and what follows is the text of the new members and a closing brace *)
Theorem C19_inject_untouched : forall b kvs b', kvs <> [] -> inject b kvs = Some b' ->
  exists pre e, trim_space b = pre ++ [c_rbrace] /\ b' = pre ++ members_text e kvs ++ [c_rbrace].
Proof. exact (inject_gen_untouched code_fixed). Qed.
Print Assumptions C19_inject_untouched.

(* the pre-sized buffer and the sequence of copy() calls write exactly the intended bytes: nothing is
   truncated and no zero byte is left over *)
Theorem C19_inject_buffer_exact : forall b is_empty kvs, b <> [] -> kvs <> [] ->
  inject_buf b is_empty kvs = removelast b ++ members_text is_empty kvs ++ [c_rbrace].
Proof. exact inject_buf_spec. Qed.
Print Assumptions C19_inject_buffer_exact.

(* ---- stripping ---- *)

(* strip_only_reserved: a member survives iff its key is kept; values and order are untouched (filter) *)
Theorem C19_strip_only_reserved : forall (V : Type) internal_only (b : list (list N * V)) m,
  In m (strip internal_only b) <-> In m b /\ strip_keeps internal_only (fst m) = true.
Proof. intros V. exact strip_spec. Qed.
Print Assumptions C19_strip_only_reserved.

(* StripInternalProperties removes exactly _sync _id _rev _cv _revisions _exp _purged _removed and _sync_* *)
Theorem C19_strip_internal_exact : forall k,
  strip_keeps true k = false <-> (In k internal_keys \/ has_prefix k_sync_ k = true).
Proof. exact strip_internal_exact. Qed.
Print Assumptions C19_strip_internal_exact.

Theorem C19_strip_all_exact : forall k, strip_keeps false k = false <-> exists r, k = c_underscore :: r.
Proof. exact strip_all_exact. Qed.
Print Assumptions C19_strip_all_exact.

(* no user property (name not starting with an underscore) is ever removed *)
Theorem C19_strip_user_key : forall internal_only k, (forall r, k <> c_underscore :: r) -> strip_keeps internal_only k = true.
Proof. exact strip_user_key. Qed.
Print Assumptions C19_strip_user_key.

Theorem C19_strip_idempotent : forall (V : Type) internal_only (b : list (list N * V)),
  strip internal_only (strip internal_only b) = strip internal_only b.
Proof. intros V. exact strip_idempotent. Qed.
Print Assumptions C19_strip_idempotent.

(* injecting internal properties into a stripped body cannot create a duplicate member *)
Theorem C19_strip_then_inject_nodup : forall (V : Type) (b kvs : list (list N * V)),
  NoDup (map fst b) -> NoDup (map fst kvs) -> (forall kv, In kv kvs -> strip_keeps true (fst kv) = false) ->
  NoDup (map fst (strip true b ++ kvs)).
Proof. intros V. exact strip_then_inject_nodup. Qed.
Print Assumptions C19_strip_then_inject_nodup.

(* ---- write paths ---- *)

(* validate_rejects_reserved: on every write path, a body containing a property the client must not set
   (must_not_set: per path, Reserved.v) is refused; nothing is stored *)
Theorem C19_validate_rejects_reserved : forall p b m, NoDup (map mkey b) -> In m b -> must_not_set p m = true ->
  exists status, write p b = ORej status.
Proof. exact write_rejects_reserved. Qed.
Print Assumptions C19_validate_rejects_reserved.

(* an accepted write stores the members as written minus exactly those the path consumes *)
Theorem C19_write_stores_exactly : forall p b st, NoDup (map mkey b) -> write p b = OStored st ->
  forall k v, In (k, v) st <-> exists e, In (k, v, e) b /\ consumed p (k, v, e) = false.
Proof. exact write_stores_exactly. Qed.
Print Assumptions C19_write_stores_exactly.

(* only underscore-prefixed properties are consumed or refused: user data always passes *)
Theorem C19_reserved_are_underscore : forall p m, (consumed p m || must_not_set p m) = true ->
  exists r, mkey m = c_underscore :: r.
Proof. exact consumed_is_underscore. Qed.
Print Assumptions C19_reserved_are_underscore.

(* ---- every write entry point, every request text (Accept.v) ----
   accept : entry -> top -> result.  entry = PUT | POST | _bulk_docs | PUT ?new_edits=false | _bulk_docs new_edits=false |
   BLIP rev | BLIP rev with deltaSrc | raw write + on-demand import | raw write + import feed;  top = syntax error |
   array/string/number/boolean | null | object with its members in text order (duplicate names possible, each with
   the kind of its value and whether the name was spelled with an escape) and "bytes follow the object". *)

(* what is stored is exactly: the members the decoder sees (the LAST of a duplicated name) minus the ones the entry
   point consumes; nothing is invented, no kind is altered *)
Theorem C19_accept_stores_exactly : forall e raw tr ms vb, accept e (TObj raw tr) = RStored ms vb ->
  forall k v, In (k, v) ms <-> exists esc, In (k, v, esc) (dedupe raw) /\ consumed_e e (k, v, esc) = false.
Proof. exact accept_stored_exact. Qed.
Print Assumptions C19_accept_stores_exactly.

(* stored_body_has_no_reserved_keys: for EVERY entry point and EVERY request text, no member of the stored TEXT --
   shadowed duplicates of a byte-preserving entry point included -- is named _id, _rev, _revisions, _sync, _purged
   or _sync_* (reserved_everywhere: the exact common set, which _cv joined with the repair d51088e; _exp, _deleted,
   _attachments are NOT in it, see C19_reserved_leaks_exact), and _removed survives only as null *)
Theorem C19_stored_body_has_no_reserved_keys : forall e t r tms tr, accept e t = r -> stored_text t r = Some (tms, tr) ->
  forall k, In k (map fst tms) -> reserved_everywhere k = false.
Proof. exact stored_no_reserved. Qed.
Print Assumptions C19_stored_body_has_no_reserved_keys.

Theorem C19_stored_removed_only_null : forall e raw tr ms vb, accept e (TObj raw tr) = RStored ms vb ->
  forall v, In (k_removed, v) ms -> v = KNull.
Proof. exact stored_removed_null. Qed.
Print Assumptions C19_stored_removed_only_null.

(* the names the read paths inject (_id _rev _revisions _exp _cv _deleted _attachments) that nevertheless reach a
   stored body, entry point by entry point and kind by kind: exactly the table [leak] of Accept.v
     _exp:null              every gateway entry point          _attachments:null     BLIP rev
     _deleted, _attachments import
   (each line has an instance in the non-vacuity example; before the repairs d54ae5f / d51088e the table also had
   _exp:<not a number> through new_edits=false and _cv through new_edits=false, BLIP rev and import: C19_Refuted.v) *)
Theorem C19_reserved_leaks_exact : forall e raw tr ms vb, accept e (TObj raw tr) = RStored ms vb ->
  forall k v, In (k, v) ms -> In k read_keys -> leak e k v = true.
Proof. exact stored_read_key_is_leak. Qed.
Print Assumptions C19_reserved_leaks_exact.

(* user_keys_preserved: values carried along (V: value texts, kd: their kind, canon: one decode / encode pass).  Every
   member whose name does not start with an underscore is stored -- byte for byte when the entry point keeps the
   received bytes (vb = true), re-encoded once (canon: whitespace dropped, escapes normalised, number literals
   kept as json.Number) when the body is marshalled again; and every stored member was written *)
Theorem C19_user_keys_preserved : forall (V : Type) (kd : V -> vk) (canon : V -> V) e t d vb,
  accept_v V kd canon e t = VStored d vb ->
  exists raw tr, t = VObj raw tr /\
    (forall k v esc, In (k, v, esc) (dedupe_k vkey raw) -> (forall r, k <> c_underscore :: r) ->
       In (k, if vb then v else canon v) (dedupe_k fst (sd_ms d))) /\
    (forall k v', In (k, v') (dedupe_k fst (sd_ms d)) ->
       exists v esc, In (k, v, esc) raw /\ v' = (if vb then v else canon v)).
Proof. exact user_keys_preserved_v. Qed.
Print Assumptions C19_user_keys_preserved.

(* a text that is not an object is never stored: it is refused with a status, at every entry point (as found, the
   literal null made POST /ks/ and a BLIP rev panic: repair 0a738b1, C19_Refuted.v) *)
Theorem C19_nonobject_never_stored : forall e t, (t = TInvalid \/ t = TNonObj \/ t = TNull) -> exists s, accept e t = RRej s.
Proof. exact nonobject_never_stored. Qed.
Print Assumptions C19_nonobject_never_stored.

(* no request text makes a handler panic *)
Theorem C19_never_panics : forall e t, accept e t <> RPanic.
Proof. exact never_panics. Qed.
Print Assumptions C19_never_panics.

(* no gateway entry point stores bytes after the object (BLIP rev: repair b5cfb32); the only stored text that has
   them is one an SDK wrote and the on-demand import adopted without rewriting it *)
Theorem C19_trailing_bytes_only_import : forall e t r tms, accept e t = r -> stored_text t r = Some (tms, true) -> e = EImport.
Proof. exact trailing_stored_only_import. Qed.
Print Assumptions C19_trailing_bytes_only_import.

(* the model of the tree as found is the same function with the four repair switches off: with all of them on it is accept *)
Theorem C19_accept_is_repaired_instance : forall e t, accept_gen repaired e t = accept e t.
Proof. exact accept_gen_repaired. Qed.
Print Assumptions C19_accept_is_repaired_instance.

(* BLIP rev with deltaSrc, EE branch (model only: go-fleecedelta is not part of this build): a delta cannot introduce
   a property validateBlipBody refuses; such a member of the result was in the source body and is not touched *)
Theorem C19_delta_introduces_no_disallowed : forall src delta st, blip_delta_ee src delta = OStored st ->
  forall k v, In (k, v) st -> mem k blip_disallowed = true -> In (k, v) src /\ ~ In k (map mkey delta).
Proof. exact delta_introduces_no_disallowed. Qed.
Print Assumptions C19_delta_introduces_no_disallowed.

(* ---- every read exit, every stored text (ReadPath.v) ---- *)

(* read_is_stored_plus_metadata: a stored body with distinct names, none of them injected by the exit, and nothing
   after the object, comes back through EVERY exit with no duplicate name, every stored member present (re-encoded by
   the map exits, byte for byte by the splice exits), and otherwise exactly the properties the exit injects *)
Theorem C19_read_is_stored_plus_metadata : forall (V : Type) (canon : V -> V) x mt (d : sdoc V),
  NoDup (map fst (sd_ms d)) -> sd_trailing d = false ->
  (forall k, In k (map fst (sd_ms d)) -> ~ In k (injected x mt)) ->
  exists out, read canon x mt d = Some out /\ NoDup (map fst out) /\
    forall k o, In (k, o) out <->
      (In k (injected x mt) /\ o = OG) \/ (exists v, In (k, v) (sd_ms d) /\ o = OU (cn canon x v)).
Proof. exact read_clean. Qed.
Print Assumptions C19_read_is_stored_plus_metadata.

(* ... and for ANY stored text (duplicate names, reserved names): what a client's decoder makes of the response is
   what a decoder makes of the stored text, with the injected properties laid over it *)
Theorem C19_read_parsed_any_stored_text : forall (V : Type) (canon : V -> V) x mt (d : sdoc V) out,
  read canon x mt d = Some out ->
  forall k o, In (k, o) (parsed out) <->
    (In k (injected x mt) /\ o = OG) \/
    (~ In k (injected x mt) /\ exists v, In (k, v) (dedupe_k fst (sd_ms d)) /\ o = OU (cn canon x v)).
Proof. exact read_parsed. Qed.
Print Assumptions C19_read_parsed_any_stored_text.

(* bytes after the stored object: the map exits answer, the splice exits cannot *)
Theorem C19_read_trailing : forall (V : Type) (canon : V -> V) x mt ms,
  read canon x mt {| sd_ms := ms; sd_trailing := true |} = None <-> splices x = true.
Proof. exact read_trailing. Qed.
Print Assumptions C19_read_trailing.

(* ---- entry x exit ---- *)

(* roundtrip_all_pairs: EVERY entry point x EVERY exit.  If the stored text has nothing after the object and none of
   its names is read-injected, the response -- as a client's decoder sees it -- consists of the injected properties
   and, for every written member (the last of its name) that the entry point does not consume, a member of the same
   name carrying the written text re-encoded once per marshalling step (rendered) *)
Theorem C19_roundtrip_all_pairs : forall (V : Type) (kd : V -> vk) (canon : V -> V) e x mt t d vb,
  accept_v V kd canon e t = VStored d vb ->
  sd_trailing d = false ->
  (forall k, In k (map fst (sd_ms d)) -> ~ In k read_keys) ->
  exists raw tr out, t = VObj raw tr /\ read canon x mt d = Some out /\
    forall k o, In (k, o) (parsed out) <->
      (In k (injected x mt) /\ o = OG) \/
      (exists v esc, In (k, v, esc) (dedupe_k vkey raw) /\ consumed_e e (k, kd v, esc) = false /\
                     o = OU (rendered V canon x vb v)).
Proof. exact roundtrip_all_pairs. Qed.
Print Assumptions C19_roundtrip_all_pairs.

(* for everything a gateway entry point wrote, "nothing after the object" needs no hypothesis any more *)
Theorem C19_roundtrip_gateway_writes : forall (V : Type) (kd : V -> vk) (canon : V -> V) e x mt t d vb,
  accept_v V kd canon e t = VStored d vb -> e <> EImport ->
  (forall k, In k (map fst (sd_ms d)) -> ~ In k read_keys) ->
  exists raw tr out, t = VObj raw tr /\ read canon x mt d = Some out /\
    forall k o, In (k, o) (parsed out) <->
      (In k (injected x mt) /\ o = OG) \/
      (exists v esc, In (k, v, esc) (dedupe_k vkey raw) /\ consumed_e e (k, kd v, esc) = false /\
                     o = OU (rendered V canon x vb v)).
Proof. exact roundtrip_gateway_writes. Qed.
Print Assumptions C19_roundtrip_gateway_writes.

(* the headline, no hypothesis about the stored state left: a written object with distinct names, none of them one of the
   seven read-injected names, and nothing after it.  For every entry point that accepts it and every exit: the read
   succeeds, no name is duplicated, the members are the injected properties plus exactly the written members the
   entry point does not consume, each denoting the JSON value that was written -- given only that one decode / encode
   pass of the JSON library preserves the value (sem_canon, the library hypothesis the differential monitor tests) *)
Theorem C19_roundtrip_clean_documents : forall (V : Type) (kd : V -> vk) (canon : V -> V) (S : Type) (sem : V -> S),
  (forall v, sem (canon v) = sem v) ->
  forall e x mt raw d vb,
  accept_v V kd canon e (VObj raw false) = VStored d vb ->
  NoDup (map vkey raw) ->
  (forall k, In k (map vkey raw) -> ~ In k read_keys) ->
  exists out, read canon x mt d = Some out /\ NoDup (map fst out) /\
    forall k o, In (k, o) out <->
      (In k (injected x mt) /\ o = OG) \/
      (exists v esc, In (k, v, esc) raw /\ consumed_e e (k, kd v, esc) = false /\
                     o = OU (rendered V canon x vb v) /\ sem (rendered V canon x vb v) = sem v).
Proof. exact roundtrip_clean_documents. Qed.
Print Assumptions C19_roundtrip_clean_documents.

(* ---- non-vacuity ---- *)
Example C19_nonvacuous :
  let ok := fun _ : list N => true in
  Render ok ok (JObj [([97], JNum [49])]) [32; 123; 34; 97; 34; 58; 49; 125; 10] /\
  Render ok ok (JObj []) [123; 32; 10; 125] /\
  kv_ok ok ok (k_id, [34; 120; 34]) (JStr [120]) /\
  inject [123; 32; 10; 125] [(k_id, [34; 120; 34])] = Some [123; 32; 10; 34; 95; 105; 100; 34; 58; 34; 120; 34; 125] /\
  must_not_set PBlip (k_id, KStr, true) = true /\
  write PPut [([97], KNum, false); (k_exp, KNum, false); (k_removed, KNull, false)] = OStored [([97], KNum); (k_removed, KNull)].
Proof. exact nonvacuous_witness. Qed.

(* the hypotheses of the round-trip theorems are satisfiable, on an input with a duplicate name, an underscore name that
   is plain data and a consumed member, through a byte-preserving and a re-marshalling entry point and a splice and a
   map exit; and every line of the leak table has an instance *)
Example C19_nonvacuous_roundtrip :
  let idv := fun v : vk => v in
  let raw := [([97], KNum, false); ([95; 118; 118], KObj, false); ([97], KStr, false); (k_exp, KNum, false)] in
  let mt := {| m_cv := true; m_deleted := false; m_exp := true; m_atts := ANil |} in
  accept_v vk idv idv EPut (VObj raw true) =
    VStored {| sd_ms := [([95; 118; 118], KObj); ([97], KStr)]; sd_trailing := false |} false /\
  accept_v vk idv idv EImport (VObj [([97], KNum, false); ([97], KStr, false)] false) =
    VStored {| sd_ms := [([97], KNum); ([97], KStr)]; sd_trailing := false |} true /\
  read idv XChanges mt {| sd_ms := [([95; 118; 118], KObj); ([97], KStr)]; sd_trailing := false |} =
    Some [([95; 118; 118], OU KObj); ([97], OU KStr); (k_id, OG); (k_rev, OG); (k_cv, OG)] /\
  read idv (XGet true true) mt {| sd_ms := [([97], KNum); ([97], KStr)]; sd_trailing := false |} =
    Some [([97], OU KStr); (k_id, OG); (k_rev, OG); (k_revisions, OG); (k_exp, OG); (k_cv, OG)] /\
  leak EPutNE k_exp KNull = true /\ leak EImport k_attachments KObj = true /\ leak EImport k_deleted KTrue = true /\
  leak EPut k_exp KNull = true /\ leak EBlip k_attachments KNull = true /\
  accept EPutNE (TObj [(k_exp, KNull, false)] false) = RStored [(k_exp, KNull)] false /\
  accept EBlip (TObj [(k_attachments, KNull, false)] false) = RStored [(k_attachments, KNull)] true /\
  accept EImport (TObj [(k_deleted, KTrue, false); (k_attachments, KObj, false)] false) =
    RStored [(k_deleted, KTrue); (k_attachments, KObj)] true.
Proof. exact nonvacuous_roundtrip_witness. Qed.

(* ---- the full property, of which the above is a part ----
   A system is given by its write paths (text -> stored state or refusal), its read paths (state -> text) and the
   meaning of a JSON text (its value, numbers as exact decimals).  The property text asks that every accepted
   object comes back with the same value on every read path, up to the reserved members added on read and
   consumed on write.  The theorems above establish the splice step of the read paths and the member
   bookkeeping of the write paths; what is missing is a model of the JSON decoder/encoder used in between
   (encoding/json, jsoniter: number literals, escapes, UTF-8), which is covered by differential testing only. *)
Definition C19_full_statement
  (State Value : Type) (wp rp : Type)
  (sys_write : wp -> list N -> option State) (sys_read : rp -> State -> list N)
  (value : list N -> option Value)                       (* None: not valid JSON *)
  (minus_reserved : Value -> Value) : Prop :=
  forall w r text st v, value text = Some v -> sys_write w text = Some st ->
    exists v', value (sys_read r st) = Some v' /\ minus_reserved v' = minus_reserved v.
