(* C19 -- proofs about the reserved-property logic of Reserved.v *)
From SG Require Import Base.Prelude C19.Json C19.Reserved.
Open Scope N_scope.

(* ================= generalities ================= *)
Lemma mem_In : forall k l, mem k l = true <-> In k l.
Proof.
  intros k l. unfold mem. rewrite existsb_exists. split.
  - intros [x [Hin He]]. apply bytes_eqb_eq in He. now subst.
  - intros H. exists k. split; [exact H|]. now apply bytes_eqb_eq.
Qed.

Lemma bytes_eqb_refl : forall k, bytes_eqb k k = true.
Proof. intros. now apply bytes_eqb_eq. Qed.

Lemma bytes_eqb_sym : forall a b, bytes_eqb a b = bytes_eqb b a.
Proof.
  intros a b. destruct (bytes_eqb a b) eqn:E1, (bytes_eqb b a) eqn:E2; try reflexivity.
  - apply bytes_eqb_eq in E1. subst. now rewrite bytes_eqb_refl in E2.
  - apply bytes_eqb_eq in E2. subst. now rewrite bytes_eqb_refl in E1.
Qed.

Lemma filter_idem {A} (f : A -> bool) : forall l, filter f (filter f l) = filter f l.
Proof.
  induction l as [|x l IH]; [reflexivity|]. cbn [filter]. destruct (f x) eqn:E; [|exact IH].
  cbn [filter]. now rewrite E, IH.
Qed.

Lemma NoDup_map_filter {A B} (g : A -> B) (f : A -> bool) : forall l, NoDup (map g l) -> NoDup (map g (filter f l)).
Proof.
  induction l as [|x l IH]; intros H; [exact H|]. cbn [map] in H. inversion H as [|y ys Hn Hd]; subst.
  cbn [filter]. destruct (f x); [|now apply IH]. cbn [map]. constructor; [|now apply IH].
  intros Hin. apply Hn. apply in_map_iff in Hin as [z [Hz Hin]]. apply filter_In in Hin as [Hin _].
  apply in_map_iff. now exists z.
Qed.

(* ================= stripSpecialProperties ================= *)
Section Strip.
  Context {V : Type}.

  Theorem strip_spec : forall io (b : list (bytes * V)) m,
    In m (strip io b) <-> In m b /\ strip_keeps io (fst m) = true.
  Proof. intros. unfold strip. apply filter_In. Qed.

  Theorem strip_idempotent : forall io (b : list (bytes * V)), strip io (strip io b) = strip io b.
  Proof. intros. apply filter_idem. Qed.

  Theorem strip_found_false : forall io (b : list (bytes * V)), strip_found io b = false -> strip io b = b.
  Proof.
    intros io b. unfold strip_found, strip. induction b as [|m b IH]; [reflexivity|].
    cbn [existsb filter]. intros H. apply orb_false_iff in H as [Hm Hb]. apply negb_false_iff in Hm.
    rewrite Hm. now rewrite IH.
  Qed.

  Theorem strip_found_true : forall io (b : list (bytes * V)), strip_found io b = true ->
    exists m, In m b /\ ~ In m (strip io b).
  Proof.
    intros io b H. unfold strip_found in H. apply existsb_exists in H as [m [Hin Hk]].
    exists m. split; [exact Hin|]. rewrite strip_spec. intros [_ Hkeep]. rewrite Hkeep in Hk. discriminate.
  Qed.
End Strip.

Lemma strip_then_inject_nodup {V : Type} : forall (b kvs : list (bytes * V)),
  NoDup (map fst b) -> NoDup (map fst kvs) -> (forall kv, In kv kvs -> strip_keeps true (fst kv) = false) ->
  NoDup (map fst (strip true b ++ kvs)).
Proof.
  intros b kvs Hb Hk Hres. rewrite map_app.
  assert (Hs : NoDup (map fst (strip true b))) by (unfold strip; now apply NoDup_map_filter).
  assert (Hdisj : forall k, In k (map fst (strip true b)) -> ~ In k (map fst kvs)).
  { intros k H1 H2. apply in_map_iff in H1 as [m [<- Hm]]. apply strip_spec in Hm as [_ Hkeep].
    apply in_map_iff in H2 as [kv [He Hkv]]. apply Hres in Hkv. rewrite He in Hkv. congruence. }
  revert Hs Hdisj. generalize (map fst (strip true b)) as l. induction l as [|x l IH]; intros Hs Hdisj.
  - exact Hk.
  - cbn [app]. inversion Hs as [|y ys Hn Hd]; subst. constructor.
    + intros Hin. apply in_app_iff in Hin as [Hin|Hin]; [now apply Hn|]. apply (Hdisj x); [now left|exact Hin].
    + apply IH; [exact Hd|]. intros k Hin. apply Hdisj. now right.
Qed.

Lemma has_prefix_sync_underscore : forall k, has_prefix k_sync_ k = true -> exists r, k = c_underscore :: r.
Proof.
  intros [|c r] H; [discriminate|]. unfold k_sync_ in H. cbn [has_prefix] in H. apply andb_true_iff in H as [Hc _].
  apply N.eqb_eq in Hc. subst. now exists r.
Qed.

Lemma internal_keys_underscore : forall k, In k internal_keys -> exists r, k = c_underscore :: r.
Proof.
  intros k H. unfold internal_keys in H. cbn [In] in H.
  repeat (destruct H as [<-|H]; [eexists; reflexivity|]). contradiction.
Qed.

(* with internalOnly: exactly the documented internal properties go *)
Theorem strip_internal_exact : forall k,
  strip_keeps true k = false <-> (In k internal_keys \/ has_prefix k_sync_ k = true).
Proof.
  intros k. split.
  - destruct k as [|c r]; [discriminate|]. unfold strip_keeps. cbn [andb]. intros H.
    apply orb_false_iff in H as [_ H]. apply andb_false_iff in H as [H|H]; apply negb_false_iff in H.
    + now right.
    + left. now apply mem_In.
  - intros H. assert (Hu : exists r, k = c_underscore :: r).
    { destruct H as [H|H]; [now apply internal_keys_underscore|now apply has_prefix_sync_underscore]. }
    destruct Hu as [r ->]. unfold strip_keeps. rewrite N.eqb_refl. cbn [negb orb andb].
    destruct H as [H|H].
    + apply mem_In in H. rewrite H. cbn [negb]. apply andb_false_r.
    + rewrite H. reflexivity.
Qed.

(* without internalOnly: exactly the underscore-prefixed properties go *)
Theorem strip_all_exact : forall k, strip_keeps false k = false <-> exists r, k = c_underscore :: r.
Proof.
  intros k. split.
  - destruct k as [|c r]; [discriminate|]. unfold strip_keeps. cbn [andb]. rewrite orb_false_r.
    intros H. apply negb_false_iff, N.eqb_eq in H. subst. now exists r.
  - intros [r ->]. unfold strip_keeps. now rewrite N.eqb_refl.
Qed.

(* a property whose name does not begin with an underscore is never removed *)
Theorem strip_user_key : forall io k, (forall r, k <> c_underscore :: r) -> strip_keeps io k = true.
Proof.
  intros io [|c r] H; [reflexivity|]. unfold strip_keeps. destruct (c =? c_underscore) eqn:E; [|reflexivity].
  apply N.eqb_eq in E. subst. exfalso. now apply (H r).
Qed.

(* ================= write paths ================= *)
Lemma find_key_some : forall k b m, find_key k b = Some m -> In m b /\ mkey m = k.
Proof.
  intros k b m H. unfold find_key in H. apply find_some in H as [Hin He]. apply bytes_eqb_eq in He. now split.
Qed.

Lemma find_key_none : forall k b, find_key k b = None -> forall m, In m b -> mkey m <> k.
Proof.
  intros k b H m Hin He. unfold find_key in H. apply (find_none _ _ H) in Hin. subst.
  now rewrite bytes_eqb_refl in Hin.
Qed.

Lemma find_key_In : forall b m, NoDup (map mkey b) -> In m b -> find_key (mkey m) b = Some m.
Proof.
  induction b as [|x b IH]; intros m Hnd Hin; [contradiction|].
  cbn [map] in Hnd. inversion Hnd as [|y ys Hn Hd]; subst.
  unfold find_key. cbn [find]. destruct (bytes_eqb (mkey x) (mkey m)) eqn:E.
  - apply bytes_eqb_eq in E. destruct Hin as [->|Hin]; [reflexivity|].
    exfalso. apply Hn. rewrite E. now apply in_map.
  - destruct Hin as [->|Hin]; [now rewrite bytes_eqb_refl in E|]. now apply IH.
Qed.

Lemma kind_of_In : forall b m, NoDup (map mkey b) -> In m b -> kind_of (mkey m) b = Some (mkind m).
Proof. intros b m Hnd Hin. unfold kind_of. now rewrite (find_key_In b m Hnd Hin). Qed.

Lemma has_key_In : forall b m, In m b -> has_key (mkey m) b = true.
Proof.
  intros b m Hin. unfold has_key. destruct (find_key (mkey m) b) eqn:E; [reflexivity|].
  exfalso. now apply (find_key_none _ _ E m Hin).
Qed.

Lemma remove_keys_In : forall ks b m, In m (remove_keys ks b) <-> In m b /\ mem (mkey m) ks = false.
Proof. intros. unfold remove_keys. rewrite filter_In. now rewrite negb_true_iff. Qed.

Lemma remove_keys_NoDup : forall ks b, NoDup (map mkey b) -> NoDup (map mkey (remove_keys ks b)).
Proof. intros. now apply NoDup_map_filter. Qed.

Lemma stored_In : forall b k v, In (k, v) (stored b) <-> exists e, In (k, v, e) b.
Proof.
  intros b k v. unfold stored. rewrite in_map_iff. split.
  - intros [[[k' v'] e] [He Hin]]. cbn in He. inversion He; subst. now exists e.
  - intros [e Hin]. now exists (k, v, e).
Qed.

(* keys that no path consumes *)
Lemma never_allowed_key : forall m, never_allowed m = true ->
  mem (mkey m) [k_id; k_rev; k_cv; k_attachments; k_revisions; k_exp; k_deleted; k_sync] = false.
Proof.
  intros m H. destruct (mem (mkey m) _) eqn:E; [|reflexivity]. exfalso.
  apply mem_In in E. unfold never_allowed in H.
  cbn [In] in E. repeat (destruct E as [E|E]; [rewrite <- E in H; vm_compute in H; discriminate|]). contradiction.
Qed.

Lemma mem_sub : forall k l l', (forall x, In x l' -> In x l) -> mem k l = false -> mem k l' = false.
Proof.
  intros k l l' Hsub H. destruct (mem k l') eqn:E; [|reflexivity].
  apply mem_In in E. apply Hsub in E. apply mem_In in E. congruence.
Qed.

Lemma validate_new_body_rejects : forall b m, NoDup (map mkey b) -> In m b -> never_allowed m = true ->
  exists s, validate_new_body b = Some s.
Proof.
  intros b m Hnd Hin Hna. unfold validate_new_body.
  unfold never_allowed in Hna. apply orb_true_iff in Hna as [Hna|Hpre].
  apply orb_true_iff in Hna as [Hrem|Hpur].
  - apply andb_true_iff in Hrem as [Hk Hv]. apply bytes_eqb_eq in Hk.
    rewrite <- Hk, (kind_of_In b m Hnd Hin). destruct (mkind m); try (eexists; reflexivity). discriminate.
  - apply bytes_eqb_eq in Hpur. assert (Hp : has_key k_purged b = true) by (rewrite <- Hpur; now apply has_key_In).
    rewrite Hp. destruct (kind_of k_removed b) as [[]|]; eexists; reflexivity.
  - assert (He : existsb (fun m => has_prefix k_sync_ (mkey m)) b = true).
    { apply existsb_exists. now exists m. }
    rewrite He. destruct (kind_of k_removed b) as [[]|]; destruct (has_key k_purged b); eexists; reflexivity.
Qed.

Lemma validate_new_body_none : forall b, validate_new_body b = None -> forall m, In m b -> NoDup (map mkey b) ->
  never_allowed m = false.
Proof.
  intros b H m Hin Hnd. destruct (never_allowed m) eqn:E; [|reflexivity].
  destruct (validate_new_body_rejects b m Hnd Hin E) as [s Hs]. congruence.
Qed.

(* ---- db.Put ---- *)
Lemma db_put_rejects : forall b m, NoDup (map mkey b) -> In m b ->
  (never_allowed m || bytes_eqb (mkey m) k_sync) = true -> exists s, db_put b = ORej s.
Proof.
  intros b m Hnd Hin Hm. unfold db_put.
  destruct (match kind_of k_rev b with Some KStr => true | _ => false end); [eexists; reflexivity|].
  assert (Hkeep : forall ks, (forall x, In x ks -> In x [k_id; k_rev; k_cv; k_attachments; k_revisions; k_exp; k_deleted]) ->
            In m (remove_keys ks b)).
  { intros ks Hsub. apply remove_keys_In. split; [exact Hin|].
    apply orb_true_iff in Hm as [Hna|Hs].
    - eapply mem_sub; [|apply (never_allowed_key m Hna)]. intros x Hx. apply Hsub in Hx. cbn [In] in *. tauto.
    - apply bytes_eqb_eq in Hs. destruct (mem (mkey m) ks) eqn:E; [|reflexivity]. exfalso.
      apply mem_In in E. apply Hsub in E. rewrite Hs in E. cbn [In] in E.
      repeat (destruct E as [E|E]; [vm_compute in E; discriminate|]). contradiction. }
  assert (Hgo : forall ks, (forall x, In x ks -> In x [k_id; k_rev; k_cv; k_attachments; k_revisions; k_exp]) ->
    exists s,
      (if has_key k_sync (remove_keys ks b) then ORej 400
       else if match kind_of k_cv b with Some KStr => true | _ => false end then ORej 409
       else match validate_new_body (remove_keys [k_deleted] (remove_keys ks b)) with
            | Some s => ORej s
            | None => if match kind_of k_deleted b with Some KTrue => true | _ => false end
                      then ODeleted else OStored (stored (remove_keys [k_deleted] (remove_keys ks b)))
            end) = ORej s).
  { intros ks Hsub.
    assert (H1 : In m (remove_keys ks b)).
    { apply Hkeep. intros x Hx. apply Hsub in Hx. cbn [In] in *. tauto. }
    apply orb_true_iff in Hm as [Hna|Hs].
    - destruct (has_key k_sync (remove_keys ks b)); [eexists; reflexivity|].
      destruct (match kind_of k_cv b with Some KStr => true | _ => false end); [eexists; reflexivity|].
      assert (H2 : In m (remove_keys [k_deleted] (remove_keys ks b))).
      { apply remove_keys_In. split; [exact H1|]. eapply mem_sub; [|apply (never_allowed_key m Hna)].
        intros x Hx. cbn [In] in *. tauto. }
      destruct (validate_new_body_rejects _ m (remove_keys_NoDup _ _ (remove_keys_NoDup _ _ Hnd)) H2 Hna) as [s Hs].
      rewrite Hs. eexists; reflexivity.
    - apply bytes_eqb_eq in Hs. rewrite <- Hs, (has_key_In _ m H1). eexists; reflexivity. }
  destruct (extract_expiry b).
  - apply Hgo. intros x Hx. rewrite app_nil_r in Hx. cbn [In] in *. tauto.
  - apply Hgo. intros x Hx. rewrite app_nil_r in Hx. cbn [In] in *. tauto.
  - apply Hgo. intros x Hx. apply in_app_iff in Hx. cbn [In] in *. tauto.
  - eexists; reflexivity.
Qed.

Lemma rest_put_rejects : forall b m, NoDup (map mkey b) -> In m b ->
  (never_allowed m || bytes_eqb (mkey m) k_sync) = true -> exists s, rest_put b = ORej s.
Proof.
  intros b m Hnd Hin Hm. unfold rest_put.
  destruct (match kind_of k_id b with Some KStr => true | _ => false end); [eexists; reflexivity|].
  match goal with |- context[if ?c then ORej 400 else db_put b] => destruct c end; [eexists; reflexivity|].
  now apply (db_put_rejects b m).
Qed.

(* ---- BLIP rev, repaired check ---- *)
Lemma blip_rejects : forall b m, NoDup (map mkey b) -> In m b ->
  (never_allowed m || mem (mkey m) blip_disallowed) = true -> exists s, blip_rev_gen true b = ORej s.
Proof.
  intros b m Hnd Hin Hm. unfold blip_rev_gen.
  destruct (existsb (fun m0 => mem (mkey m0) blip_disallowed && visible true m0) b) eqn:Hex; [eexists; reflexivity|].
  apply orb_true_iff in Hm as [Hna|Hdis].
  2:{ exfalso. assert (existsb (fun m0 => mem (mkey m0) blip_disallowed && visible true m0) b = true).
      { apply existsb_exists. exists m. split; [exact Hin|]. rewrite Hdis. reflexivity. }
      congruence. }
  assert (Hfin : forall b2, In m b2 -> NoDup (map mkey b2) ->
            exists s, match validate_new_body b2 with Some s => ORej s | None => OStored (stored b2) end = ORej s).
  { intros b2 H2 Hnd2. destruct (validate_new_body_rejects b2 m Hnd2 H2 Hna) as [s Hs]. rewrite Hs. eexists; reflexivity. }
  assert (Hatt : forall b1, In m b1 -> NoDup (map mkey b1) ->
            exists s, match validate_new_body
                        (match find_key k_attachments b1 with
                         | Some m0 => if visible true m0 && negb (vk_eqb (mkind m0) KNull) then remove_keys [k_attachments] b1 else b1
                         | None => b1 end) with Some s => ORej s | None => OStored (stored
                        (match find_key k_attachments b1 with
                         | Some m0 => if visible true m0 && negb (vk_eqb (mkind m0) KNull) then remove_keys [k_attachments] b1 else b1
                         | None => b1 end)) end = ORej s).
  { intros b1 H1 Hnd1. destruct (find_key k_attachments b1) as [m0|]; [|now apply Hfin].
    destruct (visible true m0 && negb (vk_eqb (mkind m0) KNull)); [|now apply Hfin].
    apply Hfin; [|now apply remove_keys_NoDup]. apply remove_keys_In. split; [exact H1|].
    eapply mem_sub; [|apply (never_allowed_key m Hna)]. intros x Hx. cbn [In] in *. tauto. }
  assert (Hexp : In m (remove_keys [k_exp] b)).
  { apply remove_keys_In. split; [exact Hin|].
    eapply mem_sub; [|apply (never_allowed_key m Hna)]. intros x Hx. cbn [In] in *. tauto. }
  assert (Hnil : remove_keys [] b = b).
  { unfold remove_keys. cbn [mem existsb negb]. clear. induction b as [|x b IH]; [reflexivity|]. cbn [filter]. now rewrite IH. }
  destruct (find_key k_exp b) as [me|].
  - cbn [visible orb]. destruct (extract_expiry b).
    + rewrite Hnil. now apply Hatt.
    + rewrite Hnil. now apply Hatt.
    + apply Hatt; [exact Hexp|now apply remove_keys_NoDup].
    + eexists; reflexivity.
  - rewrite Hnil. now apply Hatt.
Qed.

(* ---- import ---- *)
Lemma import_rejects : forall b m, NoDup (map mkey b) -> In m b ->
  (never_allowed m || (mem (mkey m) import_disallowed || bytes_eqb (mkey m) k_sync)) = true ->
  exists s, import_doc b = ORej s.
Proof.
  intros b m Hnd Hin Hm. unfold import_doc.
  destruct (match kind_of k_sync b with Some KNull | Some KObj | None => false | Some _ => true end); [eexists; reflexivity|].
  destruct (existsb (fun m0 => mem (mkey m0) import_disallowed) b) eqn:Hex; [eexists; reflexivity|].
  destruct (has_key k_sync b) eqn:Hs; [eexists; reflexivity|].
  apply orb_true_iff in Hm as [Hna|Hm].
  - destruct (validate_new_body_rejects b m Hnd Hin Hna) as [s ->]. eexists; reflexivity.
  - exfalso. apply orb_true_iff in Hm as [Hd|Hk].
    + assert (existsb (fun m0 => mem (mkey m0) import_disallowed) b = true) by (apply existsb_exists; now exists m).
      congruence.
    + apply bytes_eqb_eq in Hk. rewrite <- Hk, (has_key_In b m Hin) in Hs. discriminate.
Qed.

(* a reserved property that a client must not set makes the write fail, on every path *)
Theorem write_rejects_reserved : forall p b m, NoDup (map mkey b) -> In m b -> must_not_set p m = true ->
  exists s, write_gen true p b = ORej s.
Proof.
  intros p b m Hnd Hin Hm. unfold must_not_set in Hm. destruct p; cbn [write_gen].
  - now apply (rest_put_rejects b m).
  - now apply (db_put_rejects b m).
  - now apply (blip_rejects b m).
  - now apply (import_rejects b m).
Qed.

(* ================= what an accepted write stores ================= *)
Lemma db_put_stored : forall b st, NoDup (map mkey b) -> db_put b = OStored st ->
  forall k v, In (k, v) st <-> exists e, In (k, v, e) b /\ consumed PBulk (k, v, e) = false.
Proof.
  intros b st Hnd H k v. unfold db_put in H.
  destruct (match kind_of k_rev b with Some KStr => true | _ => false end); [discriminate|].
  assert (Hgo : forall ks,
    (if has_key k_sync (remove_keys ks b) then ORej 400
       else if match kind_of k_cv b with Some KStr => true | _ => false end then ORej 409
       else match validate_new_body (remove_keys [k_deleted] (remove_keys ks b)) with
            | Some s => ORej s
            | None => if match kind_of k_deleted b with Some KTrue => true | _ => false end
                      then ODeleted else OStored (stored (remove_keys [k_deleted] (remove_keys ks b)))
            end) = OStored st ->
    st = stored (remove_keys [k_deleted] (remove_keys ks b))).
  { clear H. intros ks Hs. destruct (has_key k_sync (remove_keys ks b)); [discriminate Hs|].
    destruct (match kind_of k_cv b with Some KStr => true | _ => false end); [discriminate Hs|].
    destruct (validate_new_body _); [discriminate Hs|].
    destruct (match kind_of k_deleted b with Some KTrue => true | _ => false end); [discriminate Hs|].
    now inversion Hs. }
  assert (Hchar : forall ks taken,
     (forall x, mem x ks = mem x [k_id; k_rev; k_cv; k_attachments; k_revisions] || (taken && bytes_eqb x k_exp)) ->
     (forall m, In m b -> mkey m = k_exp -> vk_eqb (mkind m) KNum = taken) ->
     (In (k, v) (stored (remove_keys [k_deleted] (remove_keys ks b))) <->
      exists e, In (k, v, e) b /\ consumed PBulk (k, v, e) = false)).
  { intros ks taken Hks Htk. rewrite stored_In. split.
    - intros [e He]. exists e. apply remove_keys_In in He as [He Hd]. apply remove_keys_In in He as [He Hk].
      split; [exact He|]. unfold consumed, mkey, mkind in *. cbn [fst snd] in *.
      rewrite Hks in Hk. apply orb_false_iff in Hk as [Hk5 Hke].
      unfold mem in *. cbn [existsb] in *. rewrite !orb_false_r in *.
      repeat match goal with H : (_ || _) = false |- _ => apply orb_false_iff in H as [? ?] end.
      repeat match goal with H : bytes_eqb _ _ = false |- _ => rewrite H end. cbn [orb].
      destruct (bytes_eqb k k_exp) eqn:Eexp; [|reflexivity]. cbn [andb].
      apply bytes_eqb_eq in Eexp. specialize (Htk (k, v, e) He Eexp). unfold mkind in Htk. cbn in Htk.
      rewrite Htk. rewrite andb_true_r in Hke. exact Hke.
    - intros [e [He Hc]]. exists e. unfold consumed, mkey, mkind in Hc. cbn [fst snd] in Hc.
      apply orb_false_iff in Hc as [Hc6 Hce].
      apply remove_keys_In. split.
      + apply remove_keys_In. split; [exact He|]. unfold mkey. cbn [fst]. rewrite Hks.
        unfold mem in *. cbn [existsb] in *. rewrite !orb_false_r in *.
        repeat match goal with H : (_ || _) = false |- _ => apply orb_false_iff in H as [? ?] end.
        repeat match goal with H : bytes_eqb _ _ = false |- _ => rewrite H end. cbn [orb].
        destruct (bytes_eqb k k_exp) eqn:Eexp; [|apply andb_false_r]. cbn [andb] in Hce.
        apply bytes_eqb_eq in Eexp. specialize (Htk (k, v, e) He Eexp). unfold mkind in Htk. cbn in Htk.
        rewrite <- Htk, Hce. reflexivity.
      + unfold mkey. cbn [fst]. unfold mem in *. cbn [existsb] in *. rewrite !orb_false_r in *.
        repeat match goal with H : (_ || _) = false |- _ => apply orb_false_iff in H as [? ?] end. assumption. }
  assert (Hk : forall m, In m b -> mkey m = k_exp -> kind_of k_exp b = Some (mkind m)).
  { intros m Hin <-. now apply kind_of_In. }
  unfold extract_expiry in H. destruct (kind_of k_exp b) as [kd|] eqn:Ekd.
  - destruct kd; try discriminate.
    + (* null: stays *) cbn [app] in H. rewrite (Hgo _ H). apply (Hchar _ false).
      * intros x. cbn [andb]. now rewrite orb_false_r.
      * intros m Hin Hm. specialize (Hk m Hin Hm). injection Hk as Hx. rewrite <- Hx. reflexivity.
    + (* number: taken *) rewrite (Hgo _ H). apply (Hchar _ true).
      * intros x. unfold mem. rewrite existsb_app. cbn [existsb andb]. now rewrite !orb_false_r.
      * intros m Hin Hm. specialize (Hk m Hin Hm). injection Hk as Hx. rewrite <- Hx. reflexivity.
  - cbn [app] in H. rewrite (Hgo _ H). apply (Hchar _ false).
    + intros x. cbn [andb]. now rewrite orb_false_r.
    + intros m Hin Hm. exfalso. unfold kind_of in Ekd. destruct (find_key k_exp b) eqn:Ef; [discriminate|].
      now apply (find_key_none _ _ Ef m Hin).
Qed.

Lemma blip_stored : forall b st, NoDup (map mkey b) -> blip_rev_gen true b = OStored st ->
  forall k v, In (k, v) st <-> exists e, In (k, v, e) b /\ consumed PBlip (k, v, e) = false.
Proof.
  intros b st Hnd H k v. unfold blip_rev_gen in H.
  destruct (existsb _ b); [discriminate|].
  set (e := match find_key k_exp b with
            | Some m => if visible true m then extract_expiry b else ExpAbsent
            | None => ExpAbsent end) in *.
  assert (He : e = extract_expiry b).
  { unfold e, extract_expiry, kind_of. destruct (find_key k_exp b); reflexivity. }
  clearbody e. subst e.
  set (b1 := remove_keys (match extract_expiry b with ExpTaken => [k_exp] | _ => [] end) b) in *.
  set (b2 := match find_key k_attachments b1 with
             | Some m => if visible true m && negb (vk_eqb (mkind m) KNull) then remove_keys [k_attachments] b1 else b1
             | None => b1 end) in *.
  assert (Hst : st = stored b2).
  { destruct (extract_expiry b); try discriminate; destruct (validate_new_body b2); try discriminate; now inversion H. }
  assert (Hbad : extract_expiry b <> ExpBad) by (intros Hx; rewrite Hx in H; discriminate).
  subst st. rewrite stored_In.
  assert (Hnd1 : NoDup (map mkey b1)) by (now apply remove_keys_NoDup).
  (* membership in b1 *)
  assert (H1 : forall m, In m b1 <-> In m b /\ (bytes_eqb (mkey m) k_exp && vk_eqb (mkind m) KNum) = false).
  { intros m. unfold b1. rewrite remove_keys_In. split; intros [Hin Hc]; (split; [exact Hin|]).
    - destruct (bytes_eqb (mkey m) k_exp) eqn:Ek; [|reflexivity]. cbn [andb]. apply bytes_eqb_eq in Ek.
      unfold extract_expiry in *. rewrite <- Ek, (kind_of_In b m Hnd Hin) in *.
      destruct (mkind m); try reflexivity. exfalso. rewrite Ek in Hc. vm_compute in Hc. discriminate.
    - destruct (bytes_eqb (mkey m) k_exp) eqn:Ek.
      + cbn [andb] in Hc. apply bytes_eqb_eq in Ek. unfold extract_expiry in *.
        rewrite <- Ek, (kind_of_In b m Hnd Hin) in *. destruct (mkind m); try reflexivity; try discriminate;
        exfalso; now apply Hbad.
      + destruct (extract_expiry b); try reflexivity. unfold mem. cbn [existsb]. now rewrite Ek. }
  assert (H2 : forall m, In m b2 <-> In m b1 /\ (bytes_eqb (mkey m) k_attachments && negb (vk_eqb (mkind m) KNull)) = false).
  { intros m. unfold b2. destruct (find_key k_attachments b1) as [ma|] eqn:Ef.
    - apply find_key_some in Ef as [Hma Hka]. cbn [visible orb].
      destruct (negb (vk_eqb (mkind ma) KNull)) eqn:En.
      + cbn [andb]. rewrite remove_keys_In. unfold mem. cbn [existsb]. rewrite orb_false_r. split; intros [Hin Hc]; (split; [exact Hin|]).
        * now rewrite Hc.
        * destruct (bytes_eqb (mkey m) k_attachments) eqn:Ek; [|reflexivity]. cbn [andb] in Hc.
          apply bytes_eqb_eq in Ek. assert (m = ma).
          { pose proof (find_key_In b1 m Hnd1 Hin) as F1. pose proof (find_key_In b1 ma Hnd1 Hma) as F2.
            rewrite Ek in F1. rewrite Hka in F2. congruence. }
          subst. congruence.
      + cbn [andb]. split; [intros Hin; split; [exact Hin|]|intros [Hin _]; exact Hin].
        destruct (bytes_eqb (mkey m) k_attachments) eqn:Ek; [|reflexivity]. cbn [andb].
        apply bytes_eqb_eq in Ek. assert (m = ma).
        { pose proof (find_key_In b1 m Hnd1 Hin) as F1. pose proof (find_key_In b1 ma Hnd1 Hma) as F2.
          rewrite Ek in F1. rewrite Hka in F2. congruence. }
        subst. exact En.
    - split; [intros Hin; split; [exact Hin|]|intros [Hin _]; exact Hin].
      destruct (bytes_eqb (mkey m) k_attachments) eqn:Ek; [|reflexivity]. exfalso.
      apply bytes_eqb_eq in Ek. now apply (find_key_none _ _ Ef m Hin). }
  split.
  - intros [e He]. exists e. apply H2 in He as [He Ha]. apply H1 in He as [He Hx]. split; [exact He|].
    unfold consumed. unfold mkey, mkind in *. cbn [fst snd] in *. now rewrite Hx, Ha.
  - intros [e [He Hc]]. exists e. unfold consumed in Hc. apply orb_false_iff in Hc as [Hx Ha].
    apply H2. split; [apply H1; split; assumption|exact Ha].
Qed.

Lemma import_stored : forall b st, import_doc b = OStored st ->
  forall k v, In (k, v) st <-> exists e, In (k, v, e) b /\ consumed PImport (k, v, e) = false.
Proof.
  intros b st H k v. unfold import_doc in H.
  destruct (match kind_of k_sync b with Some KNull | Some KObj | None => false | Some _ => true end); [discriminate|].
  destruct (existsb _ b); [discriminate|].
  destruct (has_key k_sync b); [discriminate|]. destruct (validate_new_body b); [discriminate|].
  inversion H; subst. rewrite stored_In. split; intros [e He]; exists e; [split; [exact He|reflexivity]|tauto].
Qed.

(* an accepted write stores the written members minus exactly those the path consumes; kinds unchanged *)
Theorem write_stores_exactly : forall p b st, NoDup (map mkey b) -> write_gen true p b = OStored st ->
  forall k v, In (k, v) st <-> exists e, In (k, v, e) b /\ consumed p (k, v, e) = false.
Proof.
  intros p b st Hnd H k v. destruct p; cbn [write_gen] in H.
  - unfold rest_put in H. destruct (match kind_of k_id b with Some KStr => true | _ => false end); [discriminate|].
    match type of H with (if ?c then _ else _) = _ => destruct c end; [discriminate|].
    now apply db_put_stored.
  - now apply db_put_stored.
  - now apply blip_stored.
  - now apply (import_stored b st).
Qed.

(* only underscore-prefixed properties are ever consumed or refused *)
Theorem consumed_is_underscore : forall p m, (consumed p m || must_not_set p m) = true -> exists r, mkey m = c_underscore :: r.
Proof.
  intros p m H.
  assert (Hl : forall l, (forall x, In x l -> exists r, x = c_underscore :: r) -> mem (mkey m) l = true -> exists r, mkey m = c_underscore :: r).
  { intros l Hall Hm. apply mem_In in Hm. now apply Hall. }
  assert (He : forall x, (exists r, x = c_underscore :: r) -> bytes_eqb (mkey m) x = true -> exists r, mkey m = c_underscore :: r).
  { intros x Hx Hb. apply bytes_eqb_eq in Hb. now rewrite Hb. }
  assert (Hall : forall x, In x [k_id; k_rev; k_cv; k_attachments; k_revisions; k_deleted; k_exp; k_sync; k_removed; k_purged] ->
            exists r, x = c_underscore :: r).
  { intros x Hx. cbn [In] in Hx. repeat (destruct Hx as [<-|Hx]; [eexists; reflexivity|]). contradiction. }
  assert (Hna : never_allowed m = true -> exists r, mkey m = c_underscore :: r).
  { unfold never_allowed. intros Hn. apply orb_true_iff in Hn as [Hn|Hn]; [apply orb_true_iff in Hn as [Hn|Hn]|].
    - apply andb_true_iff in Hn as [Hn _]. apply (He k_removed); [apply Hall; cbn; tauto|exact Hn].
    - apply (He k_purged); [apply Hall; cbn; tauto|exact Hn].
    - now apply has_prefix_sync_underscore. }
  apply orb_true_iff in H as [H|H].
  - destruct p; unfold consumed in H.
    1,2: apply orb_true_iff in H as [H|H];
      [eapply Hl; [|exact H]; intros x Hx; apply Hall; cbn [In] in *; tauto
      |apply andb_true_iff in H as [H _]; apply (He k_exp); [apply Hall; cbn; tauto|exact H]].
    + apply orb_true_iff in H as [H|H]; apply andb_true_iff in H as [H _].
      * apply (He k_exp); [apply Hall; cbn; tauto|exact H].
      * apply (He k_attachments); [apply Hall; cbn; tauto|exact H].
    + discriminate.
  - unfold must_not_set in H. apply orb_true_iff in H as [H|H]; [now apply Hna|].
    destruct p.
    1,2: apply (He k_sync); [apply Hall; cbn; tauto|exact H].
    + eapply Hl; [|exact H]. intros x Hx. apply Hall. unfold blip_disallowed in Hx. cbn [In] in *. tauto.
    + apply orb_true_iff in H as [H|H].
      * eapply Hl; [|exact H]. intros x Hx. apply Hall. unfold import_disallowed in Hx. cbn [In] in *. tauto.
      * apply (He k_sync); [apply Hall; cbn; tauto|exact H].
Qed.
