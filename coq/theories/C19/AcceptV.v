(* C19 -- the entry points with the VALUES carried along.

   Accept.v decides acceptance from the kinds of the values only (that is all the code inspects).  Here a member
   carries its value text [v : V]; [kd v] is its kind.  The stored document is then
     verbatim   the request text as received: every member, shadowed duplicates included, values untouched;
     otherwise  json.Marshal of the decoded map minus the consumed members: each surviving value re-encoded
                ([canon]: escapes and whitespace normalised, number literals kept -- json.Number). *)
From SG Require Import Base.Prelude Base.Bytes C19.Json C19.Reserved C19.Accept C19.ReadPath.
Open Scope N_scope.

Section Values.
  Variable V : Type.
  Variable kd : V -> vk.
  Variable canon : V -> V.

  Definition vmember := (bytes * V * bool)%type.
  Definition vkey (m : vmember) : bytes := fst (fst m).
  Definition vval (m : vmember) : V := snd (fst m).
  Definition kmember (m : vmember) : member := (vkey m, kd (vval m), snd m).

  Inductive vtop :=
  | VInvalid
  | VNonObj
  | VNull
  | VObj (raw : list vmember) (trailing : bool).

  Definition ktop (t : vtop) : top :=
    match t with
    | VInvalid => TInvalid
    | VNonObj => TNonObj
    | VNull => TNull
    | VObj raw tr => TObj (map kmember raw) tr
    end.

  Inductive vresult :=
  | VRej (status : N)
  | VPanic
  | VStored (d : sdoc V) (verbatim : bool)
  | VTombstone.

  Definition accept_v (e : entry) (t : vtop) : vresult :=
    match accept e (ktop t), t with
    | RRej s, _ => VRej s
    | RPanic, _ => VPanic
    | RTombstone, _ => VTombstone
    | RStored ks true, VObj raw tr =>
        VStored {| sd_ms := map (fun m => (vkey m, vval m)) raw; sd_trailing := tr |} true
    | RStored ks false, VObj raw tr =>
        VStored {| sd_ms := map (fun m => (vkey m, canon (vval m)))
                                (filter (fun m => mem (vkey m) (map fst ks)) (dedupe_k vkey raw));
                   sd_trailing := false |} false
    | RStored _ _, _ => VRej 0      (* unreachable: only an object is ever stored (accept_stored_obj) *)
    end.
End Values.

Arguments vkey {V}.
Arguments vval {V}.
Arguments VInvalid {V}.
Arguments VNonObj {V}.
Arguments VNull {V}.
Arguments VObj {V}.
Arguments VRej {V}.
Arguments VPanic {V}.
Arguments VStored {V}.
Arguments VTombstone {V}.
