(* C19 -- JSON text as a grammar over bytes.

   A document body is a byte string.  [Render v b] says that the text [b] is a rendering of the JSON
   value [v]: the RFC 8259 grammar with arbitrary insignificant whitespace between tokens.  Numbers and
   strings are OPAQUE LITERALS: a number value is the byte string of its literal, a string value the bytes
   between the quotes (escapes undecoded); which byte strings are well-formed literals is decided by two
   parameters [num_ok], [str_ok] about which nothing is assumed.  "The same JSON value" therefore means
   the same literals (2^53+1, 1e400, -0, escaped code points are preserved by construction whenever the bytes
   are spliced rather than re-encoded, which is the point of the byte-level path this property covers). *)
From SG Require Import Base.Prelude.
Open Scope N_scope.

Notation bytes := (list N) (only parsing).

Definition c_lbrace : N := 123.
Definition c_rbrace : N := 125.
Definition c_lbrack : N := 91.
Definition c_rbrack : N := 93.
Definition c_comma : N := 44.
Definition c_colon : N := 58.
Definition c_quote : N := 34.

(* JSON insignificant whitespace: space, tab, line feed, carriage return *)
Definition is_ws (c : N) : bool := (c =? 32) || (c =? 9) || (c =? 10) || (c =? 13).
Definition all_ws (l : bytes) : bool := forallb is_ws l.

Inductive json :=
| JNull
| JBool (b : bool)
| JNum (lit : bytes)
| JStr (lit : bytes)
| JArr (l : list json)
| JObj (ms : list (bytes * json)).

Definition t_null : bytes := [110; 117; 108; 108].
Definition t_true : bytes := [116; 114; 117; 101].
Definition t_false : bytes := [102; 97; 108; 115; 101].

Section Grammar.
  Variable str_ok : bytes -> bool.   (* well-formed string contents (between the quotes) *)
  Variable num_ok : bytes -> bool.   (* well-formed number literals *)

  (* [RV v t]: t renders v, no whitespace outside the outermost token *)
  Inductive RV : json -> bytes -> Prop :=
  | RNull : RV JNull t_null
  | RTrue : RV (JBool true) t_true
  | RFalse : RV (JBool false) t_false
  | RNum lit : num_ok lit = true -> RV (JNum lit) lit
  | RStr s : str_ok s = true -> RV (JStr s) (c_quote :: s ++ [c_quote])
  | RArrE w : all_ws w = true -> RV (JArr []) (c_lbrack :: w ++ [c_rbrack])
  | RArr v vs t : RElems (v :: vs) t -> RV (JArr (v :: vs)) (c_lbrack :: t ++ [c_rbrack])
  | RObjE w : all_ws w = true -> RV (JObj []) (c_lbrace :: w ++ [c_rbrace])
  | RObj m ms t : RMembers (m :: ms) t -> RV (JObj (m :: ms)) (c_lbrace :: t ++ [c_rbrace])
  (* a value with whitespace around it *)
  with RW : json -> bytes -> Prop :=
  | RWs v w1 t w2 : all_ws w1 = true -> RV v t -> all_ws w2 = true -> RW v (w1 ++ t ++ w2)
  (* comma-separated, non-empty *)
  with RElems : list json -> bytes -> Prop :=
  | RE1 v t : RW v t -> RElems [v] t
  | REcons v t vs ts : RW v t -> RElems vs ts -> RElems (v :: vs) (t ++ c_comma :: ts)
  (* one member: ws "key" ws : ws value ws *)
  with RMember : bytes * json -> bytes -> Prop :=
  | RMem k v w1 w2 t : all_ws w1 = true -> str_ok k = true -> all_ws w2 = true -> RW v t ->
      RMember (k, v) (w1 ++ c_quote :: k ++ c_quote :: w2 ++ c_colon :: t)
  with RMembers : list (bytes * json) -> bytes -> Prop :=
  | RM1 m t : RMember m t -> RMembers [m] t
  | RMcons m t ms ts : RMember m t -> RMembers ms ts -> RMembers (m :: ms) (t ++ c_comma :: ts).

  (* a JSON text: one value with optional whitespace around it *)
  Definition Render (v : json) (b : bytes) : Prop := RW v b.
End Grammar.

Arguments RNull {str_ok num_ok}.
Arguments RTrue {str_ok num_ok}.
Arguments RFalse {str_ok num_ok}.
