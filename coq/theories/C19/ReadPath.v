(* C19 -- every read exit as ONE function  read : exit -> meta -> sdoc -> option output.

   A stored document is the text of its body -- members in text order (duplicate keys are possible when an entry
   point kept the received bytes), and whether bytes follow the closing brace -- plus the metadata the gateway
   keeps beside it.  A read exit adds reserved properties in one of two ways:
     map mutation   (db/revision_cache_interface.go Mutable1xBody; blip_sync_context.go sendRevision in CE):
                    the body is decoded (last duplicate wins; bytes after the object are never read), the
                    properties are ASSIGNED -- an equally named stored member is silently replaced -- and the
                    map is marshalled again (values re-encoded: [canon]);
     byte splice    (base.InjectJSONProperties: Inject1xBodyProperties / As1xBytes for _changes?include_docs,
                    get1xRevFromDoc for _all_docs?include_docs, sendRevision in EE): the stored bytes minus the
                    closing brace, then the properties -- an equally named stored member is kept and the
                    response has the name TWICE; a stored text with bytes after the object gives no usable
                    document (error, or a response that is not JSON).
   Exits (transcribed from rest/doc_api.go handleGetDoc, rest/bulk_api.go handleBulkGet / handleAllDocs,
   db/changes.go AddDocToChangeEntryUsingRevCache, db/crud.go get1xRevFromDoc, db/blip_sync_context.go):
     XGet revs show_exp   GET /ks/doc[?rev=][&revs=true][&show_exp=true]      Mutable1xBody, showCV = true
     XBulkGet             POST /ks/_bulk_get                                    the same call, attachments = false
     XOpenRevs            GET /ks/doc?open_revs=..                              the same, attachmentsSince = [] (non-nil)
     XChanges             _changes?include_docs=true                            As1xBytes(nil, nil, false)
     XAllDocs revs        _all_docs?include_docs=true[&revs=true]               get1xRevFromDoc
     XBlipCE / XBlipEE    rev message of a pull replication                     map / splice, _attachments only *)
From SG Require Import Base.Prelude Base.Bytes C19.Json C19.Reserved C19.Accept.
Open Scope N_scope.

Inductive exit :=
| XGet (revs show_exp : bool)
| XBulkGet
| XOpenRevs
| XChanges
| XAllDocs (revs : bool)
| XBlipCE
| XBlipEE.

(* rev.Attachments: nil, an empty non-nil map, a map with entries *)
Inductive att_meta := ANil | AEmpty | ASome.

Record meta := { m_cv : bool; m_deleted : bool; m_exp : bool; m_atts : att_meta }.

Definition splices (x : exit) : bool :=
  match x with XChanges | XAllDocs _ | XBlipEE => true | _ => false end.

Definition opt (c : bool) (k : bytes) : list bytes := if c then [k] else [].
Definition att_nonnil (a : att_meta) : bool := match a with ANil => false | _ => true end.
Definition att_some (a : att_meta) : bool := match a with ASome => true | _ => false end.

(* the reserved properties an exit adds, in the order the code adds them *)
Definition injected (x : exit) (mt : meta) : list bytes :=
  match x with
  | XGet revs show_exp =>
      [k_id; k_rev] ++ opt revs k_revisions ++ opt (show_exp && m_exp mt) k_exp ++ opt (m_cv mt) k_cv
      ++ opt (m_deleted mt) k_deleted ++ opt (att_nonnil (m_atts mt)) k_attachments
  | XBulkGet =>
      [k_id; k_rev] ++ opt (m_cv mt) k_cv ++ opt (m_deleted mt) k_deleted ++ opt (att_nonnil (m_atts mt)) k_attachments
  | XOpenRevs =>
      [k_id; k_rev] ++ opt (m_cv mt) k_cv ++ opt (m_deleted mt) k_deleted ++ opt (att_some (m_atts mt)) k_attachments
  | XChanges =>
      [k_id; k_rev] ++ opt (m_cv mt) k_cv ++ opt (m_deleted mt) k_deleted ++ opt (att_nonnil (m_atts mt)) k_attachments
  | XAllDocs revs =>
      [k_id; k_rev] ++ opt (att_some (m_atts mt)) k_attachments ++ opt (m_deleted mt) k_deleted ++ opt revs k_revisions
  | XBlipCE | XBlipEE => opt (att_some (m_atts mt)) k_attachments
  end.

Section Values.
  Variable V : Type.
  (* what json.Marshal(json decode v) does to a value text: escapes and whitespace are normalised, number
     literals are kept (json.Number) *)
  Variable canon : V -> V.

  Record sdoc := { sd_ms : list (bytes * V); sd_trailing : bool }.

  (* a member of a response: a stored value (possibly re-encoded), or a value the gateway supplied *)
  Inductive ov := OU (v : V) | OG.

  (* how an exit renders a stored value *)
  Definition cn (x : exit) (v : V) : V := if splices x then v else canon v.

  Definition read (x : exit) (mt : meta) (d : sdoc) : option (list (bytes * ov)) :=
    let inj := injected x mt in
    if splices x then
      if sd_trailing d then None
      else Some (map (fun m => (fst m, OU (snd m))) (sd_ms d) ++ map (fun k => (k, OG)) inj)
    else
      Some (map (fun m => (fst m, OU (canon (snd m))))
                (filter (fun m => negb (mem (fst m) inj)) (dedupe_k fst (sd_ms d)))
            ++ map (fun k => (k, OG)) inj).

  (* what a client's decoder makes of a response: the last member of a name wins *)
  Definition parsed (out : list (bytes * ov)) : list (bytes * ov) := dedupe_k fst out.
End Values.

Arguments sd_ms {V}.
Arguments sd_trailing {V}.
Arguments OU {V}.
Arguments OG {V}.
Arguments read {V}.
Arguments parsed {V}.
Arguments cn {V}.
