(* C19 correspondence: cases observed on the real code by harness/rest/verif_c19_test.go are re-evaluated
   here on the model with vm_compute.
     CInject  base.InjectJSONPropertiesFromBytes(b, kvs...)          -> Some result | None (error)
     CStrip   db.StripInternalProperties on a body with these keys   -> remaining keys (sorted), "found" flag
     CWrite   one write path, end to end, on a body with these members -> refused(status) | stored members | tombstone
     CAccept  one entry point of Accept.v on a request text of this shape (duplicate keys, bytes after the object,
              non-objects, null) -> refused(status) | panic | stored members + "the stored bytes are the request text" | tombstone
     CRead    one read exit of ReadPath.v on a stored text with these keys (in text order) -> the members of the
              response in order, each either the value of the i-th stored member or a value the gateway supplied *)
From SG Require Export Base.Prelude Base.Bytes C19.Json C19.JsonSplice C19.Reserved C19.Accept C19.ReadPath.
Open Scope N_scope.

Inductive case :=
| CInject (b : list N) (kvs : list (list N * list N)) (out : option (list N))
| CStrip (keys kept : list (list N)) (found : bool)
| CWrite (p : wpath) (body : list (list N * vk * bool)) (o : outcome)
| CAccept (e : entry) (t : top) (r : result)
| CRead (x : exit) (mt : meta) (stored : list (list N)) (trailing : bool) (out : option (list (list N * option N))).

Definition pair_eqb (a b : list N * vk) : bool := bytes_eqb (fst a) (fst b) && vk_eqb (snd a) (snd b).

(* equality of member lists up to order (keys are distinct on both sides) *)
Definition same_members (a b : list (list N * vk)) : bool :=
  (length a =? length b)%nat && forallb (fun x => existsb (pair_eqb x) b) a && forallb (fun x => existsb (pair_eqb x) a) b.

Definition outcome_eqb (a b : outcome) : bool :=
  match a, b with
  | ORej s, ORej s' => s =? s'
  | OStored x, OStored y => same_members x y
  | ODeleted, ODeleted => true
  | _, _ => false
  end.

(* the import feed has no status to observe: a refusal is "not imported" *)
Definition result_eqb (e : entry) (a b : result) : bool :=
  match a, b with
  | RRej s, RRej s' => match e with EImportFeed => true | _ => s =? s' end
  | RPanic, RPanic => true
  | RStored x vx, RStored y vy => same_members x y && Bool.eqb vx vy
  | RTombstone, RTombstone => true
  | _, _ => false
  end.

Fixpoint number_from {A} (i : N) (l : list A) : list (A * N) :=
  match l with [] => [] | a :: r => (a, i) :: number_from (N.succ i) r end.

Definition ov_obs (m : list N * ov N) : list N * option N :=
  (fst m, match snd m with OU i => Some i | OG => None end).

Definition obs_eqb (a b : list N * option N) : bool := bytes_eqb (fst a) (fst b) && option_eqb N.eqb (snd a) (snd b).

Definition same_obs (a b : list (list N * option N)) : bool :=
  (length a =? length b)%nat && forallb (fun x => existsb (obs_eqb x) b) a && forallb (fun x => existsb (obs_eqb x) a) b.

(* a splice exit is compared member by member in order; a map exit re-marshals with sorted keys: as a set *)
Definition read_eqb (x : exit) (a b : option (list (list N * option N))) : bool :=
  match a, b with
  | None, None => true
  | Some u, Some v => if splices x then list_eqb obs_eqb u v else same_obs u v
  | _, _ => false
  end.

Definition check (c : case) : bool :=
  match c with
  | CInject b kvs out => option_eqb bytes_eqb (inject b kvs) out
  | CStrip keys kept found =>
      let body := map (fun k => (k, tt)) keys in
      list_eqb bytes_eqb (map fst (strip true body)) kept && Bool.eqb (strip_found true body) found
  | CWrite p body o => outcome_eqb (write p body) o
  | CAccept e t r => result_eqb e (accept e t) r
  | CRead x mt stored trailing out =>
      read_eqb x (option_map (map ov_obs)
                    (read (fun i : N => i) x mt {| sd_ms := number_from 0 stored; sd_trailing := trailing |})) out
  end.

Definition mismatches (cs : list case) : list N := failing check cs.
