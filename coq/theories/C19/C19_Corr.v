(* C19 correspondence: cases observed on the real code by harness/rest/verif_c19_test.go are re-evaluated
   here on the model with vm_compute.
     CInject  base.InjectJSONPropertiesFromBytes(b, kvs...)          -> Some result | None (error)
     CStrip   db.StripInternalProperties on a body with these keys   -> remaining keys (sorted), "found" flag
     CWrite   one write path, end to end, on a body with these members -> refused(status) | stored members | tombstone *)
From SG Require Export Base.Prelude Base.Bytes C19.Json C19.JsonSplice C19.Reserved.
Open Scope N_scope.

Inductive case :=
| CInject (b : list N) (kvs : list (list N * list N)) (out : option (list N))
| CStrip (keys kept : list (list N)) (found : bool)
| CWrite (p : wpath) (body : list (list N * vk * bool)) (o : outcome).

Definition pair_eqb (a b : list N * vk) : bool := bytes_eqb (fst a) (fst b) && vk_eqb (snd a) (snd b).

(* equality of member lists up to order (keys are distinct on both sides) *)
Definition same_members (a b : list (list N * vk)) : bool :=
  (length a =? length b)%nat && forallb (fun x => existsb (pair_eqb x) b) a && forallb (fun x => existsb (pair_eqb x) a) b.

Definition outcome_eqb (a b : outcome) : bool :=
  match a, b with
  | ORej s, ORej s' => s =? s'
  | OStored x, OStored y => same_members x y
  | ODeleted, ODeleted => true
  | _, _ => false
  end.

Definition check (c : case) : bool :=
  match c with
  | CInject b kvs out => option_eqb bytes_eqb (inject b kvs) out
  | CStrip keys kept found =>
      let body := map (fun k => (k, tt)) keys in
      list_eqb bytes_eqb (map fst (strip true body)) kept && Bool.eqb (strip_found true body) found
  | CWrite p body o => outcome_eqb (write p body) o
  end.

Definition mismatches (cs : list case) : list N := failing check cs.
