(* C19 -- concrete witnesses used by the non-vacuity example *)
From SG Require Import Base.Prelude C19.Json C19.JsonSplice C19.Reserved C19.SpliceProofs C19.Accept C19.ReadPath C19.AcceptV.
Open Scope N_scope.

Lemma nonvacuous_witness :
  let ok := fun _ : list N => true in
  Render ok ok (JObj [([97], JNum [49])]) [32; 123; 34; 97; 34; 58; 49; 125; 10] /\
  Render ok ok (JObj []) [123; 32; 10; 125] /\
  kv_ok ok ok (k_id, [34; 120; 34]) (JStr [120]) /\
  inject [123; 32; 10; 125] [(k_id, [34; 120; 34])] = Some [123; 32; 10; 34; 95; 105; 100; 34; 58; 34; 120; 34; 125] /\
  must_not_set PBlip (k_id, KStr, true) = true /\
  write PPut [([97], KNum, false); (k_exp, KNum, false); (k_removed, KNull, false)] = OStored [([97], KNum); (k_removed, KNull)].
Proof.
  intros ok. repeat split.
  - change [32; 123; 34; 97; 34; 58; 49; 125; 10] with ([32] ++ (c_lbrace :: ([] ++ c_quote :: [97] ++ c_quote :: [] ++ c_colon :: ([] ++ [49] ++ [])) ++ [c_rbrace]) ++ [10]).
    constructor; try reflexivity. constructor. constructor. constructor; try reflexivity.
    constructor; try reflexivity. now constructor.
  - change [123; 32; 10; 125] with ([] ++ (c_lbrace :: [32; 10] ++ [c_rbrace]) ++ []).
    constructor; try reflexivity. now constructor.
  - cbn [snd]. change [34; 120; 34] with ([] ++ (c_quote :: [120] ++ [c_quote]) ++ []).
    constructor; try reflexivity. now constructor.
Qed.

Lemma nonvacuous_roundtrip_witness :
  let idv := fun v : vk => v in
  let raw := [([97], KNum, false); ([95; 118; 118], KObj, false); ([97], KStr, false); (k_exp, KNum, false)] in
  let mt := {| m_cv := true; m_deleted := false; m_exp := true; m_atts := ANil |} in
  accept_v vk idv idv EPut (VObj raw true) =
    VStored {| sd_ms := [([95; 118; 118], KObj); ([97], KStr)]; sd_trailing := false |} false /\
  accept_v vk idv idv EImport (VObj [([97], KNum, false); ([97], KStr, false)] false) =
    VStored {| sd_ms := [([97], KNum); ([97], KStr)]; sd_trailing := false |} true /\
  read idv XChanges mt {| sd_ms := [([95; 118; 118], KObj); ([97], KStr)]; sd_trailing := false |} =
    Some [([95; 118; 118], OU KObj); ([97], OU KStr); (k_id, OG); (k_rev, OG); (k_cv, OG)] /\
  read idv (XGet true true) mt {| sd_ms := [([97], KNum); ([97], KStr)]; sd_trailing := false |} =
    Some [([97], OU KStr); (k_id, OG); (k_rev, OG); (k_revisions, OG); (k_exp, OG); (k_cv, OG)] /\
  leak EPutNE k_exp KNull = true /\ leak EImport k_attachments KObj = true /\ leak EImport k_deleted KTrue = true /\
  leak EPut k_exp KNull = true /\ leak EBlip k_attachments KNull = true /\
  accept EPutNE (TObj [(k_exp, KNull, false)] false) = RStored [(k_exp, KNull)] false /\
  accept EBlip (TObj [(k_attachments, KNull, false)] false) = RStored [(k_attachments, KNull)] true /\
  accept EImport (TObj [(k_deleted, KTrue, false); (k_attachments, KObj, false)] false) =
    RStored [(k_deleted, KTrue); (k_attachments, KObj)] true.
Proof. intros idv raw mt. repeat split; vm_compute; reflexivity. Qed.
