(* C19 -- concrete witnesses used by the non-vacuity example *)
From SG Require Import Base.Prelude C19.Json C19.JsonSplice C19.Reserved C19.SpliceProofs.
Open Scope N_scope.

Lemma nonvacuous_witness :
  let ok := fun _ : list N => true in
  Render ok ok (JObj [([97], JNum [49])]) [32; 123; 34; 97; 34; 58; 49; 125; 10] /\
  Render ok ok (JObj []) [123; 32; 10; 125] /\
  kv_ok ok ok (k_id, [34; 120; 34]) (JStr [120]) /\
  inject [123; 32; 10; 125] [(k_id, [34; 120; 34])] = Some [123; 32; 10; 34; 95; 105; 100; 34; 58; 34; 120; 34; 125] /\
  must_not_set PBlip (k_id, KStr, true) = true /\
  write PPut [([97], KNum, false); (k_exp, KNum, false); (k_removed, KNull, false)] = OStored [([97], KNum); (k_removed, KNull)].
Proof.
  intros ok. repeat split.
  - change [32; 123; 34; 97; 34; 58; 49; 125; 10] with ([32] ++ (c_lbrace :: ([] ++ c_quote :: [97] ++ c_quote :: [] ++ c_colon :: ([] ++ [49] ++ [])) ++ [c_rbrace]) ++ [10]).
    constructor; try reflexivity. constructor. constructor. constructor; try reflexivity.
    constructor; try reflexivity. now constructor.
  - change [123; 32; 10; 125] with ([] ++ (c_lbrace :: [32; 10] ++ [c_rbrace]) ++ []).
    constructor; try reflexivity. now constructor.
  - cbn [snd]. change [34; 120; 34] with ([] ++ (c_quote :: [120] ++ [c_quote]) ++ []).
    constructor; try reflexivity. now constructor.
Qed.
