(* C19 -- the byte-level splice of base/util.go:
     InjectJSONPropertiesFromBytes / InjectJSONProperties (after the values have been marshalled),
     isJSONObject, injectJSONPropertyFromBytes, and bytes.TrimSpace.
   The model follows the Go code statement by statement, including the pre-sized output buffer and the
   sequence of copy() calls; SpliceProofs.v shows that this equals the obvious list expression.

   [code_fixed] selects the behaviour of isJSONObject:
     false  the tree as found: the object is "empty" iff the trimmed text has length 2;
     true   the repaired tree: "empty" iff only JSON whitespace lies between the braces. *)
From SG Require Import Base.Prelude C19.Json.
Open Scope N_scope.

(* ---------- bytes.TrimSpace ----------
   Go trims the runes for which unicode.IsSpace holds: the ASCII set \t \n \v \f \r space and, in UTF-8,
   U+0085, U+00A0, U+1680, U+2000..U+200A, U+2028, U+2029, U+202F, U+205F, U+3000.  An invalid or
   truncated encoding decodes to RuneError, which is not a space, so trimming stops there. *)
Definition is_ascii_space (c : N) : bool :=
  (c =? 9) || (c =? 10) || (c =? 11) || (c =? 12) || (c =? 13) || (c =? 32).

(* number of bytes of the white-space rune encoded at the head of the list; 0 if none *)
Definition space_prefix (l : bytes) : nat :=
  match l with
  | [] => 0%nat
  | c :: r =>
      if is_ascii_space c then 1%nat
      else match r with
      | [] => 0%nat
      | d :: r2 =>
          if (c =? 194) && ((d =? 133) || (d =? 160)) then 2%nat
          else match r2 with
          | [] => 0%nat
          | e :: _ =>
              if (c =? 225) && (d =? 154) && (e =? 128) then 3%nat
              else if (c =? 226) && (d =? 128) &&
                      (((128 <=? e) && (e <=? 138)) || (e =? 168) || (e =? 169) || (e =? 175)) then 3%nat
              else if (c =? 226) && (d =? 129) && (e =? 159) then 3%nat
              else if (c =? 227) && (d =? 128) && (e =? 128) then 3%nat
              else 0%nat
          end
      end
  end.

(* the same, for the rune encoded at the END of a list given in reverse order *)
Definition space_suffix_rev (l : bytes) : nat :=
  match l with
  | [] => 0%nat
  | e :: r =>
      if is_ascii_space e then 1%nat
      else match r with
      | [] => 0%nat
      | d :: r2 =>
          if (d =? 194) && ((e =? 133) || (e =? 160)) then 2%nat
          else match r2 with
          | [] => 0%nat
          | c :: _ =>
              if (c =? 225) && (d =? 154) && (e =? 128) then 3%nat
              else if (c =? 226) && (d =? 128) &&
                      (((128 <=? e) && (e <=? 138)) || (e =? 168) || (e =? 169) || (e =? 175)) then 3%nat
              else if (c =? 226) && (d =? 129) && (e =? 159) then 3%nat
              else if (c =? 227) && (d =? 128) && (e =? 128) then 3%nat
              else 0%nat
          end
      end
  end.

Fixpoint trim_with (pre : bytes -> nat) (fuel : nat) (l : bytes) : bytes :=
  match fuel with
  | O => l
  | S f => match pre l with
           | O => l
           | n => trim_with pre f (skipn n l)
           end
  end.

Definition trim_left (l : bytes) : bytes := trim_with space_prefix (length l) l.
Definition trim_right (l : bytes) : bytes := rev (trim_with space_suffix_rev (length l) (rev l)).
Definition trim_space (l : bytes) : bytes := trim_right (trim_left l).

(* ---------- isJSONObject ---------- *)
Definition middle (b : bytes) : bytes := removelast (tl b).

Definition is_json_object (fixed : bool) (b : bytes) : bool * bool :=
  if (length b <? 2)%nat || negb (hd 0 b =? c_lbrace) || negb (last b 0 =? c_rbrace) then (false, false)
  else (true, if fixed then all_ws (middle b) else (length b =? 2)%nat).

(* ---------- injectJSONPropertyFromBytes ---------- *)
Notation kvpair := (list N * list N)%type (only parsing).   (* key (raw, unescaped by the code), marshalled value *)

(* Go's  n := copy(buf[off:], src); off += n  on a buffer of fixed length *)
Definition copy_into (st : bytes * nat) (src : bytes) : bytes * nat :=
  let (buf, off) := st in
  let n := Nat.min (length src) (length buf - off) in
  (firstn off buf ++ firstn n src ++ skipn (off + n) buf, (off + n)%nat).

Definition key_chunk (k : bytes) : bytes := c_quote :: k ++ [c_quote; c_colon].   (* `"`+kv.Key+`":` *)

(* the copy() calls of the loop, in order; [i > 0 || !bIsEmpty] decides the comma *)
Fixpoint kv_chunks (first : bool) (is_empty : bool) (kvs : list kvpair) : list bytes :=
  match kvs with
  | [] => []
  | (k, v) :: r =>
      (if negb first || negb is_empty then [[c_comma]] else []) ++ [key_chunk k; v] ++ kv_chunks false is_empty r
  end.

Definition chunks (b : bytes) (is_empty : bool) (kvs : list kvpair) : list bytes :=
  [removelast b] ++ kv_chunks true is_empty kvs ++ [[c_rbrace]].

Definition new_length (b : bytes) (is_empty : bool) (kvs : list kvpair) : nat :=
  (fold_left (fun n kv => n + (length (fst kv) + length (snd kv) + 4)) kvs (length b) - (if is_empty then 1 else 0))%nat.

Definition inject_buf (b : bytes) (is_empty : bool) (kvs : list kvpair) : bytes :=
  fst (fold_left copy_into (chunks b is_empty kvs) (repeat 0 (new_length b is_empty kvs), 0%nat)).

(* ---------- InjectJSONPropertiesFromBytes ---------- *)
Definition inject_gen (fixed : bool) (b : bytes) (kvs : list kvpair) : option bytes :=
  match kvs with
  | [] => Some b                                   (* no-op: b is returned as it is, untrimmed *)
  | _ =>
      let t := trim_space b in
      let (is_obj, is_empty) := is_json_object fixed t in
      if is_obj then Some (inject_buf t is_empty kvs) else None     (* "b is not a JSON object" *)
  end.

(* The tree this development is checked against has the repaired isJSONObject. *)
Definition code_fixed : bool := true.

Definition inject : bytes -> list kvpair -> option bytes := inject_gen code_fixed.
Definition inject_unrepaired : bytes -> list kvpair -> option bytes := inject_gen false.

(* ---------- the specification the buffer code is shown to implement ---------- *)
Definition member_text (kv : kvpair) : bytes := key_chunk (fst kv) ++ snd kv.

Fixpoint members_text (no_comma : bool) (kvs : list kvpair) : bytes :=
  match kvs with
  | [] => []
  | kv :: r => (if no_comma then [] else [c_comma]) ++ member_text kv ++ members_text false r
  end.

Definition inject_spec (b : bytes) (is_empty : bool) (kvs : list kvpair) : bytes :=
  removelast b ++ members_text is_empty kvs ++ [c_rbrace].
